#!/bin/sh
# Build the framework from files on disk only (offline).
set -e
cd "$(dirname "$0")"
export GOFLAGS=-mod=mod GOPROXY=off GOSUMDB=off GOTOOLCHAIN=local
(cd lean && lake build PromqlVerif driver)
(cd harness && cp /repo/go.sum . && go build -tags verif -o harness .)
