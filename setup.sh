#!/bin/sh
# Build the framework from files on disk only (offline): facts -> Lean (model, driver, all
# property theorem modules) -> Go harness (normal and race build).
set -e
cd "$(dirname "$0")"
export GOFLAGS=-mod=mod GOPROXY=off GOSUMDB=off GOTOOLCHAIN=local
(cd extract && go run . -repo /repo -out ../lean/PromqlVerif/Gen)
(cd lean && lake build PromqlVerif driver \
  PromqlVerif.Properties.C01 PromqlVerif.Properties.C02 PromqlVerif.Properties.C03 PromqlVerif.Properties.C04 \
  PromqlVerif.Properties.C05 PromqlVerif.Properties.C06 PromqlVerif.Properties.C07 PromqlVerif.Properties.C08 \
  PromqlVerif.Properties.C09 PromqlVerif.Properties.C10 PromqlVerif.Properties.C11 PromqlVerif.Properties.C12 \
  PromqlVerif.Properties.C13 PromqlVerif.Properties.C14 PromqlVerif.Properties.C15 PromqlVerif.Properties.C16 \
  PromqlVerif.Properties.C17 PromqlVerif.Properties.C18 PromqlVerif.Properties.C19 PromqlVerif.Properties.C20)
(cd harness && cp /repo/go.sum . && go build -tags verif -o harness . && CGO_ENABLED=1 go build -race -tags verif -o harness-race . || true)
mkdir -p build evidence replays
