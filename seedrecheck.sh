#!/bin/bash
# Re-run the quick check of every kept seeded change against /repo with the change applied, and say
# which are (still) detected. Applies each patch to /repo's working tree and undoes it straight
# afterwards; nothing is committed there. Usage: seedrecheck.sh [<seed dir name> ...]
cd /verif
out=${SEEDRECHECK_OUT:-/verif/build/seedrecheck.txt}
mkdir -p "$(dirname "$out")"
[ -n "$SEEDRECHECK_APPEND" ] || : > "$out"
seeds=("$@")
if [ ${#seeds[@]} -eq 0 ]; then seeds=($(ls seeded)); fi
for s in "${seeds[@]}"; do
  d=seeded/$s
  [ -f "$d/patch.diff" ] || continue
  p=$(python3 -c "import json;print(json.load(open('$d/meta.json'))['property'])")
  if [ -n "$(git -C /repo status --porcelain)" ]; then echo "ABORT: /repo not clean" | tee -a "$out"; exit 2; fi
  if ! git -C /repo apply "$PWD/$d/patch.diff" 2>/dev/null && ! git -C /repo apply -3 "$PWD/$d/patch.diff" 2>/dev/null; then
    echo "$s $p APPLY-FAILED" | tee -a "$out"; git -C /repo reset -q --hard HEAD; continue
  fi
  python3 check.py "$p" --tier quick > build/seedrecheck_$s.log 2>&1
  rc=$?
  nv=$(grep -c '^VIOLATION' build/seedrecheck_$s.log)
  nn=$(grep -c 'no-failing-input-found' build/seedrecheck_$s.log)
  git -C /repo reset -q --hard HEAD; git -C /repo clean -fdq -- . 2>/dev/null
  if [ $rc -ne 0 ] && [ "$nv" -gt 0 ]; then r=DETECTED; else r=MISSED; fi
  echo "$s $p $r exit=$rc violations=$nv nofail=$nn" | tee -a "$out"
done
echo ALLDONE | tee -a "$out"
