/-
Pure kernels shared by the reference semantics and the engine model: range-function kernels,
aggregation reducers, quantiles, the bounded heap of topk/bottomk.
Written after `promql/functions.go`, `promql/quantile.go`, `promql/engine.go` (v0.40.1) and
`execution/function/functions.go`, `execution/aggregate/*.go` of the engine.
-/
import PromqlVerif.Val
namespace PromqlVerif
open Val

variable {V : Type} [Val V]

abbrev Pt (V : Type) := Int × V

/-- Neumaier variant of Kahan summation, one increment -/
def kahanInc (inc sum c : V) : V × V :=
  let t := add sum inc
  if ge (abs sum) (abs inc) then (t, add c (add (sub sum t) inc))
  else (t, add c (add (sub inc t) sum))

def sumOverTime (pts : List (Pt V)) : V :=
  let (s, c) := pts.foldl (fun (acc : V × V) p => kahanInc p.2 acc.1 acc.2) (zero, zero)
  if isInf s then s else add s c

def avgOverTime (pts : List (Pt V)) : V :=
  let step := fun (acc : V × V × V) (p : Pt V) =>
    let (mean, count, c) := acc
    let count := add count one
    if isInf mean && (isInf p.2 && (gt mean zero == gt p.2 zero)) then (mean, count, c)
    else if isInf mean && (!isInf p.2 && !isNaN p.2) then (mean, count, c)
    else
      let (m, c) := kahanInc (sub (div p.2 count) (div mean count)) mean c
      (m, count, c)
  let (mean, _, c) := pts.foldl step (zero, zero, zero)
  if isInf mean then mean else add mean c

def maxOverTime (pts : List (Pt V)) : Option V :=
  match pts with
  | [] => none
  | p :: _ => some (pts.foldl (fun m q => if gt q.2 m || isNaN m then q.2 else m) p.2)

def minOverTime (pts : List (Pt V)) : Option V :=
  match pts with
  | [] => none
  | p :: _ => some (pts.foldl (fun m q => if lt q.2 m || isNaN m then q.2 else m) p.2)

/-- Welford with Kahan compensation: returns `(aux + cAux) / count` -/
def varianceKahan (vals : List V) : V :=
  let step := fun (acc : V × V × V × V × V) (v : V) =>
    let (count, mean, cMean, aux, cAux) := acc
    let count := add count one
    let delta := sub v (add mean cMean)
    let (mean, cMean) := kahanInc (div delta count) mean cMean
    let (aux, cAux) := kahanInc (mul delta (sub v (add mean cMean))) aux cAux
    (count, mean, cMean, aux, cAux)
  let (count, _, _, aux, cAux) := vals.foldl step (zero, zero, zero, zero, zero)
  div (add aux cAux) count

def changesK (pts : List (Pt V)) : V :=
  match pts with
  | [] => zero
  | p :: rest =>
    let (n, _) := rest.foldl (fun (acc : Int × V) q =>
      if ne q.2 acc.2 && !(isNaN q.2 && isNaN acc.2) then (acc.1 + 1, q.2) else (acc.1, q.2)) (0, p.2)
    ofInt n

def resetsK (pts : List (Pt V)) : V :=
  match pts with
  | [] => zero
  | p :: rest =>
    let (n, _) := rest.foldl (fun (acc : Int × V) q =>
      if lt q.2 acc.2 then (acc.1 + 1, q.2) else (acc.1, q.2)) (0, p.2)
    ofInt n

def msToSec (x : Int) : V := div (ofInt x) (ofInt 1000)

/-- `linearRegression(samples, interceptTime)`, slope only -/
def linRegSlope (pts : List (Pt V)) (interceptTime : Int) : V :=
  match pts with
  | [] => nan
  | p0 :: _ =>
    let initY := p0.2
    let step := fun (acc : Bool × Nat × V × (V × V) × (V × V) × (V × V) × (V × V)) (p : Pt V) =>
      let (constY, i, n, sx, sy, sxy, sx2) := acc
      let constY := if constY && i > 0 && ne p.2 initY then false else constY
      let x : V := msToSec (p.1 - interceptTime)
      (constY, i + 1, add n one, kahanInc x sx.1 sx.2, kahanInc p.2 sy.1 sy.2,
        kahanInc (mul x p.2) sxy.1 sxy.2, kahanInc (mul x x) sx2.1 sx2.2)
    let (constY, _, n, sx, sy, sxy, sx2) :=
      pts.foldl step (true, 0, zero, (zero, zero), (zero, zero), (zero, zero), (zero, zero))
    if constY then (if isInf initY then nan else zero)
    else
      let sumX := add sx.1 sx.2
      let sumY := add sy.1 sy.2
      let sumXY := add sxy.1 sxy.2
      let sumX2 := add sx2.1 sx2.2
      let covXY := sub sumXY (div (mul sumX sumY) n)
      let varX := sub sumX2 (div (mul sumX sumX) n)
      div covXY varX

/-- `instantValue` (irate / idelta) -/
def instantValue (pts : List (Pt V)) (isRate : Bool) : Option V :=
  match pts.reverse with
  | last :: prev :: _ =>
    let r := if isRate && lt last.2 prev.2 then last.2 else sub last.2 prev.2
    let iv := last.1 - prev.1
    if iv == 0 then none
    else some (if isRate then div r (msToSec iv) else r)
  | _ => none

/-- `extrapolatedRate`; `rangeSeconds` is the divisor used for `rate` -/
def extrapolatedRate (pts : List (Pt V)) (isCounter isRate : Bool) (rangeStart rangeEnd : Int)
    (rangeSeconds : V) : Option V :=
  match pts, pts.getLast? with
  | first :: _ :: _, some last =>
    let rv := sub last.2 first.2
    let rv := if isCounter then
        (pts.foldl (fun (acc : V × V) p =>
          (if lt p.2 acc.2 then add acc.1 acc.2 else acc.1, p.2)) (rv, zero)).1
      else rv
    let durationToStart : V := msToSec (first.1 - rangeStart)
    let durationToEnd : V := msToSec (rangeEnd - last.1)
    let sampledInterval : V := msToSec (last.1 - first.1)
    let avgDur := div sampledInterval (ofInt (pts.length - 1))
    let durationToStart :=
      if isCounter && gt rv zero && ge first.2 zero then
        let dz := mul sampledInterval (div first.2 rv)
        if lt dz durationToStart then dz else durationToStart
      else durationToStart
    let threshold := mul avgDur (div (ofInt 11) (ofInt 10))
    let ext := sampledInterval
    let ext := if lt durationToStart threshold then add ext durationToStart
               else add ext (div avgDur (ofInt 2))
    let ext := if lt durationToEnd threshold then add ext durationToEnd
               else add ext (div avgDur (ofInt 2))
    let factor := div ext sampledInterval
    let factor := if isRate then div factor rangeSeconds else factor
    some (mul rv factor)
  | _, _ => none

def rangeFnNames : List String :=
  ["rate", "increase", "delta", "irate", "idelta", "deriv", "changes", "resets",
   "sum_over_time", "avg_over_time", "min_over_time", "max_over_time", "count_over_time",
   "last_over_time", "present_over_time", "stddev_over_time", "stdvar_over_time"]

/-- a range function applied to the (non-stale) samples of its window; `none` = no output -/
def rangeKernel (fn : String) (pts : List (Pt V)) (rangeStart rangeEnd : Int) (rangeSeconds : V) :
    Option V :=
  match pts with
  | [] => none
  | p0 :: _ =>
    match fn with
    | "rate" => extrapolatedRate pts true true rangeStart rangeEnd rangeSeconds
    | "increase" => extrapolatedRate pts true false rangeStart rangeEnd rangeSeconds
    | "delta" => extrapolatedRate pts false false rangeStart rangeEnd rangeSeconds
    | "irate" => instantValue pts true
    | "idelta" => instantValue pts false
    | "deriv" => if pts.length < 2 then none else some (linRegSlope pts p0.1)
    | "changes" => some (changesK pts)
    | "resets" => some (resetsK pts)
    | "sum_over_time" => some (sumOverTime pts)
    | "avg_over_time" => some (avgOverTime pts)
    | "min_over_time" => minOverTime pts
    | "max_over_time" => maxOverTime pts
    | "count_over_time" => some (ofInt pts.length)
    | "last_over_time" => pts.getLast?.map (·.2)
    | "present_over_time" => some one
    | "stddev_over_time" => some (sqrt (varianceKahan (pts.map (·.2))))
    | "stdvar_over_time" => some (varianceKahan (pts.map (·.2)))
    | _ => none

/-! ### aggregation reducers -/

def sortNaNFirst (vs : List V) : List V := vs.mergeSort (fun a b => !ltNaNFirst b a)

/-- Prometheus `quantile(q, values)` -/
def quantileK (q : V) (vals : List V) : V :=
  if vals.isEmpty || isNaN q then nan
  else if lt q zero then ninf
  else if gt q one then pinf
  else
    let sorted := sortNaNFirst vals
    let n : V := ofInt sorted.length
    let rank := mul q (sub n one)
    let lowerIndex := maxGo zero (floor rank)
    let upperIndex := minGo (sub n one) (add lowerIndex one)
    let weight := sub rank (floor rank)
    let lo := sorted.getD (toInt lowerIndex).toNat nan
    let hi := sorted.getD (toInt upperIndex).toNat nan
    add (mul lo (sub one weight)) (mul hi weight)

/-- the running mean of `avg` (promql/engine.go, `case parser.AVG`): the count goes up, then the
mean moves towards `v` unless it is an infinity that `v` cannot change -/
def meanUpd (acc : V × V) (v : V) : V × V :=
  let cnt := add acc.2 one
  if isInf acc.1 && (isInf v && (gt acc.1 zero == gt v zero)) then (acc.1, cnt)
  else if isInf acc.1 && (!isInf v && !isNaN v) then (acc.1, cnt)
  else (add acc.1 (sub (div v cnt) (div acc.1 cnt)), cnt)

/-- reduce the member values of one group (in input order); `vals` is non-empty -/
def aggReduce (op : String) (param : V) (vals : List V) : V :=
  match vals with
  | [] => nan
  | v0 :: rest =>
    match op with
    | "sum" => rest.foldl add v0
    | "count" => ofInt vals.length
    | "group" => one
    | "max" => rest.foldl (fun m v => if lt m v || isNaN m then v else m) v0
    | "min" => rest.foldl (fun m v => if gt m v || isNaN m then v else m) v0
    | "avg" =>
      (rest.foldl meanUpd (v0, one)).1
    | "stdvar" | "stddev" =>
      let (cnt, _, value) := rest.foldl (fun (acc : V × V × V) v =>
        let (cnt, mean, value) := acc
        let cnt := add cnt one
        let delta := sub v mean
        let mean := add mean (div delta cnt)
        (cnt, mean, add value (mul delta (sub v mean)))) (one, v0, zero)
      if op == "stdvar" then div value cnt else sqrt (div value cnt)
    | "quantile" => quantileK param vals
    | _ => nan

/-! ### the bounded heap of topk / bottomk (`container/heap` on a slice) -/

section Heap
variable {α : Type}

/-- `Less(i, j)` of `vectorByValueHeap` (top = true) / `vectorByReverseValueHeap` -/
def heapLess (top : Bool) (a b : V) : Bool :=
  if isNaN a then true else if top then lt a b else gt a b

def heapUp (top : Bool) (h : Array (α × V)) : Nat → Nat → Array (α × V)
  | 0, _ => h
  | fuel + 1, j =>
    if j == 0 then h
    else
      let i := (j - 1) / 2
      match h[j]?, h[i]? with
      | some x, some y =>
        if !heapLess top x.2 y.2 then h
        else heapUp top ((h.set! i x).set! j y) fuel i
      | _, _ => h

/-- the child of `i` that `down` compares with: the right one if it is in the heap and less than
the left one -/
def smallerChild (top : Bool) (h : Array (α × V)) (n i : Nat) : Nat :=
  match h[2 * i + 1 + 1]?, h[2 * i + 1]? with
  | some b, some a => if 2 * i + 1 + 1 < n && heapLess top b.2 a.2 then 2 * i + 1 + 1 else 2 * i + 1
  | _, _ => 2 * i + 1

def heapDown (top : Bool) (h : Array (α × V)) (n : Nat) : Nat → Nat → Array (α × V)
  | 0, _ => h
  | fuel + 1, i =>
    let j1 := 2 * i + 1
    if j1 ≥ n then h
    else
      let j := smallerChild top h n i
      match h[j]?, h[i]? with
      | some x, some y =>
        if !heapLess top x.2 y.2 then h
        else heapDown top ((h.set! i x).set! j y) n fuel j
      | _, _ => h

def heapPush (top : Bool) (h : Array (α × V)) (x : α × V) : Array (α × V) :=
  let h := h.push x
  heapUp top h h.size (h.size - 1)

def heapPop (top : Bool) (h : Array (α × V)) : Array (α × V) :=
  if h.size == 0 then h
  else
    let n := h.size - 1
    match h[0]?, h[n]? with
    | some a, some b =>
      let h := (h.set! 0 b).set! n a
      (heapDown top h n n 0).pop
    | _, _ => h

/-- one group of topk (top = true) / bottomk with `k ≥ 1`, members in input order -/
def kSelect (top : Bool) (k : Nat) (items : List (α × V)) : List (α × V) :=
  (items.foldl (fun (h : Array (α × V)) x =>
    match h[0]? with
    | none => h.push x
    | some t =>
      if h.size < k || (if top then lt t.2 x.2 else gt t.2 x.2) || isNaN t.2 then
        if h.size == k then
          if k == 1 then h.set! 0 x
          else heapPush top (heapPop top h) x
        else heapPush top h x
      else h) #[]).toList

end Heap

/-! ### histogram_quantile -/

structure Bucket (V : Type) where
  upper : V
  count : V

def coalesceBuckets (bs : List (Bucket V)) : List (Bucket V) :=
  match bs with
  | [] => []
  | b0 :: rest =>
    let (acc, last) := rest.foldl (fun (st : List (Bucket V) × Bucket V) b =>
      if eq b.upper st.2.upper then (st.1, { st.2 with count := add st.2.count b.count })
      else (st.1 ++ [st.2], b)) ([], b0)
    acc ++ [last]

def ensureMonotonic (bs : List (Bucket V)) : List (Bucket V) :=
  match bs with
  | [] => []
  | b0 :: rest =>
    let (acc, _) := rest.foldl (fun (st : List (Bucket V) × V) b =>
      if gt b.count st.2 then (st.1 ++ [b], b.count)
      else if lt b.count st.2 then (st.1 ++ [{ b with count := st.2 }], st.2)
      else (st.1 ++ [b], st.2)) ([b0], b0.count)
    acc

/-- `sort.Search(n, f)`: least index in `[0, n)` with `f`, else `n` (for monotone `f`) -/
def searchFirst (n : Nat) (f : Nat → Bool) : Nat :=
  ((List.range n).find? f).getD n

def bucketQuantile (q : V) (buckets : List (Bucket V)) : V :=
  if isNaN q then nan
  else if lt q zero then ninf
  else if gt q one then pinf
  else
    let sorted := buckets.mergeSort (fun a b => !lt b.upper a.upper)
    match sorted.getLast? with
    | none => nan
    | some top =>
      if !(eq top.upper (pinf : V)) then nan
      else
        let bs := ensureMonotonic (coalesceBuckets sorted)
        if bs.length < 2 then nan
        else
          let observations := (bs.getLast?.map (·.count)).getD zero
          if eq observations zero then nan
          else
            let rank := mul q observations
            let b := searchFirst (bs.length - 1) (fun i => ge ((bs.getD i top).count) rank)
            if b == bs.length - 1 then (bs.getD (bs.length - 2) top).upper
            else if b == 0 && le (bs.getD 0 top).upper zero then (bs.getD 0 top).upper
            else
              let bEnd := (bs.getD b top).upper
              let cnt := (bs.getD b top).count
              let (bStart, cnt, rank) :=
                if b > 0 then
                  ((bs.getD (b - 1) top).upper, sub cnt (bs.getD (b - 1) top).count,
                    sub rank (bs.getD (b - 1) top).count)
                else (zero, cnt, rank)
              add bStart (mul (sub bEnd bStart) (div rank cnt))

end PromqlVerif
