/-
The series loader (`execution/storage/series_selector.go` `loadSeries`) under positional storage
faults: open the querier, `defer querier.Close()`, select, iterate the series set, return the
set's error. The model returns the outcome and the log of storage calls.
-/
namespace PromqlVerif.Loader

inductive Ev | opened | closed | select | next | setErr
deriving DecidableEq, Repr

/-- positional faults of one select -/
structure Faults where
  querierFails : Bool := false
  selectPanics : Bool := false
  /-- the series set reports an error after yielding this many series -/
  setErrAfter : Option Nat := none
  /-- a panic while iterating at this series -/
  panicAtSeries : Option Nat := none
deriving Repr, DecidableEq

inductive Outcome where
  | ok (loaded : Nat)
  | err
  | panic
deriving Repr, DecidableEq

/-- the storage calls of the body: one select, `n` calls of `Next`, possibly the final `Err` -/
def mkLog (n : Nat) (withErr : Bool) : List Ev :=
  .select :: (List.replicate n .next ++ (if withErr then [.setErr] else []))

/-- body between `defer querier.Close()` and the return: outcome, number of `Next` calls,
whether `seriesSet.Err()` was reached -/
def bodyCore (avail : Nat) (f : Faults) : Outcome × Nat × Bool :=
  if f.selectPanics then (.panic, 0, false)
  else
    let yielded := match f.setErrAfter with
      | some k => min k avail
      | none => avail
    let setFails := match f.setErrAfter with
      | some k => decide (k ≤ avail)
      | none => false
    let fin : Outcome × Nat × Bool := (if setFails then .err else .ok yielded, yielded + 1, true)
    match f.panicAtSeries with
    | some p => if p < yielded then (.panic, p + 1, false) else fin
    | none => fin

def body (avail : Nat) (f : Faults) : Outcome × List Ev :=
  let b := bodyCore avail f
  (b.1, mkLog b.2.1 b.2.2)

/-- `loadSeries`: the deferred close runs on every path once the querier is open -/
def loadSeries (avail : Nat) (f : Faults) : Outcome × List Ev :=
  if f.querierFails then (.err, [])
  else
    let b := body avail f
    (b.1, [.opened] ++ b.2 ++ [.closed])

def count (e : Ev) (l : List Ev) : Nat := (l.filter (· == e)).length

theorem body_events (avail : Nat) (f : Faults) : ∀ e ∈ (body avail f).2, e ≠ .opened ∧ e ≠ .closed := by
  intro e he
  simp only [body, mkLog, List.mem_cons, List.mem_append, List.mem_replicate] at he
  rcases he with h | ⟨_, h⟩ | h
  · subst h; decide
  · subst h; decide
  · split at h
    · simp only [List.mem_singleton] at h; subst h; decide
    · cases h

theorem count_zero_of_not_mem (e : Ev) (l : List Ev) (h : ∀ x ∈ l, x ≠ e) : count e l = 0 := by
  unfold count
  have : l.filter (· == e) = [] := by
    apply List.filter_eq_nil_iff.mpr
    intro x hx; simpa using h x hx
  simp [this]

/-- **every querier that is opened is closed exactly once, on every path** - success, storage
error, panic while selecting or iterating -/
theorem opens_eq_closes (avail : Nat) (f : Faults) :
    count .opened (loadSeries avail f).2 = count .closed (loadSeries avail f).2 ∧
      count .closed (loadSeries avail f).2 ≤ 1 := by
  unfold loadSeries
  split
  · simp [count]
  · have h1 := count_zero_of_not_mem .opened _ (fun x hx => (body_events avail f x hx).1)
    have h2 := count_zero_of_not_mem .closed _ (fun x hx => (body_events avail f x hx).2)
    simp only [count] at h1 h2 ⊢
    simp [List.filter_append, h1, h2]

/-- the close is the last storage call -/
theorem close_is_last (avail : Nat) (f : Faults) (h : f.querierFails = false) :
    (loadSeries avail f).2.getLast? = some .closed := by
  simp only [loadSeries, h, Bool.false_eq_true, if_false]
  rw [List.getLast?_append]
  simp

/-- **no partial success**: a successful load saw the complete series set -/
theorem ok_is_complete (avail n : Nat) (f : Faults) (h : (loadSeries avail f).1 = .ok n) : n = avail := by
  unfold loadSeries at h
  split at h
  · cases h
  · simp only [body] at h
    unfold bodyCore at h
    cases hs : f.setErrAfter with
    | none =>
      simp only [hs] at h
      (repeat' split at h) <;> first | (cases h; rfl) | (cases h)
    | some k =>
      simp only [hs] at h
      by_cases hk : k ≤ avail
      · simp only [hk, decide_true, if_true] at h
        (repeat' split at h) <;> cases h
      · simp only [hk, decide_false] at h
        have : min k avail = avail := by omega
        (repeat' split at h) <;> first | (cases h; omega) | (cases h)

/-- a storage failure that is consulted makes the load fail -/
theorem set_error_fails (avail k : Nat) (hk : k ≤ avail) :
    (loadSeries avail { setErrAfter := some k }).1 = .err := by
  simp [loadSeries, body, bodyCore, hk]

theorem querier_error_fails (avail : Nat) : (loadSeries avail { querierFails := true }) = (.err, []) := by
  simp [loadSeries]

/-- non-vacuity: concrete runs -/
example : loadSeries 3 {} = (.ok 3, [.opened, .select, .next, .next, .next, .next, .setErr, .closed]) := by decide
example : (loadSeries 3 { panicAtSeries := some 1 }) = (.panic, [.opened, .select, .next, .next, .closed]) := by decide

end PromqlVerif.Loader
