/-
Query-level semantics: evaluation over the step grid, the range-level duplicate check of the
reference engine, and result assembly (`Exec` of the engine / `execEvalStmt` of Prometheus).
-/
import PromqlVerif.Sem
namespace PromqlVerif
open Val

variable {V : Type} [Val V]

inductive QResult (V : Type) where
  | matrix (series : List (Labels × List (Int × V)))
  | vector (t : Int) (samples : Vec V)
  | scalar (t : Int) (v : V)
  | err (e : Err)
deriving Inhabited

/-- per-step results over a grid: `(t, value)` -/
def evalGrid (c : Ctx V) (grid : List Int) (e : Expr V) : Except Err (List (Int × Value V)) :=
  grid.mapM fun t => (eval c t e).map fun v => (t, v)

/-- collect points per label set, in order of first appearance -/
def toSeries (steps : List (Int × Vec V)) : List (Labels × List (Int × V)) :=
  steps.foldl (fun acc st =>
    st.2.foldl (fun acc x =>
      if acc.any (fun s => s.1 == x.1) then
        acc.map (fun s => if s.1 == x.1 then (s.1, s.2 ++ [(st.1, x.2)]) else s)
      else acc ++ [(x.1, [(st.1, x.2)])]) acc) []

/-- Range-level duplicate-labelset check of the reference engine: after a range function and
after unary minus the *matrix* (all series with a point anywhere in the range) is checked. -/
partial def rangeDupCheck (c : Ctx V) (grid : List Int) : Expr V → Bool
  | .neg e =>
    rangeDupCheck c grid e ||
      (match evalGrid c grid e with
       | .ok steps =>
         if e.isScalar then false
         else
           let lsets := (steps.flatMap fun s =>
             match s.2 with
             | .vec v => v.map (·.1)
             | .scal _ => []).eraseDups
           let dropped := lsets.map Labels.dropName
           dropped.length != dropped.eraseDups.length
       | .error _ => false)
  | .call fn [.msel s range] =>
    if fn == "last_over_time" then false
    else
      let present := (matchingSeries c s).filter fun sr =>
        grid.any fun t =>
          let ref := s.refTime c.start t
          (rangeKernel fn (windowPoints (ref - range) ref sr.samples) (ref - range) ref
            (rangeSeconds range : V)).isSome
      let dropped := present.map (·.labels.dropName)
      dropped.length != dropped.eraseDups.length
  | .call _ args => args.any (rangeDupCheck c grid)
  | .agg _ _ _ e => rangeDupCheck c grid e
  | .aggP _ _ _ p e => rangeDupCheck c grid p || rangeDupCheck c grid e
  | .bin _ _ _ l r => rangeDupCheck c grid l || rangeDupCheck c grid r
  | .pos e => rangeDupCheck c grid e
  | .paren e => rangeDupCheck c grid e
  | .stepInv e => rangeDupCheck c [c.start] e
  | _ => false

def labelsLt (a b : Labels) : Bool :=
  match a, b with
  | [], [] => false
  | [], _ => true
  | _, [] => false
  | x :: xs, y :: ys =>
    if x.name != y.name then x.name < y.name
    else if x.value != y.value then x.value < y.value
    else labelsLt xs ys

def sortSeries {α : Type} (xs : List (Labels × α)) : List (Labels × α) :=
  xs.mergeSort (fun a b => !labelsLt b.1 a.1)

/-- run a query: `w.step = 0` is an instant query -/
def runQuery (c : Ctx V) (w : Window) (e : Expr V) : QResult V :=
  let grid := w.grid
  match evalGrid c grid e with
  | .error er => .err er
  | .ok steps =>
    if !c.q.noDupCheck && rangeDupCheck c grid e then .err .dupLabelset
    else if w.step == 0 then
      match steps with
      | [(t, .scal v)] => .scalar t v
      | [(t, .vec v)] => .vector t v
      | _ => .err .other
    else
      let vsteps : List (Int × Vec V) := steps.map fun s =>
        match s.2 with
        | .vec v => (s.1, v)
        | .scal v => (s.1, [([], v)])
      .matrix (sortSeries (toSeries vsteps))

end PromqlVerif

namespace PromqlVerif
open Val
variable {V : Type} [Val V]

/-- does the selection of a topk/bottomk group depend on the order of its members? -/
def groupOrderDependent (top : Bool) (k : Nat) (vals : List V) : Bool :=
  if vals.length ≤ k then false
  else
    -- NaN sorts first in the heaps: NaN members are evicted before any number, so they only
    -- matter (and then make the choice arbitrary) when fewer than k numbers are present
    let nums := vals.filter fun v => !isNaN v
    if nums.length < k then true
    else
      let sorted := nums.mergeSort (fun a b => if top then !lt a b else !lt b a)
      match sorted[k - 1]?, sorted[k]? with
      | some a, some b => eq a b
      | _, _ => false

/-- some topk/bottomk of the query has, at some step, a tie at the selection boundary: the
result then legitimately depends on the order in which samples reach the aggregation -/
partial def hasTie (c : Ctx V) (grid : List Int) : Expr V → Bool
  | .aggP op without grouping p e =>
    hasTie c grid p || hasTie c grid e ||
      ((op == "topk" || op == "bottomk") && grid.any fun t =>
        match eval c t p, eval c t e with
        | .ok (.scal pv), .ok (.vec v) =>
          if !inInt64 pv || toInt pv < 1 then false
          else
            (groupBy (fun (x : Labels × V) => groupKey without grouping x.1) v).any fun g =>
              groupOrderDependent (op == "topk") (toInt pv).toNat (g.2.map (·.2))
        | _, _ => false)
  | .agg _ _ _ e => hasTie c grid e
  | .call _ args => args.any (hasTie c grid)
  | .bin _ _ _ l r => hasTie c grid l || hasTie c grid r
  | .neg e => hasTie c grid e
  | .pos e => hasTie c grid e
  | .paren e => hasTie c grid e
  | .stepInv e => hasTie c [c.start] e
  | _ => false

end PromqlVerif
