/-
Expressions: `parser.Expr` after parsing and `promql.PreprocessExpr`, plus the engine's plan
nodes (`FilteredSelector`, `Coalesce`, `RemoteExecution`).
-/
import PromqlVerif.Val
namespace PromqlVerif

inductive Card | oneToOne | manyToOne | oneToMany | manyToMany
deriving DecidableEq, Repr, Inhabited

structure VSel where
  matchers : List Matcher
  /-- `OriginalOffset` in ms -/
  origOffset : Int
  /-- resolved `@` timestamp in ms -/
  atTs : Option Int
  /-- `some fs`: the engine's `FilteredSelector` with filters `fs` -/
  filters : Option (List Matcher) := none
deriving Repr, Inhabited, DecidableEq

structure Matching where
  card : Card
  on : Bool
  labels : List String
  incl : List String
deriving Repr, Inhabited, DecidableEq

inductive Expr (V : Type) where
  | num (v : V)
  | str
  | vsel (s : VSel)
  | msel (s : VSel) (range : Int)
  | subq (e : Expr V)
  | call (fn : String) (args : List (Expr V))
  | agg (op : String) (without : Bool) (grouping : List String) (e : Expr V)
  | aggP (op : String) (without : Bool) (grouping : List String) (param : Expr V) (e : Expr V)
  | bin (op : String) (bool : Bool) (m : Matching) (lhs rhs : Expr V)
  | neg (e : Expr V)
  | pos (e : Expr V)
  | paren (e : Expr V)
  | stepInv (e : Expr V)
  | coalesce (es : List (Expr V))
  | remote (part : Nat) (e : Expr V)
deriving Repr, Inhabited

def scalarFns : List String := ["time", "pi", "scalar"]

def comparisonOps : List String := ["==", "!=", ">", "<", ">=", "<="]
def arithOps : List String := ["+", "-", "*", "/", "%", "^", "atan2"]
def setOps : List String := ["and", "or", "unless"]

/-- the static type of an expression is scalar (as `parser.Expr.Type()`) -/
def Expr.isScalar {V : Type} : Expr V → Bool
  | .num _ => true
  | .call fn _ => scalarFns.contains fn
  | .bin _ _ _ l r => l.isScalar && r.isScalar
  | .neg e => e.isScalar
  | .pos e => e.isScalar
  | .paren e => e.isScalar
  | .stepInv e => e.isScalar
  | _ => false

/-- strip parentheses and step-invariant wrappers (Prometheus `unwrapParenExpr` /
`unwrapStepInvariantExpr`, as used for `timestamp()`) -/
def Expr.unwrap {V : Type} : Expr V → Expr V
  | .paren e => e.unwrap
  | .stepInv e => e.unwrap
  | e => e

end PromqlVerif
