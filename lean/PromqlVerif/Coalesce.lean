/-
`coalesceOperator.Next` as it is written (execution/exchange/coalesce.go): every child is pulled on
its own goroutine; whichever returns takes the lock, shifts its sample IDs by the child's offset
(the series of child `i` follow those of the children before it) and appends its step vectors to
the shared batch - which the first arrival with a non-empty batch creates. The order of arrival
is the scheduler's: it is the parameter `arrivals` here.
-/
import PromqlVerif.Eng
namespace PromqlVerif
open Val

variable {V : Type}

/-- a step vector: timestamp and samples -/
abbrev SV (V : Type) := Int × IdVec V

def shiftIds (off : Nat) (xs : IdVec V) : IdVec V := xs.map fun x => (x.1 + off, x.2)

/-- `out[i].T = in[i].T` if `in[i]` has samples; samples and IDs appended -/
def mergeSV (off : Nat) (o : SV V) (i : SV V) : SV V :=
  (if i.2.isEmpty then o.1 else i.1, o.2 ++ shiftIds off i.2)

/-- the loop `for i := 0; i < len(in); i++`: `none` where Go would index past the end of `out` -/
def mergeBatch (off : Nat) : List (SV V) → List (SV V) → Option (List (SV V))
  | o, [] => some o
  | [], _ :: _ => none
  | o :: os, i :: is => (mergeBatch off os is).map fun r => mergeSV off o i :: r

/-- one child's batch arriving under the lock; `inp = none` is a child that returned `nil` -/
def arrive (out : Option (List (SV V))) (off : Nat) (inp : Option (List (SV V))) :
    Except Unit (Option (List (SV V))) :=
  match inp with
  | none => .ok out
  | some inp =>
    let out0 : Option (List (SV V)) :=
      match out with
      | some o => some o
      | none => if inp.isEmpty then none else some (inp.map fun sv => (sv.1, []))
    match out0 with
    | none => .ok none
    | some o =>
      match mergeBatch off o inp with
      | some r => .ok (some r)
      | none => .error ()

/-- one `Next`: the children's batches in their order of arrival, each with its offset -/
def coStep (acc : Except Unit (Option (List (SV V)))) (a : Nat × Option (List (SV V))) :
    Except Unit (Option (List (SV V))) :=
  match acc with
  | .error e => .error e
  | .ok out => arrive out a.1 a.2

def coalesceNext (arrivals : List (Nat × Option (List (SV V)))) : Except Unit (Option (List (SV V))) :=
  arrivals.foldl coStep (.ok none)

/-- `loadSeries`: the offset of child `i` is the number of series of the children before it -/
def offsetsOf (sizes : List Nat) : List Nat :=
  (List.range sizes.length).map fun i => (sizes.take i).sum

/-- the samples a child contributes to the first step of what is left of its batch -/
def headSamples (inp : List (SV V)) : IdVec V := (inp.head?.map (·.2)).getD []

/-- the merged batch, step by step: per step the arrivals' samples in order of arrival -/
def mergedSpec : List Int → List (Nat × List (SV V)) → List (SV V)
  | [], _ => []
  | t :: ts, as =>
    (t, as.flatMap fun a => shiftIds a.1 (headSamples a.2)) :: mergedSpec ts (as.map fun a => (a.1, a.2.tail))

end PromqlVerif
