/-
Operational kernels of the engine: the step cursor of leaf operators (`NumSteps`, the batch
loop of `vectorSelector` / `matrixSelector` / `numberLiteralSelector` `Next`), contiguous
sharding (`seriesShard`) and the ID re-basing of the coalesce operator.
-/
import PromqlVerif.Basic
namespace PromqlVerif

/-- `Options.NumSteps()`: steps per batch -/
def numStepsBatch (w : Window) (B : Nat) : Nat :=
  if w.step ≤ 0 then 1 else min B w.numSteps

/-- One `Next()` of a leaf: the timestamps of the batch starting at cursor `cur`
(`for currStep := 0; currStep < numSteps && ts <= maxt; currStep++ { ...; ts += step }`). -/
def leafBatch (w : Window) (n : Nat) (cur : Int) : List Int := walk w.stop w.step n cur

/-- The whole stream of a leaf: batches until `currentStep > maxt`, the cursor advancing by
`step * numSteps` (`step` being forced to 1 for instant queries after the first batch). -/
def leafStream (w : Window) (n : Nat) : Nat → Int → List (List Int)
  | 0, _ => []
  | fuel + 1, cur =>
    if cur > w.stop then []
    else leafBatch w n cur :: leafStream w n fuel (cur + (if w.step ≤ 0 then 1 else w.step) * n)

/-- `seriesShard`: the slice `[i*len/n, (i+1)*len/n)` -/
def seriesShard {α : Type} (l : List α) (i n : Nat) : List α :=
  (l.drop (i * l.length / n)).take ((i + 1) * l.length / n - i * l.length / n)

/-- offsets of the coalesce operator: prefix sums of the children's series counts -/
def shardOffsets : List Nat → List Nat
  | [] => []
  | c :: cs => 0 :: (shardOffsets cs).map (· + c)

/-- re-basing of the sample IDs of one child's step vector -/
def rebase {β : Type} (off : Nat) (v : List (Nat × β)) : List (Nat × β) := v.map fun x => (x.1 + off, x.2)

/-- reading a step vector through a series list -/
def denote {α β : Type} (series : List α) (v : List (Nat × β)) : List (α × β) :=
  v.filterMap fun x => (series[x.1]?).map fun s => (s, x.2)

end PromqlVerif
