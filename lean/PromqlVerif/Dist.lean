/-
`DistributedExecutionOptimizer.Optimize` (logicalplan/distribute.go) as it is written: a bottom-up
traversal (`traverseBottomUp`, logicalplan/plan.go) that stops at the first node it rewrites or
cannot distribute. A distributive aggregation becomes `agg'(coalesce(remote(agg(..)), ..))`
(`count` re-aggregated by `sum`); any other distributive node whose parent is not distributive is
wrapped as `coalesce(remote(node), ..)`.
-/
import PromqlVerif.Expr
namespace PromqlVerif

variable {V : Type}

/-- `distributiveAggregations` (tied to the source by `Gen.distributiveAggs`, see `C10`) -/
def distAggs : List String := ["sum", "min", "max", "group", "count", "bottomk", "topk"]

/-- calls that are not evaluated per series -/
def nonLocalCalls : List String := ["histogram_quantile", "vector", "absent", "absent_over_time", "sort", "sort_desc"]

/-- `isConstant` -/
def isConstant : Expr V → Bool
  | .num _ => true
  | .str => true
  | .paren e => isConstant e
  | .stepInv e => isConstant e
  | _ => false

/-- the argument is vector- or matrix-typed -/
def isSeriesTyped : Expr V → Bool
  | .str => false
  | e => !e.isScalar

/-- `isDistributive` (`none`: no parent) -/
def isDistributive : Option (Expr V) → Bool
  | none => false
  | some (.bin _ _ _ _ _) => false
  | some (.agg op _ _ _) => distAggs.contains op
  | some (.aggP op _ _ p _) => distAggs.contains op && isConstant p
  | some (.call fn args) =>
    !scalarFns.contains fn && !nonLocalCalls.contains fn && (args.all fun a => isSeriesTyped a || isConstant a) &&
      args.any isSeriesTyped
  | some _ => true

/-- `makeSubQueries` -/
def makeRemotes (n : Nat) (e : Expr V) : Expr V := .coalesce ((List.range n).map fun i => .remote i e)

def localAgg (op : String) : String := if op == "count" then "sum" else op

/-- the callback of `Optimize`: the node (possibly rewritten) and whether the traversal stops -/
def transformD (n : Nat) (parent : Option (Expr V)) (cur : Expr V) : Expr V × Bool :=
  if !isDistributive (some cur) then (cur, true)
  else
    match cur with
    | .agg op w g _ => (.agg (localAgg op) w g (makeRemotes n cur), true)
    | .aggP op w g p _ => (.aggP (localAgg op) w g p (makeRemotes n cur), true)
    | _ => if isDistributive parent then (cur, false) else (makeRemotes n cur, true)

/-- `traverseBottomUp` with that callback; `none`: the vector selector inside a matrix selector
was replaced by a coalesce node, a plan the engine cannot build -/
def traverseD (n : Nat) (parent : Option (Expr V)) : Expr V → Option (Expr V × Bool)
  | .stepInv e => (traverseD n (some (.stepInv e)) e).map fun r => (.stepInv r.1, r.2)
  | .vsel s => some (transformD n parent (.vsel s))
  | .msel s r =>
    match transformD n parent (.vsel s) with
    | (.vsel s', st) => some (.msel s' r, st)
    | _ => none
  | .agg op w g e =>
    match traverseD n (some (.agg op w g e)) e with
    | none => none
    | some (e', true) => some (.agg op w g e', true)
    | some (e', false) => some (transformD n parent (.agg op w g e'))
  | .aggP op w g p e =>
    match traverseD n (some (.aggP op w g p e)) e with
    | none => none
    | some (e', true) => some (.aggP op w g p e', true)
    | some (e', false) => some (transformD n parent (.aggP op w g p e'))
  | .call fn args =>
    match travArgs (some (.call fn args)) args with
    | none => none
    | some (args', true) => some (.call fn args', true)
    | some (args', false) => some (transformD n parent (.call fn args'))
  | .bin op b m l r =>
    match traverseD n (some (.bin op b m l r)) l, traverseD n (some (.bin op b m l r)) r with
    | some (l', ls), some (r', rs) =>
      if ls || rs then some (.bin op b m l' r', true) else some (transformD n parent (.bin op b m l' r'))
    | _, _ => none
  | .neg e => (traverseD n (some (.neg e)) e).map fun r => (.neg r.1, r.2)
  | .pos e => (traverseD n (some (.pos e)) e).map fun r => (.pos r.1, r.2)
  | .paren e => (traverseD n (some (.paren e)) e).map fun r => (.paren r.1, r.2)
  | .subq e => (traverseD n (some (.subq e)) e).map fun r => (.subq r.1, r.2)
  | e => some (e, true)
where
  /-- the loop over the arguments of a call: it ends at the first argument that stops -/
  travArgs (par : Option (Expr V)) : List (Expr V) → Option (List (Expr V) × Bool)
    | [] => some ([], false)
    | a :: as =>
      match traverseD n par a with
      | none => none
      | some (a', true) => some (a' :: as, true)
      | some (a', false) => (travArgs par as).map fun r => (a' :: r.1, r.2)

/-- `Optimize` for `n` remote engines -/
def optDistribute (n : Nat) (e : Expr V) : Option (Expr V) := (traverseD n none e).map (·.1)

/-! ### the expressions for which `Proofs/DistSound.lean` proves the rewrite exact -/

/-- aggregations whose push-down gives the same groups in the same order with the same values -/
def exactAggs : List String := ["sum", "min", "max", "group", "count"]

/-- a literal argument: the traversal stops there -/
def stopsArg : Expr V → Bool
  | .num _ => true
  | .str => true
  | .stepInv (.num _) => true
  | _ => false

def isMsel : Expr V → Bool
  | .msel _ _ => true
  | _ => false

/-- calls have at most one argument (range functions, the per-sample functions, `scalar`,
`vector`, `time`, `pi`) or two or three of which one is a literal or scalar-typed (`clamp_min(x, 1)`,
`clamp_max(x, scalar(y))`, `histogram_quantile(0.9, x)` - every well-typed call of the language),
every distributive aggregation is an exact one (no topk /
bottomk), and no coalesce / remote nodes yet -/
def siteOk : Expr V → Bool
  | .num _ => true
  | .str => true
  | .vsel _ => true
  | .msel _ _ => true
  | .subq e => siteOk e
  | .call fn args =>
    okArgs args && (decide (args.length ≤ 1) || (decide (args.length ≤ 3) && args.any fun a => stopsArg a || a.isScalar))
  | .agg op _ _ e => siteOk e && (!distAggs.contains op || exactAggs.contains op)
  | .aggP op w g p e => siteOk e && !isDistributive (some (.aggP op w g p e))
  | .bin _ _ _ l r => siteOk l && siteOk r
  | .neg e => siteOk e
  | .pos e => siteOk e
  | .paren e => siteOk e
  | .stepInv e => siteOk e
  | .coalesce _ => false
  | .remote _ _ => false
where
  okArgs : List (Expr V) → Bool
    | [] => true
    | a :: as => siteOk a && okArgs as

/-! ### the shape of a plan, for comparing with the real optimizer's output -/

/-- by/without and the grouping labels as written -/
def shapeGrp (w : Bool) (g : List String) : String :=
  (if w then "!" else "") ++ "{" ++ String.intercalate ";" g ++ "}"

/-- node kinds, operators (with their grouping) and function names, and where the coalesce / remote nodes sit; inside a
remote node (whose query travels as text) step-invariant wrappers are not visible -/
def shape (inRemote : Bool) : Expr V → String
  | .num _ => "n"
  | .str => "s"
  | .vsel _ => "v"
  | .msel _ _ => "m"
  | .subq e => "q(" ++ shape inRemote e ++ ")"
  | .call fn args => "c:" ++ fn ++ "(" ++ shapeArgs args ++ ")"
  | .agg op w g e => "a:" ++ op ++ shapeGrp w g ++ "(" ++ shape inRemote e ++ ")"
  | .aggP op w g p e => "a:" ++ op ++ shapeGrp w g ++ "[" ++ shape inRemote p ++ "](" ++ shape inRemote e ++ ")"
  | .bin op _ _ l r => "b:" ++ op ++ "(" ++ shape inRemote l ++ "," ++ shape inRemote r ++ ")"
  | .neg e => "-(" ++ shape inRemote e ++ ")"
  | .pos e => "+(" ++ shape inRemote e ++ ")"
  | .paren e => "p(" ++ shape inRemote e ++ ")"
  | .stepInv e => if inRemote then shape inRemote e else "i(" ++ shape inRemote e ++ ")"
  | .coalesce es => "C(" ++ shapeArgs es ++ ")"
  | .remote i e => "R" ++ toString i ++ "(" ++ shape true e ++ ")"
where
  shapeArgs : List (Expr V) → String
    | [] => ""
    | [a] => shape inRemote a
    | a :: as => shape inRemote a ++ "," ++ shapeArgs as

def distShape (n : Nat) (e : Expr V) : String :=
  match optDistribute n e with
  | none => "BADM"
  | some e' => shape false e'

end PromqlVerif
