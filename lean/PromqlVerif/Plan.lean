/-
The logical optimizers as functions on expressions, written after `logicalplan/*.go`
(`traverse`, `SortMatchers`, `MergeSelectsOptimizer`, `PropagateMatchersOptimizer`).
-/
import PromqlVerif.Expr
namespace PromqlVerif

variable {V : Type}

def Matcher.le (a b : Matcher) : Bool := a.name ≤ b.name

/-- `SortMatchers`: the matchers of a selector ordered by label name -/
def sortMatchers (ms : List Matcher) : List Matcher := ms.mergeSort Matcher.le

def isNameMatcher (m : Matcher) : Bool := m.name == metricName

/-- `findReplacement`: `top` is usable for `sel` when every matcher of `top` is a matcher of
`sel` and `sel` has a matcher that `top` lacks (matchers compared as a whole) -/
def usableReplacement (top sel : List Matcher) : Bool :=
  top.all (fun m => sel.contains m) && !sel.all (fun m => top.contains m)

/-- the filters left after replacing `sel` by `top`: the matchers of `sel` not in `top` -/
def mergeFilters (top sel : List Matcher) : List Matcher :=
  sel.filter (fun f => !top.contains f)

/-- the matcher heap: per metric name the least specific (shortest) matcher list seen -/
abbrev MatcherHeap := List (String × List Matcher)

def MatcherHeap.add (h : MatcherHeap) (name : String) (ms : List Matcher) : MatcherHeap :=
  match h.find? (·.1 == name) with
  | none => h ++ [(name, ms)]
  | some (_, cur) => if ms.length < cur.length then h.map (fun e => if e.1 == name then (name, ms) else e) else h

def heapAddSel (h : MatcherHeap) (s : VSel) : MatcherHeap :=
  (s.matchers.filter isNameMatcher).foldl (fun h l => h.add l.value s.matchers) h

/-- `extractSelectors` (`parser.Inspect`: every vector selector of the expression, in order) -/
def collectSelectors : Expr V → List VSel
  | .vsel s => [s]
  | .msel s _ => [s]
  | .subq e => collectSelectors e
  | .call _ args => collectArgs args
  | .agg _ _ _ e => collectSelectors e
  | .aggP _ _ _ p e => collectSelectors p ++ collectSelectors e
  | .bin _ _ _ l r => collectSelectors l ++ collectSelectors r
  | .neg e => collectSelectors e
  | .pos e => collectSelectors e
  | .paren e => collectSelectors e
  | .stepInv e => collectSelectors e
  | _ => []
where
  collectArgs : List (Expr V) → List VSel
    | [] => []
    | a :: as => collectSelectors a ++ collectArgs as

def buildHeap (e : Expr V) : MatcherHeap := (collectSelectors e).foldl heapAddSel []

/-- `replaceMatchers`' transform on one selector -/
def mergeSel (h : MatcherHeap) (s : VSel) : VSel :=
  if s.filters.isSome then s
  else
    match (s.matchers.filter isNameMatcher).findSome? (fun l =>
      match h.find? (·.1 == l.value) with
      | some (_, top) => if usableReplacement top s.matchers then some top else none
      | none => none) with
    | some top => { s with matchers := top, filters := some (mergeFilters top s.matchers) }
    | none => s

/-- `traverse` applying a selector transform (the node kinds `traverse` reaches) -/
def mapSelectors (f : VSel → VSel) : Expr V → Expr V
  | .vsel s => .vsel (f s)
  | .msel s r => .msel (f s) r
  | .stepInv e =>
    -- `transform(&node.Expr)`: only a selector that is the direct child is reached
    match e with
    | .vsel s => .stepInv (.vsel (f s))
    | e => .stepInv e
  | .agg op w g e => .agg op w g (mapSelectors f e)
  | .aggP op w g p e => .aggP op w g p (mapSelectors f e)
  | .call fn args => .call fn (mapArgs args)
  | .bin op b m l r => .bin op b m (mapSelectors f l) (mapSelectors f r)
  | .neg e => .neg (mapSelectors f e)
  | .pos e => .pos (mapSelectors f e)
  | .paren e => .paren (mapSelectors f e)
  | .subq e => .subq (mapSelectors f e)
  | e => e
where
  mapArgs : List (Expr V) → List (Expr V)
    | [] => []
    | a :: as => mapSelectors f a :: mapArgs as

def optSortMatchers (e : Expr V) : Expr V :=
  mapSelectors (fun s => { s with matchers := sortMatchers s.matchers }) e

def optMergeSelects (e : Expr V) : Expr V := mapSelectors (mergeSel (buildHeap e)) e

/-- `addMissingMatchers` -/
def addMissing (ms extra : List Matcher) : List Matcher :=
  extra.foldl (fun acc e => if acc.contains e then acc else acc ++ [e]) ms

def selName (s : VSel) : Option String :=
  ((s.matchers.filter (fun m => isNameMatcher m && m.ty == .eq)).head?).map (·.value)

/-- `propagateMatchers` on one binary expression whose sides are already rewritten -/
def propBin (op : String) (b : Bool) (m : Matching) (l r : Expr V) : Expr V :=
  match l, r with
  | .vsel ls, .vsel rs =>
    if comparisonOps.contains op || m.on || !m.labels.isEmpty || m.card != .oneToOne
        || ls.filters.isSome || rs.filters.isSome || selName ls == selName rs then
      .bin op b m l r
    else
      let lx := ls.matchers.filter (fun x => !isNameMatcher x)
      let rx := rs.matchers.filter (fun x => !isNameMatcher x)
      .bin op b m (.vsel { ls with matchers := addMissing ls.matchers rx })
                  (.vsel { rs with matchers := addMissing rs.matchers lx })
  | _, _ => .bin op b m l r

/-- `PropagateMatchersOptimizer` -/
def optPropagate : Expr V → Expr V
  | .bin op b m l r => propBin op b m (optPropagate l) (optPropagate r)
  | .stepInv e =>
    -- `transform(&node.Expr)`: the direct child only, no further descent
    match e with
    | .bin op b m l r => .stepInv (propBin op b m l r)
    | e => .stepInv e
  | .agg op w g e => .agg op w g (optPropagate e)
  | .aggP op w g p e => .aggP op w g p (optPropagate e)
  | .call fn args => .call fn (propArgs args)
  | .neg e => .neg (optPropagate e)
  | .pos e => .pos (optPropagate e)
  | .paren e => .paren (optPropagate e)
  | .subq e => .subq (optPropagate e)
  | e => e
where
  propArgs : List (Expr V) → List (Expr V)
    | [] => []
    | a :: as => optPropagate a :: propArgs as

def applyOptimizers (names : List String) (e : Expr V) : Expr V :=
  names.foldl (fun e n =>
    match n with
    | "sort" => optSortMatchers e
    | "merge" => optMergeSelects e
    | "prop" => optPropagate e
    | _ => e) e

end PromqlVerif
