/-
Batch-level (Volcano pull) execution of a physical plan. The rest of the model works with
per-step semantics (`OpSem.step t`); the engine's operators exchange *batches* of up to
`stepsBatch` step vectors through `Next`, every operator pulling its children and pairing their
step vectors **by position**. This file models that: a plan is a tree whose nodes are the pull
patterns of the engine's operators, its state (cursors, the step-invariant cache) lives in the tree,
and `next` returns the batch (or `none` for a nil batch = end of stream) together with the
successor tree. `Proofs/StreamsProof.lean` shows that for a plan whose leaves share the query
window the pull execution is exactly the per-step denotation on the step grid, cut into batches.

Pull patterns (payload type `α`: whatever a step vector carries):
* `leaf`  - selectors, literals (`vector_selector.go`, `matrix_selector.go`, `literal_selector.go`):
            own cursor; `if currentStep > maxt return nil`; up to `n` steps while `ts <= maxt`;
            the cursor advances by `step * n` (`n` = `Options.NumSteps()` or the batch size).
* `map`   - one child, step by step (`unary`, function without scalar arguments, aggregation
            without parameter, `exchange.concurrent` whose prefetching does not change what its
            consumer sees): nil in, nil out.
* `zip`   - `binary/vector.go`: pulls both children, nil if either side is
            nil or empty, otherwise pairs `lhs[i]` with `rhs[i]` for `i < len(rhs)` (the join table
            then drops right-hand samples whose timestamp differs from the left one's).
* `fn`    - `function/operator.go` with a scalar argument, `binary/scalar.go`, `aggregate` /
            `kAggregate` with a parameter, `function/histogram.go` (there the scalar child is the
            driver): pulls the driving child; nil/empty ends the stream *without pulling the other
            child*; otherwise pulls the other child and reads its i-th vector for the i-th vector
            of the driver.
* `co`    - `exchange/coalesce.go`: pulls all children; nil if all are nil; the output takes the
            timestamps of the first non-nil child and appends the others' samples by position.
* `inv`   - `step_invariant.go` with a cached result: own cursor; the child (planned over the
            one-step window `[pin, pin]`) is pulled once, its first step vector is repeated.
-/
import PromqlVerif.Basic
namespace PromqlVerif.Streams

structure Cfg where
  step : Int
  B : Nat

abbrev Batch (α : Type) := List (Int × α)

inductive Plan (α : Type) where
  /-- `n`: the operator's own steps-per-batch (`Options.NumSteps()` for the selectors, the batch
  size for the literal, `time()` and the step-invariant operator) -/
  | leaf (f : Int → α) (stop cur : Int) (n : Nat)
  | map (g : Int → α → α) (c : Plan α)
  | zip (g : Int → Int → α → α → α) (l r : Plan α)
  /-- `eoe`: an empty (non-nil) batch of the driver ends the stream (`len(vectors) == 0` in the
  function and histogram operators) rather than being passed on (`in == nil` in the others) -/
  | fn (eoe : Bool) (g : Int → α → Option α → α) (v s : Plan α)
  | co (g : Int → Option α → Option α → α) (l r : Plan α)
  | inv (stop cur : Int) (cache : Option α) (dflt : α) (pin : Int) (c : Plan α)
  /-- a child that returns prescribed batches, whatever they are (used by the kernel-level
  correspondence, where the real operators are run over such children - aligned or not) -/
  | script (bs : List (Option (List (Int × α))))

variable {α : Type}

/-- pairing by position, the second list padded with `none` -/
def pairOpt : Batch α → Batch α → List (Int × α × Option α)
  | [], _ => []
  | (t, a) :: xs, [] => (t, a, none) :: pairOpt xs []
  | (t, a) :: xs, (_, b) :: ys => (t, a, some b) :: pairOpt xs ys

/-- `lhs[i]`, `rhs[i]` for `i < len(rhs)`; the output is stamped with the left timestamp, and the
per-step function sees both (the join table of `binary/table.go` ignores right-hand samples whose
step timestamp is not the left one's) -/
def zipPos (g : Int → Int → α → α → α) (x y : Batch α) : Batch α :=
  List.zipWith (fun p q => (p.1, g p.1 q.1 p.2 q.2)) x y

def next (k : Cfg) : Plan α → Option (Batch α) × Plan α
  | .leaf f stop cur n =>
    if stop < cur then (none, .leaf f stop cur n)
    else (some ((walk stop k.step n cur).map fun t => (t, f t)), .leaf f stop (cur + k.step * n) n)
  | .map g c =>
    match next k c with
    | (none, c') => (none, .map g c')
    | (some b, c') => (some (b.map fun p => (p.1, g p.1 p.2)), .map g c')
  | .zip g l r =>
    match next k l, next k r with
    | (some x, l'), (some y, r') =>
      if x.isEmpty || y.isEmpty then (none, .zip g l' r') else (some (zipPos g x y), .zip g l' r')
    | (_, l'), (_, r') => (none, .zip g l' r')
  | .fn eoe g v s =>
    match next k v with
    | (none, v') => (none, .fn eoe g v' s)
    | (some x, v') =>
      if x.isEmpty && eoe then (none, .fn eoe g v' s)
      else
        match next k s with
        | (b, s') => (some ((pairOpt x (b.getD [])).map fun p => (p.1, g p.1 p.2.1 p.2.2)), .fn eoe g v' s')
  | .co g l r =>
    match next k l, next k r with
    | (none, l'), (none, r') => (none, .co g l' r')
    | (some x, l'), (none, r') => (some (x.map fun p => (p.1, g p.1 (some p.2) none)), .co g l' r')
    | (none, l'), (some y, r') => (some (y.map fun p => (p.1, g p.1 none (some p.2))), .co g l' r')
    | (some x, l'), (some y, r') =>
      (some ((pairOpt x y).map fun p => (p.1, g p.1 (some p.2.1) p.2.2)), .co g l' r')
  | .inv stop cur cache dflt pin c =>
    if stop < cur then (none, .inv stop cur cache dflt pin c)
    else
      match cache with
      | some v =>
        let ts := walk stop k.step k.B cur
        (some (ts.map fun t => (t, v)), .inv stop (cur + k.step * ts.length) (some v) dflt pin c)
      | none =>
        match next k c with
        | (b, c') =>
          let v := match b with
            | some (p :: _) => p.2
            | _ => dflt
          let ts := walk stop k.step k.B cur
          (some (ts.map fun t => (t, v)), .inv stop (cur + k.step * ts.length) (some v) dflt pin c')
  | .script [] => (none, .script [])
  | .script (b :: bs) => (b, .script bs)

/-- the first `n` calls of `Next` -/
def run (k : Cfg) : Nat → Plan α → List (Option (Batch α))
  | 0, _ => []
  | n + 1, p => (next k p).1 :: run k n (next k p).2

/-- per-step denotation: what the operator's step vector at `t` carries -/
def den (dflt0 : α) : Plan α → Int → α
  | .leaf f _ _ _, t => f t
  | .map g c, t => g t (den dflt0 c t)
  | .zip g l r, t => g t t (den dflt0 l t) (den dflt0 r t)
  | .fn _ g v s, t => g t (den dflt0 v t) (some (den dflt0 s t))
  | .co g l r, t => g t (some (den dflt0 l t)) (some (den dflt0 r t))
  | .inv _ _ cache _ pin c, _ =>
    match cache with
    | some v => v
    | none => den dflt0 c pin
  | .script _, _ => dflt0

/-- a cursor agrees with the window's cursor: equal, or both past the end -/
def At (stop cur x : Int) : Prop := x = cur ∨ (stop < x ∧ stop < cur)

/-- every leaf (and every step-invariant operator) works on the window that ends at `stop` and
stands at `cur`, and a leaf whose own steps-per-batch is smaller than the batch size finishes the
window with its next batch (`NumSteps()` = the total number of steps when that is smaller); the child
of a step-invariant operator that has not been read yet stands at the
start of its one-step window -/
def Al (k : Cfg) (stop cur : Int) : Plan α → Prop
  | .leaf _ s c n => s = stop ∧ At stop cur c ∧ (n = k.B ∨ (n ≤ k.B ∧ stop < c + k.step * n))
  | .map _ c => Al k stop cur c
  | .zip _ l r => Al k stop cur l ∧ Al k stop cur r
  | .fn _ _ v s => Al k stop cur v ∧ Al k stop cur s
  | .co _ l r => Al k stop cur l ∧ Al k stop cur r
  | .inv s c cache _ pin ch => s = stop ∧ At stop cur c ∧ (cache.isSome = true ∨ Al k pin pin ch)
  | .script _ => False

/-- the batch the per-step semantics prescribes at cursor `cur` -/
def out (k : Cfg) (stop cur : Int) (d : Int → α) : Option (Batch α) :=
  if stop < cur then none else some ((walk stop k.step k.B cur).map fun t => (t, d t))

/-- the indexing the operators do **without** a bounds check stays in range during this call of
`Next`: the function operator reads `scalars[i]` for every vector `i` whenever the scalar batch is
not empty (`function/operator.go`), the coalesce appends to `out[i]`, `out` having the length of
whichever non-empty batch arrived first (`exchange/coalesce.go`), and the operators with a worker
per step of the batch hand vector `i` to `workers[i]`, of which there are `B` (`unary`,
`aggregate`). A violation is a runtime panic - inside a coalesce goroutine or the Exec goroutine
it becomes the query's error, inside `exchange.concurrent`'s puller as well; C13 is about the rest. -/
def safeNow (k : Cfg) : Plan α → Bool
  | .leaf _ _ _ _ => true
  | .map _ c =>
    safeNow k c && (match (next k c).1 with
      | some b => decide (b.length ≤ k.B)
      | none => true)
  | .zip _ l r => safeNow k l && safeNow k r
  | .fn eoe _ v s =>
    safeNow k v && (match (next k v).1 with
      | none => true
      | some x =>
        if x.isEmpty && eoe then true
        else safeNow k s && (match (next k s).1 with
          | some b => b.isEmpty || decide (x.length ≤ b.length)
          | none => true))
  | .co _ l r =>
    safeNow k l && safeNow k r && (match (next k l).1, (next k r).1 with
      | some x, some y => x.isEmpty || y.isEmpty || decide (x.length = y.length)
      | _, _ => true)
  | .inv _ _ cache _ _ c => cache.isSome || safeNow k c
  | .script _ => true

/-- every one of the first `n` calls is safe -/
def runSafe (k : Cfg) : Nat → Plan α → Bool
  | 0, _ => true
  | n + 1, p => safeNow k p && runSafe k n (next k p).2

end PromqlVerif.Streams
