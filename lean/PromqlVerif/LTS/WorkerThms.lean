/-
Kernel-checked exhaustive reachability for the worker-group protocol, instantiated with the
channel capacities the extractor read off /repo's working tree (`Gen.Facts.workerChanCaps`).
-/
import PromqlVerif.LTS.Worker
import PromqlVerif.Gen.Facts
namespace PromqlVerif.LTS.Worker

/-- the protocol the code has now (`input`, `output` in the order `worker.New` makes them) -/
def feat : Features :=
  { capIn := Gen.workerChanCaps.getD 0 0, capOut := Gen.workerChanCaps.getD 1 0, envCancels := true,
    -- `Worker.start` sends its result with a plain `w.output <- ..` (regenerated: [plain sends,
    -- sends that are an arm of a select])
    sendGivesUp := Gen.workerOutputSends != [1, 0] }

def explored (f : Features) : List Nat := explore (sys f) 400 [(sys f).init] [(sys f).init]

theorem explored_closed : closed (sys feat) (explored feat) = true := by decide +kernel

/-- **No deadlock, no leaked worker, for every schedule and every moment of cancellation**: a
reachable state without successor has the consumer returned and both workers exited -/
theorem no_deadlock : ∀ s, Reach (sys feat) s → noDeadlock feat s = true :=
  invariant_of_closed (sys feat) (explored feat) (noDeadlock feat) explored_closed (by decide +kernel)

/-- **No channel misuse**: no send on a closed channel and no double close, whenever the context
is cancelled -/
theorem no_crash : ∀ s, Reach (sys feat) s → noCrash s = true :=
  invariant_of_closed (sys feat) (explored feat) noCrash explored_closed (by decide +kernel)

/-- the zero value of a closed `output` is only read after cancellation -/
theorem zero_only_after_cancel : ∀ s, Reach (sys feat) s → zeroOnlyAfterCancel s = true :=
  invariant_of_closed (sys feat) (explored feat) zeroOnlyAfterCancel explored_closed (by decide +kernel)

/-- with an unbuffered `input` the consumer can block forever: it passes the `ctx.Done()` check of
`Send`, the context is cancelled, the worker exits, the send never completes -/
theorem deadlock_with_unbuffered_input :
    (explored { feat with capIn := 0 }).all (noDeadlock { feat with capIn := 0 }) = false := by decide +kernel

/-- a worker that gives up its hand-off on cancellation, without closing `output`, leaves a consumer
that has passed the `ctx.Done()` check of `GetOutput` waiting for ever (the shape of a seeded
change) -/
theorem deadlock_when_the_handoff_gives_up :
    (explored { feat with sendGivesUp := true }).all (noDeadlock { feat with sendGivesUp := true }) = false := by
  decide +kernel

/-- a batch can contain the zero value of a closed `output`: the consumer passes the `ctx.Done()`
check of `GetOutput`, the context is cancelled, the worker closes `output` and exits, the receive
yields the zero step vector (DESIGN.md, model-level observation M2: the callers above re-check the
context before they ask for the next batch, so the query still ends with the context's error
unless this was the very last receive of the last batch) -/
theorem zero_value_batch_possible :
    (explored feat).any (fun s => !cleanEndHasNoZero s) = true := by decide +kernel

/-- the system is non-trivial: both a clean end and an error return are reachable -/
theorem both_outcomes_reachable :
    (explored feat).any (fun n => (decode n).cons == 9 && !(decode n).zero) = true ∧
    (explored feat).any (fun n => (decode n).cons == 8) = true := by decide +kernel

end PromqlVerif.LTS.Worker
