/-
The worker group of the hash aggregation (worker/worker.go driven by
execution/aggregate/hashaggregate.go Next) as a transition system: a consumer that, per batch,
sends one step to every worker and then collects one output from every worker; two workers with
their `input` / `output` channels; the context, which the environment may cancel at any moment
and which `Exec` cancels when the consumer returns.
-/
import PromqlVerif.LTS.Core
namespace PromqlVerif.LTS.Worker

structure Features where
  capIn : Nat       -- capacity of `Worker.input`
  capOut : Nat      -- capacity of `Worker.output`
  envCancels : Bool
  /-- the worker's hand-off of a result is one arm of a select with `ctx.Done()` and gives up on
  cancellation without closing `output` (not what the code does; a regenerated fact says which) -/
  sendGivesUp : Bool := false
deriving Repr, DecidableEq

structure W where
  st : Nat          -- 0 at the select, 1 holding a result to send, 2 exited
  inQ : Nat
  inClosed : Bool
  outQ : Nat
  outClosed : Bool
deriving DecidableEq, Repr, Inhabited

structure St where
  cons : Nat        -- 0..3 Send to w0/w1 (check, send), 4..7 GetOutput from w0/w1 (check, receive), 8 error, 9 end
  batches : Nat
  w0 : W
  w1 : W
  cancelled : Bool
  zero : Bool       -- the consumer read the zero value of a closed output
  crash : Bool
deriving DecidableEq, Repr, Inhabited

def b2n (b : Bool) : Nat := if b then 1 else 0

def encW (w : W) : Nat := (((b2n w.outClosed * 3 + w.outQ) * 2 + b2n w.inClosed) * 3 + w.inQ) * 3 + w.st
def decW (n : Nat) : W :=
  let st := n % 3; let n := n / 3
  let inQ := n % 3; let n := n / 3
  let inClosed := n % 2 == 1; let n := n / 2
  let outQ := n % 3; let n := n / 3
  { st, inQ, inClosed, outQ, outClosed := n % 2 == 1 }

def encode (s : St) : Nat :=
  (((((b2n s.crash * 2 + b2n s.zero) * 2 + b2n s.cancelled) * 108 + encW s.w1) * 108 + encW s.w0) * 3 + s.batches) * 10 + s.cons

def decode (n : Nat) : St :=
  let cons := n % 10; let n := n / 10
  let batches := n % 3; let n := n / 3
  let w0 := decW (n % 108); let n := n / 108
  let w1 := decW (n % 108); let n := n / 108
  let cancelled := n % 2 == 1; let n := n / 2
  let zero := n % 2 == 1; let n := n / 2
  { cons, batches, w0, w1, cancelled, zero, crash := n % 2 == 1 }

def initW : W := { st := 0, inQ := 0, inClosed := false, outQ := 0, outClosed := false }
def initSt : St := { cons := 0, batches := 2, w0 := initW, w1 := initW, cancelled := false, zero := false, crash := false }

/-- `Worker.start`'s loop -/
def stepW (f : Features) (cancelled : Bool) (w : W) : List (W × Bool) :=
  match w.st with
  | 0 =>
    (if cancelled then [({ w with st := 2, outClosed := true }, w.outClosed)] else [])
    ++ (if w.inQ > 0 then [({ w with inQ := w.inQ - 1, st := 1 }, false)] else [])
    ++ (if w.inClosed && w.inQ == 0 then [({ w with st := 2 }, false)] else [])
  | 1 =>
    (if f.sendGivesUp && cancelled then [({ w with st := 2 }, false)] else [])
    ++ (if w.outClosed then [(w, true)]
        else if w.outQ < f.capOut then [({ w with outQ := w.outQ + 1, st := 0 }, false)]
        else [])
  | _ => []

/-- `Worker.Send` (check at `chk`, channel send at `chk + 1`) and `Worker.GetOutput` -/
def stepCons (f : Features) (s : St) : List St :=
  let setW := fun (i : Nat) (w : W) => if i == 0 then { s with w0 := w } else { s with w1 := w }
  let getW := fun (i : Nat) => if i == 0 then s.w0 else s.w1
  let ret := fun (s : St) (c : Nat) => { s with cons := c, cancelled := true }
  match s.cons with
  | 0 | 2 =>
    let i := s.cons / 2
    let w := getW i
    if s.cancelled then
      if w.inClosed then [{ s with crash := true }]
      else [ret (setW i { w with inClosed := true }) 8]
    else [{ s with cons := s.cons + 1 }]
  | 1 | 3 =>
    let i := s.cons / 2
    let w := getW i
    if w.inClosed then [{ s with crash := true }]
    else if w.inQ < f.capIn then [{ setW i { w with inQ := w.inQ + 1 } with cons := s.cons + 1 }]
    else if f.capIn == 0 && w.st == 0 && !s.cancelled then
      -- unbuffered hand-off to a worker waiting at its select
      [{ setW i { w with st := 1 } with cons := s.cons + 1 }]
    else []
  | 4 | 6 =>
    if s.cancelled then [ret s 8] else [{ s with cons := s.cons + 1 }]
  | 5 | 7 =>
    let i := (s.cons - 4) / 2
    let w := getW i
    let next := fun (s : St) =>
      if s.cons == 7 then
        if s.batches ≤ 1 then ret { s with batches := 0 } 9 else { s with batches := s.batches - 1, cons := 0 }
      else { s with cons := 6 }
    if w.outQ > 0 then [next (setW i { w with outQ := w.outQ - 1 })]
    else if w.outClosed then [next { s with zero := true }]
    else []
  | _ => []

def stepSt (f : Features) (s : St) : List St :=
  if s.crash then [] else
  (if s.cancelled || !f.envCancels then [] else [{ s with cancelled := true }])
  ++ stepCons f s
  ++ (stepW f s.cancelled s.w0).map (fun (w, c) => { s with w0 := w, crash := s.crash || c })
  ++ (stepW f s.cancelled s.w1).map (fun (w, c) => { s with w1 := w, crash := s.crash || c })

def sys (f : Features) : Sys :=
  { init := encode initSt, step := fun n => (stepSt f (decode n)).map encode }

/-- a state without successors is acceptable when the consumer has returned and both workers
have exited -/
def quiescent (s : St) : Bool := (s.cons == 8 || s.cons == 9) && s.w0.st == 2 && s.w1.st == 2

def noDeadlock (f : Features) (n : Nat) : Bool :=
  let s := decode n
  s.crash || !(stepSt f s).isEmpty || quiescent s

def noCrash (n : Nat) : Bool := !(decode n).crash

/-- the zero value of a closed output channel is only ever read after the context was cancelled -/
def zeroOnlyAfterCancel (n : Nat) : Bool :=
  let s := decode n
  !s.zero || s.cancelled

/-- the consumer reports a clean end only if no zero value was read - violated in the model when
cancellation races with the last `GetOutput` (same flavour as observation M1) -/
def cleanEndHasNoZero (n : Nat) : Bool :=
  let s := decode n
  !(s.cons == 9 && s.zero)

end PromqlVerif.LTS.Worker
