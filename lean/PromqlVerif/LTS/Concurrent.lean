/-
The `concurrencyOperator` (execution/exchange/concurrent.go) as a transition system:
consumer (`Next`), the pull goroutine, the drain goroutine, the buffered channel, the
context, and a child operator that returns batches, the end of its stream, an error or a
panic at its own pace. Parametric in the features the extractor reads off the source.
-/
import PromqlVerif.LTS.Core
namespace PromqlVerif.LTS.Concurrent

structure Features where
  cap : Nat            -- capacity of `buffer`
  hasDrain : Bool      -- `go c.drainBufferOnCancel(ctx)` exists
  recovers : Bool      -- `pull` has a deferred recover that forwards the panic as an error
  closesOnReturn : Bool -- `defer close(c.buffer)` in `pull`
  envCancels : Bool    -- the environment may cancel the context at any moment
  sendsBlock : Bool := true  -- every `c.buffer <- x` in `pull` is a plain (blocking) send
deriving Repr, DecidableEq

/-- items travelling through the channel -/
inductive Item | batch | err | ctxErr
deriving DecidableEq, Repr, Inhabited

structure St where
  cons : Nat      -- 0 idle, 1 blocked in receive, 2 returned an error, 3 returned end-of-stream
  res : Nat       -- what the consumer returned last: 0 none, 1 batch, 2 child error, 3 ctx error, 4 end
  started : Bool
  pull : Nat      -- 0 loop top, 1 in child.Next, 2 sending batch, 3 sending err, 4 sending ctx err, 5 done
  drain : Nat     -- 0 waiting for Done, 1 draining, 2 done
  buf : List Item
  closed : Bool
  cancelled : Bool
  childLeft : Nat -- batches the child still has
  childErrored : Bool
  crash : Bool    -- process death (unrecovered panic) or send on closed channel
deriving DecidableEq, Repr, Inhabited

def itemCode : Item → Nat | .batch => 0 | .err => 1 | .ctxErr => 2
def itemOf : Nat → Item | 0 => .batch | 1 => .err | _ => .ctxErr

def encBuf : List Item → Nat
  | [] => 0
  | x :: xs => 1 + itemCode x + 3 * encBuf xs

def decBuf : Nat → Nat → List Item
  | 0, _ => []
  | _, 0 => []
  | fuel + 1, n + 1 => itemOf (n % 3) :: decBuf fuel (n / 3)

def b2n (b : Bool) : Nat := if b then 1 else 0

def encode (s : St) : Nat :=
  ((((((((((b2n s.crash * 2 + b2n s.childErrored) * 4 + s.childLeft) * 2 + b2n s.cancelled) * 2 + b2n s.closed)
    * 128 + encBuf s.buf) * 3 + s.drain) * 6 + s.pull) * 2 + b2n s.started) * 5 + s.res) * 4 + s.cons)

def decode (n : Nat) : St :=
  let cons := n % 4; let n := n / 4
  let res := n % 5; let n := n / 5
  let started := n % 2 == 1; let n := n / 2
  let pull := n % 6; let n := n / 6
  let drain := n % 3; let n := n / 3
  let buf := decBuf 8 (n % 128); let n := n / 128
  let closed := n % 2 == 1; let n := n / 2
  let cancelled := n % 2 == 1; let n := n / 2
  let childLeft := n % 4; let n := n / 4
  let childErrored := n % 2 == 1; let n := n / 2
  let crash := n % 2 == 1
  { cons, res, started, pull, drain, buf, closed, cancelled, childLeft, childErrored, crash }

def initSt : St :=
  { cons := 0, res := 0, started := false, pull := 0, drain := 0, buf := [], closed := false,
    cancelled := false, childLeft := 3, childErrored := false, crash := false }

/-- `c.buffer <- x` -/
def send (f : Features) (s : St) (x : Item) (after : Nat) : List St :=
  if s.closed then [{ s with crash := true }]
  else if s.buf.length < f.cap then
    let s' := { s with buf := s.buf ++ [x], pull := after }
    if after == 5 && f.closesOnReturn then [{ s' with closed := true }] else [s']
  else if !f.sendsBlock then
    -- `select { case c.buffer <- x: default: }`: a full buffer drops the item
    let s' := { s with pull := after }
    if after == 5 && f.closesOnReturn then [{ s' with closed := true }] else [s']
  else []

def stepSt (f : Features) (s : St) : List St :=
  if s.crash then [] else
  -- the environment cancels the context (timeout, Cancel(), parent returning)
  (if s.cancelled || !f.envCancels then [] else [{ s with cancelled := true }])
  -- consumer
  ++ (match s.cons with
      | 0 =>
        if s.cancelled then [{ s with cons := 2, res := 3 }]
        else [{ s with cons := 1, started := true }]
      | 1 =>
        match s.buf with
        | .batch :: rest => [{ s with buf := rest, cons := 0, res := 1 }]
        | .err :: rest => [{ s with buf := rest, cons := 2, res := 2, cancelled := true }]
        | .ctxErr :: rest => [{ s with buf := rest, cons := 2, res := 3, cancelled := true }]
        | [] => if s.closed then [{ s with cons := 3, res := 4, cancelled := true }] else []
      | _ => [])
  -- pull goroutine
  ++ (if !s.started then [] else
      match s.pull with
      | 0 => if s.cancelled then [{ s with pull := 4 }] else [{ s with pull := 1 }]
      | 1 =>
        -- the child returns a batch / the end of its stream / an error, or panics
        (if s.childLeft > 0 then [{ s with pull := 2, childLeft := s.childLeft - 1 }]
         else [if f.closesOnReturn then { s with pull := 5, closed := true } else { s with pull := 5 }])
        ++ [{ s with pull := 3, childErrored := true }]
        ++ [if f.recovers then { s with pull := 3, childErrored := true } else { s with crash := true }]
      | 2 => send f s .batch 0
      | 3 => send f s .err 5
      | 4 => send f s .ctxErr 5
      | _ => [])
  -- drain goroutine
  ++ (if !s.started || !f.hasDrain then [] else
      match s.drain with
      | 0 => if s.cancelled then [{ s with drain := 1 }] else []
      | 1 =>
        match s.buf with
        | _ :: rest => [{ s with buf := rest }]
        | [] => if s.closed then [{ s with drain := 2 }] else []
      | _ => [])

def sys (f : Features) : Sys :=
  { init := encode initSt, step := fun n => (stepSt f (decode n)).map encode }

/-- a state without successors is acceptable when the consumer has returned and every goroutine
the operator started has terminated -/
def quiescent (f : Features) (s : St) : Bool :=
  (s.cons == 2 || s.cons == 3) && (!s.started || (s.pull == 5 && (!f.hasDrain || s.drain == 2)))

def noDeadlock (f : Features) (n : Nat) : Bool :=
  let s := decode n
  s.crash || !(stepSt f s).isEmpty || quiescent f s

def noCrash (n : Nat) : Bool := !(decode n).crash

/-- an error produced below is never turned into a successful end of stream, and after the
consumer has seen the end of the stream the child really ended -/
def errorNotSwallowed (n : Nat) : Bool :=
  let s := decode n
  !(s.res == 4 && s.childErrored)

/-- once the consumer returned, the context is cancelled (Exec cancels on return), so that the
goroutines can be released -/
def returnedImpliesCancelled (n : Nat) : Bool :=
  let s := decode n
  !(s.cons == 2 || s.cons == 3) || s.cancelled || !s.started

end PromqlVerif.LTS.Concurrent
