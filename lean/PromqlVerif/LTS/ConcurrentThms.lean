/-
Kernel-checked exhaustive reachability for the `concurrencyOperator` system, instantiated
with the features the extractor read off /repo's working tree (`Gen.Facts`).
-/
import PromqlVerif.LTS.Concurrent
import PromqlVerif.Gen.Facts
namespace PromqlVerif.LTS.Concurrent

def genCap : Nat := Gen.concurrentBufferCaps.foldl min 4

/-- the protocol the code has now -/
def feat : Features :=
  { cap := genCap
    hasDrain := Gen.concurrentHasDrain && Gen.drainWaitsThenRanges
    recovers := Gen.pullRecovers
    closesOnReturn := Gen.pullClosesOnReturn
    envCancels := true
    sendsBlock := Gen.pullSendsBlock }

def featNoCancel : Features := { feat with envCancels := false }

def explored (f : Features) : List Nat := explore (sys f) 200 [(sys f).init] [(sys f).init]

theorem explored_closed : closed (sys feat) (explored feat) = true := by decide +kernel
theorem explored_closed_nc : closed (sys featNoCancel) (explored featNoCancel) = true := by decide +kernel

/-- **No deadlock, for every schedule and every moment of cancellation**: a reachable state
without successor has the consumer returned, the pull goroutine finished and the drain
goroutine finished. -/
theorem no_deadlock : ∀ s, Reach (sys feat) s → noDeadlock feat s = true :=
  invariant_of_closed (sys feat) (explored feat) (noDeadlock feat) explored_closed (by decide +kernel)

/-- **A panic below never kills the process** (the pull goroutine recovers and forwards it),
and the buffer is never written after it was closed. -/
theorem no_crash : ∀ s, Reach (sys feat) s → noCrash s = true :=
  invariant_of_closed (sys feat) (explored feat) noCrash explored_closed (by decide +kernel)

/-- when the consumer has returned for good, the context is cancelled, which releases the
goroutines (drain empties the buffer, pull observes `Done`) -/
theorem returned_implies_cancelled : ∀ s, Reach (sys feat) s → returnedImpliesCancelled s = true :=
  invariant_of_closed (sys feat) (explored feat) returnedImpliesCancelled explored_closed (by decide +kernel)

/-- **Error delivery**: as long as nobody cancels the context from outside, an error (or
recovered panic) of the child is what the consumer receives - never a clean end of stream. -/
theorem error_delivered_without_cancel :
    ∀ s, Reach (sys featNoCancel) s → errorNotSwallowed s = true :=
  invariant_of_closed (sys featNoCancel) (explored featNoCancel) errorNotSwallowed explored_closed_nc
    (by decide +kernel)

/-- ... but with cancellation in play the model has a schedule in which the drain goroutine
takes the error out of the buffer and the consumer sees a clean end of stream: the consumer
passed its `ctx.Done()` check, cancellation happens, `pull` sends and closes, `drain`
receives first (see DESIGN.md, "model-level observation M1"). -/
theorem swallow_after_cancel_possible :
    (explored feat).any (fun s => !errorNotSwallowed s) = true := by decide +kernel

/-- without the drain goroutine the pull goroutine can block forever on a full buffer -/
theorem deadlock_without_drain :
    (explored { feat with hasDrain := false }).all (noDeadlock { feat with hasDrain := false }) = false := by
  decide +kernel

/-- with a non-blocking send of the error (a `select` with `default`) a full buffer drops it and
the consumer sees a clean end of stream - even without any cancellation -/
theorem error_lost_with_nonblocking_send :
    (explored { featNoCancel with sendsBlock := false }).all errorNotSwallowed = false := by decide +kernel

/-- without the deferred recover a panic below kills the process -/
theorem crash_without_recover :
    (explored { feat with recovers := false }).all noCrash = false := by decide +kernel

end PromqlVerif.LTS.Concurrent
