/-
The fork-join of `coalesceOperator` (execution/exchange/coalesce.go, in `Next` and in `loadSeries`
alike): one goroutine per child operator; a child that fails - error or recovered panic - sends
its error into `errChan` and ends, a child that succeeds merges its result under the mutex and
ends; the parent waits for all of them (`wg.Wait()`), closes the channel and returns the first
error, if any. Three children, each free to succeed or fail, every interleaving.
-/
import PromqlVerif.LTS.Core
namespace PromqlVerif.LTS.ForkJoin

structure Features where
  /-- capacity of `errChan` -/
  cap : Nat
deriving Repr, DecidableEq

/-- a child goroutine: 0 in the child's `Next`/`Series`, 1 about to send its error, 2 about to take
the mutex, 3 inside the critical section, 4 done -/
structure St where
  c0 : Nat
  c1 : Nat
  c2 : Nat
  /-- errors in the channel -/
  q : Nat
  mutex : Bool
  /-- some child failed -/
  failed : Bool
  /-- parent: 0 in `wg.Wait()`, 1 returned an error, 2 returned a result -/
  parent : Nat
deriving DecidableEq, Repr, Inhabited

def b2n (b : Bool) : Nat := if b then 1 else 0

def encode (s : St) : Nat :=
  (((((s.parent * 2 + b2n s.failed) * 2 + b2n s.mutex) * 4 + s.q) * 5 + s.c2) * 5 + s.c1) * 5 + s.c0

def decode (n : Nat) : St :=
  let c0 := n % 5; let n := n / 5
  let c1 := n % 5; let n := n / 5
  let c2 := n % 5; let n := n / 5
  let q := n % 4; let n := n / 4
  let mutex := n % 2 == 1; let n := n / 2
  let failed := n % 2 == 1; let n := n / 2
  { c0, c1, c2, q, mutex, failed, parent := n % 3 }

def initSt : St := { c0 := 0, c1 := 0, c2 := 0, q := 0, mutex := false, failed := false, parent := 0 }

/-- one child's moves: (new child state, new queue, new mutex, failed now) -/
def stepChild (f : Features) (s : St) (c : Nat) : List (Nat × Nat × Bool × Bool) :=
  match c with
  | 0 => [(1, s.q, s.mutex, true), (2, s.q, s.mutex, s.failed)]       -- the child call fails / succeeds
  | 1 => if s.q < f.cap then [(4, s.q + 1, s.mutex, s.failed)] else []  -- `errChan <- err` blocks when full
  | 2 => if s.mutex then [] else [(3, s.q, true, s.failed)]
  | 3 => [(4, s.q, false, s.failed)]
  | _ => []

def stepSt (f : Features) (s : St) : List St :=
  (stepChild f s s.c0).map (fun (c, q, m, fl) => { s with c0 := c, q := q, mutex := m, failed := fl })
  ++ (stepChild f s s.c1).map (fun (c, q, m, fl) => { s with c1 := c, q := q, mutex := m, failed := fl })
  ++ (stepChild f s s.c2).map (fun (c, q, m, fl) => { s with c2 := c, q := q, mutex := m, failed := fl })
  ++ (if s.parent == 0 && s.c0 == 4 && s.c1 == 4 && s.c2 == 4 then
        -- `wg.Wait()` returns; `close(errChan)`; `getError()`
        [{ s with parent := if s.q > 0 then 1 else 2 }]
      else [])

def sys (f : Features) : Sys :=
  { init := encode initSt, step := fun n => (stepSt f (decode n)).map encode }

/-- a state without successors has the parent returned -/
def noDeadlock (f : Features) (n : Nat) : Bool :=
  let s := decode n
  !(stepSt f s).isEmpty || s.parent != 0

/-- the parent returns a result only if no child failed -/
def errorNotLost (n : Nat) : Bool :=
  let s := decode n
  !(s.parent == 2 && s.failed)

def explored (f : Features) : List Nat := explore (sys f) 200 [(sys f).init] [(sys f).init]

end PromqlVerif.LTS.ForkJoin
