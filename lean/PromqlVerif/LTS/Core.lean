/-
Finite labelled transition systems with kernel-checked exhaustive reachability.
States are natural numbers; the explored set is a list validated by `decide`.
-/
namespace PromqlVerif.LTS

structure Sys where
  init : Nat
  step : Nat → List Nat

inductive Reach (S : Sys) : Nat → Prop
  | init : Reach S S.init
  | step {s t : Nat} : Reach S s → t ∈ S.step s → Reach S t

/-- breadth-first exploration (untrusted: its output is validated by `closed`) -/
def explore (S : Sys) : Nat → List Nat → List Nat → List Nat
  | 0, seen, _ => seen
  | fuel + 1, seen, frontier =>
    match frontier with
    | [] => seen
    | _ =>
      let next := (frontier.flatMap S.step).eraseDups.filter (fun t => !seen.contains t)
      explore S fuel (seen ++ next) next

def closed (S : Sys) (R : List Nat) : Bool :=
  R.contains S.init && R.all (fun s => (S.step s).all (fun t => R.contains t))

theorem reach_sound (S : Sys) (R : List Nat) (h : closed S R = true) :
    ∀ s, Reach S s → s ∈ R := by
  unfold closed at h
  simp only [Bool.and_eq_true, List.all_eq_true, List.contains_eq_mem, decide_eq_true_eq] at h
  intro s hs
  induction hs with
  | init => exact h.1
  | step _ ht ih => exact h.2 _ ih _ ht

/-- an invariant that holds on a closed set holds on every reachable state -/
theorem invariant_of_closed (S : Sys) (R : List Nat) (P : Nat → Bool)
    (hc : closed S R = true) (hp : R.all P = true) : ∀ s, Reach S s → P s = true := by
  intro s hs
  have := reach_sound S R hc s hs
  exact List.all_eq_true.mp hp s this

end PromqlVerif.LTS
