/-
Kernel-checked exhaustive reachability of the coalesce fork-join, with the channel capacity the
extractor read off /repo's working tree.
-/
import PromqlVerif.LTS.ForkJoin
import PromqlVerif.Gen.Facts
namespace PromqlVerif.LTS.ForkJoin

/-- `make(errorChan, len(c.operators))` at every site means room for every child's error; anything
else is modelled as room for one -/
def feat : Features := { cap := if Gen.coalesceErrChanCaps.all (· == "len(c.operators)") then 3 else 1 }

theorem explored_closed : closed (sys feat) (explored feat) = true := by decide +kernel

/-- **the fork-join never gets stuck**: whichever children fail, in whatever order, every schedule
ends with the parent returned -/
theorem no_deadlock : ∀ s, Reach (sys feat) s → noDeadlock feat s = true :=
  invariant_of_closed (sys feat) (explored feat) (noDeadlock feat) explored_closed (by decide +kernel)

/-- **no error is lost**: if any child failed the parent returns an error -/
theorem error_not_lost : ∀ s, Reach (sys feat) s → errorNotLost s = true :=
  invariant_of_closed (sys feat) (explored feat) errorNotLost explored_closed (by decide +kernel)

/-- with room for one error only, two failing children block the second sender for ever and
`wg.Wait()` never returns (the shape of a seeded change) -/
theorem deadlock_with_capacity_one :
    (explored { cap := 1 }).all (noDeadlock { cap := 1 }) = false := by decide +kernel

/-- non-trivial: both outcomes are reachable -/
theorem both_outcomes_reachable :
    (explored feat).any (fun n => (decode n).parent == 1) = true ∧
    (explored feat).any (fun n => (decode n).parent == 2) = true := by decide +kernel

end PromqlVerif.LTS.ForkJoin
