/-
The accumulators of the hash aggregation (`aggregate/scalar_table.go`, `makeAccumulatorFunc`) as
they are written: one mutable accumulator per group and per position in the batch, created once
and reused for every batch; `Reset(arg)` at the start of a step, `AddFunc` per member, then
`HasValue` / `ValueFunc`. The record holds the variables of all the closures; every aggregation
touches only its own.
-/
import PromqlVerif.Eng
namespace PromqlVerif
open Val

variable {V : Type} [Val V]

structure Acc (V : Type) where
  hasValue : Bool
  value : V
  count : V
  mean : V
  sum : V
  arg : V
  points : List V

/-- `Reset(arg)` -/
def Acc.reset (op : String) (a : Acc V) (arg : V) : Acc V :=
  match op with
  | "sum" | "max" | "min" | "count" => { a with hasValue := false, value := zero }
  | "avg" => { a with hasValue := false, mean := zero, count := zero }
  | "group" => { a with hasValue := false }
  | "stddev" | "stdvar" => { a with hasValue := false, count := zero, mean := zero, value := zero }
  | "quantile" => { a with hasValue := false, arg := arg, points := [] }
  | _ => a

/-- `AddFunc(v)` -/
def Acc.feed (op : String) (a : Acc V) (v : V) : Acc V :=
  match op with
  | "sum" => { a with hasValue := true, value := add a.value v }
  | "max" => { a with hasValue := true, value := if !a.hasValue || lt a.value v || isNaN a.value then v else a.value }
  | "min" => { a with hasValue := true, value := if !a.hasValue || gt a.value v || isNaN a.value then v else a.value }
  | "count" => { a with hasValue := true, value := add a.value one }
  | "avg" =>
    let r := addToMean (a.mean, a.count) v
    { a with hasValue := true, count := r.2, mean := r.1 }
  | "group" => { a with hasValue := true }
  | "stddev" | "stdvar" =>
    if !a.hasValue then { a with hasValue := true, count := one, mean := v, value := zero }
    else
      let count := add a.count one
      let delta := sub v a.mean
      let mean := add a.mean (div delta count)
      { a with count := count, mean := mean, value := add a.value (mul delta (sub v mean)) }
  | "quantile" => { a with hasValue := true, points := a.points ++ [v] }
  | _ => a

/-- `ValueFunc()` -/
def Acc.val (op : String) (a : Acc V) : V :=
  match op with
  | "sum" | "max" | "min" | "count" => a.value
  | "avg" => a.mean
  | "group" => one
  | "stddev" => sqrt (div a.value a.count)
  | "stdvar" => div a.value a.count
  | "quantile" => quantileK a.arg a.points
  | _ => nan

/-- one step of one group on a reused accumulator: `Reset(arg)`, then the members in order;
`none` when `HasValue()` is false -/
def Acc.run (op : String) (a : Acc V) (arg : V) (vals : List V) : Acc V × Option V :=
  let a' := vals.foldl (Acc.feed op) (a.reset op arg)
  (a', if a'.hasValue then some (a'.val op) else none)

/-- a group's accumulator along the steps that fall on its batch position: the state is threaded
through, each step's output is what `toVector` reads -/
def Acc.runs (op : String) : Acc V → List (V × List V) → List (Option V)
  | _, [] => []
  | a, (arg, vals) :: rest =>
    let (a', out) := a.run op arg vals
    out :: Acc.runs op a' rest

end PromqlVerif
