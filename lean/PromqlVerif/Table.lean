/-
`binary/table.go` as it is written: one table of output slots per operator, reused for every
step; a slot is "filled at this step" when its timestamp tag equals the step's timestamp
(`lhT`, `rhT`; `noTimestamp` initially), so nothing is cleared between steps.
`Eng.engVectorBinop` models a step with a fresh table; `Proofs/TableProof.lean` shows the two
agree along strictly increasing step timestamps.
-/
import PromqlVerif.Eng
namespace PromqlVerif
open Val

variable {V : Type} [Val V]

structure Slot (V : Type) where
  /-- `lhT`; `none` = `noTimestamp` -/
  lhT : Option Int
  rhT : Option Int
  v : V

abbrev Tbl (V : Type) := List (Slot V)

/-- `newTable`: every slot untouched -/
def Tbl.new (n : Nat) : Tbl V := List.replicate n ⟨none, none, nan⟩

def Tbl.slot (t : Tbl V) (o : Nat) : Slot V := t.getD o ⟨none, none, nan⟩

/-- pass 1 for one left-hand sample and one of its output slots -/
def tagLhsStep (card : Card) (ts : Int) (t : Tbl V) (o : Nat) (xv : V) : Except Err (Tbl V) :=
  if card != .manyToOne && (t.slot o).lhT == some ts then .error .manyToMany
  else .ok (t.set o { t.slot o with lhT := some ts, v := xv })

/-- pass 2 for one right-hand sample and one of its output slots; the state is the table and
the step vector under construction -/
def tagRhsStep (op : String) (bool : Bool) (card : Card) (ts : Int) (st : Tbl V × IdVec V) (o : Nat) (xv : V) :
    Except Err (Tbl V × IdVec V) :=
  match st with
  | (t, out) =>
    let s := t.slot o
    if s.lhT != some ts then .ok (t, out)
    else if card != .oneToMany && s.rhT == some ts then .error .manyToMany
    else
      let t := t.set o { s with rhT := some ts }
      let (value, keep) := elemBinop op s.v xv
      if bool then .ok (t, out ++ [(o, ofBool keep)])
      else if keep then .ok (t, out ++ [(o, value)])
      else .ok (t, out)

/-- `execBinaryOperation(lhs, rhs)` for the step with timestamp `ts` on the reused table -/
def tagExec (op : String) (bool : Bool) (card : Card) (j : Join) (t : Tbl V) (ts : Int) (lhs rhs : IdVec V) :
    Except Err (Tbl V × IdVec V) :=
  match outerFold (tagLhsStep card ts) (lhsOutsOf card j) lhs (.ok t) with
  | .error e => .error e
  | .ok t1 => outerFold (tagRhsStep op bool card ts) (rhsOutsOf card j) rhs (.ok (t1, []))

/-- a whole query: the table threaded through the steps -/
def tagRun (op : String) (bool : Bool) (card : Card) (j : Join) :
    Tbl V → List (Int × IdVec V × IdVec V) → List (Except Err (IdVec V))
  | _, [] => []
  | t, (ts, lhs, rhs) :: rest =>
    match tagExec op bool card j t ts lhs rhs with
    | .error e => [.error e]          -- the operator returns the error; the query ends
    | .ok (t', out) => .ok out :: tagRun op bool card j t' rest

/-- a fresh table for every step (what `Eng.engVectorBinop` assumes), for the driver -/
def freshRunD (op : String) (bool : Bool) (card : Card) (j : Join) :
    List (Int × IdVec V × IdVec V) → List (Except Err (IdVec V))
  | [] => []
  | (_, lhs, rhs) :: rest =>
    match engVectorBinop op bool card j lhs rhs with
    | .error e => [.error e]
    | .ok out => .ok out :: freshRunD op bool card j rest

end PromqlVerif
