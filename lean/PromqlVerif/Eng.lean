/-
The engine's own semantics, operator by operator, at the level of one evaluation step:
every operator has a static series list (`Series()`) and, per step, a vector of
`(sample ID, value)` pairs indexing that list (`Next()` without the batching, which
`Ops.lean` treats separately). Written after the Go sources in `/repo/execution`.
-/
import PromqlVerif.Run
namespace PromqlVerif
open Val

variable {V : Type} [Val V]

abbrev IdVec (V : Type) := List (Nat × V)

/-- an operator: `Series()` and the per-step content of `Next()` -/
structure OpSem (V : Type) where
  series : List Labels
  step : Int → Except Err (IdVec V)

/-- functions in `function.Funcs` of the engine (regenerated into `Gen.Tables` and compared) -/
def engineFuncs : List String :=
  ["abs", "ceil", "exp", "floor", "sqrt", "ln", "log2", "log10", "sin", "cos", "tan", "asin",
   "acos", "atan", "sinh", "cosh", "tanh", "asinh", "acosh", "atanh", "rad", "deg", "timestamp",
   "pi", "sum_over_time", "max_over_time", "min_over_time", "avg_over_time", "stddev_over_time",
   "stdvar_over_time", "count_over_time", "last_over_time", "present_over_time", "time",
   "changes", "resets", "deriv", "irate", "idelta", "vector", "scalar", "rate", "delta",
   "increase", "clamp", "clamp_min", "clamp_max"]

def engineAccumulators : List String :=
  ["sum", "max", "min", "count", "avg", "group", "stddev", "stdvar", "quantile"]

def vectorizedAggs : List String := ["sum", "max", "min", "count", "avg", "group"]

def engineBinOps : List String := arithOps ++ comparisonOps

/-- the scalar operand of a step: first sample of the sibling's vector, NaN if there is none -/
def scalarOf (o : OpSem V) (t : Int) : Except Err V := do
  let xs ← o.step t
  pure (match xs with
    | x :: _ => x.2
    | [] => nan)

def enumFrom {α : Type} (n : Nat) : List α → List (Nat × α)
  | [] => []
  | x :: xs => (n, x) :: enumFrom (n + 1) xs

def enum {α : Type} (xs : List α) : List (Nat × α) := enumFrom 0 xs

def engSelector (c : Ctx V) (s : VSel) (timestamps : Bool) : OpSem V :=
  let ms := matchingSeries c s
  { series := ms.map (·.labels)
    step := fun t =>
      let ref := t - s.offsetAt c.start
      .ok ((enum ms).filterMap fun (i, sr) =>
        (selectSample c.lookback ref sr.samples).map fun p =>
          (i, if timestamps then div (ofInt p.1) (ofInt 1000) else p.2)) }

def engRangeFn (c : Ctx V) (fn : String) (s : VSel) (range : Int) : OpSem V :=
  let ms := matchingSeries c s
  { series := ms.map fun sr => if fn == "last_over_time" then sr.labels else sr.labels.dropName
    step := fun t =>
      let maxt := t - s.offsetAt c.start
      let mint := maxt - range
      .ok ((enum ms).filterMap fun (i, sr) =>
        (rangeKernel fn (windowPoints mint maxt sr.samples) mint maxt (rangeSeconds range)).map
          fun v => (i, v)) }

def constOp (f : Int → V) : OpSem V :=
  { series := [[]], step := fun t => .ok [(0, f t)] }

/-- static grouping of a series list: `(group id per input series, group labels)`, groups in order
of first appearance (`initializeScalarTables`: `inputCache`, `outputCache`) -/
def staticGroups (key : Labels → Labels) (out : Labels → Labels) (series : List Labels) :
    List Nat × List Labels :=
  let keys := dedup (series.map key)
  (series.map fun ls => keys.idxOf (key ls),
   keys.map fun k => match series.find? (fun ls => key ls == k) with
     | some ls => out ls
     | none => [])

/-- `addToMean` (aggregate/vector_table.go): the count has been raised already; the first value is
the mean, every later one moves it as in the Prometheus engine -/
def addToMean (acc : V × V) (v : V) : V × V :=
  let cnt := add acc.2 one
  if eq cnt one then (v, cnt) else meanUpd acc v

/-- the engine's accumulators (`scalar_table.go`), folding the members in sample order -/
def engReduce (op : String) (param : V) (vals : List V) : V :=
  match op with
  | "sum" => vals.foldl add zero
  | "avg" => (vals.foldl addToMean (zero, zero)).1
  | _ => aggReduce op param vals

def engAggregate (op : String) (without : Bool) (grouping : List String) (param : Option (OpSem V))
    (child : OpSem V) : OpSem V :=
  if !without && grouping.isEmpty && vectorizedAggs.contains op then
    { series := [[]]
      step := fun t => do
        let xs ← child.step t
        pure (if xs.isEmpty then [] else [(0, engReduce op nan (xs.map (·.2)))]) }
  else
    let sg := staticGroups (groupKey without grouping) (groupLabels without grouping) child.series
    { series := sg.2
      step := fun t => do
        let xs ← child.step t
        let p ← (match param with
          | some po => scalarOf po t
          | none => pure nan)
        pure ((List.range sg.2.length).filterMap fun g =>
          if (xs.filter fun x => sg.1.getD x.1 0 == g).isEmpty = true then none
          else some (g, engReduce op p ((xs.filter fun x => sg.1.getD x.1 0 == g).map (·.2)))) }

def engKAggregate (top : Bool) (without : Bool) (grouping : List String) (param : OpSem V)
    (child : OpSem V) : OpSem V :=
  let (gids, outs) := staticGroups (groupKey without grouping) id child.series
  { series := child.series
    step := fun t => do
      let xs ← child.step t
      let p ← scalarOf param t
      if !inInt64 p then .error .badParam
      else
        let k := toInt p
        if k < 1 then pure []
        else
          pure ((List.range outs.length).flatMap fun g =>
            kSelect top k.toNat (xs.filter fun x => gids.getD x.1 0 == g)) }

/-! ### vector-vector operators: the static hash join and the per-step table -/

/-- `signature()` of `binary/vector.go`: key and output labels of one input series -/
def engSignature (m : Matching) (keepName : Bool) (ls : Labels) : Labels × Labels :=
  let keepOriginal := m.card != .oneToOne
  let lb := if keepName then ls else ls.dropName
  if !m.on then
    let dropLabels := if keepName then m.labels else m.labels ++ [metricName]
    ((ls.del m.labels).dropName, if keepOriginal then lb else lb.del dropLabels)
  else
    (ls.keep m.labels, if keepOriginal then lb else lb.keep m.labels)

structure Join where
  outputs : List Labels
  /-- high-cardinality series id -> output id -/
  highIdx : List (Option Nat)
  /-- low-cardinality series id -> output ids -/
  lowIdx : List (List Nat)

def engJoin (m : Matching) (keepName : Bool) (high low : List Labels) : Join :=
  let hs := (enum high).map fun (i, ls) => (i, engSignature m keepName ls)
  let lsigs := (enum low).map fun (i, ls) => (i, engSignature m keepName ls)
  let buckets := (hs.map (·.2.1)).eraseDups
  let init : Join := ⟨[], high.map (fun _ => none), low.map (fun _ => [])⟩
  buckets.foldl (fun (j : Join) key =>
    let lowIn := lsigs.filter (·.2.1 == key)
    match lowIn with
    | [] => j
    | low0 :: _ =>
      (hs.filter (·.2.1 == key)).foldl (fun (j : Join) h =>
        let oid := j.outputs.length
        let metric := h.2.2 ++ (if m.incl.isEmpty then [] else low0.2.2.keep m.incl)
        { outputs := j.outputs ++ [metric]
          highIdx := j.highIdx.set h.1 (some oid)
          lowIdx := lowIn.foldl (fun li l => li.set l.1 (li.getD l.1 [] ++ [oid])) j.lowIdx }) j) init

/-! `execBinaryOperation` for one step (a fresh table: step timestamps never repeat), in two
passes: the left-hand samples fill output slots, then every right-hand sample probes its slots. -/

abbrev JState (V : Type) := IdVec V × List Nat

def lhsOutsOf (card : Card) (j : Join) : Nat → List Nat :=
  fun id => if card == .oneToMany then j.lowIdx.getD id [] else (j.highIdx.getD id none).toList

def rhsOutsOf (card : Card) (j : Join) : Nat → List Nat :=
  fun id => if card == .oneToMany then (j.highIdx.getD id none).toList else j.lowIdx.getD id []

/-- the two nested loops of a pass: for every sample of `xs`, for every output slot it maps to -/
def innerFold {σ : Type} (stepf : σ → Nat → V → Except Err σ) (xv : V) (os : List Nat)
    (acc : Except Err σ) : Except Err σ :=
  os.foldl (fun acc o => match acc with | .error e => .error e | .ok st => stepf st o xv) acc

def outerFold {σ : Type} (stepf : σ → Nat → V → Except Err σ) (outsOf : Nat → List Nat)
    (xs : IdVec V) (acc : Except Err σ) : Except Err σ :=
  xs.foldl (fun acc x => match acc with | .error e => .error e | .ok st => innerFold stepf x.2 (outsOf x.1) (.ok st)) acc

/-- one left-hand sample into slot `o` -/
def lhsStep (card : Card) (slots : List (Nat × V)) (o : Nat) (xv : V) : Except Err (List (Nat × V)) :=
  if card != .manyToOne && slots.any (·.1 == o) then .error .manyToMany
  else .ok (slots ++ [(o, xv)])

/-- pass 1: left-hand samples fill output slots -/
def lhsPass (card : Card) (j : Join) (lhs : IdVec V) : Except Err (List (Nat × V)) :=
  outerFold (lhsStep card) (lhsOutsOf card j) lhs (.ok [])

/-- for many-to-one a later left sample overwrites an earlier one in the same slot -/
def slotValOf (slots : List (Nat × V)) : Nat → Option V :=
  fun o => ((slots.filter (·.1 == o)).getLast?).map (·.2)

/-- one probe of pass 2: right-hand value `xv` against output slot `o` -/
def vbStep (op : String) (bool : Bool) (card : Card) (slotVal : Nat → Option V) (st : JState V) (o : Nat)
    (xv : V) : Except Err (JState V) :=
  match st with
  | (out, seen) =>
    match slotVal o with
    | none => .ok (out, seen)
    | some lv =>
      if card != .oneToMany && seen.contains o then .error .manyToMany
      else
        let (value, keep) := elemBinop op lv xv
        let seen := o :: seen
        if bool then .ok (out ++ [(o, ofBool keep)], seen)
        else if keep then .ok (out ++ [(o, value)], seen)
        else .ok (out, seen)

def engVectorBinop (op : String) (bool : Bool) (card : Card) (j : Join) (lhs rhs : IdVec V) :
    Except Err (IdVec V) :=
  match lhsPass card j lhs with
  | .error e => .error e
  | .ok slots =>
    (outerFold (vbStep op bool card (slotValOf slots)) (rhsOutsOf card j) rhs (.ok ([], []))).map (·.1)

/-! ### the operator tree -/

def engHistogram (c : Ctx V) (q : OpSem V) (child : OpSem V) : OpSem V :=
  -- static: input series -> (output id, upper bound)
  let parsed := child.series.map fun ls =>
    (pfLookup c (ls.get "le")).map fun ub => ((ls.del ["le"]).dropName, ub)
  let outs := (parsed.filterMap (·.map (·.1))).eraseDups
  { series := outs
    step := fun t => do
      let xs ← child.step t
      let qv ← scalarOf q t
      pure ((enum outs).filterMap fun (g, gl) =>
        let bs := xs.filterMap fun x =>
          match parsed.getD x.1 none with
          | some (l, ub) => if l == gl then some (⟨ub, x.2⟩ : Bucket V) else none
          | none => none
        if bs.isEmpty then none
        else some (g, bucketQuantile qv bs)) }

mutual

/-- the operator built for the argument of `timestamp()` when it is a vector selector -/
def engTimestampSel (c : Ctx V) : Expr V → Option (OpSem V)
  | .paren e => engTimestampSel c e
  | .stepInv e => (engTimestampSel c e).map fun o => { o with step := fun _ => o.step c.start }
  | .vsel s => some (engSelector c s true)
  | _ => none

def engOp (c : Ctx V) : Expr V → Except Err (OpSem V)
  | .num v => .ok (constOp fun _ => v)
  | .str => .error .unsupported
  | .vsel s => .ok (engSelector c s false)
  | .msel _ _ => .error .unsupported
  | .subq _ => .error .unsupported
  | .coalesce _ => .error .unsupported
  | .remote _ _ => .error .unsupported
  | .paren e => engOp c e
  | .pos e => engOp c e
  | .stepInv e =>
    match e with
    | .num v => .ok (constOp fun _ => v)
    | e => do
      let o ← engOp c e
      pure { o with step := fun _ => o.step c.start }
  | .neg e => do
    let o ← engOp c e
    pure { series := o.series.map Labels.dropName
           step := fun t => (o.step t).map fun xs => xs.map fun x => (x.1, neg x.2) }
  | .agg op without grouping e => do
    let child ← engOp c e
    if op == "topk" || op == "bottomk" then .error .unsupported
    else if !engineAccumulators.contains op then .error .unsupported
    else pure (engAggregate op without grouping none child)
  | .aggP op without grouping p e => do
    let child ← engOp c e
    let po ← engOp c p
    if op == "topk" || op == "bottomk" then
      pure (engKAggregate (op == "topk") without grouping po child)
    else if !engineAccumulators.contains op then .error .unsupported
    else pure (engAggregate op without grouping (some po) child)
  | .bin op bool m l r => do
    let lo ← engOp c l
    let ro ← engOp c r
    if !engineBinOps.contains op then .error .unsupported
    else if l.isScalar || r.isScalar then
      let both := l.isScalar && r.isScalar
      let scalarLeft := l.isScalar && !r.isScalar
      let (next, sc) := if scalarLeft then (ro, lo) else (lo, ro)
      pure { series := next.series.map fun ls => if dropsName op || bool then ls.dropName else ls
             step := fun t => do
               let xs ← next.step t
               let s ← scalarOf sc t
               pure (xs.filterMap fun x =>
                 let (a, b) := if scalarLeft then (s, x.2) else (x.2, s)
                 if both then
                   some (x.1, if isComparison op then ofBool (compareOp op a b) else arith op a b)
                 else
                   let (value, keep) := elemBinop op a b
                   let value := if isComparison op && scalarLeft then b else value
                   if bool then some (x.1, ofBool keep)
                   else if keep then some (x.1, value) else none) }
    else
      let keepName := !(dropsName op || bool)
      let (high, low) := if m.card == .oneToMany then (ro.series, lo.series) else (lo.series, ro.series)
      let j := engJoin m keepName high low
      pure { series := j.outputs
             step := fun t => do
               let a ← lo.step t
               let b ← ro.step t
               engVectorBinop op bool m.card j a b }
  | .call fn args =>
    match fn, args with
    | "histogram_quantile", [q, a] => do
      let qo ← engOp c q
      let ao ← engOp c a
      pure (engHistogram c qo ao)
    | "time", [] => .ok (constOp fun t => div (ofInt t) (ofInt 1000))
    | "pi", [] => .ok (constOp fun _ => pi)
    | fn, [.msel s range] =>
      if engineFuncs.contains fn && rangeFnNames.contains fn then .ok (engRangeFn c fn s range)
      else .error .unsupported
    | "timestamp", [a] =>
      match engTimestampSel c a with
      | some o => .ok { o with series := o.series.map Labels.dropName }
      | none => do
        let o ← engOp c a
        pure { series := o.series.map Labels.dropName
               step := fun t => (o.step t).map fun xs =>
                 xs.map fun x => (x.1, div (ofInt t) (ofInt 1000)) }
    | "scalar", [a] => do
      let o ← engOp c a
      pure { series := [[]]
             step := fun t => (o.step t).map fun xs =>
               match xs with
               | [x] => [(0, x.2)]
               | _ => [(0, nan)] }
    | "vector", [a] => do
      let o ← engOp c a
      pure { series := [[]], step := o.step }
    | "clamp", [a, lo, hi] => do
      let o ← engOp c a
      let loO ← engOp c lo
      let hiO ← engOp c hi
      pure { series := o.series.map Labels.dropName
             step := fun t => do
               let xs ← o.step t
               let lo ← scalarOf loO t
               let hi ← scalarOf hiO t
               pure (if lt hi lo then [] else xs.map fun x => (x.1, maxGo lo (minGo hi x.2))) }
    | "clamp_min", [a, lo] => do
      let o ← engOp c a
      let loO ← engOp c lo
      pure { series := o.series.map Labels.dropName
             step := fun t => do
               let xs ← o.step t
               let lo ← scalarOf loO t
               pure (xs.map fun x => (x.1, maxGo lo x.2)) }
    | "clamp_max", [a, hi] => do
      let o ← engOp c a
      let hiO ← engOp c hi
      pure { series := o.series.map Labels.dropName
             step := fun t => do
               let xs ← o.step t
               let hi ← scalarOf hiO t
               pure (xs.map fun x => (x.1, minGo hi x.2)) }
    | fn, [a] =>
      if simpleFns.contains fn then do
        let o ← engOp c a
        pure { series := o.series.map Labels.dropName
               step := fun t => (o.step t).map fun xs => xs.map fun x => (x.1, applySimple fn x.2) }
      else .error .unsupported
    | _, _ => .error .unsupported

end

/-! ### `Exec`: result assembly -/

/-- points per series id over the grid -/
def engCollect (o : OpSem V) (grid : List Int) : Except Err (List (Labels × List (Int × V))) := do
  let steps ← grid.mapM fun t => (o.step t).map fun xs => (t, xs)
  pure ((enum o.series).map fun (i, ls) =>
    (ls, steps.filterMap fun (t, xs) => (xs.find? (·.1 == i)).map fun x => (t, x.2)))

def engRun (c : Ctx V) (w : Window) (e : Expr V) : QResult V :=
  match engOp c e with
  | .error er => .err er
  | .ok o =>
    match engCollect o w.grid with
    | .error er => .err er
    | .ok series =>
      if w.step != 0 then
        .matrix (sortSeries (series.filter fun s => !s.2.isEmpty))
      else if e.isScalar then
        match series with
        | (_, (_, v) :: _) :: _ => .scalar w.start v
        | _ => .scalar w.start nan
      else
        .vector w.start (series.filterMap fun s =>
          match s.2 with
          | (_, v) :: _ => some (s.1, v)
          | [] => none)

/-- the expression contains a vector-to-vector operator: the engine emits the series of a join in
the iteration order of a Go map, so the order of this expression's series is not determined -/
partial def unstableOrder : Expr V → Bool
  | .bin _ _ _ l r => (!l.isScalar && !r.isScalar) || unstableOrder l || unstableOrder r
  | .aggP _ _ _ p e => unstableOrder p || unstableOrder e
  | .agg _ _ _ e => unstableOrder e
  | .call _ args => args.any unstableOrder
  | .neg e => unstableOrder e
  | .pos e => unstableOrder e
  | .paren e => unstableOrder e
  | .stepInv e => unstableOrder e
  | _ => false

/-- the "one" side of a join has two series with the same match key and no determined order:
which of them provides the included labels and the value depends on that order -/
def joinOrderDependent (c : Ctx V) (all : Bool) (bool : Bool) (op : String) (m : Matching) (l r : Expr V) : Bool :=
  !l.isScalar && !r.isScalar &&
    (let lowE := if m.card == .oneToMany then l else r
     (all || unstableOrder lowE) &&
       match engOp c lowE with
       | .ok o =>
         let keys := o.series.map fun ls => (engSignature m (!(dropsName op || bool)) ls).1
         keys.eraseDups.length != keys.length
       | .error _ => false)

/-- some join of the query picks among same-key series of an operand whose series order is not
determined: the engine's result is then one of several (all of them deviations the known
findings on vector matching describe). With `all`, no operand's series order counts as determined
(the storage order is permuted, or the series come from remote engines). -/
partial def joinTie (c : Ctx V) (all : Bool) : Expr V → Bool
  | .bin op bool m l r => joinTie c all l || joinTie c all r || joinOrderDependent c all bool op m l r
  | .aggP _ _ _ p e => joinTie c all p || joinTie c all e
  | .agg _ _ _ e => joinTie c all e
  | .call _ args => args.any (joinTie c all)
  | .neg e => joinTie c all e
  | .pos e => joinTie c all e
  | .paren e => joinTie c all e
  | .stepInv e => joinTie c all e
  | _ => false

/-- `hasTie` on the engine's side: a topk/bottomk whose operand - as the engine model computes it,
which matters when the reference fails where the engine goes on (vector matching, known
findings) - has a tie at the selection boundary at some step -/
partial def hasTieEng (c : Ctx V) (grid : List Int) : Expr V → Bool
  | .aggP op without grouping p e =>
    hasTieEng c grid p || hasTieEng c grid e ||
      ((op == "topk" || op == "bottomk") &&
        match engOp c p, engOp c e with
        | .ok po, .ok eo =>
          grid.any fun t =>
            match scalarOf po t, eo.step t with
            | .ok pv, .ok xs =>
              if !inInt64 pv || toInt pv < 1 then false
              else
                (groupBy (fun (x : Labels × V) => groupKey without grouping x.1)
                    (xs.filterMap fun x => (eo.series[x.1]?).map fun s => (s, x.2))).any fun g =>
                  groupOrderDependent (op == "topk") (toInt pv).toNat (g.2.map (·.2))
            | _, _ => false
        | _, _ => false)
  | .agg _ _ _ e => hasTieEng c grid e
  | .call _ args => args.any (hasTieEng c grid)
  | .bin _ _ _ l r => hasTieEng c grid l || hasTieEng c grid r
  | .neg e => hasTieEng c grid e
  | .pos e => hasTieEng c grid e
  | .paren e => hasTieEng c grid e
  | .stepInv e => hasTieEng c [c.start] e
  | _ => false

end PromqlVerif
