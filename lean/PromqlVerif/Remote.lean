/-
Remote execution beyond the optimizer (`execution/remote/operator.go`): the result of the remote
query - a matrix for a range query, a vector for an instant query - is turned into an in-memory
storage (`storageAdapter.executeQuery`: series `i` of the result gets signature `i`), which an
ordinary vector selector reads with offset 0, one shard, and a lookback delta of **0**
(`NewExecution` overwrites the query's). `Sem.eval` treats `.remote i e` as "evaluate `e` on what
engine `i` stores"; `Proofs/RemoteProof.lean` shows that this transport is the identity: the step
vector read back at `t` holds exactly the points the remote result has at `t`.
-/
import PromqlVerif.Sem
namespace PromqlVerif

variable {V : Type} [Val V]

/-- a range result: per series its label set and its points -/
abbrev RMatrix (V : Type) := List (Labels × List (Int × V))

def ptsToSamples (pts : List (Int × V)) : List (Sample V) := pts.map fun p => ⟨p.1, .num p.2⟩

/-- `storageAdapter.executeQuery`, matrix branch -/
def remoteStorage (m : RMatrix V) : List (Series V) := m.map fun s => ⟨s.1, ptsToSamples s.2⟩

/-- `storageAdapter.executeQuery`, vector branch: every sample is a series with one point -/
def vectorAsMatrix (v : List (Labels × Int × V)) : RMatrix V := v.map fun s => (s.1, [(s.2.1, s.2.2)])

/-- one step of `Execution.Next`: the vector selector over the adapter's series with lookback `lb`
(0 in the code): (signature, value) of every series that has a sample to show at `t` -/
def remoteRead (lb : Int) (m : RMatrix V) (t : Int) : List (Nat × V) :=
  (remoteStorage m).zipIdx.filterMap fun si => (selectSample lb t si.1.samples).map fun p => (si.2, p.2)

/-- the whole stream over a grid of step times -/
def remoteRun (lb : Int) (m : RMatrix V) (grid : List Int) : List (Int × List (Nat × V)) :=
  grid.map fun t => (t, remoteRead lb m t)

/-- what the transport is meant to deliver at `t`: the points stamped `t`, by series index -/
def remoteSpec (m : RMatrix V) (t : Int) : List (Nat × V) :=
  m.zipIdx.filterMap fun si => (si.1.2.find? fun p => p.1 == t).map fun p => (si.2, p.2)

end PromqlVerif
