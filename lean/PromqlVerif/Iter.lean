/-
`storage.MemoizedSeriesIterator` (Prometheus v0.40.1, storage/memoized_iterator.go) over a list
iterator, and the engine's `selectPoint` (execution/scan/vector_selector.go) on top of it.
The underlying iterator is the list of samples from the cursor on (head = current sample).
-/
import PromqlVerif.Sem
namespace PromqlVerif

variable {V : Type}

structure Memo (V : Type) where
  /-- underlying iterator: current sample and the ones after it; `[]` = exhausted (`ValNone`) -/
  rest : List (Sample V)
  /-- `lastTime`; `none` = `math.MinInt64` -/
  lastTime : Option Int
  /-- `prevTime/prevValue`; `none` = `math.MinInt64` -/
  prev : Option (Sample V)

/-- `NewMemoizedIterator` / `Reset`: the underlying iterator is advanced to its first sample -/
def Memo.new (ss : List (Sample V)) : Memo V := { rest := ss, lastTime := none, prev := none }

def ltOpt (a : Option Int) (b : Int) : Bool :=
  match a with
  | none => true
  | some x => x < b

def geOpt (a : Option Int) (b : Int) : Bool :=
  match a with
  | none => false
  | some x => x ≥ b

/-- the loop `for b.Next() != ValNone { if b.lastTime >= t { return } }` -/
def Memo.nextLoop (t : Int) (prev : Option (Sample V)) (lastTime : Option Int) : List (Sample V) → Memo V × Bool
  | [] => ({ rest := [], lastTime := lastTime, prev := prev }, false)
  | x :: tl =>
    match tl with
    | [] => ({ rest := [], lastTime := lastTime, prev := some x }, false)
    | y :: tl' =>
      if y.t ≥ t then ({ rest := y :: tl', lastTime := some y.t, prev := some x }, true)
      else Memo.nextLoop t (some x) (some y.t) (y :: tl')

/-- `Seek(t)`: returns the new state and whether the value type is not `ValNone` -/
def Memo.seek (delta : Int) (m : Memo V) (t : Int) : Memo V × Bool :=
  let t0 := t - delta
  -- jump when the look-behind window has moved past the cursor
  let jumped : Option (Memo V) :=
    if !m.rest.isEmpty && ltOpt m.lastTime t0 then
      match m.rest.dropWhile (fun s => s.t < t0) with
      | [] => none
      | x :: r => some { rest := x :: r, lastTime := some x.t, prev := none }
    else some m
  match jumped with
  | none => ({ rest := [], lastTime := m.lastTime, prev := none }, false)
  | some m =>
    if geOpt m.lastTime t then (m, !m.rest.isEmpty)
    else Memo.nextLoop t m.prev m.lastTime m.rest

/-- `selectPoint(it, ts, lookbackDelta, offset)` with `ref = ts - offset` -/
def selectPointM (lookback : Int) (m : Memo V) (ref : Int) : Memo V × Option (Int × V) :=
  let (m', ok) := m.seek lookback ref
  let cur : Option (Sample V) := if ok then m'.rest.head? else none
  let cand : Option (Sample V) :=
    match cur with
    | some s => if s.t > ref then m'.prev.bind (fun p => if p.t < ref - lookback then none else some p) else some s
    | none => m'.prev.bind (fun p => if p.t < ref - lookback then none else some p)
  (m', match cand with
    | some ⟨t, .num v⟩ => some (t, v)
    | _ => none)

/-- driving the iterator along a sequence of reference times -/
def selectPointsM (lookback : Int) : Memo V → List Int → List (Option (Int × V))
  | _, [] => []
  | m, r :: rs =>
    let (m', res) := selectPointM lookback m r
    res :: selectPointsM lookback m' rs

/-! ### `storage.BufferedSeriesIterator` and the engine's `selectPoints` (matrix selector) -/

structure Buf (V : Type) where
  /-- underlying iterator: current sample and the ones after it; `[]` = `ValNone` -/
  rest : List (Sample V)
  /-- `lastTime`; `none` = `math.MinInt64` -/
  lastTime : Option Int
  /-- the sample ring, oldest first -/
  ring : List (Sample V)

def Buf.new (ss : List (Sample V)) : Buf V := { rest := ss, lastTime := none, ring := [] }

/-- `sampleRing.add`: append, then free the head of everything older than `s.t - delta` -/
def ringAdd (delta : Int) (ring : List (Sample V)) (s : Sample V) : List (Sample V) :=
  (ring ++ [s]).dropWhile (fun x => x.t < s.t - delta)

/-- the loop `for { if Next() == ValNone || lastTime >= t { return } }` of `Seek`; `Next` adds the
current sample to the ring before advancing -/
def Buf.nextLoop (delta t : Int) (ring : List (Sample V)) (lastTime : Option Int) : List (Sample V) → Buf V × Bool
  | [] => ({ rest := [], lastTime := lastTime, ring := ring }, false)
  | x :: tl =>
    match tl with
    | [] => ({ rest := [], lastTime := lastTime, ring := ringAdd delta ring x }, false)
    | y :: tl' =>
      if y.t ≥ t then ({ rest := y :: tl', lastTime := some y.t, ring := ringAdd delta ring x }, true)
      else Buf.nextLoop delta t (ringAdd delta ring x) (some y.t) (y :: tl')

/-- `Seek(t)` -/
def Buf.seek (delta : Int) (b : Buf V) (t : Int) : Buf V × Bool :=
  let t0 := t - delta
  let jumped : Option (Buf V) :=
    if !b.rest.isEmpty && ltOpt b.lastTime t0 then
      match b.rest.dropWhile (fun s => s.t < t0) with
      | [] => none
      | x :: r => some { rest := x :: r, lastTime := some x.t, ring := [] }
    else some b
  match jumped with
  | none => ({ rest := [], lastTime := b.lastTime, ring := [] }, false)
  | some b =>
    if geOpt b.lastTime t then (b, !b.rest.isEmpty)
    else Buf.nextLoop delta t b.ring b.lastTime b.rest

def ptOf (mint : Int) (s : Sample V) : Option (Int × V) :=
  match s.v with
  | .num v => if mint ≤ s.t then some (s.t, v) else none
  | .stale => none

/-- `selectPoints(it, mint, maxt, out)`; `delta` is the buffered iterator's range -/
def selectPointsB (delta : Int) (b : Buf V) (mint maxt : Int) (out : List (Int × V)) : Buf V × List (Int × V) :=
  let keep : List (Int × V) × Int :=
    match out.getLast? with
    | some l => if l.1 ≥ mint then (out.dropWhile (fun p => p.1 < mint), l.1 + 1) else ([], mint)
    | none => ([], mint)
  let (b', ok) := b.seek delta maxt
  let fromRing := b'.ring.filterMap (ptOf keep.2)
  let sought : List (Int × V) :=
    if ok then
      match b'.rest.head? with
      | some ⟨t, .num v⟩ => if t == maxt then [(t, v)] else []
      | _ => []
    else []
  (b', keep.1 ++ fromRing ++ sought)

/-- the matrix selector's scan of one series: window ends `refs`, window length `range` -/
def selectRangesB (range : Int) : Buf V → List (Int × V) → List Int → List (List (Int × V))
  | _, _, [] => []
  | b, out, r :: rs =>
    let (b', out') := selectPointsB range b (r - range) r out
    out' :: selectRangesB range b' out' rs

/-- `sampleRing.reduceDelta(d)` for `d` not above the current delta: free the head of everything
older than the most recent element minus `d` -/
def reduceRing (d : Int) (ring : List (Sample V)) : List (Sample V) :=
  match ring.getLast? with
  | none => ring
  | some l => ring.dropWhile (fun x => x.t < l.t - d)

/-- `stepRange := selectRange; if stepRange > step { stepRange = step }` -/
def stepRange (range step : Int) : Int := if range > step then step else range

/-- `matrixSelector.Next` for one series: per step `selectPoints` into the reused `previousPoints`,
then `ReduceDelta(min(selectRange, step))` ("only buffer stepRange milliseconds from the second
step on"); `delta` is the ring's current delta -/
def selectRangesM (range step : Int) : Int → Buf V → List (Int × V) → List Int → List (List (Int × V))
  | _, _, _, [] => []
  | delta, b, out, r :: rs =>
    let (b', out') := selectPointsB delta b (r - range) r out
    let sr := stepRange range step
    if sr > delta then out' :: selectRangesM range step delta b' out' rs
    else out' :: selectRangesM range step sr { b' with ring := reduceRing sr b'.ring } out' rs

end PromqlVerif
