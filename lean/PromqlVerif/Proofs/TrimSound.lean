/-
The hinted time ranges are sufficient, at the level of whole plans: if the storage drops every
sample outside an interval `[lo, hi]` that contains what every selector of the expression reads
(its lookback interval or range window, at the steps at which it is evaluated), the value of the
expression does not change at any step of the window.
-/
import PromqlVerif.Proofs.OptSound
import PromqlVerif.Proofs.IterProof
namespace PromqlVerif
open Val

variable {V : Type} [Val V]

def inRange (lo hi : Int) (s : Sample V) : Bool := decide (lo ≤ s.t) && decide (s.t ≤ hi)

/-- the storage with every sample outside `[lo, hi]` dropped -/
def trimSt (lo hi : Int) (st : List (Series V)) : List (Series V) :=
  st.map fun sr => { sr with samples := sr.samples.filter (inRange lo hi) }

def trimCtx (lo hi : Int) (c : Ctx V) : Ctx V := { c with st := trimSt lo hi c.st }

theorem matchingSeries_trim (lo hi : Int) (c : Ctx V) (s : VSel) :
    matchingSeries (trimCtx lo hi c) s = trimSt lo hi (matchingSeries c s) := by
  unfold matchingSeries trimCtx trimSt
  simp only [List.filter_map]
  rfl

/-- the last sample at or before `ref`, for sorted samples and a reference time inside the range -/
theorem latest_trim (lo hi ref : Int) (ss : List (Sample V)) (hs : SortedT ss) (h2 : ref ≤ hi) :
    latestAtOrBefore (ss.filter (inRange lo hi)) ref
      = (latestAtOrBefore ss ref).bind fun x => if lo ≤ x.t then some x else none := by
  unfold latestAtOrBefore
  have hcomm : (ss.filter (inRange lo hi)).filter (fun s => decide (s.t ≤ ref))
      = (ss.filter fun s => decide (s.t ≤ ref)).filter fun s => decide (lo ≤ s.t) := by
    simp only [List.filter_filter]
    apply List.filter_congr
    intro x _
    unfold inRange
    by_cases h1 : x.t ≤ ref
    · have : x.t ≤ hi := by omega
      simp [h1, this, Bool.and_comm]
    · simp [h1]
  rw [hcomm]
  have hsorted : (ss.filter fun s => decide (s.t ≤ ref)).Pairwise (fun a b => a.t < b.t) := hs.filter _
  generalize ss.filter (fun s => decide (s.t ≤ ref)) = L at hsorted
  -- look at the list from its end: the last element survives the filter or nothing does
  rw [← List.head?_reverse, ← List.head?_reverse, ← List.filter_reverse]
  have hrev : L.reverse.Pairwise (fun a b => b.t < a.t) := List.pairwise_reverse.mpr hsorted
  generalize L.reverse = R at hrev
  cases R with
  | nil => rfl
  | cons x R =>
    simp only [List.head?_cons, Option.bind_some, List.filter_cons]
    by_cases hx : lo ≤ x.t
    · simp [hx]
    · simp only [hx, decide_false, Bool.false_eq_true, if_false]
      have hall : ∀ y ∈ R, y.t < x.t := (List.pairwise_cons.mp hrev).1
      have : R.filter (fun s => decide (lo ≤ s.t)) = [] := by
        rw [List.filter_eq_nil_iff]
        intro y hy
        have := hall y hy
        simp only [decide_eq_true_eq]
        omega
      rw [this]
      rfl

theorem selectSample_trim (lookback lo hi ref : Int) (ss : List (Sample V)) (hs : SortedT ss)
    (h1 : lo ≤ ref - lookback) (h2 : ref ≤ hi) :
    selectSample lookback ref (ss.filter (inRange lo hi)) = selectSample lookback ref ss := by
  unfold selectSample
  rw [latest_trim lo hi ref ss hs h2]
  cases hl : latestAtOrBefore ss ref with
  | none => rfl
  | some x =>
    obtain ⟨t, v⟩ := x
    simp only [Option.bind_some]
    by_cases hx : lo ≤ t
    · simp [hx]
    · simp only [hx, if_false]
      cases v with
      | stale => rfl
      | num v =>
        have : t < ref - lookback := by omega
        simp [this]

theorem windowPoints_trim (lo hi mint maxt : Int) (ss : List (Sample V)) (h1 : lo ≤ mint) (h2 : maxt ≤ hi) :
    windowPoints mint maxt (ss.filter (inRange lo hi)) = windowPoints mint maxt ss := by
  unfold windowPoints inRange
  induction ss with
  | nil => rfl
  | cons x xs ih =>
    simp only [List.filter_cons]
    by_cases hx : (decide (lo ≤ x.t) && decide (x.t ≤ hi)) = true
    · simp only [hx, if_true, List.filterMap_cons, ih]
    · simp only [hx, Bool.false_eq_true, if_false, List.filterMap_cons, ih]
      have hout : ¬ (mint ≤ x.t ∧ x.t ≤ maxt) := by
        intro ⟨a, b⟩
        apply hx
        simp only [Bool.and_eq_true, decide_eq_true_eq]
        omega
      cases hv : x.v with
      | stale => rfl
      | num v =>
        have : (decide (mint ≤ x.t) && decide (x.t ≤ maxt)) = false := by
          simp only [Bool.and_eq_false_iff, decide_eq_false_iff_not]
          by_cases ha : mint ≤ x.t
          · right; intro hb; exact hout ⟨ha, hb⟩
          · left; exact ha
        simp [this]

/-- every series of the storage has its samples in increasing time order -/
def SortedSt (c : Ctx V) : Prop := ∀ sr ∈ c.st, SortedT sr.samples

theorem matching_sorted (c : Ctx V) (hs : SortedSt c) (s : VSel) : ∀ sr ∈ matchingSeries c s, SortedT sr.samples :=
  fun sr h => hs sr (List.mem_filter.mp h).1

theorem selectT_trim (lo hi : Int) (c : Ctx V) (hs : SortedSt c) (s : VSel) (ref : Int)
    (h1 : lo ≤ ref - c.lookback) (h2 : ref ≤ hi) : selectT (trimCtx lo hi c) s ref = selectT c s ref := by
  unfold selectT
  rw [matchingSeries_trim]
  unfold trimSt
  rw [List.filterMap_map]
  apply fm_congr
  intro sr hsr
  simp only [Function.comp_def, trimCtx]
  rw [selectSample_trim c.lookback lo hi ref sr.samples (matching_sorted c hs s sr hsr) h1 h2]

theorem selectV_trim (lo hi : Int) (c : Ctx V) (hs : SortedSt c) (s : VSel) (t : Int)
    (h1 : lo ≤ s.refTime c.start t - c.lookback) (h2 : s.refTime c.start t ≤ hi) :
    selectV (trimCtx lo hi c) s t = selectV c s t := by
  unfold selectV
  have : (trimCtx lo hi c).start = c.start := rfl
  rw [this, selectT_trim lo hi c hs s _ h1 h2]

theorem evalRangeFn_trim (lo hi : Int) (c : Ctx V) (fn : String) (s : VSel) (r t : Int)
    (h1 : lo ≤ s.refTime c.start t - r) (h2 : s.refTime c.start t ≤ hi) :
    evalRangeFn (trimCtx lo hi c) fn s r t = evalRangeFn c fn s r t := by
  unfold evalRangeFn
  rw [matchingSeries_trim]
  unfold trimSt
  rw [List.filterMap_map]
  apply fm_congr
  intro sr _
  simp only [Function.comp_def, trimCtx]
  rw [windowPoints_trim lo hi _ _ sr.samples h1 h2]

/-! ### whole plans -/

section plan
variable (lo hi stop : Int) (c : Ctx V)

/-- the times at which a sub-expression is evaluated: the steps of the window, or only its start
(below a step-invariant wrapper) -/
def Times (w : Bool) (t : Int) : Prop := if w then c.start ≤ t ∧ t ≤ stop else t = c.start

/-- what `timestamp(a)` reads besides the value of `a` -/
def TsCov (w : Bool) (a : Expr V) : Prop :=
  ∀ s, a.unwrap = .vsel s → c.q.timestampIsStepTime = true ∨
    (s.atTs = none ∧ ∀ t, Times stop c w t → lo ≤ s.refTime c.start t - c.lookback ∧ s.refTime c.start t ≤ hi)

/-- `[lo, hi]` contains what every selector of the expression reads at the times it is evaluated -/
def Cov : Bool → Expr V → Prop
  | w, .vsel s => ∀ t, Times stop c w t → lo ≤ s.refTime c.start t - c.lookback ∧ s.refTime c.start t ≤ hi
  | w, .msel s r => ∀ t, Times stop c w t → lo ≤ s.refTime c.start t - r ∧ s.refTime c.start t ≤ hi
  | w, .subq e => Cov w e
  | w, .call fn args => covArgs w args ∧ (fn = "timestamp" → ∀ a, args = [a] → TsCov lo hi stop c w a)
  | w, .agg _ _ _ e => Cov w e
  | w, .aggP _ _ _ p e => Cov w p ∧ Cov w e
  | w, .bin _ _ _ l r => Cov w l ∧ Cov w r
  | w, .neg e => Cov w e
  | w, .pos e => Cov w e
  | w, .paren e => Cov w e
  | _, .stepInv e => Cov false e
  | _, .coalesce _ => False
  | _, _ => True
where
  covArgs : Bool → List (Expr V) → Prop
    | _, [] => True
    | w, a :: as => Cov w a ∧ covArgs w as

theorem call1_trim (fn : String) (r : Except Err (Value V)) : call1 (trimCtx lo hi c) fn r = call1 c fn r := rfl
theorem call2_trim (fn : String) (ra rb : Except Err (Value V)) :
    call2 (trimCtx lo hi c) fn ra rb = call2 c fn ra rb := rfl
theorem call3_trim (fn : String) (ra rb rc : Except Err (Value V)) :
    call3 (trimCtx lo hi c) fn ra rb rc = call3 c fn ra rb rc := rfl

theorem eval_call_none (c : Ctx V) (t : Int) (fn : String) :
    eval c t (.call fn []) = if fn = "time" then .ok (.scal (div (ofInt t) (ofInt 1000)))
      else if fn = "pi" then .ok (.scal pi) else .error .unsupported := by
  by_cases h1 : fn = "time"
  · subst h1; rw [eval]; rfl
  · by_cases h2 : fn = "pi"
    · subst h2; rw [eval]; rw [if_neg h1, if_pos rfl]
    · simp only [h1, h2, if_false]
      rw [eval] <;> first | rfl | assumption | skip
      all_goals (intros; first | contradiction | (rename_i hh; cases hh))
      all_goals (first | contradiction | skip)

theorem tsBody_trim (hs : SortedSt c) (w : Bool) (a : Expr V) (t : Int) (ht : Times stop c w t)
    (hcov : TsCov lo hi stop c w a) (r : Except Err (Value V)) :
    tsBody (trimCtx lo hi c) t a.unwrap r = tsBody c t a.unwrap r := by
  cases hu : a.unwrap with
  | vsel s =>
    unfold tsBody
    have hq : (trimCtx lo hi c).q = c.q := rfl
    rcases hcov s hu with h | ⟨hat, hint⟩
    · simp only [hq, h, if_true]
      rfl
    · cases hstep : c.q.timestampIsStepTime with
      | true => simp only [hq, hstep, if_true]; rfl
      | false =>
        simp only [hq, hstep, Bool.false_eq_true, if_false, hat]
        have hstart : (trimCtx lo hi c).start = c.start := rfl
        rw [hstart, selectT_trim lo hi c hs s _ (hint t ht).1 (hint t ht).2]
        rfl
  | _ => rfl

/-- a call: its value over the trimmed storage, given that of its arguments -/
theorem call_trim (hs : SortedSt c) (w : Bool) (fn : String) (args : List (Expr V)) (t : Int)
    (ht : Times stop c w t) (hcov : Cov lo hi stop c w (.call fn args))
    (hargs : ∀ a ∈ args, eval (trimCtx lo hi c) t a = eval c t a) :
    eval (trimCtx lo hi c) t (.call fn args) = eval c t (.call fn args) := by
  rw [Cov] at hcov
  obtain ⟨hca, hts⟩ := hcov
  match args, hca, hts, hargs with
  | [], _, _, _ => rw [eval_call_none, eval_call_none]
  | [a], hca, hts, hargs =>
    have hea := hargs a List.mem_cons_self
    cases hma : isMsel a with
    | true =>
      cases a with
      | msel s r =>
        rw [Cov.covArgs, Cov] at hca
        rw [eval_rangecall, eval_rangecall, evalRangeFn_trim lo hi c fn s r t (hca.1 t ht).1 (hca.1 t ht).2]
      | _ => cases hma
    | false =>
      by_cases hfn : fn = "timestamp"
      · subst hfn
        rw [eval_timestamp _ t a hma, eval_timestamp c t a hma, hea,
          tsBody_trim lo hi stop c hs w a t ht (hts rfl a rfl)]
      · rw [eval_call1 _ t fn a hma hfn, eval_call1 c t fn a hma hfn, hea, call1_trim]
  | [a, b], _, _, hargs =>
    rw [eval_call2, eval_call2, hargs a List.mem_cons_self, hargs b (by simp), call2_trim]
  | [a, b, d], _, _, hargs =>
    rw [eval_call3, eval_call3, hargs a List.mem_cons_self, hargs b (by simp), hargs d (by simp), call3_trim]
  | _ :: _ :: _ :: _ :: _, _, _, _ => rw [eval_call_many, eval_call_many]

/-- **the hinted ranges are sufficient for whole plans**: series sorted by time, `[lo, hi]`
covering what every selector reads (`Cov`) - then at every time at which the expression is
evaluated its value over the trimmed storage is its value over the full one -/
theorem trim_sound (hs : SortedSt c) :
    ∀ (e : Expr V) (w : Bool), Cov lo hi stop c w e → ∀ t, Times stop c w t →
      eval (trimCtx lo hi c) t e = eval c t e := by
  apply collectSelectors.induct
    (motive_1 := fun args => ∀ w, Cov.covArgs lo hi stop c w args → ∀ t, Times stop c w t →
      ∀ a ∈ args, eval (trimCtx lo hi c) t a = eval c t a)
    (motive_2 := fun e => ∀ w, Cov lo hi stop c w e → ∀ t, Times stop c w t →
      eval (trimCtx lo hi c) t e = eval c t e)
  -- vsel
  · intro s w hcov t ht
    rw [Cov] at hcov
    rw [eval, eval, selectV_trim lo hi c hs s t (hcov t ht).1 (hcov t ht).2]
  -- msel on its own
  · intro s r w _ t _
    rw [eval, eval]
  -- subq
  · intro e _ w _ t _
    rw [eval, eval]
  -- call
  · intro fn args ih w hcov t ht
    have hcov' := hcov
    rw [Cov] at hcov'
    exact call_trim lo hi stop c hs w fn args t ht hcov (ih w hcov'.1 t ht)
  -- agg
  · intro op wo g e ih w hcov t ht
    rw [Cov] at hcov
    rw [eval, eval, ih w hcov t ht]
    rfl
  -- aggP
  · intro op wo g p e ihp ihe w hcov t ht
    rw [Cov] at hcov
    rw [eval, eval, ihp w hcov.1 t ht, ihe w hcov.2 t ht]
    rfl
  -- bin
  · intro op b m l r ihl ihr w hcov t ht
    rw [Cov] at hcov
    rw [eval, eval, ihl w hcov.1 t ht, ihr w hcov.2 t ht]
    rfl
  -- neg
  · intro e ih w hcov t ht
    rw [Cov] at hcov
    rw [eval, eval, ih w hcov t ht]
  -- pos
  · intro e ih w hcov t ht
    rw [Cov] at hcov
    rw [eval, eval, ih w hcov t ht]
  -- paren
  · intro e ih w hcov t ht
    rw [Cov] at hcov
    rw [eval, eval, ih w hcov t ht]
  -- stepInv: evaluated at the start of the window
  · intro e ih w hcov t _
    rw [Cov] at hcov
    rw [eval, eval]
    exact ih false hcov c.start rfl
  -- literals and plan nodes
  · intro e h1 h2 h3 h4 h5 h6 h7 h8 h9 h10 h11 w hcov t _
    cases e with
    | num v => rw [eval, eval]
    | str => rw [eval, eval]
    | coalesce es => rw [Cov] at hcov; exact hcov.elim
    | remote i e0 => rw [eval, eval]; rfl
    | vsel s => exact (h1 s rfl).elim
    | msel s r => exact (h2 s r rfl).elim
    | subq e0 => exact (h3 e0 rfl).elim
    | call fn args => exact (h4 fn args rfl).elim
    | agg op wo g e0 => exact (h5 op wo g e0 rfl).elim
    | aggP op wo g p e0 => exact (h6 op wo g p e0 rfl).elim
    | bin op b m l r => exact (h7 op b m l r rfl).elim
    | neg e0 => exact (h8 e0 rfl).elim
    | pos e0 => exact (h9 e0 rfl).elim
    | paren e0 => exact (h10 e0 rfl).elim
    | stepInv e0 => exact (h11 e0 rfl).elim
  -- arguments
  · intro w _ t _ a ha
    cases ha
  · intro a as iha ihas w hcov t ht x hx
    rw [Cov.covArgs] at hcov
    rcases List.mem_cons.mp hx with rfl | hx
    · exact iha w hcov.1 t ht
    · exact ihas w hcov.2 t ht x hx

end plan

end PromqlVerif
