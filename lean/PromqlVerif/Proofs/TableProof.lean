/-
The reused, timestamp-tagged table of `binary/table.go` behaves like a fresh table per step,
along strictly increasing step timestamps.
-/
import PromqlVerif.Table
import PromqlVerif.Proofs.Contract
namespace PromqlVerif
open Val

variable {V : Type} [Val V]

/-! ### simulation of two runs of the nested loops -/

def SimRes {σ τ : Type} (R : σ → τ → Prop) : Except Err σ → Except Err τ → Prop
  | .ok s, .ok t => R s t
  | .error e, .error e' => e = e'
  | _, _ => False

theorem innerFold_sim {σ τ : Type} (R : σ → τ → Prop) (f : σ → Nat → V → Except Err σ)
    (g : τ → Nat → V → Except Err τ) (xv : V) (P : Nat → Prop)
    (hstep : ∀ s t o, P o → R s t → SimRes R (f s o xv) (g t o xv)) :
    ∀ (os : List Nat), (∀ o ∈ os, P o) → ∀ a b, SimRes R a b →
      SimRes R (innerFold f xv os a) (innerFold g xv os b) := by
  intro os
  induction os with
  | nil => intro _ a b h; simpa [innerFold] using h
  | cons o os ih =>
    intro hP a b h
    unfold innerFold
    simp only [List.foldl_cons]
    have hP' : ∀ o' ∈ os, P o' := fun o' ho' => hP o' (List.mem_cons_of_mem _ ho')
    cases a with
    | error e =>
      cases b with
      | error e' => exact ih hP' (.error e) (.error e') h
      | ok t => exact absurd h (by simp [SimRes])
    | ok s =>
      cases b with
      | error e' => exact absurd h (by simp [SimRes])
      | ok t =>
        exact ih hP' _ _ (hstep s t o (hP o (List.mem_cons_self ..)) h)

theorem outerFold_sim {σ τ : Type} (R : σ → τ → Prop) (f : σ → Nat → V → Except Err σ)
    (g : τ → Nat → V → Except Err τ) (outsOf : Nat → List Nat) (P : Nat → Prop)
    (hP : ∀ id, ∀ o ∈ outsOf id, P o)
    (hstep : ∀ s t o xv, P o → R s t → SimRes R (f s o xv) (g t o xv)) :
    ∀ (xs : IdVec V) a b, SimRes R a b →
      SimRes R (outerFold f outsOf xs a) (outerFold g outsOf xs b) := by
  intro xs
  induction xs with
  | nil => intro a b h; simpa [outerFold] using h
  | cons x xs ih =>
    intro a b h
    unfold outerFold
    simp only [List.foldl_cons]
    cases a with
    | error e =>
      cases b with
      | error e' => exact ih (.error e) (.error e') h
      | ok t => exact absurd h (by simp [SimRes])
    | ok s =>
      cases b with
      | error e' => exact absurd h (by simp [SimRes])
      | ok t =>
        exact ih _ _ (innerFold_sim R f g x.2 P (fun s t o => hstep s t o x.2) (outsOf x.1) (hP x.1) (.ok s) (.ok t) h)

/-! ### facts about slots -/

theorem slot_set_same (t : Tbl V) (o : Nat) (s : Slot V) (h : o < t.length) : Tbl.slot (t.set o s) o = s := by
  simp [Tbl.slot, List.getD_eq_getElem?_getD, List.getElem?_set, h]

theorem slot_set_other (t : Tbl V) (o o' : Nat) (s : Slot V) (h : o ≠ o') : Tbl.slot (t.set o s) o' = t.slot o' := by
  simp [Tbl.slot, List.getD_eq_getElem?_getD, List.getElem?_set, h]

theorem slotValOf_append_same (slots : List (Nat × V)) (o : Nat) (xv : V) :
    slotValOf (slots ++ [(o, xv)]) o = some xv := by
  simp [slotValOf, List.filter_append, List.getLast?_append]

theorem slotValOf_append_other (slots : List (Nat × V)) (o o' : Nat) (xv : V) (h : o ≠ o') :
    slotValOf (slots ++ [(o, xv)]) o' = slotValOf slots o' := by
  have : ((o : Nat) == o') = false := by simpa using h
  simp [slotValOf, List.filter_append, this]

theorem slotValOf_none (slots : List (Nat × V)) (o : Nat) (h : slots.any (·.1 == o) = false) :
    slotValOf slots o = none := by
  have : slots.filter (·.1 == o) = [] := by
    apply List.filter_eq_nil_iff.mpr
    intro x hx hxo
    have h2 := List.any_eq_false.mp h x hx
    exact h2 hxo
  simp [slotValOf, this]

/-! ### the two passes -/

def TagsBelow (t : Tbl V) (ts : Int) : Prop :=
  ∀ o, (∀ a, (t.slot o).lhT = some a → a < ts) ∧ (∀ a, (t.slot o).rhT = some a → a < ts)

/-- pass 1: the table against the list of filled slots -/
structure R1 (ts : Int) (n : Nat) (t0 t : Tbl V) (slots : List (Nat × V)) : Prop where
  len : t.length = n
  filled : ∀ o, o < n → ((t.slot o).lhT = some ts ↔ slots.any (·.1 == o) = true)
  value : ∀ o, o < n → (t.slot o).lhT = some ts → slotValOf slots o = some (t.slot o).v
  rh : ∀ o, (t.slot o).rhT = (t0.slot o).rhT
  lhOld : ∀ o, (t.slot o).lhT ≠ some ts → (t.slot o).lhT = (t0.slot o).lhT

theorem r1_set (card : Card) (ts : Int) (n : Nat) (t0 : Tbl V) (t : Tbl V) (slots : List (Nat × V))
    (o : Nat) (xv : V) (ho : o < n) (h : R1 ts n t0 t slots) :
    R1 ts n t0 (t.set o { t.slot o with lhT := some ts, v := xv }) (slots ++ [(o, xv)]) := by
  have hl : o < t.length := by rw [h.len]; exact ho
  constructor
  · simp [h.len]
  · intro o' ho'
    by_cases he : o = o'
    · subst he
      rw [slot_set_same _ _ _ hl]
      simp
    · rw [slot_set_other _ _ _ _ he]
      have : ((o : Nat) == o') = false := by simpa using he
      simp only [List.any_append, List.any_cons, List.any_nil, this, Bool.or_false]
      exact h.filled o' ho'
  · intro o' ho' hlh
    by_cases he : o = o'
    · subst he
      rw [slot_set_same _ _ _ hl]
      exact slotValOf_append_same slots o xv
    · rw [slot_set_other _ _ _ _ he] at hlh ⊢
      rw [slotValOf_append_other _ _ _ _ he]
      exact h.value o' ho' hlh
  · intro o'
    by_cases he : o = o'
    · subst he
      rw [slot_set_same _ _ _ hl]
      exact h.rh o
    · rw [slot_set_other _ _ _ _ he]; exact h.rh o'
  · intro o' hne
    by_cases he : o = o'
    · subst he
      rw [slot_set_same _ _ _ hl] at hne
      exact absurd rfl hne
    · rw [slot_set_other _ _ _ _ he] at hne ⊢
      exact h.lhOld o' hne


theorem lhs_sim (card : Card) (ts : Int) (n : Nat) (t0 : Tbl V) (t : Tbl V) (slots : List (Nat × V))
    (o : Nat) (xv : V) (ho : o < n) (h : R1 ts n t0 t slots) :
    SimRes (R1 ts n t0) (tagLhsStep card ts t o xv) (lhsStep card slots o xv) := by
  unfold tagLhsStep lhsStep
  have hf := h.filled o ho
  by_cases hc : (t.slot o).lhT = some ts
  · have ha : slots.any (·.1 == o) = true := hf.mp hc
    cases hcard : (card != Card.manyToOne)
    · simp only [Bool.false_and, Bool.false_eq_true, if_false, SimRes]
      exact r1_set card ts n t0 t slots o xv ho h
    · simp [hc, ha, SimRes]
  · have ha : slots.any (·.1 == o) = false := by
      cases hh : slots.any (·.1 == o) with
      | false => rfl
      | true => exact absurd (hf.mpr hh) hc
    have hb : ((t.slot o).lhT == some ts) = false := by simpa using hc
    simp only [hb, ha, Bool.and_false, Bool.false_eq_true, if_false, SimRes]
    exact r1_set card ts n t0 t slots o xv ho h

/-- pass 2: the table and the step vector against the fresh model's `(out, seen)` -/
structure R2 (ts : Int) (n : Nat) (t1 : Tbl V) (st : Tbl V × IdVec V) (js : JState V) : Prop where
  out : st.2 = js.1
  len : st.1.length = n
  seen : ∀ o, o < n → ((st.1.slot o).rhT = some ts ↔ o ∈ js.2)
  lh : ∀ o, (st.1.slot o).lhT = (t1.slot o).lhT ∧ (st.1.slot o).v = (t1.slot o).v
  rhOld : ∀ o, (st.1.slot o).rhT ≠ some ts → (st.1.slot o).rhT = (t1.slot o).rhT

theorem r2_set (ts : Int) (n : Nat) (t1 t : Tbl V) (out out2 : IdVec V) (seen : List Nat) (o : Nat)
    (ho : o < n) (h : R2 ts n t1 (t, out) (out, seen)) (s' : Slot V) (h1 : s'.lhT = (t.slot o).lhT)
    (h2 : s'.v = (t.slot o).v) (h3 : s'.rhT = some ts) :
    R2 ts n t1 (t.set o s', out2) (out2, o :: seen) := by
  have hl : o < t.length := by have := h.len; simp only at this; omega
  constructor
  · rfl
  · simp only [List.length_set]; exact h.len
  · intro o' ho'
    simp only
    by_cases he : o = o'
    · subst he
      rw [slot_set_same _ _ _ hl]
      simp [h3]
    · rw [slot_set_other _ _ _ _ he]
      have := h.seen o' ho'
      simp only at this
      rw [this]
      simp [Ne.symm he]
  · intro o'
    simp only
    by_cases he : o = o'
    · subst he
      rw [slot_set_same _ _ _ hl, h1, h2]
      exact h.lh o
    · rw [slot_set_other _ _ _ _ he]; exact h.lh o'
  · intro o' hne
    simp only at hne ⊢
    by_cases he : o = o'
    · subst he
      rw [slot_set_same _ _ _ hl] at hne
      exact absurd h3 hne
    · rw [slot_set_other _ _ _ _ he] at hne ⊢
      exact h.rhOld o' hne

theorem rhs_sim (op : String) (bool : Bool) (card : Card) (ts : Int) (n : Nat) (t0 t1 : Tbl V)
    (slots : List (Nat × V)) (h1 : R1 ts n t0 t1 slots) (st : Tbl V × IdVec V) (js : JState V)
    (o : Nat) (xv : V) (ho : o < n) (h : R2 ts n t1 st js) :
    SimRes (R2 ts n t1) (tagRhsStep op bool card ts st o xv) (vbStep op bool card (slotValOf slots) js o xv) := by
  obtain ⟨t, out⟩ := st
  obtain ⟨out', seen⟩ := js
  have hout : out = out' := h.out
  subst hout
  unfold tagRhsStep vbStep
  simp only
  have hlh := (h.lh o).1
  have hv := (h.lh o).2
  simp only at hlh hv
  have fin : SimRes (R2 ts n t1)
      (match elemBinop op (t.slot o).v xv with
        | (value, keep) =>
          if bool = true then Except.ok (t.set o { t.slot o with rhT := some ts }, out ++ [(o, ofBool keep)])
          else if keep = true then Except.ok (t.set o { t.slot o with rhT := some ts }, out ++ [(o, value)])
          else Except.ok (t.set o { t.slot o with rhT := some ts }, out))
      (match elemBinop op (t1.slot o).v xv with
        | (value, keep) =>
          if bool = true then Except.ok (out ++ [(o, ofBool keep)], o :: seen)
          else if keep = true then Except.ok (out ++ [(o, value)], o :: seen)
          else Except.ok (out, o :: seen)) := by
    rw [hv]
    cases elemBinop op (t1.slot o).v xv with
    | mk value keep =>
      simp only
      split
      · exact r2_set ts n t1 t out _ seen o ho h _ rfl rfl rfl
      · split
        · exact r2_set ts n t1 t out _ seen o ho h _ rfl rfl rfl
        · exact r2_set ts n t1 t out _ seen o ho h _ rfl rfl rfl
  by_cases hc : (t1.slot o).lhT = some ts
  · have hsv : slotValOf slots o = some (t1.slot o).v := h1.value o ho hc
    have hne : ((t.slot o).lhT != some ts) = false := by simp [hlh, hc]
    simp only [hne, Bool.false_eq_true, if_false, hsv]
    have hseen := h.seen o ho
    simp only at hseen
    by_cases hr : (t.slot o).rhT = some ts
    · have hm : o ∈ seen := hseen.mp hr
      cases hcard : (card != Card.oneToMany)
      · simp only [Bool.false_and, Bool.false_eq_true, if_false]
        exact fin
      · simp [hr, hm, SimRes]
    · have hm : o ∉ seen := fun hh => hr (hseen.mpr hh)
      have hb : ((t.slot o).rhT == some ts) = false := by simpa using hr
      have hcnt : seen.contains o = false := by simpa using hm
      simp only [hb, hcnt, Bool.and_false, Bool.false_eq_true, if_false]
      exact fin
  · have ha : slots.any (·.1 == o) = false := by
      cases hh : slots.any (·.1 == o) with
      | false => rfl
      | true => exact absurd ((h1.filled o ho).mpr hh) hc
    have hsv : slotValOf slots o = none := slotValOf_none slots o ha
    have hne : ((t.slot o).lhT != some ts) = true := by simp [hlh, hc]
    simp only [hne, if_true, hsv, SimRes]
    exact h

/-! ### one step, and a whole query -/

/-- every slot the join tables mention exists in the table -/
def InRange (card : Card) (j : Join) (n : Nat) : Prop :=
  (∀ id, ∀ o ∈ lhsOutsOf card j id, o < n) ∧ (∀ id, ∀ o ∈ rhsOutsOf card j id, o < n)

theorem tagsBelow_mono (t : Tbl V) (a b : Int) (h : a ≤ b) (hb : TagsBelow t a) : TagsBelow t b :=
  fun o => ⟨fun x hx => by have := (hb o).1 x hx; omega, fun x hx => by have := (hb o).2 x hx; omega⟩

theorem tagsBelow_new (n : Nat) (ts : Int) : TagsBelow (Tbl.new n : Tbl V) ts := by
  intro o
  have : (Tbl.slot (Tbl.new n : Tbl V) o).lhT = none ∧ (Tbl.slot (Tbl.new n : Tbl V) o).rhT = none := by
    unfold Tbl.slot Tbl.new
    rw [List.getD_eq_getElem?_getD]
    by_cases h : o < n
    · simp [List.getElem?_replicate, h]
    · simp [List.getElem?_replicate, h]
  constructor
  · intro a ha; rw [this.1] at ha; cases ha
  · intro a ha; rw [this.2] at ha; cases ha

/-- **one step on the reused table = one step on a fresh table**, when every tag in the table is
older than the step's timestamp: same error or same step vector, and afterwards every tag is at
most the step's timestamp -/
theorem tag_exec_eq (op : String) (bool : Bool) (card : Card) (j : Join) (t : Tbl V) (ts : Int)
    (lhs rhs : IdVec V) (n : Nat) (hlen : t.length = n) (hr : InRange card j n) (hb : TagsBelow t ts) :
    match tagExec op bool card j t ts lhs rhs, engVectorBinop op bool card j lhs rhs with
    | .ok (t', out), .ok out' => out = out' ∧ t'.length = n ∧ TagsBelow t' (ts + 1)
    | .error e, .error e' => e = e'
    | _, _ => False := by
  have init1 : R1 ts n t t [] := by
    refine ⟨hlen, ?_, ?_, fun _ => rfl, fun _ _ => rfl⟩
    · intro o _
      constructor
      · intro h; have := (hb o).1 ts h; omega
      · intro h; simp at h
    · intro o _ h; have := (hb o).1 ts h; omega
  have s1 := outerFold_sim (R1 ts n t) (tagLhsStep card ts) (lhsStep card) (lhsOutsOf card j) (fun o => o < n)
    hr.1 (fun s sl o xv ho h => lhs_sim card ts n t s sl o xv ho h) lhs (.ok t) (.ok []) init1
  unfold tagExec engVectorBinop lhsPass
  cases h1 : outerFold (tagLhsStep card ts) (lhsOutsOf card j) lhs (.ok t) with
  | error e =>
    cases h1' : outerFold (lhsStep card) (lhsOutsOf card j) lhs (.ok []) with
    | error e' => rw [h1, h1'] at s1; simpa [SimRes] using s1
    | ok sl => rw [h1, h1'] at s1; simp [SimRes] at s1
  | ok t1 =>
    cases h1' : outerFold (lhsStep card) (lhsOutsOf card j) lhs (.ok []) with
    | error e' => rw [h1, h1'] at s1; simp [SimRes] at s1
    | ok sl =>
      rw [h1, h1'] at s1
      have r1 : R1 ts n t t1 sl := s1
      simp only
      have init2 : R2 ts n t1 (t1, []) ([], []) := by
        refine ⟨rfl, r1.len, ?_, fun _ => ⟨rfl, rfl⟩, fun _ _ => rfl⟩
        intro o _
        simp only
        constructor
        · intro h
          rw [r1.rh o] at h
          have := (hb o).2 ts h; omega
        · intro h; cases h
      have s2 := outerFold_sim (R2 ts n t1) (tagRhsStep op bool card ts) (vbStep op bool card (slotValOf sl))
        (rhsOutsOf card j) (fun o => o < n) hr.2
        (fun st js o xv ho h => rhs_sim op bool card ts n t t1 sl r1 st js o xv ho h) rhs
        (.ok (t1, [])) (.ok ([], [])) init2
      cases h2 : outerFold (tagRhsStep op bool card ts) (rhsOutsOf card j) rhs (.ok (t1, [])) with
      | error e =>
        cases h2' : outerFold (vbStep op bool card (slotValOf sl)) (rhsOutsOf card j) rhs (.ok ([], [])) with
        | error e' => rw [h2, h2'] at s2; simpa [SimRes, Except.map] using s2
        | ok js => rw [h2, h2'] at s2; simp [SimRes] at s2
      | ok st =>
        cases h2' : outerFold (vbStep op bool card (slotValOf sl)) (rhsOutsOf card j) rhs (.ok ([], [])) with
        | error e' => rw [h2, h2'] at s2; simp [SimRes] at s2
        | ok js =>
          rw [h2, h2'] at s2
          have r2 : R2 ts n t1 st js := s2
          obtain ⟨t', out⟩ := st
          simp only [Except.map]
          refine ⟨r2.out, r2.len, ?_⟩
          intro o
          constructor
          · intro a ha
            have e1 := (r2.lh o).1
            simp only at e1
            rw [e1] at ha
            by_cases hc : (t1.slot o).lhT = some ts
            · rw [hc] at ha; cases ha; omega
            · rw [r1.lhOld o hc] at ha
              have := (hb o).1 a ha; omega
          · intro a ha
            by_cases hc : (Tbl.slot t' o).rhT = some ts
            · rw [hc] at ha; cases ha; omega
            · have e2 := r2.rhOld o hc
              simp only at e2
              rw [e2, r1.rh o] at ha
              have := (hb o).2 a ha; omega

/-- the tables of the static join only mention slots that exist -/
theorem inRange_of_jok (card : Card) (j : Join) (hj : JOk j) : InRange card j j.outputs.length := by
  have hi : ∀ id o, o ∈ (j.highIdx.getD id none).toList → o < j.outputs.length := by
    intro id o ho
    rw [List.getD_eq_getElem?_getD] at ho
    cases hg : j.highIdx[id]? with
    | none => simp [hg] at ho
    | some v =>
      cases v with
      | none => simp [hg] at ho
      | some o' =>
        simp only [hg, Option.getD_some, Option.toList_some, List.mem_singleton] at ho
        subst ho
        exact hj.hi_lt id o hg
  have lo : ∀ id o, o ∈ j.lowIdx.getD id [] → o < j.outputs.length := by
    intro id o ho
    rw [List.getD_eq_getElem?_getD] at ho
    cases hg : j.lowIdx[id]? with
    | none => simp [hg] at ho
    | some l => simp only [hg, Option.getD_some] at ho; exact hj.lo_lt id l o hg ho
  constructor
  · intro id o ho
    unfold lhsOutsOf at ho
    split at ho
    · exact lo id o ho
    · exact hi id o ho
  · intro id o ho
    unfold rhsOutsOf at ho
    split at ho
    · exact hi id o ho
    · exact lo id o ho

abbrev freshRun (op : String) (bool : Bool) (card : Card) (j : Join) :
    List (Int × IdVec V × IdVec V) → List (Except Err (IdVec V)) := freshRunD op bool card j

/-- **the reused table along a query**: for strictly increasing step timestamps (a range query's
steps; one step for an instant query), starting from `newTable`, the operator's step vectors and
its first error are those of the per-step model with a fresh table -/
theorem tag_run_eq (op : String) (bool : Bool) (card : Card) (j : Join) (n : Nat) (hr : InRange card j n)
    (steps : List (Int × IdVec V × IdVec V)) (hmono : (steps.map (·.1)).Pairwise (· < ·)) :
    tagRun op bool card j (Tbl.new n) steps = freshRun op bool card j steps := by
  have key : ∀ (steps : List (Int × IdVec V × IdVec V)) (t : Tbl V), t.length = n →
      (∀ s ∈ steps, TagsBelow t s.1) → (steps.map (·.1)).Pairwise (· < ·) →
      tagRun op bool card j t steps = freshRun op bool card j steps := by
    intro steps
    induction steps with
    | nil => intro _ _ _ _; rfl
    | cons s rest ih =>
      intro t hlen hb hm
      obtain ⟨ts, lhs, rhs⟩ := s
      have h := tag_exec_eq op bool card j t ts lhs rhs n hlen hr (hb _ (List.mem_cons_self ..))
      simp only [tagRun, freshRun, freshRunD]
      cases h1 : tagExec op bool card j t ts lhs rhs with
      | error e =>
        cases h2 : engVectorBinop op bool card j lhs rhs with
        | error e' => rw [h1, h2] at h; simp only at h; subst h; rfl
        | ok o => rw [h1, h2] at h; simp at h
      | ok st =>
        obtain ⟨t', out⟩ := st
        cases h2 : engVectorBinop op bool card j lhs rhs with
        | error e' => rw [h1, h2] at h; simp at h
        | ok o =>
          rw [h1, h2] at h
          simp only at h
          obtain ⟨rfl, hl', hb'⟩ := h
          simp only
          congr 1
          simp only [List.map_cons, List.pairwise_cons] at hm
          refine ih t' hl' ?_ hm.2
          intro s' hs'
          have : ts < s'.1 := hm.1 s'.1 (List.mem_map.mpr ⟨s', hs', rfl⟩)
          exact tagsBelow_mono t' (ts + 1) s'.1 (by omega) hb'
  exact key steps (Tbl.new n) (by simp [Tbl.new]) (fun s _ => tagsBelow_new n s.1) hmono

end PromqlVerif
