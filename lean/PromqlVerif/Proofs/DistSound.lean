/-
The distributed plan evaluates to the central result. `Dist.lean` models the optimizer's rewrite;
the reference semantics (`Sem.eval`) gives `coalesce` / `remote i` their meaning - the vectors of
the children one after the other / evaluation over what remote engine `i` stores. Here: an
expression that the traversal passes without stopping is *local* (its value over a union of
storages is the concatenation of its values over the parts), and the two rewrites - wrapping a
local expression into `coalesce(remote ..)`, and pushing a distributive aggregation down - preserve
the value exactly. The plan-level theorem is in `Properties/C10.lean`.
-/
import PromqlVerif.Dist
import PromqlVerif.Sem
import PromqlVerif.Proofs.DistAgg
import PromqlVerif.Proofs.SelOpProof
namespace PromqlVerif
open Val

variable {V : Type} [Val V]

/-- both vectors, one after the other; the first error wins -/
def appE (a b : Except Err (Vec V)) : Except Err (Vec V) := do
  let x ← a
  let y ← b
  pure (x ++ y)

/-- `x` is local at `t`: its value is a function `f` of the storage that turns a union of storages
into the concatenation of the values -/
def LocalAt (c : Ctx V) (t : Int) (x : Expr V) : Prop :=
  ∃ f : List (Series V) → Except Err (Vec V),
    (∀ st, eval { c with st := st } t x = (f st).map Value.vec) ∧ ∀ P Q, f (P ++ Q) = appE (f P) (f Q)

def Loc (c : Ctx V) (x : Expr V) : Prop := ∀ t, LocalAt c t x

/-- the values of the parts, one after the other -/
def catParts (f : List (Series V) → Except Err (Vec V)) : List (List (Series V)) → Except Err (Vec V)
  | [] => .ok []
  | p :: ps => appE (f p) (catParts f ps)

theorem appE_assoc (a b d : Except Err (Vec V)) : appE (appE a b) d = appE a (appE b d) := by
  unfold appE
  cases a <;> cases b <;> cases d <;> simp [bind, Except.bind, pure, Except.pure]

theorem local_flatten (f : List (Series V) → Except Err (Vec V)) (hf : ∀ P Q, f (P ++ Q) = appE (f P) (f Q))
    (p : List (Series V)) (ps : List (List (Series V))) :
    f (p :: ps).flatten = catParts f (p :: ps) := by
  induction ps generalizing p with
  | nil =>
    simp only [List.flatten_cons, List.flatten_nil, List.append_nil, catParts]
    unfold appE
    cases f p <;> simp [bind, Except.bind, pure, Except.pure]
  | cons q qs ih =>
    have := ih q
    simp only [List.flatten_cons] at this ⊢
    rw [hf, this]
    rfl

/-- the children `remote 0 x, remote 1 x, ..` of a coalesce node, evaluated -/
theorem evalVecs_remotes (c : Ctx V) (t : Int) (x : Expr V) (f : List (Series V) → Except Err (Vec V))
    (hf : ∀ st, eval { c with st := st } t x = (f st).map Value.vec) (k : Nat) (ps : List (List (Series V)))
    (hk : ∀ i, i < ps.length → c.parts.getD (k + i) [] = ps.getD i []) :
    evalVecs c t ((List.range' k ps.length).map fun i => Expr.remote i x) = catParts f ps := by
  induction ps generalizing k with
  | nil => simp [evalVecs, catParts]
  | cons p ps ih =>
    simp only [List.length_cons, List.range'_succ, List.map_cons, evalVecs, catParts]
    have h0 := hk 0 (by simp)
    simp only [Nat.add_zero, List.getD_cons_zero] at h0
    rw [eval, h0, hf p]
    rw [ih (k + 1) (fun i hi => by
      have := hk (i + 1) (by simp; omega)
      simpa [Nat.add_assoc, Nat.add_comm 1 i] using this)]
    unfold appE
    cases f p <;> simp [Except.map, Value.asVec, bind, Except.bind, pure, Except.pure]

/-- **wrapping a local expression into `coalesce(remote ..)` preserves its value**: with the local
storage being the union of what the remote engines store -/
theorem eval_makeRemotes (c : Ctx V) (t : Int) (x : Expr V) (hx : LocalAt c t x)
    (hst : c.st = c.parts.flatten) (hne : c.parts ≠ []) :
    eval c t (makeRemotes c.parts.length x) = eval c t x := by
  obtain ⟨f, hf, hadd⟩ := hx
  have hcx : eval c t x = (f c.parts.flatten).map Value.vec := by
    have := hf c.st
    rw [hst] at this
    rw [← this, ← hst]
  rw [hcx]
  unfold makeRemotes
  rw [eval]
  have hr : List.range c.parts.length = List.range' 0 c.parts.length := by
    simp [List.range_eq_range']
  rw [hr, evalVecs_remotes c t x f hf 0 c.parts (fun i _ => by simp)]
  cases hp : c.parts with
  | nil => exact absurd hp hne
  | cons p ps =>
    rw [local_flatten f hadd p ps]
    cases catParts f (p :: ps) <;> simp [Except.map, bind, Except.bind, pure, Except.pure]

/-! ### local expressions -/

theorem appE_ok (a b : Vec V) : appE (.ok a) (.ok b) = .ok (a ++ b) := rfl

theorem selectV_union (c : Ctx V) (P Q : List (Series V)) (s : VSel) (t : Int) :
    selectV { c with st := P ++ Q } s t = selectV { c with st := P } s t ++ selectV { c with st := Q } s t := by
  simp [selectV, selectT, matchingSeries, List.filter_append, List.filterMap_append]

theorem evalRangeFn_union (c : Ctx V) (P Q : List (Series V)) (fn : String) (s : VSel) (r t : Int) :
    evalRangeFn { c with st := P ++ Q } fn s r t
      = evalRangeFn { c with st := P } fn s r t ++ evalRangeFn { c with st := Q } fn s r t := by
  simp [evalRangeFn, matchingSeries, List.filter_append, List.filterMap_append]

theorem loc_vsel (c : Ctx V) (s : VSel) : Loc c (.vsel s) := by
  intro t
  refine ⟨fun st => .ok (selectV { c with st := st } s t), fun st => by rw [eval]; rfl, fun P Q => ?_⟩
  simp only [appE_ok]
  rw [selectV_union]

/-- an expression whose value is the same error whatever is stored -/
theorem loc_of_error (c : Ctx V) (x : Expr V) (er : Err) (h : ∀ t st, eval { c with st := st } t x = .error er) :
    Loc c x := by
  intro t
  exact ⟨fun _ => .error er, fun st => by rw [h t st]; rfl, fun _ _ => rfl⟩

theorem loc_rangefn (c : Ctx V) (fn : String) (s : VSel) (r : Int) : Loc c (.call fn [.msel s r]) := by
  by_cases hfn : rangeFnNames.contains fn = true
  · intro t
    refine ⟨fun st => .ok (evalRangeFn { c with st := st } fn s r t), fun st => ?_, fun P Q => ?_⟩
    · have hmem : fn ∈ rangeFnNames := by simpa using hfn
      rw [eval] <;> simp [hmem, Except.map]
    · simp only [appE_ok]
      rw [evalRangeFn_union]
  · apply loc_of_error c _ .unsupported
    intro t st
    have hmem : ¬ fn ∈ rangeFnNames := by simpa using hfn
    rw [eval] <;> simp [hmem]

/-- a per-sample map on top of a local expression (the duplicate check being off, as in the engine) -/
theorem loc_map (c : Ctx V) (hq : c.q.noDupCheck = true) (a x : Expr V) (g : Int → Labels × V → Labels × V)
    (ha : Loc c a)
    (hx : ∀ t st, eval { c with st := st } t x = do
      let v ← (← eval { c with st := st } t a).asVec
      dedupCheck { c with st := st } (v.map (g t))) : Loc c x := by
  intro t
  obtain ⟨f, hf, hadd⟩ := ha t
  refine ⟨fun st => (f st).map fun v => v.map (g t), fun st => ?_, fun P Q => ?_⟩
  · rw [hx t st, hf st]
    dsimp only
    generalize f st = r
    cases r <;> simp [Except.map, Value.asVec, bind, Except.bind, pure, Except.pure, dedupCheck, hq]
  · dsimp only
    rw [hadd P Q]
    unfold appE
    generalize f P = rp
    generalize f Q = rq
    cases rp <;> cases rq <;> simp [Except.map, bind, Except.bind, pure, Except.pure]

theorem loc_simple (c : Ctx V) (hq : c.q.noDupCheck = true) (fn : String) (a : Expr V)
    (hfn : simpleFns.contains fn = true) (hne : ∀ s r, a ≠ .msel s r) (ha : Loc c a) : Loc c (.call fn [a]) := by
  have hn1 : fn ≠ "timestamp" := by intro h; subst h; revert hfn; decide
  have hn2 : fn ≠ "scalar" := by intro h; subst h; revert hfn; decide
  have hn3 : fn ≠ "vector" := by intro h; subst h; revert hfn; decide
  apply loc_map c hq a _ (fun _ x => (x.1.dropName, applySimple fn x.2)) ha
  intro t st
  rw [eval] <;> first | assumption | skip
  all_goals (try (simp only [hfn, if_true]))
  all_goals (try (intro hh; first | exact hn1 hh | exact hn2 hh | exact hn3 hh))
  all_goals (try (intro s r hh; exact hne s r hh))

theorem loc_neg (c : Ctx V) (a : Expr V) (ha : Loc c a) : Loc c (.neg a) := by
  intro t
  obtain ⟨f, hf, hadd⟩ := ha t
  refine ⟨fun st => (f st).map fun v => v.map fun x => (x.1.dropName, neg x.2), fun st => ?_, fun P Q => ?_⟩
  · rw [eval, hf st]
    dsimp only
    generalize f st = r
    cases r <;> simp [Except.map, bind, Except.bind, pure, Except.pure]
  · dsimp only
    rw [hadd P Q]
    unfold appE
    generalize f P = rp
    generalize f Q = rq
    cases rp <;> cases rq <;> simp [Except.map, bind, Except.bind, pure, Except.pure]

theorem loc_pos (c : Ctx V) (a : Expr V) (ha : Loc c a) : Loc c (.pos a) := by
  intro t
  obtain ⟨f, hf, hadd⟩ := ha t
  exact ⟨f, fun st => by rw [eval, hf st], hadd⟩

theorem loc_paren (c : Ctx V) (a : Expr V) (ha : Loc c a) : Loc c (.paren a) := by
  intro t
  obtain ⟨f, hf, hadd⟩ := ha t
  exact ⟨f, fun st => by rw [eval, hf st], hadd⟩

theorem loc_stepInv (c : Ctx V) (a : Expr V) (ha : Loc c a) : Loc c (.stepInv a) := by
  intro t
  obtain ⟨f, hf, hadd⟩ := ha c.start
  exact ⟨f, fun st => by rw [eval]; exact hf st, hadd⟩

/-! ### the aggregation site -/

theorem catParts_map (f : List (Series V) → Except Err (Vec V)) (G : Vec V → Vec V) (ps : List (List (Series V))) :
    catParts (fun st => (f st).map G) ps = (ps.mapM f).map fun vs => (vs.map G).flatten := by
  induction ps with
  | nil => rfl
  | cons p ps ih =>
    simp only [catParts, ih, List.mapM_cons]
    unfold appE
    generalize f p = r
    generalize ps.mapM f = rs
    cases r <;> cases rs <;> simp [Except.map, bind, Except.bind, pure, Except.pure]

theorem catParts_flatten (f : List (Series V) → Except Err (Vec V)) (ps : List (List (Series V))) :
    catParts f ps = (ps.mapM f).map List.flatten := by
  have := catParts_map f id ps
  have hf : (fun st => (f st).map id) = f := by
    funext st; cases f st <;> rfl
  rw [hf] at this
  rw [this]
  congr 1
  funext vs
  simp

/-- the aggregations whose push-down is exact, with what re-aggregates them -/
def ExactAgg (op : String) : Prop :=
  Rered (aggReduce (V := V) op nan) (aggReduce (localAgg op) nan) ∧ (op == "topk" || op == "bottomk") = false ∧
    (localAgg op == "topk" || localAgg op == "bottomk") = false

/-- **pushing a distributive aggregation over a local expression down preserves its value**: the
same groups in the same order with the same values -/
theorem eval_agg_site (c : Ctx V) (hq : c.q.noDupCheck = true) (t : Int) (op : String) (w : Bool) (g : List String)
    (x : Expr V) (hx : LocalAt c t x) (hop : ExactAgg (V := V) op)
    (hst : c.st = c.parts.flatten) (hne : c.parts ≠ []) :
    eval c t (.agg (localAgg op) w g (makeRemotes c.parts.length (.agg op w g x))) = eval c t (.agg op w g x) := by
  obtain ⟨f, hf, hadd⟩ := hx
  obtain ⟨hR, hk, hk'⟩ := hop
  -- the aggregation over any storage
  have hagg : ∀ st, eval { c with st := st } t (.agg op w g x)
      = ((f st).map (aggR (groupKey w g) (aggReduce op nan))).map Value.vec := by
    intro st
    rw [eval, hf st]
    generalize f st = r
    cases r with
    | error e => rfl
    | ok v =>
      simp only [Except.map, Value.asVec, bind, Except.bind, pure, Except.pure, aggregate_eq_aggR op w g nan v hk,
        dedupCheck, hq, Bool.not_true, Bool.false_and, Bool.false_eq_true, if_false]
  have hcentral : eval c t (.agg op w g x)
      = ((c.parts.mapM f).map fun vs => aggR (groupKey w g) (aggReduce op nan) vs.flatten).map Value.vec := by
    have := hagg c.st
    rw [hst] at this
    have hc : eval c t (.agg op w g x) = eval { c with st := c.parts.flatten } t (.agg op w g x) := by
      rw [← hst]
    rw [hc, this]
    cases hp : c.parts with
    | nil => exact absurd hp hne
    | cons p ps =>
      rw [local_flatten f hadd p ps, catParts_flatten]
      generalize (p :: ps).mapM f = r
      cases r <;> rfl
  rw [hcentral, eval]
  unfold makeRemotes
  rw [eval]
  have hr : List.range c.parts.length = List.range' 0 c.parts.length := by
    simp [List.range_eq_range']
  rw [hr, evalVecs_remotes c t (.agg op w g x) (fun st => (f st).map (aggR (groupKey w g) (aggReduce op nan)))
    hagg 0 c.parts (fun i _ => by simp), catParts_map]
  generalize c.parts.mapM f = r
  cases r with
  | error e => rfl
  | ok vs =>
    simp only [Except.map, Value.asVec, bind, Except.bind, pure, Except.pure,
      aggregate_eq_aggR (localAgg op) w g nan _ hk', dedupCheck, hq, Bool.not_true, Bool.false_and,
      Bool.false_eq_true, if_false]
    rw [aggR_pushdown_eq (groupKey w g) (groupKey_idem w g) _ _ hR vs]

/-! ### calls with one argument -/

/-- the value of a call with one non-matrix argument, as a function of the argument's value -/
def call1 (c : Ctx V) (fn : String) (r : Except Err (Value V)) : Except Err (Value V) :=
  if fn = "scalar" then do
    let v ← (← r).asVec
    match v with
    | [x] => pure (.scal x.2)
    | _ => pure (.scal nan)
  else if fn = "vector" then do
    let s ← (← r).asScal
    pure (.vec [([], s)])
  else if simpleFns.contains fn then do
    let v ← (← r).asVec
    dedupCheck c (v.map fun x => (x.1.dropName, applySimple fn x.2))
  else .error .unsupported

theorem isMsel_false_ne (a : Expr V) (h : isMsel a = false) : ∀ s r, a ≠ .msel s r := by
  intro s r he
  subst he
  cases h

theorem eval_call1 (c : Ctx V) (t : Int) (fn : String) (a : Expr V) (hm : isMsel a = false)
    (hts : fn ≠ "timestamp") : eval c t (.call fn [a]) = call1 c fn (eval c t a) := by
  have hne := isMsel_false_ne a hm
  unfold call1
  by_cases h1 : fn = "scalar"
  · subst h1
    rw [eval] <;> first | rfl | (intro s r hh; exact hne s r hh) | skip
  · by_cases h2 : fn = "vector"
    · subst h2
      rw [eval] <;> first | (intro s r hh; exact hne s r hh) | skip
      rw [if_neg h1, if_pos rfl]
    · simp only [h1, h2, if_false]
      rw [eval] <;> first | rfl | assumption | (intro s r hh; exact hne s r hh) | skip

/-- the value of a call with two arguments, as a function of their values -/
def call2 (c : Ctx V) (fn : String) (ra rb : Except Err (Value V)) : Except Err (Value V) :=
  if fn = "clamp_min" then do
    let v ← (← ra).asVec
    let lo ← (← rb).asScal
    dedupCheck c (v.map fun x => (x.1.dropName, maxGo lo x.2))
  else if fn = "clamp_max" then do
    let v ← (← ra).asVec
    let hi ← (← rb).asScal
    dedupCheck c (v.map fun x => (x.1.dropName, minGo hi x.2))
  else if fn = "histogram_quantile" then do
    let q ← (← ra).asScal
    let v ← (← rb).asVec
    dedupCheck c (histogramQuantile c q v)
  else .error .unsupported

theorem eval_call2 (c : Ctx V) (t : Int) (fn : String) (a b : Expr V) :
    eval c t (.call fn [a, b]) = call2 c fn (eval c t a) (eval c t b) := by
  unfold call2
  by_cases h1 : fn = "clamp_min"
  · subst h1
    rw [eval]
    rfl
  · by_cases h2 : fn = "clamp_max"
    · subst h2
      rw [eval]
      rw [if_neg h1, if_pos rfl]
    · by_cases h3 : fn = "histogram_quantile"
      · subst h3
        rw [eval]
        rw [if_neg h1, if_neg h2, if_pos rfl]
      · simp only [h1, h2, h3, if_false]
        rw [eval] <;> first | rfl | assumption | skip
        all_goals (intros; first | contradiction | (rename_i hh; cases hh))
        all_goals (first | contradiction | skip)

/-- ... and with three -/
def call3 (c : Ctx V) (fn : String) (ra rb rc : Except Err (Value V)) : Except Err (Value V) :=
  if fn = "clamp" then do
    let v ← (← ra).asVec
    let lo ← (← rb).asScal
    let hi ← (← rc).asScal
    if lt hi lo then pure (.vec [])
    else dedupCheck c (v.map fun x => (x.1.dropName, maxGo lo (minGo hi x.2)))
  else .error .unsupported

theorem eval_call3 (c : Ctx V) (t : Int) (fn : String) (a b d : Expr V) :
    eval c t (.call fn [a, b, d]) = call3 c fn (eval c t a) (eval c t b) (eval c t d) := by
  unfold call3
  by_cases h1 : fn = "clamp"
  · subst h1
    rw [eval]
    rfl
  · simp only [h1, if_false]
    rw [eval] <;> first | rfl | assumption | skip
    all_goals (intros; first | contradiction | (rename_i hh; cases hh))
    all_goals (first | contradiction | skip)

/-! ### `timestamp()` -/

/-- the value of `timestamp(a)` as a function of the unwrapped form `u` of `a` and of `a`'s value -/
def tsBody (c : Ctx V) (t : Int) (u : Expr V) (r : Except Err (Value V)) : Except Err (Value V) :=
  match u with
  | .vsel s =>
    if c.q.timestampIsStepTime then do
      let v ← (← r).asVec
      dedupCheck c (v.map fun x => (x.1.dropName, div (ofInt t) (ofInt 1000)))
    else
      match s.atTs with
      | none =>
        dedupCheck c ((selectT c s (s.refTime c.start t)).map fun x =>
          (x.1.dropName, div (ofInt x.2.1) (ofInt 1000)))
      | some a =>
        let o := s.origOffset
        let hi := if o ≥ 0 then a - o else a
        let lo := if o ≥ 0 then a - c.lookback else a - c.lookback - o
        dedupCheck c ((matchingSeries c s).filterMap fun sr =>
          match latestAtOrBefore sr.samples hi with
          | some ⟨ts, .num _⟩ =>
            if ts < lo then none else some (sr.labels.dropName, div (ofInt ts) (ofInt 1000))
          | _ => none)
  | _ => do
    let v ← (← r).asVec
    dedupCheck c (v.map fun x => (x.1.dropName, div (ofInt t) (ofInt 1000)))

theorem eval_timestamp (c : Ctx V) (t : Int) (a : Expr V) (hm : isMsel a = false) :
    eval c t (.call "timestamp" [a]) = tsBody c t a.unwrap (eval c t a) := by
  have hne := isMsel_false_ne a hm
  unfold tsBody
  rw [eval] <;> first | rfl | (intro s r hh; exact hne s r hh) | skip

theorem tsBody_other (c : Ctx V) (t : Int) (u u' : Expr V) (hu : ∀ s, u ≠ .vsel s) (hu' : ∀ s, u' ≠ .vsel s)
    (r : Except Err (Value V)) : tsBody c t u' r = tsBody c t u r := by
  unfold tsBody
  cases u <;> cases u' <;> first | rfl | (exact absurd rfl (hu _)) | (exact absurd rfl (hu' _))


/-! ### the traversal -/

section traversal
variable (c : Ctx V)


/-- what the traversal does to a node: the value is unchanged, a matrix selector stays itself -/
def Rel (a' a : Expr V) : Prop :=
  (∀ t, eval c t a' = eval c t a) ∧ isMsel a' = isMsel a ∧ (isMsel a = true → a' = a) ∧
    (∀ s, a'.unwrap = .vsel s → a' = a)

theorem rel_refl (a : Expr V) : Rel c a a := ⟨fun _ => rfl, rfl, fun _ => rfl, fun _ _ => rfl⟩

theorem all2_rel_refl (as : List (Expr V)) : All2 (Rel c) as as := by
  induction as with
  | nil => exact All2.nil
  | cons a as ih => exact All2.cons (rel_refl c a) ih

/-- a call with at most three arguments depends on its arguments through their values only
(a matrix-selector argument is never rewritten; the argument of `timestamp`, whose unwrapped form
matters, is either not a selector before and after, or unchanged: `hts`) -/
theorem call_congr (fn : String) (args' args : List (Expr V)) (hlen : args.length ≤ 3)
    (hts : fn = "timestamp" → ∀ a s, args = [a] → a.unwrap = .vsel s → args' = args)
    (h : All2 (Rel c) args' args) (t : Int) : eval c t (.call fn args') = eval c t (.call fn args) := by
  cases h with
  | nil => rfl
  | cons hr hrest =>
    cases hrest with
    | nil =>
      rename_i a' a
      obtain ⟨hev, hm, hmm, hun⟩ := hr
      cases hma : isMsel a with
      | true => rw [hmm hma]
      | false =>
        by_cases hfn : fn = "timestamp"
        · by_cases hu : ∃ s, a.unwrap = .vsel s
          · obtain ⟨s, hs⟩ := hu
            rw [hts hfn a s rfl hs]
          · subst hfn
            rw [eval_timestamp c t a hma, eval_timestamp c t a' (by rw [hm, hma]), hev t]
            apply tsBody_other
            · intro s hs; exact hu ⟨s, hs⟩
            · intro s hs
              have := hun s hs
              subst this
              exact hu ⟨s, hs⟩
        · rw [eval_call1 c t fn a hma hfn, eval_call1 c t fn a' (by rw [hm, hma]) hfn, hev t]
    | cons hr2 hrest2 =>
      cases hrest2 with
      | nil => rw [eval_call2, eval_call2, hr.1 t, hr2.1 t]
      | cons hr3 hrest3 =>
        cases hrest3 with
        | nil => rw [eval_call3, eval_call3, hr.1 t, hr2.1 t, hr3.1 t]
        | cons _ _ => simp at hlen

/-- below a distributive parent, a (wrapped) vector selector is left as it is and the traversal
goes on -/
theorem trav_unwrap_vsel (n : Nat) : ∀ (a : Expr V) (par : Option (Expr V)) (s : VSel),
    isDistributive par = true → a.unwrap = .vsel s → traverseD n par a = some (a, false)
  | .vsel s', par, _, hp, _ => by
    rw [traverseD]
    have h1 : isDistributive (some (Expr.vsel s' : Expr V)) = true := rfl
    simp only [transformD, h1, hp, Bool.not_true, Bool.false_eq_true, if_false, if_true]
  | .paren e, _, s, _, h => by
    rw [traverseD, trav_unwrap_vsel n e (some (.paren e)) s rfl (by simpa [Expr.unwrap] using h)]
    rfl
  | .stepInv e, _, s, _, h => by
    rw [traverseD, trav_unwrap_vsel n e (some (.stepInv e)) s rfl (by simpa [Expr.unwrap] using h)]
    rfl
  | .num _, _, _, _, h => by simp [Expr.unwrap] at h
  | .str, _, _, _, h => by simp [Expr.unwrap] at h
  | .msel _ _, _, _, _, h => by simp [Expr.unwrap] at h
  | .subq _, _, _, _, h => by simp [Expr.unwrap] at h
  | .call _ _, _, _, _, h => by simp [Expr.unwrap] at h
  | .agg _ _ _ _, _, _, _, h => by simp [Expr.unwrap] at h
  | .aggP _ _ _ _ _, _, _, _, h => by simp [Expr.unwrap] at h
  | .bin _ _ _ _ _, _, _, _, h => by simp [Expr.unwrap] at h
  | .neg _, _, _, _, h => by simp [Expr.unwrap] at h
  | .pos _, _, _, _, h => by simp [Expr.unwrap] at h
  | .coalesce _, _, _, _, h => by simp [Expr.unwrap] at h
  | .remote _ _, _, _, _, h => by simp [Expr.unwrap] at h

theorem unwrap_vsel_seriesTyped : ∀ (a : Expr V) (s : VSel), a.unwrap = .vsel s → isSeriesTyped a = true
  | .vsel _, _, _ => rfl
  | .paren e, s, h => by
    have := unwrap_vsel_seriesTyped e s (by simpa [Expr.unwrap] using h)
    cases e <;> simp_all [isSeriesTyped, Expr.isScalar, Expr.unwrap]
  | .stepInv e, s, h => by
    have := unwrap_vsel_seriesTyped e s (by simpa [Expr.unwrap] using h)
    cases e <;> simp_all [isSeriesTyped, Expr.isScalar, Expr.unwrap]
  | .num _, _, h => by simp [Expr.unwrap] at h
  | .str, _, h => by simp [Expr.unwrap] at h
  | .msel _ _, _, h => by simp [Expr.unwrap] at h
  | .subq _, _, h => by simp [Expr.unwrap] at h
  | .call _ _, _, h => by simp [Expr.unwrap] at h
  | .agg _ _ _ _, _, h => by simp [Expr.unwrap] at h
  | .aggP _ _ _ _ _, _, h => by simp [Expr.unwrap] at h
  | .bin _ _ _ _ _, _, h => by simp [Expr.unwrap] at h
  | .neg _, _, h => by simp [Expr.unwrap] at h
  | .pos _, _, h => by simp [Expr.unwrap] at h
  | .coalesce _, _, h => by simp [Expr.unwrap] at h
  | .remote _ _, _, h => by simp [Expr.unwrap] at h

/-- `timestamp(a)` over a local argument is local: over a (wrapped) selector it reads the selected
samples' own timestamps, series by series; over anything else it is a per-sample map -/
theorem loc_timestamp (hq : c.q.noDupCheck = true) (a : Expr V) (hm : isMsel a = false) (ha : Loc c a) :
    Loc c (.call "timestamp" [a]) := by
  cases hu : a.unwrap with
  | vsel s =>
    by_cases hflag : c.q.timestampIsStepTime = true
    · apply loc_map c hq a _ (fun t x => (x.1.dropName, div (ofInt t) (ofInt 1000))) ha
      intro t st
      rw [eval_timestamp _ t a hm, hu]
      simp only [tsBody, hflag, if_true]
    · have hflag' : c.q.timestampIsStepTime = false := by simpa using hflag
      cases hat : s.atTs with
      | none =>
        intro t
        refine ⟨fun st => .ok ((selectT { c with st := st } s (s.refTime c.start t)).map fun x =>
          (x.1.dropName, div (ofInt x.2.1) (ofInt 1000))), fun st => ?_, fun P Q => ?_⟩
        · rw [eval_timestamp _ t a hm, hu]
          simp only [tsBody, hflag', Bool.false_eq_true, if_false, hat, dedupCheck, hq, Bool.not_true, Bool.false_and,
            Except.map]
        · simp only [appE_ok]
          congr 1
          simp [selectT, matchingSeries, List.filter_append, List.filterMap_append]
      | some at_ =>
        intro t
        refine ⟨fun st => .ok ((matchingSeries { c with st := st } s).filterMap fun sr =>
          match latestAtOrBefore sr.samples (if s.origOffset ≥ 0 then at_ - s.origOffset else at_) with
          | some ⟨ts, .num _⟩ =>
            if ts < (if s.origOffset ≥ 0 then at_ - c.lookback else at_ - c.lookback - s.origOffset) then none
            else some (sr.labels.dropName, div (ofInt ts) (ofInt 1000))
          | _ => none), fun st => ?_, fun P Q => ?_⟩
        · rw [eval_timestamp _ t a hm, hu]
          simp only [tsBody, hflag', Bool.false_eq_true, if_false, hat, dedupCheck, hq, Bool.not_true, Bool.false_and,
            Except.map]
        · simp only [appE_ok]
          congr 1
          simp [matchingSeries, List.filter_append, List.filterMap_append]
  | _ =>
    apply loc_map c hq a _ (fun t x => (x.1.dropName, div (ofInt t) (ofInt 1000))) ha
    intro t st
    rw [eval_timestamp _ t a hm, hu]
    rfl

/-- a scalar-typed expression always stops the traversal: its leaves are literals, `time()`,
`pi()` or `scalar(..)`, none of which is distributive -/
theorem scalar_stops (n : Nat) : ∀ (a : Expr V) (par : Option (Expr V)) (a' : Expr V) (st : Bool),
    a.isScalar = true → traverseD n par a = some (a', st) → st = true
  | .num v, par, a', st, _, h => by
    rw [traverseD] at h <;> first | (intros; rename_i hh; cases hh) | skip
    simp only [Option.some.injEq, Prod.mk.injEq] at h
    exact h.2.symm
  | .call fn args, par, a', st, hs, h => by
    simp only [Expr.isScalar] at hs
    rw [traverseD] at h
    cases hr : traverseD.travArgs n (some (Expr.call fn args)) args with
    | none => rw [hr] at h; cases h
    | some r =>
      obtain ⟨args', s2⟩ := r
      rw [hr] at h
      cases s2 with
      | true =>
        simp only [Option.some.injEq, Prod.mk.injEq] at h
        exact h.2.symm
      | false =>
        simp only [Option.some.injEq] at h
        unfold transformD at h
        have hd : isDistributive (some (Expr.call fn args')) = false := by
          simp only [isDistributive, hs, Bool.not_true, Bool.false_and]
        simp only [hd, Bool.not_false, if_true, Prod.mk.injEq] at h
        exact h.2.symm
  | .bin op b m l r, par, a', st, hs, h => by
    simp only [Expr.isScalar, Bool.and_eq_true] at hs
    rw [traverseD] at h
    cases hl : traverseD n (some (Expr.bin op b m l r)) l with
    | none => rw [hl] at h; simp at h
    | some rl =>
      obtain ⟨l', ls⟩ := rl
      cases hr : traverseD n (some (Expr.bin op b m l r)) r with
      | none => rw [hl, hr] at h; simp at h
      | some rr =>
        obtain ⟨r', rs⟩ := rr
        have hls := scalar_stops n l _ l' ls hs.1 hl
        subst hls
        rw [hl, hr] at h
        simp only [Bool.true_or, if_true, Option.some.injEq, Prod.mk.injEq] at h
        exact h.2.symm
  | .neg e, par, a', st, hs, h => by
    simp only [Expr.isScalar] at hs
    rw [traverseD] at h
    cases hr : traverseD n (some (Expr.neg e)) e with
    | none => rw [hr] at h; cases h
    | some r =>
      rw [hr] at h
      simp only [Option.map_some, Option.some.injEq, Prod.mk.injEq] at h
      rw [← h.2]
      exact scalar_stops n e _ r.1 r.2 hs hr
  | .pos e, par, a', st, hs, h => by
    simp only [Expr.isScalar] at hs
    rw [traverseD] at h
    cases hr : traverseD n (some (Expr.pos e)) e with
    | none => rw [hr] at h; cases h
    | some r =>
      rw [hr] at h
      simp only [Option.map_some, Option.some.injEq, Prod.mk.injEq] at h
      rw [← h.2]
      exact scalar_stops n e _ r.1 r.2 hs hr
  | .paren e, par, a', st, hs, h => by
    simp only [Expr.isScalar] at hs
    rw [traverseD] at h
    cases hr : traverseD n (some (Expr.paren e)) e with
    | none => rw [hr] at h; cases h
    | some r =>
      rw [hr] at h
      simp only [Option.map_some, Option.some.injEq, Prod.mk.injEq] at h
      rw [← h.2]
      exact scalar_stops n e _ r.1 r.2 hs hr
  | .stepInv e, par, a', st, hs, h => by
    simp only [Expr.isScalar] at hs
    rw [traverseD] at h
    cases hr : traverseD n (some (Expr.stepInv e)) e with
    | none => rw [hr] at h; cases h
    | some r =>
      rw [hr] at h
      simp only [Option.map_some, Option.some.injEq, Prod.mk.injEq] at h
      rw [← h.2]
      exact scalar_stops n e _ r.1 r.2 hs hr
  | .str, _, _, _, hs, _ => by simp [Expr.isScalar] at hs
  | .vsel _, _, _, _, hs, _ => by simp [Expr.isScalar] at hs
  | .msel _ _, _, _, _, hs, _ => by simp [Expr.isScalar] at hs
  | .subq _, _, _, _, hs, _ => by simp [Expr.isScalar] at hs
  | .agg _ _ _ _, _, _, _, hs, _ => by simp [Expr.isScalar] at hs
  | .aggP _ _ _ _ _, _, _, _, hs, _ => by simp [Expr.isScalar] at hs
  | .coalesce _, _, _, _, hs, _ => by simp [Expr.isScalar] at hs
  | .remote _ _, _, _, _, hs, _ => by simp [Expr.isScalar] at hs

/-- a literal argument stops the loop over the arguments -/
theorem travArgs_stops (n : Nat) (par : Option (Expr V)) (args : List (Expr V))
    (h : (args.any fun a => stopsArg a || a.isScalar) = true)
    (args' : List (Expr V)) (st : Bool) (ht : traverseD.travArgs n par args = some (args', st)) : st = true := by
  induction args generalizing args' st with
  | nil => simp at h
  | cons a as ih =>
    rw [traverseD.travArgs] at ht
    cases ha : traverseD n par a with
    | none => rw [ha] at ht; cases ht
    | some r =>
      obtain ⟨a', sa⟩ := r
      rw [ha] at ht
      cases sa with
      | true =>
        simp only [Option.some.injEq, Prod.mk.injEq] at ht
        exact ht.2.symm
      | false =>
        -- `a` did not stop, so it is not a literal
        have hna : stopsArg a = false := by
          cases hsa : stopsArg a with
          | false => rfl
          | true =>
            exfalso
            cases a with
            | num v => rw [traverseD] at ha <;> first | (cases ha) | (intros; rename_i hh; cases hh)
            | str => rw [traverseD] at ha <;> first | (cases ha) | (intros; rename_i hh; cases hh)
            | stepInv e =>
              cases e with
              | num v =>
                rw [traverseD] at ha
                have : traverseD n (some (Expr.stepInv (Expr.num v))) (Expr.num v : Expr V) = some (.num v, true) := by
                  rw [traverseD] <;> (intros; rename_i hh; cases hh)
                rw [this] at ha
                cases ha
              | _ => cases hsa
            | _ => cases hsa
        have hns : a.isScalar = false := by
          cases hsc : a.isScalar with
          | false => rfl
          | true => exact absurd (scalar_stops n a par a' false hsc ha) (by simp)
        simp only [List.any_cons, hna, hns, Bool.false_or, Bool.or_self] at h
        cases hr : traverseD.travArgs n par as with
        | none => rw [hr] at ht; cases ht
        | some r2 =>
          obtain ⟨as', s2⟩ := r2
          rw [hr] at ht
          simp only [Option.map_some, Option.some.injEq, Prod.mk.injEq] at ht
          rw [← ht.2]
          exact ih h as' s2 hr

variable (hq : c.q.noDupCheck = true) (hst : c.st = c.parts.flatten) (hne : c.parts ≠ [])

include hq in
/-- a distributive call with at most one argument, over local arguments, is local -/
theorem loc_call (fn : String) (args : List (Expr V)) (hlen : args.length ≤ 1)
    (hd : isDistributive (some (.call fn args)) = true) (hargs : ∀ a ∈ args, Loc c a) : Loc c (.call fn args) := by
  simp only [isDistributive, Bool.and_eq_true, Bool.not_eq_true'] at hd
  obtain ⟨⟨⟨hsc, hnl⟩, _⟩, hany⟩ := hd
  have hn_time : fn ≠ "time" := by intro h; subst h; revert hsc; decide
  have hn_pi : fn ≠ "pi" := by intro h; subst h; revert hsc; decide
  have hn_scalar : fn ≠ "scalar" := by intro h; subst h; revert hsc; decide
  have hn_vector : fn ≠ "vector" := by intro h; subst h; revert hnl; decide
  match args, hlen, hargs, hany with
  | [], _, _, hany => simp at hany
  | [a], _, hargs, _ =>
    cases hma : isMsel a with
    | true =>
      cases a with
      | msel s r => exact loc_rangefn c fn s r
      | _ => cases hma
    | false =>
      have ha := hargs a List.mem_cons_self
      by_cases hts : fn = "timestamp"
      · subst hts
        exact loc_timestamp c hq a hma ha
      by_cases hs : simpleFns.contains fn = true
      · exact loc_simple c hq fn a hs (isMsel_false_ne a hma) ha
      · apply loc_of_error c _ .unsupported
        intro t st
        rw [eval_call1 _ t fn a hma hts]
        unfold call1
        have hs' : simpleFns.contains fn = false := by simpa using hs
        simp only [hn_scalar, hn_vector, hs', if_false, Bool.false_eq_true]
  | _ :: _ :: _, hlen, _, _ => simp at hlen

/-- the statement carried through the traversal of an expression ... -/
def M2 (par : Option (Expr V)) (e : Expr V) : Prop :=
  siteOk e = true → ∀ e' st, traverseD c.parts.length par e = some (e', st) →
    Rel c e' e ∧ (st = false → e' = e ∧ Loc c e)

/-- ... and of the arguments of a call -/
def M1 (par : Option (Expr V)) (args : List (Expr V)) : Prop :=
  siteOk.okArgs args = true → ∀ args' st, traverseD.travArgs c.parts.length par args = some (args', st) →
    All2 (Rel c) args' args ∧ (st = false → args' = args ∧ ∀ a ∈ args, Loc c a)

include hst hne in
/-- a distributive node that is not an aggregation, and local: kept if the parent is distributive,
wrapped into remote executions otherwise - its value unchanged either way -/
theorem transform_plain (parent : Option (Expr V)) (cur : Expr V) (hd : isDistributive (some cur) = true)
    (hnagg : ∀ op w g e, cur ≠ .agg op w g e) (hnaggP : ∀ op w g p e, cur ≠ .aggP op w g p e)
    (hloc : Loc c cur) (e' : Expr V) (st : Bool) (h : transformD c.parts.length parent cur = (e', st)) :
    (∀ t, eval c t e' = eval c t cur) ∧ (st = false → e' = cur) ∧ (e' = cur ∨ e' = makeRemotes c.parts.length cur) := by
  unfold transformD at h
  simp only [hd, Bool.not_true, Bool.false_eq_true, if_false] at h
  by_cases hp : isDistributive parent = true
  · have : (e', st) = (cur, false) := by
      rw [← h]
      cases cur <;> simp_all
    obtain ⟨rfl, rfl⟩ := Prod.mk.injEq .. ▸ this
    exact ⟨fun _ => rfl, fun _ => rfl, Or.inl rfl⟩
  · have : (e', st) = (makeRemotes c.parts.length cur, true) := by
      rw [← h]
      cases cur <;> simp_all
    obtain ⟨rfl, rfl⟩ := Prod.mk.injEq .. ▸ this
    exact ⟨fun t => eval_makeRemotes c t cur (hloc t) hst hne, fun h => Bool.noConfusion h, Or.inr rfl⟩

/-- the wrappers the traversal walks through without looking at them -/
theorem wrap_case (W : Expr V → Expr V) (parent : Option (Expr V)) (e : Expr V)
    (htrav : traverseD c.parts.length parent (W e)
      = (traverseD c.parts.length (some (W e)) e).map fun r => (W r.1, r.2))
    (hsite : siteOk (W e) = siteOk e)
    (hev : ∀ a', (∀ t, eval c t a' = eval c t e) → ∀ t, eval c t (W a') = eval c t (W e))
    (hm : ∀ a, isMsel (W a) = false) (hloc : Loc c e → Loc c (W e))
    (hun : ∀ x s, (W x).unwrap = .vsel s → x.unwrap = .vsel s)
    (ih : M2 c (some (W e)) e) : M2 c parent (W e) := by
  intro hok e' st h
  rw [htrav] at h
  cases hr : traverseD c.parts.length (some (W e)) e with
  | none => rw [hr] at h; cases h
  | some r =>
    obtain ⟨r1, r2⟩ := r
    rw [hr] at h
    simp only [Option.map_some, Option.some.injEq, Prod.mk.injEq] at h
    obtain ⟨rfl, rfl⟩ := h
    obtain ⟨⟨hev1, _, _, hun4⟩, hl⟩ := ih (by rw [← hsite]; exact hok) r1 r2 hr
    refine ⟨⟨hev r1 hev1, (by rw [hm, hm]), fun hh => (by rw [hm] at hh; cases hh),
      fun s hs => (by rw [hun4 s (hun r1 s hs)])⟩, fun hst' => ?_⟩
    obtain ⟨rfl, hle⟩ := hl hst'
    exact ⟨rfl, hloc hle⟩

include hq hst hne in
/-- **the traversal preserves the value of every node** (for `siteOk` expressions, the duplicate
check off as in the engine, the local storage being the union of the remote ones, the exact
aggregations re-reducible): by induction along `traverseBottomUp` -/
theorem traverse_sound (hex : ∀ op, exactAggs.contains op = true → ExactAgg (V := V) op) :
    ∀ (parent : Option (Expr V)) (e : Expr V), M2 c parent e := by
  apply traverseD.induct c.parts.length (M1 c) (M2 c)
  -- stepInv
  · intro parent e ih
    exact wrap_case c .stepInv parent e (by rw [traverseD]) (by rw [siteOk])
      (fun a' h t => by rw [eval, eval]; exact h c.start) (fun _ => rfl) (loc_stepInv c e)
      (fun x s h => by simpa [Expr.unwrap] using h) ih
  -- vsel
  · intro parent s _ e' st h
    rw [traverseD] at h
    simp only [Option.some.injEq] at h
    obtain ⟨h1, h2, h3⟩ := transform_plain c hst hne parent (.vsel s) rfl (fun _ _ _ _ hh => by cases hh)
      (fun _ _ _ _ _ hh => by cases hh) (loc_vsel c s) e' st h
    refine ⟨⟨h1, ?_, fun hh => (by cases hh), ?_⟩, fun hs => ⟨h2 hs, loc_vsel c s⟩⟩
    · rcases h3 with rfl | rfl <;> rfl
    · rcases h3 with rfl | rfl
      · exact fun _ _ => rfl
      · intro s' hs'; simp [makeRemotes, Expr.unwrap] at hs'
  -- msel, the inner selector kept
  · intro parent s r s' st htr _ e' st' h
    rw [traverseD, htr] at h
    simp only [Option.some.injEq, Prod.mk.injEq] at h
    obtain ⟨rfl, rfl⟩ := h
    obtain ⟨_, h2, h3⟩ := transform_plain c hst hne parent (.vsel s) rfl (fun _ _ _ _ hh => by cases hh)
      (fun _ _ _ _ _ hh => by cases hh) (loc_vsel c s) (.vsel s') st htr
    have hs : s' = s := by
      rcases h3 with h | h
      · cases h; rfl
      · cases h
    subst hs
    refine ⟨rel_refl c _, fun _ => ⟨rfl, ?_⟩⟩
    exact loc_of_error c _ .unsupported (fun t st => by rw [eval])
  -- msel, the inner selector replaced: no plan
  · intro parent s r hnone _ e' st h
    rw [traverseD] at h
    split at h
    · rename_i s' st' heq
      exact absurd heq (fun hh => hnone s' st' hh)
    · cases h
  -- agg: no plan below
  · intro parent op w g e hnone _ _ e' st h
    rw [traverseD, hnone] at h
    cases h
  -- agg: stopped below
  · intro parent op w g e a' hsome ih hok e' st h
    rw [traverseD, hsome] at h
    simp only [Option.some.injEq, Prod.mk.injEq] at h
    obtain ⟨rfl, rfl⟩ := h
    have hoke : siteOk e = true := by
      rw [siteOk] at hok
      simp only [Bool.and_eq_true] at hok
      exact hok.1
    obtain ⟨⟨hev, _, _, _⟩, _⟩ := ih hoke a' true hsome
    exact ⟨⟨fun t => by rw [eval, eval, hev t], rfl, fun hh => (by cases hh), fun s hs => (by simp [Expr.unwrap] at hs)⟩, fun hh => by cases hh⟩
  -- agg: not stopped below
  · intro parent op w g e a' hsome ih hok e' st h
    rw [traverseD, hsome] at h
    simp only [Option.some.injEq] at h
    rw [siteOk] at hok
    simp only [Bool.and_eq_true, Bool.or_eq_true, Bool.not_eq_true'] at hok
    obtain ⟨hoke, hagg⟩ := hok
    obtain ⟨_, hl⟩ := ih hoke a' false hsome
    obtain ⟨rfl, hloc⟩ := hl rfl
    unfold transformD at h
    by_cases hd : distAggs.contains op = true
    · have hexact : exactAggs.contains op = true := by
        rcases hagg with h' | h'
        · rw [hd] at h'; cases h'
        · exact h'
      simp only [isDistributive, hd, Bool.not_true, Bool.false_eq_true, if_false, Prod.mk.injEq] at h
      obtain ⟨rfl, rfl⟩ := h
      exact ⟨⟨fun t => eval_agg_site c hq t op w g a' (hloc t) (hex op hexact) hst hne, rfl, fun hh => (by cases hh), fun s hs => (by simp [Expr.unwrap] at hs)⟩,
        fun hh => by cases hh⟩
    · have hd' : distAggs.contains op = false := by simpa using hd
      simp only [isDistributive, hd', Bool.not_false, if_true, Prod.mk.injEq] at h
      obtain ⟨rfl, rfl⟩ := h
      exact ⟨rel_refl c _, fun hh => by cases hh⟩
  -- aggP: no plan below
  · intro parent op w g p e hnone _ _ e' st h
    rw [traverseD, hnone] at h
    cases h
  -- aggP: stopped below
  · intro parent op w g p e a' hsome ih hok e' st h
    rw [traverseD, hsome] at h
    simp only [Option.some.injEq, Prod.mk.injEq] at h
    obtain ⟨rfl, rfl⟩ := h
    have hoke : siteOk e = true := by
      rw [siteOk] at hok
      simp only [Bool.and_eq_true] at hok
      exact hok.1
    obtain ⟨⟨hev, _, _, _⟩, _⟩ := ih hoke a' true hsome
    exact ⟨⟨fun t => by rw [eval, eval, hev t], rfl, fun hh => (by cases hh), fun s hs => (by simp [Expr.unwrap] at hs)⟩, fun hh => by cases hh⟩
  -- aggP: not stopped below (then it is not distributive)
  · intro parent op w g p e a' hsome ih hok e' st h
    rw [traverseD, hsome] at h
    simp only [Option.some.injEq] at h
    rw [siteOk] at hok
    simp only [Bool.and_eq_true, Bool.not_eq_true'] at hok
    obtain ⟨hoke, hnd⟩ := hok
    obtain ⟨_, hl⟩ := ih hoke a' false hsome
    obtain ⟨rfl, _⟩ := hl rfl
    unfold transformD at h
    simp only [hnd, Bool.not_false, if_true, Prod.mk.injEq] at h
    obtain ⟨rfl, rfl⟩ := h
    exact ⟨rel_refl c _, fun hh => by cases hh⟩
  -- call: no plan below
  · intro parent fn args hnone _ _ e' st h
    rw [traverseD, hnone] at h
    cases h
  -- call: stopped at an argument
  · intro parent fn args args' hsome ih hok e' st h
    rw [traverseD, hsome] at h
    simp only [Option.some.injEq, Prod.mk.injEq] at h
    obtain ⟨rfl, rfl⟩ := h
    rw [siteOk] at hok
    simp only [Bool.and_eq_true, Bool.or_eq_true, decide_eq_true_eq] at hok
    obtain ⟨hargs, hlen⟩ := hok
    have hlen3 : args.length ≤ 3 := by
      rcases hlen with h1 | ⟨h3, _⟩
      · omega
      · exact h3
    obtain ⟨hall, _⟩ := ih hargs args' true hsome
    have hts : fn = "timestamp" → ∀ a s, args = [a] → a.unwrap = .vsel s → args' = args := by
      intro hfn a s hargs1 hu
      subst hfn hargs1
      -- a (wrapped) selector below `timestamp` is walked through: the loop cannot have stopped
      have hd : isDistributive (some (Expr.call "timestamp" [a])) = true := by
        simp [isDistributive, unwrap_vsel_seriesTyped a s hu, scalarFns, nonLocalCalls]
      have := trav_unwrap_vsel c.parts.length a (some (Expr.call "timestamp" [a])) s hd hu
      rw [traverseD.travArgs, this] at hsome
      simp [traverseD.travArgs] at hsome
    exact ⟨⟨fun t => call_congr c fn args' args hlen3 hts hall t, rfl, fun hh => (by cases hh), fun s hs => (by simp [Expr.unwrap] at hs)⟩, fun hh => by cases hh⟩
  -- call: no argument stopped
  · intro parent fn args args' hsome ih hok e' st h
    rw [traverseD, hsome] at h
    simp only [Option.some.injEq] at h
    rw [siteOk] at hok
    simp only [Bool.and_eq_true, Bool.or_eq_true, decide_eq_true_eq] at hok
    obtain ⟨hargs, hlen'⟩ := hok
    have hlen : args.length ≤ 1 := by
      rcases hlen' with h1 | ⟨_, hany⟩
      · exact h1
      · have := travArgs_stops c.parts.length (some (Expr.call fn args)) args hany args' false hsome
        cases this
    obtain ⟨_, hl⟩ := ih hargs args' false hsome
    obtain ⟨rfl, hlocs⟩ := hl rfl
    by_cases hd : isDistributive (some (.call fn args')) = true
    · have hloc := loc_call c hq fn args' hlen hd hlocs
      obtain ⟨h1, h2, h3⟩ := transform_plain c hst hne parent (.call fn args') hd (fun _ _ _ _ hh => by cases hh)
        (fun _ _ _ _ _ hh => by cases hh) hloc e' st h
      refine ⟨⟨h1, ?_, fun hh => (by cases hh), ?_⟩, fun hs => ⟨h2 hs, hloc⟩⟩
      · rcases h3 with rfl | rfl <;> rfl
      · rcases h3 with rfl | rfl
        · exact fun _ _ => rfl
        · intro s' hs'; simp [makeRemotes, Expr.unwrap] at hs'
    · have hd' : isDistributive (some (.call fn args')) = false := by simpa using hd
      unfold transformD at h
      simp only [hd', Bool.not_false, if_true, Prod.mk.injEq] at h
      obtain ⟨rfl, rfl⟩ := h
      exact ⟨rel_refl c _, fun hh => by cases hh⟩
  -- bin: one side stopped
  · intro parent op b m l r l' ls r' rs hr hl hor ihl ihr hok e' st h
    rw [traverseD, hl, hr] at h
    simp only [hor, if_true, Option.some.injEq, Prod.mk.injEq] at h
    obtain ⟨rfl, rfl⟩ := h
    rw [siteOk] at hok
    simp only [Bool.and_eq_true] at hok
    obtain ⟨⟨hevl, _, _, _⟩, _⟩ := ihl hok.1 l' ls hl
    obtain ⟨⟨hevr, _, _, _⟩, _⟩ := ihr hok.2 r' rs hr
    exact ⟨⟨fun t => by rw [eval, eval, hevl t, hevr t], rfl, fun hh => (by cases hh), fun s hs => (by simp [Expr.unwrap] at hs)⟩, fun hh => by cases hh⟩
  -- bin: neither side stopped
  · intro parent op b m l r l' ls r' rs hr hl hor ihl ihr hok e' st h
    rw [traverseD, hl, hr] at h
    simp only [hor, if_false, Option.some.injEq] at h
    rw [siteOk] at hok
    simp only [Bool.and_eq_true] at hok
    have hls : ls = false := by cases ls <;> simp_all
    have hrs : rs = false := by cases rs <;> simp_all
    subst hls hrs
    obtain ⟨_, hl'⟩ := ihl hok.1 l' false hl
    obtain ⟨_, hr'⟩ := ihr hok.2 r' false hr
    obtain ⟨rfl, _⟩ := hl' rfl
    obtain ⟨rfl, _⟩ := hr' rfl
    unfold transformD at h
    simp only [isDistributive, Bool.not_false, if_true, Prod.mk.injEq] at h
    obtain ⟨rfl, rfl⟩ := h
    exact ⟨rel_refl c _, fun hh => by cases hh⟩
  -- bin: no plan on a side
  · intro parent op b m l r hnone _ _ _ e' st h
    rw [traverseD] at h
    split at h
    · rename_i l' ls r' rs h1 h2
      exact absurd h2 (fun hh => hnone l' ls r' rs h1 hh)
    · cases h
  -- neg
  · intro parent e ih
    exact wrap_case c .neg parent e (by rw [traverseD]) (by rw [siteOk])
      (fun a' h t => by rw [eval, eval, h t]) (fun _ => rfl) (loc_neg c e)
      (fun x s h => by simp [Expr.unwrap] at h) ih
  -- pos
  · intro parent e ih
    exact wrap_case c .pos parent e (by rw [traverseD]) (by rw [siteOk])
      (fun a' h t => by rw [eval, eval, h t]) (fun _ => rfl) (loc_pos c e)
      (fun x s h => by simp [Expr.unwrap] at h) ih
  -- paren
  · intro parent e ih
    exact wrap_case c .paren parent e (by rw [traverseD]) (by rw [siteOk])
      (fun a' h t => by rw [eval, eval, h t]) (fun _ => rfl) (loc_paren c e)
      (fun x s h => by simpa [Expr.unwrap] using h) ih
  -- subq
  · intro parent e ih
    exact wrap_case c .subq parent e (by rw [traverseD]) (by rw [siteOk])
      (fun a' h t => by rw [eval, eval]) (fun _ => rfl)
      (fun _ => loc_of_error c _ .unsupported (fun t st => by rw [eval]))
      (fun x s h => by simp [Expr.unwrap] at h) ih
  -- literals, and nodes that are plan nodes already
  · intro parent e h1 h2 h3 h4 h5 h6 h7 h8 h9 h10 h11 _ e' st h
    rw [traverseD] at h <;> first | assumption | skip
    simp only [Option.some.injEq, Prod.mk.injEq] at h
    obtain ⟨rfl, rfl⟩ := h
    exact ⟨rel_refl c _, fun hh => by cases hh⟩
  -- arguments: none
  · intro par _ args' st h
    rw [traverseD.travArgs] at h
    simp only [Option.some.injEq, Prod.mk.injEq] at h
    obtain ⟨rfl, rfl⟩ := h
    exact ⟨All2.nil, fun _ => ⟨rfl, fun a ha => by cases ha⟩⟩
  -- arguments: no plan for the first
  · intro par a as hnone _ _ args' st h
    rw [traverseD.travArgs, hnone] at h
    cases h
  -- arguments: the first stops the loop
  · intro par a as a' hsome ih hok args' st h
    rw [traverseD.travArgs, hsome] at h
    simp only [Option.some.injEq, Prod.mk.injEq] at h
    obtain ⟨rfl, rfl⟩ := h
    rw [siteOk.okArgs] at hok
    simp only [Bool.and_eq_true] at hok
    obtain ⟨hrel, _⟩ := ih hok.1 a' true hsome
    exact ⟨All2.cons hrel (all2_rel_refl c as), fun hh => by cases hh⟩
  -- arguments: the first does not stop
  · intro par a as a' hsome ih ihs hok args' st h
    rw [traverseD.travArgs, hsome] at h
    rw [siteOk.okArgs] at hok
    simp only [Bool.and_eq_true] at hok
    obtain ⟨hrel, hl⟩ := ih hok.1 a' false hsome
    obtain ⟨rfl, hloca⟩ := hl rfl
    cases hrest : traverseD.travArgs c.parts.length par as with
    | none => rw [hrest] at h; cases h
    | some r =>
      obtain ⟨as', st2⟩ := r
      rw [hrest] at h
      simp only [Option.map_some, Option.some.injEq, Prod.mk.injEq] at h
      obtain ⟨rfl, rfl⟩ := h
      obtain ⟨hall, hl2⟩ := ihs hok.2 as' st2 hrest
      refine ⟨All2.cons hrel hall, fun hs => ?_⟩
      obtain ⟨rfl, hlocs⟩ := hl2 hs
      refine ⟨rfl, fun x hx => ?_⟩
      rcases List.mem_cons.mp hx with rfl | hx
      · exact hloca
      · exact hlocs x hx

end traversal

end PromqlVerif
