import PromqlVerif.Proofs.IterProof
namespace PromqlVerif

variable {V : Type}

/-! ### windows of a sorted sample list -/

def inWin (lo hi : Int) (s : Sample V) : Option (Int × V) :=
  match s.v with
  | .num v => if lo ≤ s.t && s.t ≤ hi then some (s.t, v) else none
  | .stale => none

theorem windowPoints_eq (lo hi : Int) (ss : List (Sample V)) :
    windowPoints lo hi ss = ss.filterMap (inWin lo hi) := rfl

theorem fm_congr {γ δ : Type} {f g : γ → Option δ} {l : List γ} (h : ∀ x ∈ l, f x = g x) :
    l.filterMap f = l.filterMap g := by
  induction l with
  | nil => rfl
  | cons x xs ih =>
    simp only [List.filterMap_cons]
    rw [h x (List.mem_cons_self ..), ih (fun y hy => h y (List.mem_cons_of_mem _ hy))]

theorem fm_nil {γ δ : Type} {f : γ → Option δ} {l : List γ} (h : ∀ x ∈ l, f x = none) :
    l.filterMap f = [] := by
  induction l with
  | nil => rfl
  | cons x xs ih =>
    simp only [List.filterMap_cons]
    rw [h x (List.mem_cons_self ..), ih (fun y hy => h y (List.mem_cons_of_mem _ hy))]

theorem inWin_some {lo hi : Int} {s : Sample V} {p : Int × V} (h : inWin lo hi s = some p) :
    p.1 = s.t ∧ lo ≤ s.t ∧ s.t ≤ hi ∧ s.v = .num p.2 := by
  unfold inWin at h
  split at h
  · rename_i v hv
    split at h
    · rename_i hc
      simp only [Bool.and_eq_true, decide_eq_true_eq] at hc
      cases h
      exact ⟨rfl, hc.1, hc.2, hv⟩
    · cases h
  · cases h

theorem inWin_lt {lo hi : Int} {s : Sample V} (h : s.t < lo) : inWin lo hi s = none := by
  unfold inWin
  split
  · have : ¬ lo ≤ s.t := by omega
    simp [this]
  · rfl

theorem inWin_gt {lo hi : Int} {s : Sample V} (h : hi < s.t) : inWin lo hi s = none := by
  unfold inWin
  split
  · have : ¬ s.t ≤ hi := by omega
    simp [this]
  · rfl

/-- raising the lower bound does not matter for samples at or above the new bound -/
theorem inWin_lo {lo lo' hi : Int} {s : Sample V} (h1 : lo ≤ s.t) (h2 : lo' ≤ s.t) :
    inWin lo hi s = inWin lo' hi s := by
  unfold inWin
  split <;> simp [h1, h2]

theorem inWin_hi {lo hi hi' : Int} {s : Sample V} (h1 : s.t ≤ hi) (h2 : s.t ≤ hi') :
    inWin lo hi s = inWin lo hi' s := by
  unfold inWin
  split <;> simp [h1, h2]

theorem sorted_tail_gt {x : Sample V} {l : List (Sample V)} (h : SortedT (x :: l)) :
    ∀ s ∈ l, x.t < s.t := (List.pairwise_cons.mp h).1

theorem sorted_tail {x : Sample V} {l : List (Sample V)} (h : SortedT (x :: l)) : SortedT l :=
  (List.pairwise_cons.mp h).2

/-- a window splits at any point inside it -/
theorem window_split (S : List (Sample V)) (hs : SortedT S) (lo mid hi : Int) (h1 : lo ≤ mid + 1)
    (h2 : mid ≤ hi) :
    windowPoints lo hi S = windowPoints lo mid S ++ windowPoints (mid + 1) hi S := by
  simp only [windowPoints_eq]
  induction S with
  | nil => rfl
  | cons x l ih =>
    by_cases hx : x.t ≤ mid
    · have e1 : inWin (mid + 1) hi x = none := inWin_lt (by omega)
      have e2 : inWin lo hi x = inWin lo mid x := by
        unfold inWin
        split
        · have a : x.t ≤ hi := by omega
          simp [hx, a]
        · rfl
      simp only [List.filterMap_cons, e1, e2]
      rw [ih (sorted_tail hs)]
      cases inWin lo mid x <;> simp
    · have hall : ∀ s ∈ x :: l, mid < s.t := by
        intro s hs'
        rcases List.mem_cons.mp hs' with rfl | h
        · omega
        · have := sorted_tail_gt hs s h; omega
      rw [fm_nil (f := inWin lo mid) (fun s hs' => inWin_gt (hall s hs'))]
      rw [List.nil_append]
      exact fm_congr (fun s hs' => inWin_lo (by have := hall s hs'; omega) (by have := hall s hs'; omega))

/-- dropping the points older than `m` from a window gives the window starting at `m` -/
theorem window_dropWhile (S : List (Sample V)) (hs : SortedT S) (lo m hi : Int) (h : lo ≤ m) :
    (windowPoints lo hi S).dropWhile (fun p => decide (p.1 < m)) = windowPoints m hi S := by
  simp only [windowPoints_eq]
  induction S with
  | nil => rfl
  | cons x l ih =>
    simp only [List.filterMap_cons]
    cases hw : inWin lo hi x with
    | none =>
      have : inWin m hi x = none := by
        unfold inWin at hw ⊢
        split
        · rename_i v hv
          rw [hv] at hw
          simp only at hw
          by_cases hc : (decide (lo ≤ x.t) && decide (x.t ≤ hi)) = true
          · simp [hc] at hw
          · simp only [Bool.and_eq_true, decide_eq_true_eq, not_and] at hc
            have : ¬ (m ≤ x.t ∧ x.t ≤ hi) := by
              intro ⟨a, b⟩
              exact hc (by omega) b
            simp only [Bool.and_eq_true, decide_eq_true_eq]
            rw [if_neg this]
        · rfl
      simp only [this]
      exact ih (sorted_tail hs)
    | some p =>
      obtain ⟨hp1, hp2, hp3, hp4⟩ := inWin_some hw
      by_cases hlt : x.t < m
      · have e : inWin m hi x = none := inWin_lt hlt
        have hd : decide (p.1 < m) = true := by simp [hp1, hlt]
        simp only [e, List.dropWhile_cons, hd, if_true]
        exact ih (sorted_tail hs)
      · have e : inWin m hi x = some p := by
          rw [← hw]
          exact (inWin_lo hp2 (by omega)).symm
        have hd : decide (p.1 < m) = false := by simp [hp1]; omega
        simp only [e, List.dropWhile_cons, hd]
        simp only [Bool.false_eq_true, if_false]
        congr 1
        exact fm_congr (fun s hs' => by
          have := sorted_tail_gt hs s hs'
          exact inWin_lo (by omega) (by omega))

theorem mem_window {lo hi : Int} {S : List (Sample V)} {p : Int × V} (h : p ∈ windowPoints lo hi S) :
    lo ≤ p.1 ∧ p.1 ≤ hi := by
  rw [windowPoints_eq] at h
  obtain ⟨s, _, hs⟩ := List.mem_filterMap.mp h
  obtain ⟨a, b, c, _⟩ := inWin_some hs
  omega

/-- nothing lies between the last point of a window and the window's end -/
theorem window_after_last (S : List (Sample V)) (hs : SortedT S) (lo hi : Int) (l : Int × V)
    (h : (windowPoints lo hi S).getLast? = some l) :
    lo ≤ l.1 ∧ l.1 ≤ hi ∧ windowPoints (l.1 + 1) hi S = [] ∧
      windowPoints lo hi S = windowPoints lo l.1 S := by
  have hm := mem_window (List.mem_of_getLast? h)
  have hsp := window_split S hs lo l.1 hi (by omega) hm.2
  have hnil : windowPoints (l.1 + 1) hi S = [] := by
    cases hq : (windowPoints (l.1 + 1) hi S).getLast? with
    | none => exact List.getLast?_eq_none_iff.mp hq
    | some q =>
      have hq' := mem_window (List.mem_of_getLast? hq)
      rw [hsp, List.getLast?_append, hq] at h
      simp at h
      subst h
      omega
  refine ⟨hm.1, hm.2, hnil, ?_⟩
  rw [hsp, hnil, List.append_nil]

theorem window_empty (S : List (Sample V)) (lo hi : Int) (h : hi < lo) : windowPoints lo hi S = [] := by
  rw [windowPoints_eq]
  apply fm_nil
  intro s _
  unfold inWin
  split
  · have : ¬ (lo ≤ s.t ∧ s.t ≤ hi) := by omega
    simp only [Bool.and_eq_true, decide_eq_true_eq]
    rw [if_neg this]
  · rfl

end PromqlVerif
