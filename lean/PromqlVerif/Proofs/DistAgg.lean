/-
The aggregation push-down of distributed execution, at the level of the reference aggregation:
aggregating every partition's samples and re-aggregating the partial results with the central
operator is aggregating the union, for every grouping, any number of partitions (empty ones,
groups split across partitions) - whenever the reduction can be re-reduced (`Rered`).
-/
import PromqlVerif.Sem
import PromqlVerif.Proofs.Agg
import PromqlVerif.Proofs.Pushdown
namespace PromqlVerif
open Val

variable {V : Type} [Val V]

/-- the reducing branch of `aggregate`, with the group's labels being its key -/
def aggR (key : Labels → Labels) (R : List V → V) (X : Vec V) : Vec V :=
  (dedup (X.map fun x => key x.1)).map fun k => (k, R ((X.filter fun x => key x.1 == k).map (·.2)))

theorem groupKey_idem (w : Bool) (g : List String) (ls : Labels) :
    groupKey w g (groupKey w g ls) = groupKey w g ls := by
  unfold groupKey
  cases w
  · simp [Labels.keep, List.filter_filter]
  · simp only [Labels.del, Labels.dropName, List.filter_filter, if_true]
    apply List.filter_congr
    intro a _
    cases (a.name != metricName) <;> cases (!g.contains a.name) <;> rfl

theorem aggregate_eq_aggR (op : String) (w : Bool) (g : List String) (p : V) (X : Vec V)
    (hop : (op == "topk" || op == "bottomk") = false) :
    aggregate op w g p X = .ok (aggR (groupKey w g) (aggReduce op p) X) := by
  unfold aggregate aggR groupBy
  simp only [hop, Bool.false_eq_true, if_false, List.map_map]
  congr 1
  apply List.map_congr_left
  intro k hk
  simp only [Function.comp_def]
  rw [mem_dedup, List.mem_map] at hk
  obtain ⟨x, hx, hkx⟩ := hk
  have hmem : x ∈ X.filter fun y => groupKey w g y.1 == k := by
    rw [List.mem_filter]; exact ⟨hx, by simp [hkx]⟩
  cases hf : X.filter fun y => groupKey w g y.1 == k with
  | nil => rw [hf] at hmem; cases hmem
  | cons y ys =>
    have hy : y ∈ X.filter fun y => groupKey w g y.1 == k := by rw [hf]; exact List.mem_cons_self
    have hyk := (List.mem_filter.mp hy).2
    simp only [beq_iff_eq] at hyk
    simp [groupLabels_eq_key, hyk]

/-- a reduction `R` can be re-reduced by `R'`: over any non-empty partitions of a group -/
def Rered (R R' : List V → V) : Prop :=
  ∀ (l0 : List V) (ls : List (List V)), l0 ≠ [] → (∀ l ∈ ls, l ≠ []) →
    R (l0 ++ ls.flatten) = R' (R l0 :: ls.map R)

section core
variable (key : Labels → Labels) (hidem : ∀ ls, key (key ls) = key ls)

/-- the members of group `k` in a partition -/
def memOf (k : Labels) (P : Vec V) : List V := (P.filter fun x => key x.1 == k).map (·.2)

omit hidem in
theorem memOf_flatten (k : Labels) (parts : List (Vec V)) :
    memOf key k parts.flatten = (parts.map (memOf key k)).flatten := by
  induction parts with
  | nil => rfl
  | cons P ps ih => simp [memOf, List.filter_append] at ih ⊢; rw [← ih]

omit hidem in
theorem mem_keys_iff (k : Labels) (P : Vec V) :
    k ∈ dedup (P.map fun x => key x.1) ↔ memOf key k P ≠ [] := by
  rw [mem_dedup, List.mem_map]
  constructor
  · rintro ⟨x, hx, rfl⟩ h
    have : x ∈ P.filter fun y => key y.1 == key x.1 := List.mem_filter.mpr ⟨hx, by simp⟩
    unfold memOf at h
    rw [List.map_eq_nil_iff] at h
    rw [h] at this; cases this
  · intro h
    unfold memOf at h
    cases hf : P.filter fun x => key x.1 == k with
    | nil => rw [hf] at h; exact absurd rfl h
    | cons y ys =>
      have hy : y ∈ P.filter fun x => key x.1 == k := by rw [hf]; exact List.mem_cons_self
      obtain ⟨h1, h2⟩ := List.mem_filter.mp hy
      exact ⟨y, h1, by simpa using h2⟩

include hidem in
/-- what a partition's partial result contributes to group `k`: its reduction, if it has members -/
theorem partial_members (R : List V → V) (k : Labels) (P : Vec V) :
    memOf key k (aggR key R P) = if memOf key k P = [] then [] else [R (memOf key k P)] := by
  unfold aggR
  have hnd := nodup_dedup (P.map fun x => key x.1)
  have hkeys : ∀ k' ∈ dedup (P.map fun x => key x.1), key k' = k' := by
    intro k' hk'
    rw [mem_dedup, List.mem_map] at hk'
    obtain ⟨x, _, rfl⟩ := hk'
    exact hidem _
  by_cases hmem : k ∈ dedup (P.map fun x => key x.1)
  · have hne := (mem_keys_iff key k P).mp hmem
    rw [if_neg hne]
    -- exactly one entry has key `k`
    generalize hK : dedup (P.map fun x => key x.1) = K at hnd hkeys hmem
    clear hK
    induction K with
    | nil => cases hmem
    | cons k0 K ih =>
      have hnd' := List.nodup_cons.mp hnd
      simp only [memOf, List.map_cons, List.filter_cons]
      by_cases h0 : k0 = k
      · subst h0
        have hk0 : key k0 = k0 := hkeys k0 List.mem_cons_self
        simp only [hk0, beq_self_eq_true, if_true, List.map_cons]
        have hrest : (List.filter (fun x : Labels × V => key x.1 == k0)
            (K.map fun k => (k, R ((P.filter fun x => key x.1 == k).map (·.2))))) = [] := by
          rw [List.filter_eq_nil_iff]
          intro x hx
          rw [List.mem_map] at hx
          obtain ⟨k', hk', rfl⟩ := hx
          have : key k' = k' := hkeys k' (List.mem_cons_of_mem _ hk')
          simp only [this, beq_iff_eq]
          intro he; subst he; exact hnd'.1 hk'
        rw [hrest]
        rfl
      · have hk0 : key k0 = k0 := hkeys k0 List.mem_cons_self
        have : (key k0 == k) = false := by rw [hk0]; exact beq_false_of_ne h0
        simp only [this, Bool.false_eq_true, if_false]
        have hm' : k ∈ K := by
          rcases List.mem_cons.mp hmem with h | h
          · exact absurd h.symm h0
          · exact h
        exact ih hnd'.2 (fun k' hk' => hkeys k' (List.mem_cons_of_mem _ hk')) hm'
  · have hempty : memOf key k P = [] := by
      cases hm : memOf key k P with
      | nil => rfl
      | cons a as => exact absurd ((mem_keys_iff key k P).mpr (by rw [hm]; exact List.cons_ne_nil _ _)) hmem
    rw [if_pos hempty]
    unfold memOf
    rw [List.map_eq_nil_iff, List.filter_eq_nil_iff]
    intro x hx
    rw [List.mem_map] at hx
    obtain ⟨k', hk', rfl⟩ := hx
    simp only [hkeys k' hk', beq_iff_eq]
    intro he; subst he; exact hmem hk'

/-- the non-empty lists of a list of lists, and their reductions -/
theorem flatten_filter_nonempty {α : Type} (L : List (List α)) :
    (L.filter fun l => !l.isEmpty).flatten = L.flatten := by
  induction L with
  | nil => rfl
  | cons l L ih =>
    cases l with
    | nil => simpa using ih
    | cons a as => simp [ih]

include hidem in
theorem dist_members (R : List V → V) (k : Labels) (parts : List (Vec V)) :
    memOf key k (parts.map (aggR key R)).flatten
      = ((parts.map (memOf key k)).filter fun l => !l.isEmpty).map R := by
  rw [memOf_flatten]
  induction parts with
  | nil => rfl
  | cons P ps ih =>
    simp only [List.map_cons, List.flatten_cons, List.filter_cons]
    rw [ih, partial_members key hidem R k P]
    cases hP : memOf key k P with
    | nil => simp
    | cons a as => simp

include hidem in
/-- **aggregating the partitions and re-aggregating the partial results is aggregating the
union** (up to the order of the groups) -/
theorem aggR_pushdown (R R' : List V → V) (hR : Rered R R') (parts : List (Vec V)) :
    (aggR key R' (parts.map (aggR key R)).flatten).Perm (aggR key R parts.flatten) := by
  have hkeyD : ∀ k, k ∈ dedup ((parts.map (aggR key R)).flatten.map fun x => key x.1)
      ↔ k ∈ dedup (parts.flatten.map fun x => key x.1) := by
    intro k
    rw [mem_keys_iff, mem_keys_iff, dist_members key hidem R k parts, memOf_flatten]
    constructor
    · intro h hnil
      apply h
      rw [List.map_eq_nil_iff, List.filter_eq_nil_iff]
      intro l hl
      have := List.flatten_eq_nil_iff.mp hnil l hl
      simp [this]
    · intro h hnil
      apply h
      rw [List.map_eq_nil_iff, List.filter_eq_nil_iff] at hnil
      rw [List.flatten_eq_nil_iff]
      intro l hl
      have := hnil l hl
      simpa using this
  have hperm : (dedup ((parts.map (aggR key R)).flatten.map fun x => key x.1)).Perm
      (dedup (parts.flatten.map fun x => key x.1)) :=
    perm_of_nodup_of_mem_iff (nodup_dedup _) (nodup_dedup _) (fun k => hkeyD k)
  unfold aggR at *
  refine List.Perm.trans ?_ (hperm.map _)
  apply List.Perm.of_eq
  apply List.map_congr_left
  intro k hk
  congr 1
  have hk' := (hkeyD k).mp hk
  have hne := (mem_keys_iff key k parts.flatten).mp hk'
  have h1 := dist_members key hidem R k parts
  unfold memOf aggR at h1
  rw [h1]
  have h2 := memOf_flatten key k parts
  unfold memOf at h2 hne
  rw [h2] at hne ⊢
  rw [← flatten_filter_nonempty]
  rw [← flatten_filter_nonempty] at hne
  generalize hL : ((parts.map fun P => (P.filter fun x => key x.1 == k).map (·.2)).filter fun l => !l.isEmpty) = L at hne ⊢
  have hLne : ∀ l ∈ L, l ≠ [] := by
    intro l hl
    rw [← hL] at hl
    have := (List.mem_filter.mp hl).2
    intro he; subst he; simp at this
  cases L with
  | nil => exact absurd rfl hne
  | cons l0 ls =>
    simp only [List.flatten_cons, List.map_cons]
    exact (hR l0 ls (hLne l0 List.mem_cons_self) (fun l hl => hLne l (List.mem_cons_of_mem _ hl))).symm

/-! ### the same, exactly: the groups come out in the same order -/

omit hidem in
theorem dedup_append {α : Type} [BEq α] [LawfulBEq α] (a b : List α) :
    dedup (a ++ b) = dedup a ++ (dedup b).filter fun y => !a.contains y := by
  induction a with
  | nil =>
    have : (dedup b).filter (fun _ => true) = dedup b := List.filter_eq_self.mpr (fun _ _ => rfl)
    simp [this, dedup]
  | cons x xs ih =>
    simp only [List.cons_append, dedup, ih, List.filter_append, List.filter_filter]
    congr 2
    apply List.filter_congr
    intro y _
    simp only [List.contains_cons, Bool.not_or]

omit hidem in
theorem dedup_of_nodup {α : Type} [BEq α] [LawfulBEq α] (l : List α) (h : l.Nodup) : dedup l = l := by
  induction l with
  | nil => rfl
  | cons x xs ih =>
    obtain ⟨hx, hxs⟩ := List.nodup_cons.mp h
    simp only [dedup, ih hxs]
    congr 1
    rw [List.filter_eq_self]
    intro y hy
    simp only [Bool.not_eq_true', beq_eq_false_iff_ne, ne_eq]
    intro he; subst he; exact hx hy

omit hidem in
theorem dedup_dedup_append {α : Type} [BEq α] [LawfulBEq α] (a b : List α) :
    dedup (dedup a ++ b) = dedup (a ++ b) := by
  rw [dedup_append, dedup_append, dedup_of_nodup _ (nodup_dedup a)]
  congr 1
  apply List.filter_congr
  intro y _
  congr 1
  have := mem_dedup a y
  rw [Bool.eq_iff_iff]
  simpa using this

omit hidem in
theorem dedup_flatten_dedup {α : Type} [BEq α] [LawfulBEq α] (ls : List (List α)) :
    dedup (ls.map dedup).flatten = dedup ls.flatten := by
  induction ls with
  | nil => rfl
  | cons l ls ih =>
    simp only [List.map_cons, List.flatten_cons]
    rw [dedup_dedup_append, dedup_append, ih, ← dedup_append]

include hidem in
/-- the keys of the concatenated partial results, in order of first appearance, are those of the union -/
theorem partial_keys (R : List V → V) (parts : List (Vec V)) :
    dedup ((parts.map (aggR key R)).flatten.map fun x => key x.1) = dedup (parts.flatten.map fun x => key x.1) := by
  have h1 : (parts.map (aggR key R)).flatten.map (fun x => key x.1)
      = (parts.map fun P => dedup (P.map fun x => key x.1)).flatten := by
    rw [List.map_flatten, List.map_map]
    congr 1
    apply List.map_congr_left
    intro P _
    simp only [Function.comp_def, aggR, List.map_map]
    have : ∀ k ∈ dedup (P.map fun x => key x.1), key k = k := by
      intro k hk
      rw [mem_dedup, List.mem_map] at hk
      obtain ⟨x, _, rfl⟩ := hk
      exact hidem _
    conv => rhs; rw [← List.map_id (dedup (P.map fun x => key x.1))]
    apply List.map_congr_left
    intro k hk
    exact this k hk
  rw [h1]
  have h2 : (parts.map fun P => dedup (P.map fun x => key x.1)) = (parts.map fun P => P.map fun x => key x.1).map dedup := by
    rw [List.map_map]; rfl
  rw [h2, dedup_flatten_dedup, List.map_flatten]

include hidem in
/-- **aggregating the partitions and re-aggregating the partial results is aggregating the
union, group for group in the same order** -/
theorem aggR_pushdown_eq (R R' : List V → V) (hR : Rered R R') (parts : List (Vec V)) :
    aggR key R' (parts.map (aggR key R)).flatten = aggR key R parts.flatten := by
  have hkeys := partial_keys key hidem R parts
  show (dedup ((parts.map (aggR key R)).flatten.map fun x => key x.1)).map _ = (dedup (parts.flatten.map fun x => key x.1)).map _
  rw [hkeys]
  apply List.map_congr_left
  intro k hk
  congr 1
  have hne := (mem_keys_iff key k parts.flatten).mp hk
  have h1 := dist_members key hidem R k parts
  unfold memOf at h1
  rw [h1]
  have h2 := memOf_flatten key k parts
  unfold memOf at h2 hne
  rw [h2] at hne ⊢
  rw [← flatten_filter_nonempty]
  rw [← flatten_filter_nonempty] at hne
  generalize hL : ((parts.map fun P => (P.filter fun x => key x.1 == k).map (·.2)).filter fun l => !l.isEmpty) = L at hne ⊢
  have hLne : ∀ l ∈ L, l ≠ [] := by
    intro l hl
    rw [← hL] at hl
    have := (List.mem_filter.mp hl).2
    intro he; subst he; simp at this
  cases L with
  | nil => exact absurd rfl hne
  | cons l0 ls =>
    simp only [List.flatten_cons, List.map_cons]
    exact (hR l0 ls (hLne l0 List.mem_cons_self) (fun l hl => hLne l (List.mem_cons_of_mem _ hl))).symm

end core

end PromqlVerif
