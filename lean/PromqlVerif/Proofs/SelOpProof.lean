import PromqlVerif.SelOp
import PromqlVerif.Proofs.IterProof
import PromqlVerif.Proofs.WindowLemmas
import PromqlVerif.Proofs.BufProof
namespace PromqlVerif
open Val

variable {V : Type} [Val V]

/-- two lists related element by element -/
inductive All2 {α β : Type} (R : α → β → Prop) : List α → List β → Prop
  | nil : All2 R [] []
  | cons {a : α} {b : β} {as : List α} {bs : List β} : R a b → All2 R as bs → All2 R (a :: as) (b :: bs)

/-- one series through a batch: what `selectPoint` returns is the declarative selection, and the
iterator is left in a state from which the next batch can go on -/
theorem runM_spec (S : List (Sample V)) (hs : SortedT S) (delta : Int) (hd : 0 ≤ delta) :
    ∀ (refs : List Int) (m : Memo V) (b : Int), MInv S delta m b → (∀ r ∈ refs, b ≤ r) →
      refs.Pairwise (· ≤ ·) →
      (runM delta m refs).2 = refs.map (fun r => selectSample delta r S) ∧
        MInv S delta (runM delta m refs).1 (refs.getLast?.getD b) := by
  intro refs
  induction refs with
  | nil => intro m b hinv _ _; exact ⟨rfl, by simpa [runM] using hinv⟩
  | cons r rs ih =>
    intro m b hinv hb hmono
    obtain ⟨h1, h2⟩ := selectPointM_spec S hs delta hd m b r (hb r (List.mem_cons_self ..)) hinv
    obtain ⟨h3, h4⟩ := ih (selectPointM delta m r).1 r h2
      (fun r' hr' => (List.pairwise_cons.mp hmono).1 r' hr') (List.pairwise_cons.mp hmono).2
    simp only [runM, List.map_cons]
    refine ⟨by rw [h1, h3], ?_⟩
    have : (r :: rs).getLast?.getD b = rs.getLast?.getD r := by
      cases rs with
      | nil => simp
      | cons x xs =>
        rw [List.getLast?_cons_cons]
        cases h : (x :: xs).getLast? with
        | none => exact absurd (List.getLast?_eq_none_iff.mp h) (by simp)
        | some l => rfl
    rw [this]
    exact h4

theorem enumFrom_map {α β : Type} (g : α → β) : ∀ (k : Nat) (l : List α),
    enumFrom k (l.map g) = (enumFrom k l).map fun p => (p.1, g p.2) := by
  intro k l
  induction l generalizing k with
  | nil => rfl
  | cons a l ih => simp [enumFrom, ih]

theorem range_map_get {α β : Type} (l : List α) (d : α) (F : α → β) :
    (List.range l.length).map (fun j => F (l.getD j d)) = l.map F := by
  apply List.ext_getElem
  · simp
  · intro i h1 h2
    simp only [List.length_map, List.length_range] at h1
    simp [List.getD_eq_getElem?_getD, h1]

/-- the step vectors of a batch, when every series' run is the declarative selection -/
theorem transpose_spec (lookback : Int) (series : List (List (Sample V))) (refs : List Int) :
    transposeBatch (series.map fun s => refs.map fun r => selectSample lookback r s) refs.length =
      refs.map (selectStep lookback series) := by
  unfold transposeBatch selectStep
  rw [← range_map_get refs 0 (fun r => (enum series).filterMap fun (p : Nat × List (Sample V)) =>
    (selectSample lookback r p.2).map fun q => (p.1, q.2))]
  apply List.map_congr_left
  intro j hj
  have hjl : j < refs.length := List.mem_range.mp hj
  unfold enum
  rw [enumFrom_map, List.filterMap_map]
  apply fm_congr
  intro p _
  simp only [Function.comp]
  congr 1
  simp [List.getD_eq_getElem?_getD, hjl]

/-- **C02 at operator level**: the stream of step vectors `vectorSelector.Next` produces - one
memoized iterator per series kept across batches, any split of the steps into batches - is the
per-step selection: for sorted series, lookback `≥ 0` and non-decreasing reference times. -/
theorem vsStream_spec (lookback : Int) (hd : 0 ≤ lookback) (series : List (List (Sample V)))
    (hs : ∀ s ∈ series, SortedT s) (batches : List (List Int)) (hmono : batches.flatten.Pairwise (· ≤ ·)) :
    vsStream lookback (series.map Memo.new) batches = batches.flatten.map (selectStep lookback series) := by
  have key : ∀ (batches : List (List Int)) (ms : List (Memo V)) (b : Int),
      All2 (fun s m => MInv s lookback m b) series ms → (∀ r ∈ batches.flatten, b ≤ r) →
      batches.flatten.Pairwise (· ≤ ·) →
      vsStream lookback ms batches = batches.flatten.map (selectStep lookback series) := by
    intro batches
    induction batches with
    | nil => intro _ _ _ _ _; rfl
    | cons bt bs ih =>
      intro ms b hall hb hmono
      simp only [List.flatten_cons] at hb hmono ⊢
      have hbt : ∀ r ∈ bt, b ≤ r := fun r hr => hb r (List.mem_append_left _ hr)
      have hmbt : bt.Pairwise (· ≤ ·) := (List.pairwise_append.mp hmono).1
      -- every series' run over the batch
      have runs : All2 (fun s m => (runM lookback m bt).2 = bt.map (fun r => selectSample lookback r s) ∧
          MInv s lookback (runM lookback m bt).1 (bt.getLast?.getD b)) series ms := by
        have aux : ∀ (ss : List (List (Sample V))) (ms : List (Memo V)), (∀ s ∈ ss, SortedT s) →
            All2 (fun s m => MInv s lookback m b) ss ms →
            All2 (fun s m => (runM lookback m bt).2 = bt.map (fun r => selectSample lookback r s) ∧
              MInv s lookback (runM lookback m bt).1 (bt.getLast?.getD b)) ss ms := by
          intro ss ms hss h
          induction h with
          | nil => exact All2.nil
          | cons hx _ ih' =>
            exact All2.cons
              (runM_spec _ (hss _ (List.mem_cons_self ..)) lookback hd bt _ b hx hbt hmbt)
              (ih' (fun s hs' => hss s (List.mem_cons_of_mem _ hs')))
        exact aux series ms hs hall
      have hruns2 : ms.map (fun m => (runM lookback m bt).2) =
          series.map (fun s => bt.map fun r => selectSample lookback r s) := by
        have aux : ∀ (ss : List (List (Sample V))) (ms : List (Memo V)),
            All2 (fun s m => (runM lookback m bt).2 = bt.map (fun r => selectSample lookback r s) ∧
              MInv s lookback (runM lookback m bt).1 (bt.getLast?.getD b)) ss ms →
            ms.map (fun m => (runM lookback m bt).2) = ss.map (fun s => bt.map fun r => selectSample lookback r s) := by
          intro ss ms h
          induction h with
          | nil => rfl
          | cons hx _ ih' => simp only [List.map_cons]; rw [hx.1, ih']
        exact aux series ms runs
      have hnext : All2 (fun s m => MInv s lookback m (bt.getLast?.getD b)) series
          (ms.map fun m => (runM lookback m bt).1) := by
        have aux : ∀ (ss : List (List (Sample V))) (ms : List (Memo V)),
            All2 (fun s m => (runM lookback m bt).2 = bt.map (fun r => selectSample lookback r s) ∧
              MInv s lookback (runM lookback m bt).1 (bt.getLast?.getD b)) ss ms →
            All2 (fun s m => MInv s lookback m (bt.getLast?.getD b)) ss (ms.map fun m => (runM lookback m bt).1) := by
          intro ss ms h
          induction h with
          | nil => exact All2.nil
          | cons hx _ ih' => exact All2.cons hx.2 ih'
        exact aux series ms runs
      simp only [vsStream, vsBatch, List.map_map, Function.comp_def, List.map_append]
      rw [hruns2, transpose_spec]
      congr 1
      refine ih _ (bt.getLast?.getD b) hnext ?_ (List.pairwise_append.mp hmono).2.1
      intro r hr
      cases hl : bt.getLast? with
      | none => simp only [Option.getD_none]; exact hb r (List.mem_append_right _ hr)
      | some l =>
        simp only [Option.getD_some]
        exact (List.pairwise_append.mp hmono).2.2 l (List.mem_of_getLast? hl) r hr
  cases hfl : batches.flatten with
  | nil =>
    -- no step at all: every batch is empty
    have : ∀ (batches : List (List Int)) (ms : List (Memo V)), batches.flatten = [] →
        vsStream lookback ms batches = [] := by
      intro batches
      induction batches with
      | nil => intro _ _; rfl
      | cons bt bs ih =>
        intro ms h
        simp only [List.flatten_cons, List.append_eq_nil_iff] at h
        obtain ⟨h1, h2⟩ := h
        subst h1
        simp [vsStream, vsBatch, transposeBatch, ih _ h2]
    rw [this batches _ hfl]; rfl
  | cons r0 rest =>
    rw [← hfl]
    refine key batches (series.map Memo.new) r0 ?_ ?_ hmono
    · have aux : ∀ (ss : List (List (Sample V))), All2 (fun s m => MInv s lookback m r0) ss (ss.map Memo.new) := by
        intro ss
        induction ss with
        | nil => exact All2.nil
        | cons s ss ih => exact All2.cons (minv_new s lookback r0) ih
      exact aux series
    · intro r hr
      rw [hfl] at hr hmono
      rcases List.mem_cons.mp hr with rfl | h
      · exact Int.le_refl _
      · exact (List.pairwise_cons.mp hmono).1 r h

/-! ### the matrix selector -/

/-- what is known about one series' state before the window ending at `r` -/
def MSInv (S : List (Sample V)) (range step : Int) (r : Int) (st : MState V) : Prop :=
  ∃ bound lo' hi', 0 ≤ st.delta ∧ st.delta ≤ range ∧ BInv S st.delta st.buf bound ∧
    st.prev = windowPoints lo' hi' S ∧ bound ≤ r ∧ lo' ≤ r - range ∧ hi' < r ∧
    (∀ s ∈ S, r - range ≤ s.t → s.t < r - st.delta → ∀ p, inWin (r - range) r s = some p → p ∈ st.prev) ∧
    (st.delta = range ∨ st.delta = stepRange range step)

theorem msinv_new (S : List (Sample V)) (range step : Int) (hr : 0 ≤ range) (r : Int) :
    MSInv S range step r (MState.new range S) :=
  ⟨r, r - range, r - range - 1, hr, Int.le_refl _, binv_new S range r, (window_empty S _ _ (by omega)).symm,
    Int.le_refl _, Int.le_refl _, by omega, fun s _ h3 h4 => by simp only [MState.new] at h4; omega, Or.inl rfl⟩

/-- one series through the window ends of a batch: every step's points are the window's non-stale
samples, and the state is ready for the window end after the batch -/
theorem runR_spec (S : List (Sample V)) (hs : SortedT S) (range step : Int) (hr : 0 ≤ range) (hst : 0 < step) :
    ∀ (n : Nat) (r : Int) (st : MState V), MSInv S range step r st →
      (runR range step st (ends r step n)).2 = (ends r step n).map (fun e => windowPoints (e - range) e S) ∧
        MSInv S range step (r + n * step) (runR range step st (ends r step n)).1 := by
  intro n
  induction n with
  | zero =>
    intro r st h
    simp only [ends, runR, List.map_nil]
    exact ⟨trivial, by simpa using h⟩
  | succ n ih =>
    intro r st h
    obtain ⟨bound, lo', hi', hd0, hdR, hinv, hout, hb, hlo, hhi, hgap, hdelta⟩ := h
    obtain ⟨h1, h2⟩ := selectPointsB_spec S hs st.delta range hd0 hdR st.buf bound r hb hinv st.prev lo' hi' hout hlo hhi hgap
    have hsr0 : 0 ≤ stepRange range step := by unfold stepRange; split <;> omega
    have hsrR : stepRange range step ≤ range := by unfold stepRange; split <;> omega
    have gap' : ∀ s ∈ S, r + step - range ≤ s.t → s.t < r + step - stepRange range step →
        ∀ p, inWin (r + step - range) (r + step) s = some p → p ∈ windowPoints (r - range) r S := by
      intro s hsS hlo1 hhi1 p hp
      obtain ⟨_, _, _, hp4⟩ := inWin_some hp
      unfold stepRange at hhi1
      split at hhi1
      · have : inWin (r - range) r s = some p := by
          rw [← hp]
          unfold inWin
          rw [hp4]
          have a1 : r - range ≤ s.t := by omega
          have a2 : s.t ≤ r := by omega
          have a3 : r + step - range ≤ s.t := hlo1
          have a4 : s.t ≤ r + step := by omega
          simp [a1, a2, a3, a4]
        exact mem_window_of hsS this
      · omega
    simp only [ends, runR, List.map_cons]
    have hcast : r + ((n + 1 : Nat) : Int) * step = (r + step) + (n : Int) * step := by
      have : ((n + 1 : Nat) : Int) * step = (n : Int) * step + step := by
        push_cast; rw [Int.add_mul, Int.one_mul]
      omega
    rw [hcast]
    split
    · rename_i hgt
      exfalso
      rcases hdelta with h | h <;> omega
    · rename_i hng
      have hnext : MSInv S range step (r + step)
          { delta := stepRange range step,
            buf := { (selectPointsB st.delta st.buf (r - range) r st.prev).1 with
                     ring := reduceRing (stepRange range step) (selectPointsB st.delta st.buf (r - range) r st.prev).1.ring },
            prev := (selectPointsB st.delta st.buf (r - range) r st.prev).2 } := by
        refine ⟨r, r - range, r, hsr0, hsrR, reduce_inv S st.delta (stepRange range step) _ r (by omega) h2, h1, by omega, by omega, by omega, ?_, Or.inr rfl⟩
        rw [h1]
        exact gap'
      obtain ⟨i1, i2⟩ := ih (r + step) _ hnext
      refine ⟨?_, i2⟩
      rw [i1, h1]

/-- the step vectors of a batch, when every series' run is the window's samples -/
theorem transposeR_spec (fn : String) (range : Int) (series : List (List (Sample V))) (refs : List Int) :
    transposeR fn range (series.map fun s => refs.map fun e => windowPoints (e - range) e s) refs =
      refs.map (rangeStep fn range series) := by
  unfold transposeR rangeStep
  rw [← range_map_get refs 0 (fun r => (enum series).filterMap fun (p : Nat × List (Sample V)) =>
    (rangeKernel fn (windowPoints (r - range) r p.2) (r - range) r (rangeSeconds range)).map fun v => (p.1, v))]
  apply List.map_congr_left
  intro j hj
  have hjl : j < refs.length := List.mem_range.mp hj
  unfold enum
  rw [enumFrom_map, List.filterMap_map]
  apply fm_congr
  intro p _
  simp only [Function.comp]
  congr 2
  simp [List.getD_eq_getElem?_getD, hjl]

theorem ends_append (r step : Int) (a b : Nat) :
    ends r step (a + b) = ends r step a ++ ends (r + a * step) step b := by
  induction a generalizing r with
  | zero => simp [ends]
  | succ a ih =>
    have : a + 1 + b = (a + b) + 1 := by omega
    rw [this]
    simp only [ends, List.cons_append]
    rw [ih]
    congr 2
    have : ((a + 1 : Nat) : Int) * step = (a : Int) * step + step := by
      push_cast; rw [Int.add_mul, Int.one_mul]
    congr 1
    omega

/-- **C03 at operator level**: the stream of step vectors `matrixSelector.Next` produces - one
buffered iterator and one `previousPoints` slice per series kept across batches, `ReduceDelta`
after every step, any split of the steps into batches - is the per-step evaluation of the range
function over the window's samples: for sorted series, range `≥ 0`, step `> 0`. -/
theorem msStream_spec (fn : String) (range step : Int) (hr : 0 ≤ range) (hst : 0 < step)
    (series : List (List (Sample V))) (hs : ∀ s ∈ series, SortedT s) (r0 : Int) (ns : List Nat) :
    msStream fn range step (series.map (MState.new range)) r0 ns =
      (ends r0 step ns.sum).map (rangeStep fn range series) := by
  have key : ∀ (ns : List Nat) (sts : List (MState V)) (r : Int),
      All2 (fun s st => MSInv s range step r st) series sts →
      msStream fn range step sts r ns = (ends r step ns.sum).map (rangeStep fn range series) := by
    intro ns
    induction ns with
    | nil => intro _ _ _; rfl
    | cons n ns ih =>
      intro sts r hall
      have runs : All2 (fun s st => (runR range step st (ends r step n)).2 =
            (ends r step n).map (fun e => windowPoints (e - range) e s) ∧
          MSInv s range step (r + n * step) (runR range step st (ends r step n)).1) series sts := by
        have aux : ∀ (ss : List (List (Sample V))) (sts : List (MState V)), (∀ s ∈ ss, SortedT s) →
            All2 (fun s st => MSInv s range step r st) ss sts →
            All2 (fun s st => (runR range step st (ends r step n)).2 =
                (ends r step n).map (fun e => windowPoints (e - range) e s) ∧
              MSInv s range step (r + n * step) (runR range step st (ends r step n)).1) ss sts := by
          intro ss sts hss h
          induction h with
          | nil => exact All2.nil
          | cons hx _ ih' =>
            exact All2.cons (runR_spec _ (hss _ (List.mem_cons_self ..)) range step hr hst n r _ hx)
              (ih' (fun s hs' => hss s (List.mem_cons_of_mem _ hs')))
        exact aux series sts hs hall
      have hruns2 : sts.map (fun st => (runR range step st (ends r step n)).2) =
          series.map (fun s => (ends r step n).map fun e => windowPoints (e - range) e s) := by
        have aux : ∀ (ss : List (List (Sample V))) (sts : List (MState V)),
            All2 (fun s st => (runR range step st (ends r step n)).2 =
                (ends r step n).map (fun e => windowPoints (e - range) e s) ∧
              MSInv s range step (r + n * step) (runR range step st (ends r step n)).1) ss sts →
            sts.map (fun st => (runR range step st (ends r step n)).2) =
              ss.map (fun s => (ends r step n).map fun e => windowPoints (e - range) e s) := by
          intro ss sts h
          induction h with
          | nil => rfl
          | cons hx _ ih' => simp only [List.map_cons]; rw [hx.1, ih']
        exact aux series sts runs
      have hnext : All2 (fun s st => MSInv s range step (r + n * step) st) series
          (sts.map fun st => (runR range step st (ends r step n)).1) := by
        have aux : ∀ (ss : List (List (Sample V))) (sts : List (MState V)),
            All2 (fun s st => (runR range step st (ends r step n)).2 =
                (ends r step n).map (fun e => windowPoints (e - range) e s) ∧
              MSInv s range step (r + n * step) (runR range step st (ends r step n)).1) ss sts →
            All2 (fun s st => MSInv s range step (r + n * step) st) ss
              (sts.map fun st => (runR range step st (ends r step n)).1) := by
          intro ss sts h
          induction h with
          | nil => exact All2.nil
          | cons hx _ ih' => exact All2.cons hx.2 ih'
        exact aux series sts runs
      simp only [msStream, msBatch, List.map_map, Function.comp_def, List.sum_cons]
      rw [hruns2, transposeR_spec, ends_append, List.map_append, ih _ _ hnext]
  refine key ns _ r0 ?_
  have aux : ∀ (ss : List (List (Sample V))),
      All2 (fun s st => MSInv s range step r0 st) ss (ss.map (MState.new range)) := by
    intro ss
    induction ss with
    | nil => exact All2.nil
    | cons s ss ih => exact All2.cons (msinv_new s range step hr r0) ih
  exact aux series

end PromqlVerif
