/-
Plan-level soundness of the selector-rewriting optimizers (SortMatchers, MergeSelects): a rewrite
that replaces every selector by one selecting the same series at the same times leaves the value
of the whole expression unchanged at every step. `mapSelectors` is the model of `traverse` (which
nodes a selector transform reaches); the induction follows it.
-/
import PromqlVerif.Plan
import PromqlVerif.Proofs.DistSound
import PromqlVerif.Proofs.Matchers
namespace PromqlVerif
open Val

variable {V : Type} [Val V]

/-- two selectors that select the same series at the same times -/
def SameSel (c : Ctx V) (s' s : VSel) : Prop :=
  s'.origOffset = s.origOffset ∧ s'.atTs = s.atTs ∧
    ∀ ls, matchAll c.re s'.allMatchers ls = matchAll c.re s.allMatchers ls

theorem sameSel_refl (c : Ctx V) (s : VSel) : SameSel c s s := ⟨rfl, rfl, fun _ => rfl⟩

theorem matchingSeries_same (c : Ctx V) (s' s : VSel) (h : SameSel c s' s) :
    matchingSeries c s' = matchingSeries c s := by
  unfold matchingSeries
  apply List.filter_congr
  intro sr _
  exact h.2.2 sr.labels

theorem refTime_same (c : Ctx V) (s' s : VSel) (h : SameSel c s' s) (start t : Int) :
    s'.refTime start t = s.refTime start t := by
  unfold VSel.refTime VSel.offsetAt
  rw [h.1, h.2.1]

theorem selectT_same (c : Ctx V) (s' s : VSel) (h : SameSel c s' s) (ref : Int) :
    selectT c s' ref = selectT c s ref := by
  unfold selectT
  rw [matchingSeries_same c s' s h]

theorem selectV_same (c : Ctx V) (s' s : VSel) (h : SameSel c s' s) (t : Int) :
    selectV c s' t = selectV c s t := by
  unfold selectV
  rw [selectT_same c s' s h, refTime_same c s' s h]

theorem evalRangeFn_same (c : Ctx V) (s' s : VSel) (h : SameSel c s' s) (fn : String) (r t : Int) :
    evalRangeFn c fn s' r t = evalRangeFn c fn s r t := by
  unfold evalRangeFn
  rw [matchingSeries_same c s' s h, refTime_same c s' s h]

/-! ### `timestamp()` -/

theorem tsBody_same (c : Ctx V) (t : Int) (s' s : VSel) (h : SameSel c s' s) (r : Except Err (Value V)) :
    tsBody c t (.vsel s') r = tsBody c t (.vsel s) r := by
  unfold tsBody
  simp only [h.2.1, h.1, selectT_same c s' s h, refTime_same c s' s h, matchingSeries_same c s' s h]

/-! ### congruence of calls -/

/-- what a selector rewrite does to a node: same value; a matrix selector stays one over an
equivalent selector; the unwrapped form stays a vector selector (an equivalent one) or stays none -/
def SRel (c : Ctx V) (a' a : Expr V) : Prop :=
  (∀ t, eval c t a' = eval c t a) ∧
  (∀ s r, a = .msel s r → ∃ s', a' = .msel s' r ∧ SameSel c s' s) ∧
  isMsel a' = isMsel a ∧
  (∀ s, a.unwrap = .vsel s → ∃ s', a'.unwrap = .vsel s' ∧ SameSel c s' s) ∧
  ((∀ s, a.unwrap ≠ .vsel s) → ∀ s, a'.unwrap ≠ .vsel s)

theorem eval_rangecall (c : Ctx V) (t : Int) (fn : String) (s : VSel) (r : Int) :
    eval c t (.call fn [.msel s r])
      = if rangeFnNames.contains fn then .ok (.vec (evalRangeFn c fn s r t)) else .error .unsupported := by
  by_cases h : rangeFnNames.contains fn = true
  · have hmem : fn ∈ rangeFnNames := by simpa using h
    rw [eval] <;> simp [hmem]
  · have hmem : ¬ fn ∈ rangeFnNames := by simpa using h
    rw [eval] <;> simp [hmem]

theorem eval_call_many (c : Ctx V) (t : Int) (fn : String) (a b d e : Expr V) (rest : List (Expr V)) :
    eval c t (.call fn (a :: b :: d :: e :: rest)) = .error .unsupported := by
  rw [eval] <;> first | rfl | skip
  all_goals (intros; first | contradiction | (rename_i hh; cases hh))
  all_goals (first | contradiction | skip)

theorem eval_call0 (c : Ctx V) (t : Int) (fn : String) (args' : List (Expr V)) (h : All2 (SRel c) args' []) :
    eval c t (.call fn args') = eval c t (.call fn []) := by
  cases h
  rfl

theorem scall_congr (c : Ctx V) (fn : String) (args' args : List (Expr V)) (h : All2 (SRel c) args' args)
    (t : Int) : eval c t (.call fn args') = eval c t (.call fn args) := by
  cases h with
  | nil => rfl
  | cons hr hrest =>
    cases hrest with
    | nil =>
      rename_i a' a
      obtain ⟨hev, hms, hm, hu1, hu2⟩ := hr
      cases hma : isMsel a with
      | true =>
        cases a with
        | msel s r =>
          obtain ⟨s', rfl, hss⟩ := hms s r rfl
          rw [eval_rangecall, eval_rangecall, evalRangeFn_same c s' s hss]
        | _ => cases hma
      | false =>
        have hma' : isMsel a' = false := by rw [hm, hma]
        by_cases hts : fn = "timestamp"
        · subst hts
          rw [eval_timestamp c t a hma, eval_timestamp c t a' hma', hev t]
          cases hua : a.unwrap with
          | vsel s =>
            obtain ⟨s', hs', hss⟩ := hu1 s hua
            rw [hs', tsBody_same c t s' s hss]
          | _ =>
            all_goals
              apply tsBody_other
              · intro s hh; cases hh
              · intro s hh
                exact hu2 (fun s0 h0 => by rw [hua] at h0; cases h0) s hh
        · rw [eval_call1 c t fn a hma hts, eval_call1 c t fn a' hma' hts, hev t]
    | cons hr2 hrest2 =>
      cases hrest2 with
      | nil => rw [eval_call2, eval_call2, hr.1 t, hr2.1 t]
      | cons hr3 hrest3 =>
        cases hrest3 with
        | nil => rw [eval_call3, eval_call3, hr.1 t, hr2.1 t, hr3.1 t]
        | cons _ _ => rw [eval_call_many, eval_call_many]

/-! ### the traversal of a selector rewrite -/

theorem srel_refl (c : Ctx V) (a : Expr V) : SRel c a a :=
  ⟨fun _ => rfl, fun s r h => ⟨s, h, sameSel_refl c s⟩, rfl, fun s h => ⟨s, h, sameSel_refl c s⟩, fun h => h⟩

/-- a node that is neither a selector nor a wrapper the unwrapping looks through -/
theorem srel_of_eval (c : Ctx V) (a' a : Expr V) (hev : ∀ t, eval c t a' = eval c t a)
    (hm' : isMsel a' = false) (hm : isMsel a = false)
    (hu' : ∀ s, a'.unwrap ≠ .vsel s) (hu : ∀ s, a.unwrap ≠ .vsel s) : SRel c a' a :=
  ⟨hev, fun s r h => (by subst h; cases hm), (by rw [hm', hm]), fun s h => absurd h (hu s), fun _ => hu'⟩

theorem mapSelectors_srel (c : Ctx V) (f : VSel → VSel) (hf : ∀ s, SameSel c (f s) s) :
    ∀ e : Expr V, SRel c (mapSelectors f e) e := by
  apply mapSelectors.induct (motive_1 := fun args => All2 (SRel c) (mapSelectors.mapArgs f args) args)
    (motive_2 := fun e => SRel c (mapSelectors f e) e)
  -- vsel
  · intro s
    rw [mapSelectors]
    refine ⟨fun t => (by rw [eval, eval, selectV_same c (f s) s (hf s)]), fun _ _ h => (by cases h), rfl,
      fun s0 h => ?_, fun h => absurd rfl (h s)⟩
    simp only [Expr.unwrap, Expr.vsel.injEq] at h
    subst h
    exact ⟨f s, rfl, hf s⟩
  -- msel
  · intro s r
    rw [mapSelectors]
    refine ⟨fun t => (by rw [eval, eval]), fun s0 r0 h => ?_, rfl, fun s0 h => (by cases h), fun _ s0 h => (by cases h)⟩
    cases h
    exact ⟨f s, rfl, hf s⟩
  -- stepInv over a selector
  · intro s
    rw [mapSelectors]
    refine ⟨fun t => (by rw [eval, eval, eval, eval, selectV_same c (f s) s (hf s)]), fun _ _ h => (by cases h), rfl,
      fun s0 h => ?_, fun h => absurd rfl (h s)⟩
    simp only [Expr.unwrap, Expr.vsel.injEq] at h
    subst h
    exact ⟨f s, rfl, hf s⟩
  -- stepInv over anything else: not reached
  · intro e hne
    have : mapSelectors f (.stepInv e) = .stepInv e := by
      rw [mapSelectors]
      intro s hs
      exact hne s hs
    rw [this]
    exact srel_refl c _
  -- agg
  · intro op w g e ih
    rw [mapSelectors]
    exact srel_of_eval c _ _ (fun t => by rw [eval, eval, ih.1 t]) rfl rfl (fun s h => by cases h) (fun s h => by cases h)
  -- aggP
  · intro op w g p e ih
    rw [mapSelectors]
    exact srel_of_eval c _ _ (fun t => by rw [eval, eval, ih.1 t]) rfl rfl (fun s h => by cases h) (fun s h => by cases h)
  -- call
  · intro fn args ih
    rw [mapSelectors]
    exact srel_of_eval c _ _ (fun t => scall_congr c fn _ args ih t) rfl rfl (fun s h => by cases h) (fun s h => by cases h)
  -- bin
  · intro op b m l r ihl ihr
    rw [mapSelectors]
    exact srel_of_eval c _ _ (fun t => by rw [eval, eval, ihl.1 t, ihr.1 t]) rfl rfl (fun s h => by cases h) (fun s h => by cases h)
  -- neg
  · intro e ih
    rw [mapSelectors]
    exact srel_of_eval c _ _ (fun t => by rw [eval, eval, ih.1 t]) rfl rfl (fun s h => by cases h) (fun s h => by cases h)
  -- pos
  · intro e ih
    rw [mapSelectors]
    exact srel_of_eval c _ _ (fun t => by rw [eval, eval, ih.1 t]) rfl rfl (fun s h => by cases h) (fun s h => by cases h)
  -- paren: the unwrapping looks through
  · intro e ih
    rw [mapSelectors]
    obtain ⟨hev, _, _, hu1, hu2⟩ := ih
    refine ⟨fun t => (by rw [eval, eval, hev t]), fun _ _ h => (by cases h), rfl, fun s h => ?_, fun h s h' => ?_⟩
    · simp only [Expr.unwrap] at h ⊢
      exact hu1 s h
    · simp only [Expr.unwrap] at h h'
      exact hu2 h s h'
  -- subq
  · intro e ih
    rw [mapSelectors]
    exact srel_of_eval c _ _ (fun t => by rw [eval, eval]) rfl rfl (fun s h => by cases h) (fun s h => by cases h)
  -- everything else is left alone
  · intro e h1 h2 h3 h4 h5 h6 h7 h8 h9 h10 h11
    have : mapSelectors f e = e := by
      rw [mapSelectors] <;> assumption
    rw [this]
    exact srel_refl c e
  -- arguments
  · rw [mapSelectors.mapArgs]
    exact All2.nil
  · intro a as iha ihas
    rw [mapSelectors.mapArgs]
    exact All2.cons iha ihas

/-- **a selector rewrite that keeps what every selector selects keeps the value of the plan** -/
theorem mapSelectors_sound (c : Ctx V) (f : VSel → VSel) (hf : ∀ s, SameSel c (f s) s) (e : Expr V) (t : Int) :
    eval c t (mapSelectors f e) = eval c t e := (mapSelectors_srel c f hf e).1 t

end PromqlVerif
