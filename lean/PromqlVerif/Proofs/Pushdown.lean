/-
The algebra behind the aggregation push-down of distributed execution: a reduction that folds an
associative step over the members of a group can be computed per partition and re-reduced
centrally. `max`/`min` (with their NaN replacement) are associative under the order laws of IEEE
comparison, exactly - so their push-down is exact for floats; `sum` is under associativity of
`add`, which holds for exact arithmetic and up to rounding for floats.
-/
import PromqlVerif.Kernels
import PromqlVerif.Proofs.HeapOrder
namespace PromqlVerif
open Val

variable {V : Type} [Val V]

/-- folding an associative step from `f m x` is `f m` of folding from `x` -/
theorem foldl_assoc {α : Type} (f : α → α → α) (hassoc : ∀ a b c, f (f a b) c = f a (f b c))
    (ys : List α) (m x : α) : ys.foldl f (f m x) = f m (ys.foldl f x) := by
  induction ys generalizing x with
  | nil => rfl
  | cons y ys ih =>
    simp only [List.foldl_cons]
    rw [hassoc, ih]

/-- the shape of the reference reductions: the first member starts the fold -/
def red1 {α : Type} (f : α → α → α) (d : α) : List α → α
  | [] => d
  | v0 :: rest => rest.foldl f v0

theorem red1_append {α : Type} (f : α → α → α) (d : α) (hassoc : ∀ a b c, f (f a b) c = f a (f b c))
    (a b : List α) (ha : a ≠ []) (hb : b ≠ []) :
    red1 f d (a ++ b) = f (red1 f d a) (red1 f d b) := by
  cases a with
  | nil => exact absurd rfl ha
  | cons a0 as =>
    cases b with
    | nil => exact absurd rfl hb
    | cons b0 bs =>
      simp only [red1, List.cons_append, List.foldl_append, List.foldl_cons]
      exact foldl_assoc f hassoc bs _ b0

/-- any number of non-empty partitions: reducing the union is reducing the partitions' reductions -/
theorem red1_flatten {α : Type} (f : α → α → α) (d : α) (hassoc : ∀ a b c, f (f a b) c = f a (f b c))
    (p0 : List α) (ps : List (List α)) (h0 : p0 ≠ []) (hne : ∀ p ∈ ps, p ≠ []) :
    red1 f d (p0 ++ ps.flatten) = red1 f d (red1 f d p0 :: ps.map (red1 f d)) := by
  induction ps generalizing p0 with
  | nil => cases p0 with
    | nil => exact absurd rfl h0
    | cons a as => simp [red1]
  | cons p ps ih =>
    have hp : p ≠ [] := hne p (List.mem_cons_self)
    have hps : ∀ q ∈ ps, q ≠ [] := fun q hq => hne q (List.mem_cons_of_mem _ hq)
    have h1 : p0 ++ p ≠ [] := by
      intro h
      exact h0 (List.append_eq_nil_iff.mp h).1
    have := ih (p0 ++ p) h1 hps
    simp only [List.flatten_cons, ← List.append_assoc, List.map_cons]
    rw [this, red1_append f d hassoc p0 p h0 hp]
    simp only [red1, List.foldl_cons]

/-! ### `max` and `min` -/

/-- the step of `max` (`top`) / `min`: replace the running value if the new one beats it or if it
is NaN -/
def extStep (top : Bool) (m v : V) : V := if less top m v || isNaN m then v else m

/-- comparisons with NaN are false -/
def NanLaw (V : Type) [Val V] : Prop := ∀ a b : V, isNaN a = true → lt a b = false ∧ lt b a = false

theorem less_nan_left (hn : NanLaw V) (top : Bool) (a b : V) (ha : isNaN a = true) : less top a b = false := by
  unfold less
  cases top
  · simp only [Bool.false_eq_true, if_false]; exact (hn a b ha).2
  · simp only [if_true]; exact (hn a b ha).1

theorem less_nan_right (hn : NanLaw V) (top : Bool) (a b : V) (hb : isNaN b = true) : less top a b = false := by
  unfold less
  cases top
  · simp only [Bool.false_eq_true, if_false]; exact (hn b a hb).1
  · simp only [if_true]; exact (hn b a hb).2

/-- the step of `max`/`min` is associative: under the order laws on non-NaN values and with
comparisons against NaN false -/
theorem extStep_assoc (L : LtLaws (fun v : V => isNaN v = false)) (hn : NanLaw V) (top : Bool)
    (m x y : V) : extStep top (extStep top m x) y = extStep top m (extStep top x y) := by
  cases hm : isNaN m with
  | true =>
    have e1 : ∀ v : V, extStep top m v = v := by
      intro v; unfold extStep; simp [hm]
    rw [e1, e1]
  | false =>
    cases hx : isNaN x with
    | true =>
      have e1 : extStep top m x = m := by
        unfold extStep; simp [hm, less_nan_right hn top m x hx]
      have e2 : extStep top x y = y := by
        unfold extStep; simp [hx]
      rw [e1, e2]
    | false =>
      cases hy : isNaN y with
      | true =>
        have e2 : extStep top x y = x := by
          unfold extStep; simp [hx, less_nan_right hn top x y hy]
        have hmx : isNaN (extStep top m x) = false := by
          unfold extStep; split <;> assumption
        have e1 : extStep top (extStep top m x) y = extStep top m x := by
          generalize extStep top m x = z at hmx
          unfold extStep; simp [hmx, less_nan_right hn top z y hy]
        rw [e1, e2]
      | false =>
        unfold extStep
        simp only [hm, hx, Bool.or_false]
        cases hmx : less top m x with
        | true =>
          simp only [if_true, hx, Bool.or_false]
          cases hxy : less top x y with
          | true =>
            simp only [if_true, less_trans L top m x y hm hx hy hmx hxy]
          | false =>
            simp only [Bool.false_eq_true, if_false, hmx, if_true]
        | false =>
          simp only [Bool.false_eq_true, if_false, hm, Bool.or_false]
          cases hxy : less top x y with
          | true => simp only [if_true]
          | false =>
            simp only [Bool.false_eq_true, if_false, hmx, less_negtrans L top m x y hm hx hy hmx hxy]

theorem aggReduce_max_eq (p : V) (vals : List V) :
    aggReduce "max" p vals = red1 (extStep true) nan vals := by
  cases vals with
  | nil => rfl
  | cons v0 rest =>
    have hf : (fun (m v : V) => if lt m v || isNaN m then v else m) = extStep true := by
      funext m v; simp [extStep, less]
    simp only [aggReduce, red1]
    rw [hf]

theorem aggReduce_min_eq (p : V) (vals : List V) :
    aggReduce "min" p vals = red1 (extStep false) nan vals := by
  cases vals with
  | nil => rfl
  | cons v0 rest =>
    have hf : (fun (m v : V) => if gt m v || isNaN m then v else m) = extStep false := by
      funext m v; simp [extStep, less, gt]
    simp only [aggReduce, red1]
    rw [hf]

theorem aggReduce_sum_eq (p : V) (vals : List V) :
    aggReduce "sum" p vals = red1 add nan vals := by
  cases vals with
  | nil => rfl
  | cons v0 rest => simp [aggReduce, red1]

end PromqlVerif
