/-
Theorem B on a typed fragment: the engine's operators, read through their series lists, compute
the reference value at every step - by induction over the fragment, carrying the ID contract.
-/
import PromqlVerif.Proofs.EngInd
namespace PromqlVerif
open Val

variable {V : Type} [Val V]

/-- the fragment, indexed by "is scalar-typed" -/
inductive Frag : Bool → Expr V → Prop
  | num (v : V) : Frag true (.num v)
  | time : Frag true (.call "time" [])
  | pi : Frag true (.call "pi" [])
  | vsel (s : VSel) : Frag false (.vsel s)
  | rangefn (fn : String) (s : VSel) (r : Int)
      (h : (engineFuncs.contains fn && rangeFnNames.contains fn) = true) : Frag false (.call fn [.msel s r])
  | neg (b : Bool) (a : Expr V) : Frag b a → Frag b (.neg a)
  | pos (b : Bool) (a : Expr V) : Frag b a → Frag b (.pos a)
  | paren (b : Bool) (a : Expr V) : Frag b a → Frag b (.paren a)
  | simple (fn : String) (a : Expr V) (h : simpleFns.contains fn = true) : Frag false a → Frag false (.call fn [a])
  | scalar (a : Expr V) : Frag false a → Frag true (.call "scalar" [a])
  | vector (a : Expr V) : Frag true a → Frag false (.call "vector" [a])
  | clampMin (a lo : Expr V) : Frag false a → Frag true lo → Frag false (.call "clamp_min" [a, lo])
  | clampMax (a hi : Expr V) : Frag false a → Frag true hi → Frag false (.call "clamp_max" [a, hi])
  | clamp (a lo hi : Expr V) : Frag false a → Frag true lo → Frag true hi → Frag false (.call "clamp" [a, lo, hi])
  | stepInvNum (v : V) : Frag true (.stepInv (.num v))
  | binVS (op : String) (bl : Bool) (m : Matching) (a sc : Expr V) (hop : engineBinOps.contains op = true) :
      Frag false a → Frag true sc → Frag false (.bin op bl m a sc)
  | binSV (op : String) (bl : Bool) (m : Matching) (sc a : Expr V) (hop : engineBinOps.contains op = true) :
      Frag true sc → Frag false a → Frag false (.bin op bl m sc a)
  | binSS (op : String) (bl : Bool) (m : Matching) (x y : Expr V) (hop : engineBinOps.contains op = true) :
      Frag true x → Frag true y → Frag true (.bin op bl m x y)
  | stepInv (b : Bool) (a : Expr V) (hn : ∀ v, a ≠ .num v) : Frag b a → Frag b (.stepInv a)

/-- what the induction carries for an operator `o` built for `e` -/
def Inv (c : Ctx V) (b : Bool) (e : Expr V) (o : OpSem V) : Prop :=
  (b = true → o.series = [[]]) ∧
  ∀ t, ∃ xs, o.step t = .ok xs ∧ (∀ x ∈ xs, x.1 < o.series.length) ∧
    (if b then ∃ s, xs = [(0, s)] ∧ eval c t e = .ok (.scal s)
     else eval c t e = .ok (.vec (denote o.series xs)))

theorem inv_const (c : Ctx V) (e : Expr V) (f : Int → V) (he : ∀ t, eval c t e = .ok (.scal (f t))) :
    Inv c true e (constOp f) := by
  refine ⟨fun _ => rfl, fun t => ⟨[(0, f t)], rfl, ?_, ?_⟩⟩
  · intro x hx; simp only [List.mem_singleton] at hx; subst hx; simp [constOp]
  · simp only [if_true]; exact ⟨f t, rfl, he t⟩

theorem enum_ids_lt {γ β : Type} (ms : List γ) (F : Nat × γ → Option (Nat × β))
    (hF : ∀ p y, F p = some y → y.1 = p.1) :
    ∀ x ∈ (enum ms).filterMap F, x.1 < ms.length := by
  have key : ∀ (k : Nat) (ms : List γ), ∀ x ∈ (enumFrom k ms).filterMap F, x.1 < k + ms.length := by
    intro k ms
    induction ms generalizing k with
    | nil => simp [enumFrom]
    | cons m ms ih =>
      intro x hx
      simp only [enumFrom, List.filterMap_cons] at hx
      cases hg : F (k, m) with
      | none =>
        simp only [hg] at hx
        have := ih (k + 1) x hx
        simp only [List.length_cons]; omega
      | some b =>
        simp only [hg] at hx
        rcases List.mem_cons.mp hx with rfl | hx
        · have := hF _ _ hg
          simp only at this
          simp only [List.length_cons]; omega
        · have := ih (k + 1) x hx
          simp only [List.length_cons]; omega
  intro x hx
  have := key 0 ms x hx
  simpa using this

theorem denote_values_of_valid {α β : Type} (S : List α) (xs : List (Nat × β)) (h : ∀ x ∈ xs, x.1 < S.length) :
    (denote S xs).map (·.2) = xs.map (·.2) := by
  unfold denote
  induction xs with
  | nil => rfl
  | cons x xs ih =>
    have hx : x.1 < S.length := h x (List.mem_cons_self ..)
    simp only [List.filterMap_cons, List.getElem?_eq_getElem hx, Option.map_some, List.map_cons]
    rw [ih (fun y hy => h y (List.mem_cons_of_mem _ hy))]

def singleVal {α : Type} (xs : List (α × V)) : V :=
  match xs with
  | [x] => x.2
  | _ => nan

/-- `scalar()` looks at the number of samples: the same whether counted on IDs or through the series list -/
theorem single_value_of_valid {α : Type} (S : List α) (xs : IdVec V) (h : ∀ x ∈ xs, x.1 < S.length) :
    singleVal xs = singleVal (denote S xs) := by
  have hv := denote_values_of_valid S xs h
  unfold singleVal
  match xs, hv with
  | [], hv =>
    have : denote S ([] : IdVec V) = [] := rfl
    simp [this]
  | [x], hv =>
    match hd : denote S [x], hv with
    | [y], hv => simp only [List.map_cons, List.map_nil, List.cons.injEq, and_true] at hv; simp [hv]
    | [], hv => simp at hv
    | _ :: _ :: _, hv => simp at hv
  | x :: y :: rest, hv =>
    match hd : denote S (x :: y :: rest), hv with
    | [], hv => simp at hv
    | [_], hv => simp at hv
    | _ :: _ :: _, _ => rfl

theorem scalarFns_not_simple (fn : String) (h : simpleFns.contains fn = true) : scalarFns.contains fn = false := by
  cases hc : scalarFns.contains fn with
  | false => rfl
  | true =>
    simp only [scalarFns, List.contains_eq_mem, List.mem_cons, List.mem_nil_iff, or_false, decide_eq_true_eq] at hc
    rcases hc with rfl | rfl | rfl <;> (revert h; decide)

theorem scalarFns_not_range (fn : String) (h : rangeFnNames.contains fn = true) : scalarFns.contains fn = false := by
  cases hc : scalarFns.contains fn with
  | false => rfl
  | true =>
    simp only [scalarFns, List.contains_eq_mem, List.mem_cons, List.mem_nil_iff, or_false, decide_eq_true_eq] at hc
    rcases hc with rfl | rfl | rfl <;> (revert h; decide)

/-- the static type of a fragment expression is its index -/
theorem frag_isScalar (b : Bool) (e : Expr V) (h : Frag b e) : e.isScalar = b := by
  induction h with
  | num v => rfl
  | time => rfl
  | pi => rfl
  | vsel s => rfl
  | rangefn fn s r h =>
    simp only [Expr.isScalar]
    simp only [Bool.and_eq_true] at h
    exact scalarFns_not_range fn h.2
  | neg b a _ ih => simpa [Expr.isScalar] using ih
  | pos b a _ ih => simpa [Expr.isScalar] using ih
  | paren b a _ ih => simpa [Expr.isScalar] using ih
  | simple fn a h _ _ => simp only [Expr.isScalar]; exact scalarFns_not_simple fn h
  | scalar a _ _ => rfl
  | vector a _ _ => rfl
  | clampMin a lo _ _ _ _ => rfl
  | clampMax a hi _ _ _ _ => rfl
  | clamp a lo hi _ _ _ _ _ _ => rfl
  | stepInvNum v => rfl
  | stepInv b a _ _ ih => simpa [Expr.isScalar] using ih
  | binVS op bl m a sc _ _ _ iha ihs => simp [Expr.isScalar, iha, ihs]
  | binSV op bl m sc a _ _ _ ihs iha => simp [Expr.isScalar, iha, ihs]
  | binSS op bl m x y _ _ _ ihx ihy => simp [Expr.isScalar, ihx, ihy]

/-- the per-sample function of a vector-scalar operator: the engine's and the reference's -/
def vsFun (op : String) (bl scalarLeft : Bool) (s : V) (v : V) : Option V :=
  let (a, b) := if scalarLeft then (s, v) else (v, s)
  let (value, keep) := elemBinop op a b
  let value := if isComparison op && scalarLeft then b else value
  if bl then some (ofBool keep) else if keep then some value else none

theorem vectorScalarBinop_eq (op : String) (bl scalarLeft : Bool) (v : Vec V) (s : V) :
    vectorScalarBinop op bl v s scalarLeft =
      v.filterMap fun p => (vsFun op bl scalarLeft s p.2).map fun b => ((if dropsName op || bl then Labels.dropName else id) p.1, b) := by
  unfold vectorScalarBinop vsFun
  apply filterMap_congr'
  intro x _
  cases bl <;> cases scalarLeft <;> simp <;> split <;> simp_all <;> (cases dropsName op <;> rfl)

theorem opsem_ext (a b : OpSem V) (h1 : a.series = b.series) (h2 : a.step = b.step) : a = b := by
  cases a; cases b; simp_all

theorem scalarOf_of_inv (c : Ctx V) (e : Expr V) (o : OpSem V) (h : Inv c true e o) (t : Int) :
    ∃ s, scalarOf o t = .ok s ∧ eval c t e = .ok (.scal s) := by
  obtain ⟨xs, hxs, _, hval⟩ := h.2 t
  simp only [if_true] at hval
  obtain ⟨s, rfl, hev⟩ := hval
  exact ⟨s, by simp [scalarOf, hxs, bind, Except.bind, pure, Except.pure], hev⟩

theorem frag_inv (c : Ctx V) (hq : c.q.noDupCheck = true) (b : Bool) (e : Expr V) (h : Frag b e) :
    ∃ o, engOp c e = .ok o ∧ Inv c b e o := by
  induction h with
  | num v => exact ⟨_, by rw [engOp], inv_const c _ _ (fun t => by rw [eval])⟩
  | time => exact ⟨_, by rw [engOp], inv_const c _ _ (fun t => by rw [eval])⟩
  | pi => exact ⟨_, by rw [engOp], inv_const c _ _ (fun t => by rw [eval])⟩
  | vsel s =>
    refine ⟨engSelector c s false, by rw [engOp], ⟨fun hb => (by cases hb), fun t => ?_⟩⟩
    have hd := engSelector_den c s t
    unfold OpSem.den at hd
    cases hs : (engSelector c s false).step t with
    | error er => simp [hs, Except.map] at hd
    | ok xs =>
      refine ⟨xs, rfl, ?_, ?_⟩
      · simp only [engSelector] at hs ⊢
        cases hs
        simp only [List.length_map]
        apply enum_ids_lt
        intro p y hy
        cases hsel : selectSample c.lookback (t - s.offsetAt c.start) p.2.samples with
        | none => simp [hsel] at hy
        | some q => simp only [hsel, Option.map_some, Option.some.injEq] at hy; rw [← hy]
      · simp only [hs, Except.map, Except.ok.injEq] at hd
        simp only [Bool.false_eq_true, if_false]
        rw [eval, hd]
  | rangefn fn s r hfn =>
    have h2 : rangeFnNames.contains fn = true := by
      simp only [Bool.and_eq_true] at hfn; exact hfn.2
    refine ⟨engRangeFn c fn s r, (by rw [engOp]; rw [if_pos hfn]), ⟨fun hb => (by cases hb), fun t => ?_⟩⟩
    have hd := engRangeFn_den c fn s r t
    unfold OpSem.den at hd
    cases hs : (engRangeFn c fn s r).step t with
    | error er => simp [hs, Except.map] at hd
    | ok xs =>
      refine ⟨xs, rfl, ?_, ?_⟩
      · simp only [engRangeFn] at hs ⊢
        cases hs
        simp only [List.length_map]
        apply enum_ids_lt
        intro p y hy
        cases hk : rangeKernel fn (windowPoints (t - s.offsetAt c.start - r) (t - s.offsetAt c.start) p.2.samples)
            (t - s.offsetAt c.start - r) (t - s.offsetAt c.start) (rangeSeconds r : V) with
        | none => simp [hk] at hy
        | some q => simp only [hk, Option.map_some, Option.some.injEq] at hy; rw [← hy]
      · simp only [hs, Except.map, Except.ok.injEq] at hd
        simp only [Bool.false_eq_true, if_false]
        rw [eval, if_pos h2, hd]
  | neg b a _ ih =>
    obtain ⟨o, ho, hser, hstep⟩ := ih
    refine ⟨_, (by rw [engOp]; simp only [ho, bind, Except.bind, pure, Except.pure]; rfl), ⟨?_, fun t => ?_⟩⟩
    · intro hb; simp [hser hb, Labels.dropName]
    · obtain ⟨xs, hxs, hids, hval⟩ := hstep t
      refine ⟨xs.map fun x => (x.1, neg x.2), by simp [hxs, Except.map], ?_, ?_⟩
      · intro x hx
        obtain ⟨y, hy, rfl⟩ := List.mem_map.mp hx
        simpa using hids y hy
      · cases b with
        | true =>
          simp only [if_true] at hval ⊢
          obtain ⟨s, rfl, hev⟩ := hval
          exact ⟨neg s, rfl, by rw [eval]; simp [hev, bind, Except.bind, pure, Except.pure]⟩
        | false =>
          simp only [Bool.false_eq_true, if_false] at hval ⊢
          rw [eval]
          simp only [hval, bind, Except.bind, pure, Except.pure]
          rw [denote_map o.series Labels.dropName neg xs]
  | pos b a _ ih =>
    obtain ⟨o, ho, hinv⟩ := ih
    refine ⟨o, (by rw [engOp]; exact ho), ⟨hinv.1, fun t => ?_⟩⟩
    obtain ⟨xs, h1, h2, h3⟩ := hinv.2 t
    refine ⟨xs, h1, h2, ?_⟩
    cases b <;> simp only [if_true, Bool.false_eq_true, if_false] at h3 ⊢ <;> (rw [eval]; exact h3)
  | paren b a _ ih =>
    obtain ⟨o, ho, hinv⟩ := ih
    refine ⟨o, (by rw [engOp]; exact ho), ⟨hinv.1, fun t => ?_⟩⟩
    obtain ⟨xs, h1, h2, h3⟩ := hinv.2 t
    refine ⟨xs, h1, h2, ?_⟩
    cases b <;> simp only [if_true, Bool.false_eq_true, if_false] at h3 ⊢ <;> (rw [eval]; exact h3)
  | simple fn a hfn hfa ih =>
    obtain ⟨o, ho, _, hstep⟩ := ih
    have hne : ∀ (s : VSel) (r : Int), a = Expr.msel s r → False := fun s r h => by cases h; cases hfa
    have hn1 : fn ≠ "timestamp" := by intro h; subst h; revert hfn; decide
    have hn2 : fn ≠ "scalar" := by intro h; subst h; revert hfn; decide
    have hn3 : fn ≠ "vector" := by intro h; subst h; revert hfn; decide
    refine ⟨{ series := o.series.map Labels.dropName
              step := fun t => (o.step t).map fun xs => xs.map fun x => (x.1, applySimple fn x.2) }, ?_, ⟨fun hb => (by cases hb), fun t => ?_⟩⟩
    · rw [engOp] <;> first | assumption | (intro h; exact absurd h (by assumption)) | skip
      all_goals (try (simp only [hfn, if_true, ho, bind, Except.bind, pure, Except.pure]))
      all_goals (try (intro hh; first | exact hn1 hh | exact hn2 hh | exact hn3 hh))
    · obtain ⟨xs, hxs, hids, hval⟩ := hstep t
      simp only [Bool.false_eq_true, if_false] at hval
      refine ⟨xs.map fun x => (x.1, applySimple fn x.2), by simp [hxs, Except.map], ?_, ?_⟩
      · intro x hx
        obtain ⟨y, hy, rfl⟩ := List.mem_map.mp hx
        simpa using hids y hy
      · simp only [Bool.false_eq_true, if_false]
        rw [eval] <;> first | assumption | skip
        all_goals (try (simp only [hfn, if_true, hval, bind, Except.bind, pure, Except.pure, Value.asVec, dedupCheck, hq, Bool.not_true, Bool.false_and]))
        all_goals (try (rw [denote_map o.series Labels.dropName (applySimple fn) xs]; rfl))
        all_goals (try (intro hh; first | exact hn1 hh | exact hn2 hh | exact hn3 hh))
  | scalar a hfa ih =>
    obtain ⟨o, ho, _, hstep⟩ := ih
    have hne : ∀ (s : VSel) (r : Int), a = Expr.msel s r → False := fun s r h => by cases h; cases hfa
    refine ⟨{ series := [[]]
              step := fun t => (o.step t).map fun xs => match xs with | [x] => [(0, x.2)] | _ => [(0, nan)] }, ?_, ⟨fun _ => rfl, fun t => ?_⟩⟩
    · rw [engOp] <;> first | assumption | skip
      simp only [ho, bind, Except.bind, pure, Except.pure]
      rfl
    · obtain ⟨xs, hxs, hids, hval⟩ := hstep t
      simp only [Bool.false_eq_true, if_false] at hval
      refine ⟨[(0, singleVal xs)], ?_, ?_, ?_⟩
      · simp only [hxs, Except.map, singleVal]
        cases xs with
        | nil => rfl
        | cons x rest => cases rest <;> rfl
      · intro x hx; simp only [List.mem_singleton] at hx; subst hx; simp
      · simp only [if_true]
        refine ⟨_, rfl, ?_⟩
        rw [eval] <;> first | assumption | skip
        simp only [hval, bind, Except.bind, pure, Except.pure, Value.asVec]
        rw [single_value_of_valid o.series xs hids]
        unfold singleVal
        cases denote o.series xs with
        | nil => rfl
        | cons y rest => cases rest <;> rfl
  | vector a hfa ih =>
    obtain ⟨o, ho, hser, hstep⟩ := ih
    have hne : ∀ (s : VSel) (r : Int), a = Expr.msel s r → False := fun s r h => by cases h; cases hfa
    refine ⟨{ series := [[]], step := o.step }, ?_, ⟨fun hb => (by cases hb), fun t => ?_⟩⟩
    · rw [engOp] <;> first | assumption | skip
      simp only [ho, bind, Except.bind, pure, Except.pure]
    · obtain ⟨xs, hxs, _, hval⟩ := hstep t
      simp only [if_true] at hval
      obtain ⟨sv, rfl, hev⟩ := hval
      refine ⟨[(0, sv)], hxs, ?_, ?_⟩
      · intro x hx; simp only [List.mem_singleton] at hx; subst hx; simp
      · simp only [Bool.false_eq_true, if_false]
        rw [eval] <;> first | assumption | skip
        simp [hev, bind, Except.bind, pure, Except.pure, Value.asScal, denote]
  | clampMin a lo hfa _ iha ihlo =>
    obtain ⟨o, ho, _, hstep⟩ := iha
    obtain ⟨ol, hol, hinvl⟩ := ihlo
    refine ⟨{ series := o.series.map Labels.dropName
              step := fun t => do
                let xs ← o.step t
                let lo ← scalarOf ol t
                pure (xs.map fun x => (x.1, maxGo lo x.2)) }, ?_, ⟨fun hb => (by cases hb), fun t => ?_⟩⟩
    · rw [engOp]; simp only [ho, hol, bind, Except.bind, pure, Except.pure]
    · obtain ⟨xs, hxs, hids, hval⟩ := hstep t
      simp only [Bool.false_eq_true, if_false] at hval
      obtain ⟨sl, hsl, hel⟩ := scalarOf_of_inv c lo ol hinvl t
      refine ⟨xs.map fun x => (x.1, maxGo sl x.2), by simp [hxs, hsl, bind, Except.bind, pure, Except.pure], ?_, ?_⟩
      · intro x hx
        obtain ⟨y, hy, rfl⟩ := List.mem_map.mp hx
        simpa using hids y hy
      · simp only [Bool.false_eq_true, if_false]
        rw [eval]
        simp only [hval, hel, bind, Except.bind, pure, Except.pure, Value.asVec, Value.asScal, dedupCheck, hq, Bool.not_true, Bool.false_and]
        rw [denote_map o.series Labels.dropName (maxGo sl) xs]; rfl
  | clampMax a hi hfa _ iha ihhi =>
    obtain ⟨o, ho, _, hstep⟩ := iha
    obtain ⟨oh, hoh, hinvh⟩ := ihhi
    refine ⟨{ series := o.series.map Labels.dropName
              step := fun t => do
                let xs ← o.step t
                let hi ← scalarOf oh t
                pure (xs.map fun x => (x.1, minGo hi x.2)) }, ?_, ⟨fun hb => (by cases hb), fun t => ?_⟩⟩
    · rw [engOp]; simp only [ho, hoh, bind, Except.bind, pure, Except.pure]
    · obtain ⟨xs, hxs, hids, hval⟩ := hstep t
      simp only [Bool.false_eq_true, if_false] at hval
      obtain ⟨sh, hsh, heh⟩ := scalarOf_of_inv c hi oh hinvh t
      refine ⟨xs.map fun x => (x.1, minGo sh x.2), by simp [hxs, hsh, bind, Except.bind, pure, Except.pure], ?_, ?_⟩
      · intro x hx
        obtain ⟨y, hy, rfl⟩ := List.mem_map.mp hx
        simpa using hids y hy
      · simp only [Bool.false_eq_true, if_false]
        rw [eval]
        simp only [hval, heh, bind, Except.bind, pure, Except.pure, Value.asVec, Value.asScal, dedupCheck, hq, Bool.not_true, Bool.false_and]
        rw [denote_map o.series Labels.dropName (minGo sh) xs]; rfl
  | clamp a lo hi hfa _ _ iha ihlo ihhi =>
    obtain ⟨o, ho, _, hstep⟩ := iha
    obtain ⟨ol, hol, hinvl⟩ := ihlo
    obtain ⟨oh, hoh, hinvh⟩ := ihhi
    refine ⟨{ series := o.series.map Labels.dropName
              step := fun t => do
                let xs ← o.step t
                let lo ← scalarOf ol t
                let hi ← scalarOf oh t
                pure (if lt hi lo then [] else xs.map fun x => (x.1, maxGo lo (minGo hi x.2))) }, ?_, ⟨fun hb => (by cases hb), fun t => ?_⟩⟩
    · rw [engOp]; simp only [ho, hol, hoh, bind, Except.bind, pure, Except.pure]
    · obtain ⟨xs, hxs, hids, hval⟩ := hstep t
      simp only [Bool.false_eq_true, if_false] at hval
      obtain ⟨sl, hsl, hel⟩ := scalarOf_of_inv c lo ol hinvl t
      obtain ⟨sh, hsh, heh⟩ := scalarOf_of_inv c hi oh hinvh t
      refine ⟨if lt sh sl then [] else xs.map fun x => (x.1, maxGo sl (minGo sh x.2)),
        by simp [hxs, hsl, hsh, bind, Except.bind, pure, Except.pure], ?_, ?_⟩
      · intro x hx
        split at hx
        · cases hx
        · obtain ⟨y, hy, rfl⟩ := List.mem_map.mp hx
          simpa using hids y hy
      · simp only [Bool.false_eq_true, if_false]
        rw [eval]
        simp only [hval, hel, heh, bind, Except.bind, pure, Except.pure, Value.asVec, Value.asScal, dedupCheck, hq, Bool.not_true, Bool.false_and]
        by_cases hlt : lt sh sl = true
        · simp [hlt, denote]
        · simp only [hlt, Bool.false_eq_true, if_false]
          rw [denote_map o.series Labels.dropName (fun v => maxGo sl (minGo sh v)) xs]
  | stepInvNum v =>
    exact ⟨_, by rw [engOp], inv_const c _ _ (fun t => by rw [eval]; rw [eval])⟩
  | stepInv b a hn _ ih =>
    obtain ⟨o, ho, hser, hstep⟩ := ih
    refine ⟨{ o with step := fun _ => o.step c.start }, ?_, ⟨hser, fun t => ?_⟩⟩
    · rw [engOp]
      · simp only [ho, bind, Except.bind, pure, Except.pure]
      · intro v hv; exact hn v hv
    · obtain ⟨xs, h1, h2, h3⟩ := hstep c.start
      refine ⟨xs, h1, h2, ?_⟩
      cases b <;> simp only [if_true, Bool.false_eq_true, if_false] at h3 ⊢ <;> (rw [eval]; exact h3)
  | binVS op bl m a sc hop hfa hfs iha ihs =>
    obtain ⟨o, ho, _, hstep⟩ := iha
    obtain ⟨os, hos, hinvs⟩ := ihs
    have ta : a.isScalar = false := frag_isScalar _ _ hfa
    have ts : sc.isScalar = true := frag_isScalar _ _ hfs
    refine ⟨{ series := o.series.map (if dropsName op || bl then Labels.dropName else id)
              step := fun t => do
                let xs ← o.step t
                let s ← scalarOf os t
                pure (xs.filterMap fun x => (vsFun op bl false s x.2).map fun b => (x.1, b)) }, ?_, ⟨fun hb => (by cases hb), fun t => ?_⟩⟩
    · rw [engOp]
      simp only [ho, hos, bind, Except.bind, pure, Except.pure, hop, ta, ts, Bool.false_or, Bool.not_true, Bool.and_false,
        Bool.false_and, if_true, if_false, Bool.not_false, Bool.and_true, Bool.false_eq_true, ↓reduceIte, Bool.or_true, Bool.true_or]
      congr 1
      apply opsem_ext
      · apply List.map_congr_left; intro l _; cases dropsName op <;> cases bl <;> rfl
      · funext t
        simp only []
        cases o.step t with
        | error e => rfl
        | ok xs =>
          cases scalarOf os t with
          | error e => rfl
          | ok s =>
            simp only []
            congr 1
            apply filterMap_congr'
            intro x _
            unfold vsFun
            cases bl <;> simp <;> split <;> simp_all
    · obtain ⟨xs, hxs, hids, hval⟩ := hstep t
      simp only [Bool.false_eq_true, if_false] at hval
      obtain ⟨s, hs, hes⟩ := scalarOf_of_inv c sc os hinvs t
      refine ⟨xs.filterMap fun x => (vsFun op bl false s x.2).map fun b => (x.1, b),
        by simp [hxs, hs, bind, Except.bind, pure, Except.pure], ?_, ?_⟩
      · intro x hx
        obtain ⟨y, hy, hxy⟩ := List.mem_filterMap.mp hx
        cases hg : vsFun op bl false s y.2 with
        | none => simp [hg] at hxy
        | some b =>
          simp only [hg, Option.map_some, Option.some.injEq] at hxy
          subst hxy
          simpa using hids y hy
      · simp only [Bool.false_eq_true, if_false]
        rw [eval]
        simp only [hval, hes, bind, Except.bind, pure, Except.pure, dedupCheck, hq, Bool.not_true, Bool.false_and]
        rw [vectorScalarBinop_eq, denote_filterMap]
        rfl
  | binSV op bl m sc a hop hfs hfa ihs iha =>
    obtain ⟨o, ho, _, hstep⟩ := iha
    obtain ⟨os, hos, hinvs⟩ := ihs
    have ta : a.isScalar = false := frag_isScalar _ _ hfa
    have ts : sc.isScalar = true := frag_isScalar _ _ hfs
    refine ⟨{ series := o.series.map (if dropsName op || bl then Labels.dropName else id)
              step := fun t => do
                let xs ← o.step t
                let s ← scalarOf os t
                pure (xs.filterMap fun x => (vsFun op bl true s x.2).map fun b => (x.1, b)) }, ?_, ⟨fun hb => (by cases hb), fun t => ?_⟩⟩
    · rw [engOp]
      simp only [ho, hos, bind, Except.bind, pure, Except.pure, hop, ta, ts, Bool.false_or, Bool.not_true, Bool.and_false,
        Bool.false_and, if_true, if_false, Bool.not_false, Bool.and_true, Bool.false_eq_true, ↓reduceIte, Bool.or_true, Bool.true_or,
        Bool.true_and, Bool.or_false]
      congr 1
      apply opsem_ext
      · apply List.map_congr_left; intro l _; cases dropsName op <;> cases bl <;> rfl
      · funext t
        simp only []
        cases o.step t with
        | error e => rfl
        | ok xs =>
          cases scalarOf os t with
          | error e => rfl
          | ok s =>
            simp only []
            congr 1
            apply filterMap_congr'
            intro x _
            unfold vsFun
            cases bl <;> simp <;> split <;> simp_all
    · obtain ⟨xs, hxs, hids, hval⟩ := hstep t
      simp only [Bool.false_eq_true, if_false] at hval
      obtain ⟨s, hs, hes⟩ := scalarOf_of_inv c sc os hinvs t
      refine ⟨xs.filterMap fun x => (vsFun op bl true s x.2).map fun b => (x.1, b),
        by simp [hxs, hs, bind, Except.bind, pure, Except.pure], ?_, ?_⟩
      · intro x hx
        obtain ⟨y, hy, hxy⟩ := List.mem_filterMap.mp hx
        cases hg : vsFun op bl true s y.2 with
        | none => simp [hg] at hxy
        | some b =>
          simp only [hg, Option.map_some, Option.some.injEq] at hxy
          subst hxy
          simpa using hids y hy
      · simp only [Bool.false_eq_true, if_false]
        rw [eval]
        simp only [hval, hes, bind, Except.bind, pure, Except.pure, dedupCheck, hq, Bool.not_true, Bool.false_and]
        rw [vectorScalarBinop_eq, denote_filterMap]
        rfl
  | binSS op bl m x y hop hfx hfy ihx ihy =>
    obtain ⟨ox, hox, hinvx⟩ := ihx
    obtain ⟨oy, hoy, hinvy⟩ := ihy
    have tx : x.isScalar = true := frag_isScalar _ _ hfx
    have ty : y.isScalar = true := frag_isScalar _ _ hfy
    have hsx := hinvx.1 rfl
    refine ⟨{ series := [[]]
              step := fun t => do
                let xs ← ox.step t
                let s ← scalarOf oy t
                pure (xs.map fun p => (p.1, if isComparison op then ofBool (compareOp op p.2 s) else arith op p.2 s)) }, ?_, ⟨fun _ => rfl, fun t => ?_⟩⟩
    · rw [engOp]
      simp only [hox, hoy, bind, Except.bind, pure, Except.pure, hop, tx, ty, Bool.not_true, Bool.and_false,
        if_true, if_false, Bool.false_eq_true, ↓reduceIte, Bool.or_true, Bool.true_or, Bool.true_and, Bool.and_self]
      congr 1
      apply opsem_ext
      · simp only [hsx, List.map_cons, List.map_nil]
        cases dropsName op || bl <;> rfl
      · funext t
        simp only []
        cases ox.step t with
        | error e => rfl
        | ok xs =>
          cases scalarOf oy t with
          | error e => rfl
          | ok s =>
            simp only []
            congr 1
            rw [← List.filterMap_eq_map]
            apply filterMap_congr'
            intro p _
            rfl
    · obtain ⟨sx, hsx', hex⟩ := scalarOf_of_inv c x ox hinvx t
      obtain ⟨sy, hsy, hey⟩ := scalarOf_of_inv c y oy hinvy t
      obtain ⟨xs, hxs, _, hval⟩ := hinvx.2 t
      simp only [if_true] at hval
      obtain ⟨s0, rfl, hev0⟩ := hval
      have : s0 = sx := by
        rw [hex] at hev0; cases hev0; rfl
      subst this
      refine ⟨[(0, if isComparison op then ofBool (compareOp op s0 sy) else arith op s0 sy)], ?_, ?_, ?_⟩
      · simp [hxs, hsy, bind, Except.bind, pure, Except.pure]
      · intro p hp; simp only [List.mem_singleton] at hp; subst hp; simp
      · simp only [if_true]
        refine ⟨_, rfl, ?_⟩
        rw [eval]
        simp [hex, hey, bind, Except.bind, pure, Except.pure]

end PromqlVerif
