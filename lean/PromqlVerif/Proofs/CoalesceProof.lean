/-
`coalesceOperator.Next` for children that are aligned (the same step timestamps in their batches,
which is what siblings of one plan deliver): whatever the order of arrival, the merged batch has
those timestamps and, per step, every child's samples with shifted IDs - a rearrangement of the
children's vectors taken in child order; IDs stay valid and distinct.
-/
import PromqlVerif.Coalesce
import PromqlVerif.Proofs.SelOpProof
namespace PromqlVerif
open Val

variable {V : Type}

theorem mergedSpec_nil (ts : List Int) : mergedSpec ts ([] : List (Nat × List (SV V))) = ts.map fun t => (t, []) := by
  induction ts with
  | nil => rfl
  | cons t ts ih => simp [mergedSpec, ih]

/-- one more arrival -/
theorem mergeBatch_spec (off : Nat) :
    ∀ (ts : List Int) (as : List (Nat × List (SV V))) (inp : List (SV V)), inp.map (·.1) = ts →
      mergeBatch off (mergedSpec ts as) inp = some (mergedSpec ts (as ++ [(off, inp)])) := by
  intro ts
  induction ts with
  | nil =>
    intro as inp h
    have : inp = [] := List.map_eq_nil_iff.mp h
    subst this
    cases as <;> rfl
  | cons t ts ih =>
    intro as inp h
    cases inp with
    | nil => cases h
    | cons i is =>
      simp only [List.map_cons, List.cons.injEq] at h
      obtain ⟨hi, his⟩ := h
      simp only [mergedSpec, mergeBatch]
      rw [ih (as.map fun a => (a.1, a.2.tail)) is his]
      simp only [Option.map_some, List.map_append, List.map_cons, List.map_nil, List.tail_cons, List.flatMap_append,
        List.flatMap_cons, List.flatMap_nil, List.append_nil, mergeSV, headSamples, List.head?_cons, Option.getD_some]
      congr 2
      rw [hi]
      simp

/-- the arrivals of aligned children, all with a batch -/
def AlignedArrivals (ts : List Int) (as : List (Nat × List (SV V))) : Prop := ∀ a ∈ as, a.2.map (·.1) = ts

theorem arrive_merged (ts : List Int) (pre : List (Nat × List (SV V))) (a : Nat × List (SV V))
    (ha : a.2.map (·.1) = ts) :
    arrive (some (mergedSpec ts pre)) a.1 (some a.2) = .ok (some (mergedSpec ts (pre ++ [a]))) := by
  simp only [arrive]
  rw [mergeBatch_spec a.1 ts pre a.2 ha]

theorem arrive_first (ts : List Int) (hts : ts ≠ []) (a : Nat × List (SV V)) (ha : a.2.map (·.1) = ts) :
    arrive none a.1 (some a.2) = .ok (some (mergedSpec ts [a])) := by
  have hane : a.2.isEmpty = false := by
    cases h : a.2 with
    | nil => rw [h] at ha; exact absurd ha.symm hts
    | cons _ _ => rfl
  have hinit : (a.2.map fun sv => (sv.1, ([] : IdVec V))) = mergedSpec ts [] := by
    rw [mergedSpec_nil, ← ha, List.map_map]
    rfl
  simp only [arrive, hane, Bool.false_eq_true, if_false]
  rw [hinit, mergeBatch_spec a.1 ts [] a.2 ha]
  rfl

theorem coalesce_from (ts : List Int) (pre suf : List (Nat × List (SV V))) (hsuf : AlignedArrivals ts suf) :
    (suf.map fun a => (a.1, some a.2)).foldl coStep (.ok (some (mergedSpec ts pre)))
      = .ok (some (mergedSpec ts (pre ++ suf))) := by
  induction suf generalizing pre with
  | nil => simp
  | cons a suf ih =>
    have ha := hsuf a List.mem_cons_self
    simp only [List.map_cons, List.foldl_cons, coStep]
    rw [arrive_merged ts pre a ha, ih (pre ++ [a]) (fun b hb => hsuf b (List.mem_cons_of_mem _ hb))]
    simp [List.append_assoc]

/-- **`Next` of the coalesce operator, for every order of arrival**: with aligned children (each
returns a batch with the step timestamps `ts`, at least one step), the merged batch is
`mergedSpec`: the timestamps `ts` and per step the arrivals' samples with shifted IDs -/
theorem coalesceNext_spec (ts : List Int) (hts : ts ≠ []) (as : List (Nat × List (SV V)))
    (has : AlignedArrivals ts as) (hne : as ≠ []) :
    coalesceNext (as.map fun a => (a.1, some a.2)) = .ok (some (mergedSpec ts as)) := by
  cases as with
  | nil => exact absurd rfl hne
  | cons a as =>
    have ha := has a List.mem_cons_self
    unfold coalesceNext
    simp only [List.map_cons, List.foldl_cons, coStep]
    rw [arrive_first ts hts a ha, coalesce_from ts [a] as (fun b hb => has b (List.mem_cons_of_mem _ hb))]
    rfl

/-- two orders of arrival give, step by step, the same timestamps and rearranged samples -/
theorem mergedSpec_perm (ts : List Int) (as as' : List (Nat × List (SV V))) (h : as.Perm as') :
    All2 (fun (x y : SV V) => x.1 = y.1 ∧ x.2.Perm y.2) (mergedSpec ts as) (mergedSpec ts as') := by
  induction ts generalizing as as' with
  | nil => exact All2.nil
  | cons t ts ih =>
    simp only [mergedSpec]
    exact All2.cons ⟨rfl, h.flatMap_right _⟩ (ih _ _ (h.map _))

/-! ### IDs -/

/-- an arrival's IDs lie below the child's number of series, and the children's ID ranges
`[off, off + size)` are disjoint -/
structure Ranged (a : Nat × List (SV V)) (size : Nat) : Prop where
  valid : ∀ sv ∈ a.2, ∀ x ∈ sv.2, x.1 < size
  nodup : ∀ sv ∈ a.2, (sv.2.map (·.1)).Nodup

theorem headSamples_mem (inp : List (SV V)) (x : Nat × V) (hx : x ∈ headSamples inp) :
    ∃ sv ∈ inp, x ∈ sv.2 := by
  cases inp with
  | nil => simp [headSamples] at hx
  | cons i is => exact ⟨i, List.mem_cons_self, by simpa [headSamples] using hx⟩

theorem headSamples_tail_mem (inp : List (SV V)) (sv : SV V) (h : sv ∈ inp.tail) : sv ∈ inp := by
  cases inp with
  | nil => cases h
  | cons i is => exact List.mem_cons_of_mem _ h

/-- the arrivals with the sizes of their children: ranges pairwise disjoint -/
def DisjointRanges (as : List ((Nat × List (SV V)) × Nat)) : Prop :=
  as.Pairwise fun a b => a.1.1 + a.2 ≤ b.1.1 ∨ b.1.1 + b.2 ≤ a.1.1

theorem ids_of_step (as : List ((Nat × List (SV V)) × Nat)) (hr : ∀ a ∈ as, Ranged a.1 a.2)
    (hd : DisjointRanges as) :
    ((as.flatMap fun a => shiftIds a.1.1 (headSamples a.1.2)).map (·.1)).Nodup ∧
      ∀ id ∈ (as.flatMap fun a => shiftIds a.1.1 (headSamples a.1.2)).map (·.1),
        ∃ a ∈ as, a.1.1 ≤ id ∧ id < a.1.1 + a.2 := by
  induction as with
  | nil => exact ⟨by simp, by simp⟩
  | cons a as ih =>
    have hpa := List.pairwise_cons.mp hd
    obtain ⟨ihn, ihr⟩ := ih (fun b hb => hr b (List.mem_cons_of_mem _ hb)) hpa.2
    have hra := hr a List.mem_cons_self
    have hidsA : ∀ id ∈ (shiftIds a.1.1 (headSamples a.1.2)).map (·.1), a.1.1 ≤ id ∧ id < a.1.1 + a.2 := by
      intro id hid
      simp only [shiftIds, List.map_map, List.mem_map, Function.comp_def] at hid
      obtain ⟨x, hx, rfl⟩ := hid
      obtain ⟨sv, hsv, hxs⟩ := headSamples_mem a.1.2 x hx
      have := hra.valid sv hsv x hxs
      omega
    have hnodA : ((shiftIds a.1.1 (headSamples a.1.2)).map (·.1)).Nodup := by
      cases hh : a.1.2 with
      | nil => simp [headSamples, shiftIds]
      | cons i is =>
        have := hra.nodup i (by rw [hh]; exact List.mem_cons_self)
        simp only [headSamples, List.head?_cons, Option.map_some, Option.getD_some, shiftIds, List.map_map,
          Function.comp_def]
        have hmap : (i.2.map fun x => x.1 + a.1.1) = (i.2.map (·.1)).map (· + a.1.1) := by simp [List.map_map]
        rw [hmap]
        exact List.Pairwise.map _ (fun x y hxy h => hxy (by omega)) this
    refine ⟨?_, ?_⟩
    · simp only [List.flatMap_cons, List.map_append]
      rw [List.nodup_append]
      refine ⟨hnodA, ihn, ?_⟩
      intro x hx y hy hxy
      subst hxy
      obtain ⟨b, hb, hb1, hb2⟩ := ihr x hy
      obtain ⟨ha1, ha2⟩ := hidsA x hx
      rcases hpa.1 b hb with h | h <;> omega
    · intro id hid
      simp only [List.flatMap_cons, List.map_append, List.mem_append] at hid
      rcases hid with h | h
      · exact ⟨a, List.mem_cons_self, hidsA id h⟩
      · obtain ⟨b, hb, hb'⟩ := ihr id h
        exact ⟨b, List.mem_cons_of_mem _ hb, hb'⟩

/-- every step of the merged batch: IDs pairwise distinct, each within some child's range -/
theorem merged_ids (ts : List Int) (as : List ((Nat × List (SV V)) × Nat)) (hr : ∀ a ∈ as, Ranged a.1 a.2)
    (hd : DisjointRanges as) :
    ∀ sv ∈ mergedSpec ts (as.map (·.1)), (sv.2.map (·.1)).Nodup ∧
      ∀ id ∈ sv.2.map (·.1), ∃ a ∈ as, a.1.1 ≤ id ∧ id < a.1.1 + a.2 := by
  induction ts generalizing as with
  | nil => intro sv h; cases h
  | cons t ts ih =>
    intro sv hsv
    simp only [mergedSpec, List.mem_cons] at hsv
    rcases hsv with rfl | hsv
    · have := ids_of_step as hr hd
      simp only [List.flatMap_map]
      exact this
    · -- the remaining steps: the same children with the tails of their batches
      let as' : List ((Nat × List (SV V)) × Nat) := as.map fun a => ((a.1.1, a.1.2.tail), a.2)
      have hmap : (as.map (·.1)).map (fun a => (a.1, a.2.tail)) = as'.map (·.1) := by
        simp [as', List.map_map, Function.comp_def]
      rw [hmap] at hsv
      have hr' : ∀ a ∈ as', Ranged a.1 a.2 := by
        intro a ha
        simp only [as', List.mem_map] at ha
        obtain ⟨b, hb, rfl⟩ := ha
        have hb' := hr b hb
        exact ⟨fun sv hsv x hx => hb'.valid sv (headSamples_tail_mem _ sv hsv) x hx,
               fun sv hsv => hb'.nodup sv (headSamples_tail_mem _ sv hsv)⟩
      have hd' : DisjointRanges as' := by
        unfold DisjointRanges at hd ⊢
        simp only [as']
        rw [List.pairwise_map]
        exact hd
      obtain ⟨h1, h2⟩ := ih as' hr' hd' sv hsv
      refine ⟨h1, fun id hid => ?_⟩
      obtain ⟨a, ha, hlo, hhi⟩ := h2 id hid
      simp only [as', List.mem_map] at ha
      obtain ⟨b, hb, rfl⟩ := ha
      exact ⟨b, hb, hlo, hhi⟩

/-- the offsets `loadSeries` computes give the children pairwise disjoint ID ranges -/
theorem offsets_disjoint (sizes : List Nat) (i j : Nat) (hij : i < j) (hj : j < sizes.length) :
    (sizes.take i).sum + sizes.getD i 0 ≤ (sizes.take j).sum := by
  induction sizes generalizing i j with
  | nil => simp at hj
  | cons n ns ih =>
    cases j with
    | zero => omega
    | succ j =>
      cases i with
      | zero =>
        simp only [List.take_zero, List.sum_nil, List.getD_cons_zero, List.take_succ_cons, List.sum_cons]
        omega
      | succ i =>
        simp only [List.take_succ_cons, List.sum_cons, List.getD_cons_succ]
        have := ih i j (by omega) (by simpa using hj)
        omega

/-- children that are *not* aligned: whether `Next` fails (Go indexes past the end of the shared
batch, a recovered panic) depends on who arrives first -/
theorem unaligned_children_depend_on_arrival :
    ∃ (a b : Nat × Option (List (SV Int))),
      (coalesceNext [a, b]).isOk = false ∧ (coalesceNext [b, a]).isOk = true :=
  ⟨(0, some [(0, [(0, 1)])]), (1, some [(0, [(0, 2)]), (60, [(0, 3)])]), by decide, by decide⟩

end PromqlVerif
