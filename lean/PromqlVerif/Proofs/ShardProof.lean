/-
Sharding is transparent: the series of a selector are split over several vectorSelector operators
(one per shard, `execution.go`), each produces its batches as in `SelOp.lean`, and the coalesce
operator merges them (`Coalesce.lean`). For every split, every batch and every order in which the
shards' goroutines arrive, the merged step vectors are - up to the order of the samples within a
step - the per-step selection over all the series.
-/
import PromqlVerif.Proofs.CoalesceProof
namespace PromqlVerif
open Val

variable {V : Type} [Val V]

/-- a per-series evaluation `f` (a selection, a range function) over a series list, with IDs
counted from `n` -/
def perStepFrom (f : List (Sample V) → Int → Option V) (n : Nat) (series : List (List (Sample V))) (ref : Int) : IdVec V :=
  (enumFrom n series).filterMap fun (i, s) => (f s ref).map fun v => (i, v)

def perStep (f : List (Sample V) → Int → Option V) (series : List (List (Sample V))) (ref : Int) : IdVec V :=
  perStepFrom f 0 series ref

theorem selectStep_eq_perStep (lookback : Int) :
    selectStep (V := V) lookback = perStep fun s r => (selectSample lookback r s).map (·.2) := by
  funext series ref
  unfold selectStep perStep perStepFrom enum
  congr 1
  funext p
  simp [Option.map_map, Function.comp_def]

theorem rangeStep_eq_perStep (fn : String) (range : Int) :
    rangeStep (V := V) fn range = perStep fun s r =>
      rangeKernel fn (windowPoints (r - range) r s) (r - range) r (rangeSeconds range) := by
  funext series ref
  rfl

theorem perStepFrom_shift (f : List (Sample V) → Int → Option V) (n : Nat) (series : List (List (Sample V))) (ref : Int) :
    perStepFrom f n series ref = shiftIds n (perStepFrom f 0 series ref) := by
  unfold perStepFrom shiftIds
  induction series generalizing n with
  | nil => rfl
  | cons s ss ih =>
    simp only [enumFrom, List.filterMap_cons]
    rw [ih (n + 1), ih (0 + 1)]
    cases f s ref with
    | none =>
      simp only [Option.map_none, List.map_map]
      apply List.map_congr_left
      intro x _
      simp only [Function.comp_def]
      congr 1
      omega
    | some p =>
      simp only [Option.map_some, List.map_cons, List.map_map, Nat.zero_add]
      congr 1
      apply List.map_congr_left
      intro x _
      simp only [Function.comp_def]
      congr 1
      omega

theorem perStepFrom_append (f : List (Sample V) → Int → Option V) (n : Nat) (A B : List (List (Sample V))) (ref : Int) :
    perStepFrom f n (A ++ B) ref
      = perStepFrom f n A ref ++ perStepFrom f (n + A.length) B ref := by
  unfold perStepFrom
  induction A generalizing n with
  | nil => simp [enumFrom]
  | cons a as ih =>
    simp only [List.cons_append, enumFrom, List.filterMap_cons, List.length_cons]
    rw [ih (n + 1)]
    have : n + 1 + as.length = n + (as.length + 1) := by omega
    rw [this]
    cases f a ref <;> simp

/-- the offsets of the shards, counted from `n` -/
def offsFrom : Nat → List Nat → List Nat
  | _, [] => []
  | n, a :: l => n :: offsFrom (n + a) l

theorem offsFrom_shift (n : Nat) (l : List Nat) : offsFrom n l = (offsFrom 0 l).map (· + n) := by
  induction l generalizing n with
  | nil => rfl
  | cons a l ih =>
    simp only [offsFrom, List.map_cons, Nat.zero_add]
    rw [ih (n + a), ih a]
    simp only [List.map_map]
    congr 1
    apply List.map_congr_left
    intro x _
    simp only [Function.comp_def]
    omega

theorem offsetsOf_eq (sizes : List Nat) : offsetsOf sizes = offsFrom 0 sizes := by
  unfold offsetsOf
  induction sizes with
  | nil => rfl
  | cons a l ih =>
    simp only [List.length_cons, offsFrom, Nat.zero_add]
    rw [List.range_succ_eq_map, List.map_cons, List.map_map]
    simp only [List.take_zero, List.sum_nil, Function.comp_def, List.take_succ_cons, List.sum_cons]
    congr 1
    rw [offsFrom_shift a l, ← ih, List.map_map]
    apply List.map_congr_left
    intro i _
    simp only [Function.comp_def]
    omega

/-- the shards' selections, shifted by their offsets and concatenated in shard order, are the
selection over all the series -/
theorem select_shards (f : List (Sample V) → Int → Option V) (ref : Int) (n : Nat) (shards : List (List (List (Sample V)))) :
    ((offsFrom n (shards.map List.length)).zip shards).flatMap (fun s => shiftIds s.1 (perStep f s.2 ref))
      = perStepFrom f n shards.flatten ref := by
  induction shards generalizing n with
  | nil => rfl
  | cons sh shs ih =>
    simp only [List.map_cons, offsFrom, List.zip_cons_cons, List.flatMap_cons, List.flatten_cons]
    rw [ih (n + sh.length), perStepFrom_append]
    unfold perStep
    rw [← perStepFrom_shift]

/-- what a shard hands to the coalesce operator for one batch: per reference time `r` the step
vector stamped `stamp r` (`r` plus the selector's offset) -/
def shardArrival (f : List (Sample V) → Int → Option V) (stamp : Int → Int) (refs : List Int) (s : Nat × List (List (Sample V))) :
    Nat × List (SV V) :=
  (s.1, refs.map fun r => (stamp r, perStep f s.2 r))

theorem mergedSpec_shards (f : List (Sample V) → Int → Option V) (stamp : Int → Int) (refs : List Int)
    (sh : List (Nat × List (List (Sample V)))) :
    mergedSpec (refs.map stamp) (sh.map (shardArrival f stamp refs))
      = refs.map fun r => (stamp r, sh.flatMap fun s => shiftIds s.1 (perStep f s.2 r)) := by
  induction refs with
  | nil => rfl
  | cons r rs ih =>
    have htail : ((sh.map (shardArrival f stamp (r :: rs))).map fun a => (a.1, a.2.tail))
        = sh.map (shardArrival f stamp rs) := by
      rw [List.map_map]
      apply List.map_congr_left
      intro s _
      simp [shardArrival]
    have hhead : ((sh.map (shardArrival f stamp (r :: rs))).flatMap fun a => shiftIds a.1 (headSamples a.2))
        = sh.flatMap fun s => shiftIds s.1 (perStep f s.2 r) := by
      rw [List.flatMap_map]
      rfl
    simp only [List.map_cons, mergedSpec]
    rw [htail, hhead, ih]

/-- **sharding is transparent**: the series split into shards in any way, one batch of reference
times `refs` (at least one), the shards' goroutines arriving at the coalesce operator in any order
`arr` (a rearrangement of the shards with their offsets): `Next` succeeds, the batch carries the
step timestamps, and every step vector is a rearrangement of the per-step selection over all the
series, with IDs that index the concatenated series list. -/
theorem sharded_batch (f : List (Sample V) → Int → Option V) (stamp : Int → Int) (refs : List Int) (hrefs : refs ≠ [])
    (shards : List (List (List (Sample V)))) (hsh : shards ≠ [])
    (arr : List (Nat × List (List (Sample V))))
    (harr : arr.Perm ((offsetsOf (shards.map List.length)).zip shards)) :
    ∃ out, coalesceNext ((arr.map (shardArrival f stamp refs)).map fun a => (a.1, some a.2)) = .ok (some out) ∧
      All2 (fun (sv : SV V) (r : Int) => sv.1 = stamp r ∧ sv.2.Perm (perStep f shards.flatten r)) out refs := by
  have hal : AlignedArrivals (refs.map stamp) (arr.map (shardArrival f stamp refs)) := by
    intro a ha
    obtain ⟨s, _, rfl⟩ := List.mem_map.mp ha
    simp [shardArrival, List.map_map, Function.comp_def]
  have hne : arr.map (shardArrival f stamp refs) ≠ [] := by
    intro h
    have h1 : arr = [] := List.map_eq_nil_iff.mp h
    rw [h1] at harr
    have h2 := harr.symm.eq_nil
    have hlen := congrArg List.length h2
    simp only [List.length_zip, offsetsOf, List.length_map, List.length_range, Nat.min_self, List.length_nil] at hlen
    exact hsh (List.length_eq_zero_iff.mp hlen)
  have hts : refs.map stamp ≠ [] := by
    intro h; exact hrefs (List.map_eq_nil_iff.mp h)
  refine ⟨_, coalesceNext_spec (refs.map stamp) hts _ hal hne, ?_⟩
  rw [mergedSpec_shards]
  have hstep : ∀ r, (arr.flatMap fun s => shiftIds s.1 (perStep f s.2 r)).Perm
      (perStep f shards.flatten r) := by
    intro r
    have h1 := harr.flatMap_right fun s => shiftIds s.1 (perStep f s.2 r)
    rw [offsetsOf_eq, select_shards f r 0 shards] at h1
    exact h1
  clear hal hne hts hrefs
  induction refs with
  | nil => exact All2.nil
  | cons r rs ih => exact All2.cons ⟨rfl, hstep r⟩ ih

end PromqlVerif
