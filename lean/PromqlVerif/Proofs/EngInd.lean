import PromqlVerif.Proofs.Den
namespace PromqlVerif
open Val

variable {V : Type} [Val V]

/-- **Plan construction fails only with "unsupported"** - the class that routes a query to the
fallback engine. By functional induction over `engOp` (= `newOperator`): every argument
position is covered, so an unsupported node anywhere makes the whole construction fail
with that class and nothing else. -/
theorem engOp_err (c : Ctx V) (e : Expr V) : ∀ er, engOp c e = .error er → er = .unsupported := by
  fun_induction engOp c e <;> intro er h
  all_goals (try simp only [bind, Except.bind, pure, Except.pure] at h)
  all_goals (repeat' split at h)
  all_goals first
    | (simp at h; done)
    | (cases h; rfl)
    | (cases h; solve_by_elim)
    | solve_by_elim

end PromqlVerif
