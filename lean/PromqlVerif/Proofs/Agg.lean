import PromqlVerif.Proofs.TheoremB
namespace PromqlVerif
open Val

variable {V : Type} [Val V]

theorem mem_dedup {α : Type} [BEq α] [LawfulBEq α] (l : List α) (x : α) : x ∈ dedup l ↔ x ∈ l := by
  induction l with
  | nil => simp [dedup]
  | cons a as ih =>
    simp only [dedup, List.mem_cons, List.mem_filter, ih]
    constructor
    · rintro (h | ⟨h, _⟩)
      · exact Or.inl h
      · exact Or.inr h
    · rintro (h | h)
      · exact Or.inl h
      · by_cases hxa : x = a
        · exact Or.inl hxa
        · exact Or.inr ⟨h, by simpa using hxa⟩

theorem nodup_dedup {α : Type} [BEq α] [LawfulBEq α] (l : List α) : (dedup l).Nodup := by
  induction l with
  | nil => simp [dedup]
  | cons a as ih =>
    simp only [dedup, List.nodup_cons, List.mem_filter]
    refine ⟨fun h => by simp at h, List.Nodup.sublist List.filter_sublist ih⟩

/-- two duplicate-free lists with the same elements are permutations of each other -/
theorem perm_of_nodup_of_mem_iff {α : Type} [DecidableEq α] {l₁ l₂ : List α} (h1 : l₁.Nodup) (h2 : l₂.Nodup)
    (h : ∀ a, a ∈ l₁ ↔ a ∈ l₂) : l₁.Perm l₂ :=
  (List.perm_ext_iff_of_nodup h1 h2).mpr h

/-- in a duplicate-free list the index of an element identifies it -/
theorem idxOf_eq_iff_of_nodup {α : Type} [BEq α] [LawfulBEq α] (l : List α) (hnd : l.Nodup) (x : α) (hx : x ∈ l)
    (g : Nat) (hg : g < l.length) : l.idxOf x = g ↔ l[g] = x := by
  constructor
  · intro h
    subst h
    exact List.getElem_idxOf _
  · intro h
    subst h
    exact List.Nodup.idxOf_getElem hnd g hg

theorem filterMap_range_getD {α β : Type} (d : α) (K : List α) (F : α → Option β) :
    (List.range K.length).filterMap (fun g => F (K.getD g d)) = K.filterMap F := by
  induction K with
  | nil => rfl
  | cons a K ih =>
    simp only [List.length_cons, List.range_succ_eq_map, List.filterMap_cons, List.getD_cons_zero,
      List.filterMap_map, Function.comp_def, List.getD_cons_succ, ih]

/-- labels of a sample, read through the series list -/
def lab (S : List Labels) (x : Nat × V) : Labels := S.getD x.1 []

theorem denote_eq_map_of_valid (S : List Labels) (xs : IdVec V) (h : ∀ x ∈ xs, x.1 < S.length) :
    denote S xs = xs.map fun x => (lab S x, x.2) := by
  unfold denote lab
  induction xs with
  | nil => rfl
  | cons x xs ih =>
    have hx : x.1 < S.length := h x (List.mem_cons_self ..)
    simp only [List.filterMap_cons, List.getElem?_eq_getElem hx, Option.map_some, List.map_cons,
      List.getD_eq_getElem?_getD, Option.getD_some]
    rw [ih (fun y hy => h y (List.mem_cons_of_mem _ hy))]
    simp [List.getD_eq_getElem?_getD]

/-- the members of group `k` at this step, in sample order -/
def msOf (S : List Labels) (key : Labels → Labels) (xs : IdVec V) (k : Labels) : IdVec V :=
  xs.filter fun x => key (lab S x) == k

/-- the reference grouping of the labelled vector, expressed on the ID vector -/
theorem spec_groups (S : List Labels) (key : Labels → Labels) (xs : IdVec V) (h : ∀ x ∈ xs, x.1 < S.length) :
    groupBy (fun (p : Labels × V) => key p.1) (denote S xs)
      = (dedup (xs.map fun x => key (lab S x))).map fun k =>
          (k, (msOf S key xs k).map fun x => (lab S x, x.2)) := by
  rw [denote_eq_map_of_valid S xs h]
  unfold groupBy msOf
  simp only [List.map_map, Function.comp_def, List.filter_map]

theorem groupLabels_eq_key (w : Bool) (g : List String) : groupLabels w g = groupKey w g := by
  funext ls; unfold groupLabels groupKey; rfl

theorem msOf_nonempty_of_mem (S : List Labels) (key : Labels → Labels) (xs : IdVec V) (k : Labels)
    (hk : k ∈ dedup (xs.map fun x => key (lab S x))) :
    ∃ x rest, msOf S key xs k = x :: rest ∧ key (lab S x) = k := by
  rw [mem_dedup] at hk
  obtain ⟨x, hx, hkx⟩ := List.mem_map.mp hk
  have hmem : x ∈ msOf S key xs k := by
    unfold msOf; exact List.mem_filter.mpr ⟨hx, by simp [hkx]⟩
  cases hms : msOf S key xs k with
  | nil => rw [hms] at hmem; cases hmem
  | cons y rest =>
    refine ⟨y, rest, rfl, ?_⟩
    have : y ∈ msOf S key xs k := by rw [hms]; exact List.mem_cons_self ..
    unfold msOf at this
    have := (List.mem_filter.mp this).2
    simpa using this

/-- **the reference aggregation, on the ID vector**: one output per key present at the step, in
order of first appearance; members reduced in sample order -/
theorem spec_agg (S : List Labels) (op : String) (w : Bool) (g : List String) (p : V) (xs : IdVec V)
    (h : ∀ x ∈ xs, x.1 < S.length) (hop : (op == "topk" || op == "bottomk") = false) :
    aggregate op w g p (denote S xs)
      = .ok ((dedup (xs.map fun x => groupKey w g (lab S x))).map fun k =>
          (k, aggReduce op p ((msOf S (groupKey w g) xs k).map (·.2)))) := by
  unfold aggregate
  simp only [hop, Bool.false_eq_true, if_false]
  rw [spec_groups S (groupKey w g) xs h]
  simp only [List.map_map, Function.comp_def]
  congr 1
  apply List.map_congr_left
  intro k hk
  obtain ⟨x, rest, hms, hkx⟩ := msOf_nonempty_of_mem S (groupKey w g) xs k hk
  simp only [hms, List.map_cons]
  rw [groupLabels_eq_key, hkx]

/-- the static group id of a sample equals `g` iff its key is the `g`-th static key -/
theorem gid_eq_iff (S : List Labels) (key : Labels → Labels) (x : Nat × V) (hx : x.1 < S.length)
    (g : Nat) (hg : g < (dedup (S.map key)).length) :
    ((S.map fun ls => (dedup (S.map key)).idxOf (key ls)).getD x.1 0 == g)
      = (key (lab S x) == (dedup (S.map key)).getD g []) := by
  have hlab : lab S x = S[x.1] := by simp [lab, List.getD_eq_getElem?_getD, List.getElem?_eq_getElem hx]
  have h1 : (S.map fun ls => (dedup (S.map key)).idxOf (key ls)).getD x.1 0 = (dedup (S.map key)).idxOf (key S[x.1]) := by
    simp [List.getD_eq_getElem?_getD, List.getElem?_map, List.getElem?_eq_getElem hx]
  have hmem : key S[x.1] ∈ dedup (S.map key) := by
    rw [mem_dedup]; exact List.mem_map.mpr ⟨S[x.1], List.getElem_mem hx, rfl⟩
  have hK : (dedup (S.map key)).getD g [] = (dedup (S.map key))[g] := by
    simp [List.getD_eq_getElem?_getD, List.getElem?_eq_getElem hg]
  rw [h1, hlab, hK]
  have := idxOf_eq_iff_of_nodup (dedup (S.map key)) (nodup_dedup _) (key S[x.1]) hmem g hg
  by_cases hc : (dedup (S.map key)).idxOf (key S[x.1]) = g
  · simp [hc, (this.mp hc)]
  · have h3 : ¬ (dedup (S.map key))[g] = key S[x.1] := fun h => hc (this.mpr h)
    have h2 : ¬ key S[x.1] = (dedup (S.map key))[g] := fun h => h3 h.symm
    have e1 : ((dedup (S.map key)).idxOf (key S[x.1]) == g) = false := by simpa using hc
    have e2 : (key S[x.1] == (dedup (S.map key))[g]) = false := by simpa using h2
    rw [e1, e2]

theorem filterMap_eq_filter_map {α β : Type} (l : List α) (c : α → Bool) (f : α → β) :
    l.filterMap (fun k => if c k = true then none else some (f k)) = (l.filter fun k => !c k).map f := by
  induction l with
  | nil => rfl
  | cons k ks ih =>
    simp only [List.filterMap_cons, List.filter_cons]
    by_cases he : c k = true
    · simp [he, ih]
    · simp [he, ih]

theorem eng_groups_core (S : List Labels) (key : Labels → Labels) (xs : IdVec V) (R : List V → V)
    (hv : ∀ x ∈ xs, x.1 < S.length) :
    denote (dedup (S.map key)) ((List.range (dedup (S.map key)).length).filterMap fun g =>
        if (xs.filter fun x => (S.map fun ls => (dedup (S.map key)).idxOf (key ls)).getD x.1 0 == g).isEmpty = true then none
        else some (g, R ((xs.filter fun x => (S.map fun ls => (dedup (S.map key)).idxOf (key ls)).getD x.1 0 == g).map (·.2))))
      = ((dedup (S.map key)).filter fun k => !(msOf S key xs k).isEmpty).map fun k =>
          (k, R ((msOf S key xs k).map (·.2))) := by
  have hfilter : ∀ g, g < (dedup (S.map key)).length →
      (xs.filter fun x => (S.map fun ls => (dedup (S.map key)).idxOf (key ls)).getD x.1 0 == g)
        = msOf S key xs ((dedup (S.map key)).getD g []) := by
    intro g hg'
    unfold msOf
    apply List.filter_congr
    intro x hx
    exact gid_eq_iff S key x (hv x hx) g hg'
  unfold denote
  rw [List.filterMap_filterMap]
  have h2 : (List.range (dedup (S.map key)).length).filterMap (fun g =>
        (if (xs.filter fun x => (S.map fun ls => (dedup (S.map key)).idxOf (key ls)).getD x.1 0 == g).isEmpty = true then none
         else some (g, R ((xs.filter fun x => (S.map fun ls => (dedup (S.map key)).idxOf (key ls)).getD x.1 0 == g).map (·.2)))).bind fun x =>
          ((dedup (S.map key))[x.1]?).map fun s => (s, x.2))
      = (List.range (dedup (S.map key)).length).filterMap (fun g =>
        (fun k => if (msOf S key xs k).isEmpty = true then none else some (k, R ((msOf S key xs k).map (·.2))))
          ((dedup (S.map key)).getD g [])) := by
    apply filterMap_congr'
    intro g hg
    have hg' : g < (dedup (S.map key)).length := List.mem_range.mp hg
    rw [hfilter g hg']
    have hK : (dedup (S.map key)).getD g [] = (dedup (S.map key))[g] := by
      simp [List.getD_eq_getElem?_getD, List.getElem?_eq_getElem hg']
    rw [hK]
    by_cases he : (msOf S key xs (dedup (S.map key))[g]).isEmpty = true
    · simp only [he, if_true, Option.bind_none]
    · simp only [he, Bool.false_eq_true, if_false, Option.bind_some, List.getElem?_eq_getElem hg', Option.map_some]
  rw [h2]
  rw [filterMap_range_getD [] (dedup (S.map key))
    (fun k => if (msOf S key xs k).isEmpty = true then none else some (k, R ((msOf S key xs k).map (·.2))))]
  exact filterMap_eq_filter_map _ (fun k => (msOf S key xs k).isEmpty) (fun k => (k, R ((msOf S key xs k).map (·.2))))

theorem outs_eq_keys (S : List Labels) (w : Bool) (g : List String) :
    (staticGroups (groupKey w g) (groupLabels w g) S).2 = dedup (S.map (groupKey w g)) := by
  unfold staticGroups
  simp only
  conv => rhs; rw [← List.map_id (dedup (S.map (groupKey w g)))]
  apply List.map_congr_left
  intro k hk
  rw [mem_dedup] at hk
  obtain ⟨ls, hls, hkl⟩ := List.mem_map.mp hk
  cases hf : S.find? (fun ls => groupKey w g ls == k) with
  | none =>
    have := List.find?_eq_none.mp hf ls hls
    simp [hkl] at this
  | some ls' =>
    have := List.find?_some hf
    simp only [beq_iff_eq] at this
    simp [groupLabels_eq_key, this]

/-- the keys present at a step: in static order (engine) and in order of first appearance at the
step (reference) - the same set -/
theorem present_keys_perm (S : List Labels) (key : Labels → Labels) (xs : IdVec V) (hv : ∀ x ∈ xs, x.1 < S.length) :
    ((dedup (S.map key)).filter fun k => !(msOf S key xs k).isEmpty).Perm (dedup (xs.map fun x => key (lab S x))) := by
  apply perm_of_nodup_of_mem_iff
  · exact List.Nodup.sublist List.filter_sublist (nodup_dedup _)
  · exact nodup_dedup _
  · intro k
    simp only [List.mem_filter, mem_dedup, List.mem_map]
    constructor
    · rintro ⟨_, hne⟩
      cases hms : msOf S key xs k with
      | nil => simp [hms] at hne
      | cons x rest =>
        have hx : x ∈ msOf S key xs k := by rw [hms]; exact List.mem_cons_self ..
        unfold msOf at hx
        obtain ⟨h1, h2⟩ := List.mem_filter.mp hx
        exact ⟨x, h1, by simpa using h2⟩
    · rintro ⟨x, hx, hkx⟩
      have hmem : x ∈ msOf S key xs k := by unfold msOf; exact List.mem_filter.mpr ⟨hx, by simp [hkx]⟩
      refine ⟨⟨S.getD x.1 [], ?_, by simpa [lab] using hkx⟩, ?_⟩
      · have := hv x hx
        simp [List.getD_eq_getElem?_getD, List.getElem?_eq_getElem this]
      · cases hms : msOf S key xs k with
        | nil => rw [hms] at hmem; cases hmem
        | cons _ _ => rfl

/-- **C04, the scalar-table aggregation of the engine is the reference aggregation**: at every
step, for every grouping (`by` / `without`, any label list), every occupancy pattern and every
aggregator whose accumulator computes the reference reduction on non-empty groups (`hR`: all of
them outright except `sum` and `avg`, which start from an empty group: `engReduce_sum` under
`0 + v = v`, `engReduce_avg` under the counting laws), what the engine emits - groups formed statically from `Series()`, accumulators fed in
sample order - read through its series list is a permutation of the reference result. -/
theorem agg_perm (child : OpSem V) (op : String) (w : Bool) (g : List String) (param : Option (OpSem V))
    (t : Int) (xs : IdVec V) (p : V)
    (hx : child.step t = .ok xs) (hv : ∀ x ∈ xs, x.1 < child.series.length)
    (hvec : (!w && g.isEmpty && vectorizedAggs.contains op) = false)
    (hpar : (match param with | some po => scalarOf po t | none => (pure nan : Except Err V)) = .ok p)
    (hop : (op == "topk" || op == "bottomk") = false)
    (hR : ∀ vals : List V, vals ≠ [] → engReduce op p vals = aggReduce op p vals) :
    ∃ ys out, (engAggregate op w g param child).step t = .ok ys ∧
      aggregate op w g p (denote child.series xs) = .ok out ∧
      (denote (engAggregate op w g param child).series ys).Perm out := by
  have houts := outs_eq_keys child.series w g
  have hcore := eng_groups_core child.series (groupKey w g) xs (engReduce op p) hv
  have hcore' : (((dedup (child.series.map (groupKey w g))).filter fun k =>
        !(msOf child.series (groupKey w g) xs k).isEmpty).map fun k =>
          (k, engReduce op p ((msOf child.series (groupKey w g) xs k).map (·.2))))
      = (((dedup (child.series.map (groupKey w g))).filter fun k =>
        !(msOf child.series (groupKey w g) xs k).isEmpty).map fun k =>
          (k, aggReduce op p ((msOf child.series (groupKey w g) xs k).map (·.2)))) := by
    apply List.map_congr_left
    intro k hk
    have hne := (List.mem_filter.mp hk).2
    rw [hR]
    intro hnil
    rw [List.map_eq_nil_iff] at hnil
    simp [hnil] at hne
  unfold engAggregate
  rw [if_neg (by simpa using hvec)]
  refine ⟨(List.range (staticGroups (groupKey w g) (groupLabels w g) child.series).2.length).filterMap fun gi =>
      if (xs.filter fun x => (staticGroups (groupKey w g) (groupLabels w g) child.series).1.getD x.1 0 == gi).isEmpty = true then none
      else some (gi, engReduce op p ((xs.filter fun x =>
        (staticGroups (groupKey w g) (groupLabels w g) child.series).1.getD x.1 0 == gi).map (·.2))),
    _, ?_, spec_agg child.series op w g p xs hv hop, ?_⟩
  · cases param with
    | none =>
      simp only [pure, Except.pure, Except.ok.injEq] at hpar
      subst hpar
      simp only [hx, bind, Except.bind, pure, Except.pure]
    | some po =>
      simp only at hpar
      simp only [hx, hpar, bind, Except.bind, pure, Except.pure]
  · simp only [houts]
    have hg1 : (staticGroups (groupKey w g) (groupLabels w g) child.series).1
        = child.series.map fun ls => (dedup (child.series.map (groupKey w g))).idxOf (groupKey w g ls) := rfl
    rw [hg1, hcore, hcore']
    exact (present_keys_perm child.series (groupKey w g) xs hv).map _

end PromqlVerif
