/-
The push-down of topk / bottomk: selecting the k extreme samples of every partition and then the
k extreme samples among those is a selection of the k extreme samples of the union - for any
number of partitions, any sizes, any arrival orders, ties broken arbitrarily at both levels.
"A selection" is what `kSelect_extreme`/`kSelect_length` establish of the engine's bounded heap.
-/
import PromqlVerif.Proofs.HeapOrder
import PromqlVerif.Proofs.HeapPerm
import PromqlVerif.Proofs.Agg
namespace PromqlVerif
open Val

variable {V : Type} [Val V] {α : Type}

/-- `S` is a selection of `k` extreme samples of `items`: kept plus dropped is the group, it keeps
`min k n`, and nothing kept is strictly below (in heap order) anything dropped -/
def IsSel (top : Bool) (k : Nat) (items S : List (α × V)) : Prop :=
  ∃ dropped, (S ++ dropped).Perm items ∧ S.length = min k items.length ∧
    ∀ d ∈ dropped, ∀ y ∈ S, less top y.2 d.2 = false

theorem isSel_perm (top : Bool) (k : Nat) (items items' S : List (α × V)) (hp : items.Perm items')
    (h : IsSel top k items S) : IsSel top k items' S := by
  obtain ⟨d, h1, h2, h3⟩ := h
  exact ⟨d, h1.trans hp, by rw [h2, hp.length_eq], h3⟩

section laws
variable {P : V → Prop} (L : LtLaws P) (top : Bool)
include L

theorem kSelect_isSel (k : Nat) (hk : 1 ≤ k) (items : List (α × V))
    (hitems : ∀ x ∈ items, P x.2 ∧ isNaN x.2 = false) : IsSel top k items (kSelect top k items) := by
  obtain ⟨d, h1, h2⟩ := kSelect_extreme L top k hk items hitems
  exact ⟨d, h1, kSelect_length top k hk items, h2⟩

/-- replacing a part of the group by a selection of it does not change what a selection is -/
theorem isSel_replace (k : Nat) (A SA B S : List (α × V)) (hP : ∀ x ∈ A ++ B, P x.2)
    (h1 : IsSel top k A SA) (h2 : IsSel top k (SA ++ B) S) : IsSel top k (A ++ B) S := by
  obtain ⟨dA, pA, lA, eA⟩ := h1
  obtain ⟨dS, pS, lS, eS⟩ := h2
  have hlenA : SA.length + dA.length = A.length := by
    have := pA.length_eq
    simpa using this
  refine ⟨dS ++ dA, ?_, ?_, ?_⟩
  · -- S ++ dS ++ dA ~ SA ++ B ++ dA ~ A ++ B
    have h : (S ++ (dS ++ dA)).Perm ((SA ++ B) ++ dA) := by
      rw [← List.append_assoc]
      exact pS.append_right dA
    refine h.trans ?_
    have h' : ((SA ++ B) ++ dA).Perm ((SA ++ dA) ++ B) := by
      rw [List.append_assoc, List.append_assoc]
      exact List.Perm.append_left SA List.perm_append_comm
    exact h'.trans (pA.append_right B)
  · rw [lS]
    simp only [List.length_append]
    rw [lA]
    omega
  · intro d hd y hy
    rcases List.mem_append.mp hd with hd | hd
    · exact eS d hd y hy
    · -- something of `A` was dropped: its selection is full, and all of it beats `d`
      cases hlt : less top y.2 d.2 with
      | false => rfl
      | true =>
        exfalso
        have hmemA : ∀ z ∈ SA, z ∈ A := fun z hz => pA.subset (List.mem_append_left _ hz)
        have hdA : d ∈ A := pA.subset (List.mem_append_right _ hd)
        have hyAB : y ∈ SA ++ B := pS.subset (List.mem_append_left _ hy)
        have hPy : P y.2 := by
          rcases List.mem_append.mp hyAB with h | h
          · exact hP y (List.mem_append_left _ (hmemA y h))
          · exact hP y (List.mem_append_right _ h)
        have hPd : P d.2 := hP d (List.mem_append_left _ hdA)
        have hSAfull : SA.length = k := by
          have : 0 < dA.length := List.length_pos_of_mem hd
          omega
        -- every member of the full selection is strictly above `y`
        have hbeat : ∀ z ∈ SA, less top y.2 z.2 = true := by
          intro z hz
          cases h : less top y.2 z.2 with
          | true => rfl
          | false =>
            have hPz : P z.2 := hP z (List.mem_append_left _ (hmemA z hz))
            have := less_negtrans L top y.2 z.2 d.2 hPy hPz hPd h (eA d hd z hz)
            rw [hlt] at this; cases this
        -- filter both sides of `S ++ dS ~ SA ++ B` by "strictly above y"
        have hf := pS.filter (fun e => less top y.2 e.2)
        simp only [List.filter_append] at hf
        have hdS : dS.filter (fun e => less top y.2 e.2) = [] := by
          rw [List.filter_eq_nil_iff]
          intro e he
          simp [eS e he y hy]
        have hSAall : SA.filter (fun e => less top y.2 e.2) = SA := by
          rw [List.filter_eq_self]
          intro e he
          exact hbeat e he
        rw [hdS, hSAall, List.append_nil] at hf
        have hlen := hf.length_eq
        simp only [List.length_append] at hlen
        have hyy : less top y.2 y.2 = false := by
          cases h : less top y.2 y.2 with
          | false => rfl
          | true => have := less_asymm L top y.2 y.2 hPy hPy h; rw [h] at this; cases this
        have hstrict : (S.filter fun e => less top y.2 e.2).length < S.length :=
          List.length_filter_lt_length_iff_exists.mpr ⟨y, hy, by simp [hyy]⟩
        have hSle : S.length ≤ k := by rw [lS]; exact Nat.min_le_left _ _
        omega

/-- **any number of partitions**: a selection among the partitions' selections (and whatever else
`X` is in the group) is a selection of the union -/
theorem isSel_parts (k : Nat) (ps : List (List (α × V) × List (α × V)))
    (hps : ∀ p ∈ ps, IsSel top k p.1 p.2) (X S : List (α × V))
    (hP : ∀ x ∈ X ++ (ps.map (·.1)).flatten, P x.2)
    (h : IsSel top k (X ++ (ps.map (·.2)).flatten) S) : IsSel top k (X ++ (ps.map (·.1)).flatten) S := by
  induction ps generalizing X with
  | nil => simpa using h
  | cons p ps ih =>
    simp only [List.map_cons, List.flatten_cons] at h hP ⊢
    have hp := hps p List.mem_cons_self
    -- bring the selection of `p` to the front, replace it, put it behind `X`
    have h1 : IsSel top k (p.2 ++ (X ++ (ps.map (·.2)).flatten)) S :=
      isSel_perm top k _ _ S (by
        rw [← List.append_assoc, ← List.append_assoc]
        exact List.Perm.append_right _ List.perm_append_comm) h
    have hP1 : ∀ x ∈ p.1 ++ (X ++ (ps.map (·.2)).flatten), P x.2 := by
      intro x hx
      rcases List.mem_append.mp hx with hx | hx
      · exact hP x (List.mem_append_right _ (List.mem_append_left _ hx))
      · rcases List.mem_append.mp hx with hx | hx
        · exact hP x (List.mem_append_left _ hx)
        · -- a member of some partition's selection is a member of that partition
          obtain ⟨l, hl, hxl⟩ := List.mem_flatten.mp hx
          obtain ⟨q, hq, rfl⟩ := List.mem_map.mp hl
          obtain ⟨dq, pq, _, _⟩ := hps q (List.mem_cons_of_mem _ hq)
          have hxq : x ∈ q.1 := pq.subset (List.mem_append_left _ hxl)
          exact hP x (List.mem_append_right _ (List.mem_append_right _
            (List.mem_flatten.mpr ⟨q.1, List.mem_map.mpr ⟨q, hq, rfl⟩, hxq⟩)))
    have h2 := isSel_replace L top k p.1 p.2 _ S hP1 hp h1
    have h3 : IsSel top k ((X ++ p.1) ++ (ps.map (·.2)).flatten) S :=
      isSel_perm top k _ _ S (by
        rw [← List.append_assoc]
        exact List.Perm.append_right _ List.perm_append_comm) h2
    have := ih (fun q hq => hps q (List.mem_cons_of_mem _ hq)) (X ++ p.1)
      (by intro x hx; apply hP; simpa [List.append_assoc] using hx) h3
    simpa [List.append_assoc] using this

end laws

end PromqlVerif

namespace PromqlVerif
open Val

variable {V : Type} [Val V]

/-- selecting within every group and looking at one group's key afterwards is selecting within
that group - for any selection that returns members of its input and nothing for no input -/
theorem filter_flatMap_groups (key : Labels → Labels) (sel : Vec V → Vec V)
    (hsub : ∀ l, ∀ y ∈ sel l, y ∈ l) (hnil : sel [] = []) (X : Vec V) (kk : Labels) :
    (((groupBy (fun (x : Labels × V) => key x.1) X).flatMap fun g => sel g.2).filter fun y => key y.1 == kk)
      = sel (X.filter fun x => key x.1 == kk) := by
  unfold groupBy
  rw [List.flatMap_map]
  have hnd := nodup_dedup (X.map fun x => key x.1)
  have hmem : kk ∈ dedup (X.map fun x => key x.1) ∨ (X.filter fun x => key x.1 == kk) = [] := by
    cases hf : X.filter fun x => key x.1 == kk with
    | nil => exact Or.inr rfl
    | cons y ys =>
      left
      have hy : y ∈ X.filter fun x => key x.1 == kk := by rw [hf]; exact List.mem_cons_self
      obtain ⟨h1, h2⟩ := List.mem_filter.mp hy
      rw [mem_dedup, List.mem_map]
      exact ⟨y, h1, by simpa using h2⟩
  -- groups with another key contribute nothing to the filter
  have hother : ∀ k', k' ≠ kk → ((sel (X.filter fun x => key x.1 == k')).filter fun y => key y.1 == kk) = [] := by
    intro k' hne
    rw [List.filter_eq_nil_iff]
    intro y hy
    have := (List.mem_filter.mp (hsub _ y hy)).2
    simp only [beq_iff_eq] at this
    simp only [beq_iff_eq, this]
    exact hne
  have hsame : ((sel (X.filter fun x => key x.1 == kk)).filter fun y => key y.1 == kk)
      = sel (X.filter fun x => key x.1 == kk) := by
    rw [List.filter_eq_self]
    intro y hy
    exact (List.mem_filter.mp (hsub _ y hy)).2
  generalize dedup (X.map fun x => key x.1) = K at hnd hmem
  induction K with
  | nil =>
    rcases hmem with h | h
    · cases h
    · simp [h, hnil]
  | cons k0 K ih =>
    have hnd' := List.nodup_cons.mp hnd
    simp only [List.flatMap_cons, List.filter_append]
    by_cases h0 : k0 = kk
    · subst h0
      rw [hsame]
      have hrest : ((K.flatMap fun k => sel (X.filter fun x => key x.1 == k)).filter fun y => key y.1 == k0) = [] := by
        rw [List.filter_eq_nil_iff]
        intro y hy
        obtain ⟨k', hk', hy'⟩ := List.mem_flatMap.mp hy
        have := (List.mem_filter.mp (hsub _ y hy')).2
        simp only [beq_iff_eq] at this
        simp only [beq_iff_eq, this]
        intro he; subst he; exact hnd'.1 hk'
      rw [hrest, List.append_nil]
    · rw [hother k0 h0, List.nil_append]
      apply ih hnd'.2
      rcases hmem with h | h
      · rcases List.mem_cons.mp h with h | h
        · exact absurd h.symm h0
        · exact Or.inl h
      · exact Or.inr h

end PromqlVerif
