/-
The engine's hints (handed down the recursion of `newOperator`) are the reference engine's (derived
from each selector's path), for every expression: by induction over the expression, carrying "the
hints in hand are what the path so far yields".
-/
import PromqlVerif.Hints
namespace PromqlVerif

variable {V : Type}

/-- the hints in hand agree with the path walked so far -/
def Agrees (step : Int) (h : Hint) (path : List (Expr V)) : Prop :=
  h.fn = refFunc path ∧ h.by_ = (refGroup path).1 ∧ h.grouping = (refGroup path).2 ∧
    h.step = step ∧ h.range = 0

theorem agrees_start (step : Int) : Agrees (V := V) step (Hint.start step) [] := ⟨rfl, rfl, rfl, rfl, rfl⟩

mutual

theorem eng_eq_ref (step : Int) (h : Hint) (path : List (Expr V)) (ha : Agrees step h path) :
    ∀ e : Expr V, refHints step path 0 e = (engHints h e, 0)
  | .vsel s => by
    obtain ⟨h1, h2, h3, h4, h5⟩ := ha
    rw [engHints, refHints]
    cases h
    simp_all
  | .call fn args => by
    rw [engHints, refHints]
    exact args_eq_ref step (h.withFn fn false []) (.call fn args :: path)
      ⟨rfl, rfl, rfl, ha.2.2.2.1, ha.2.2.2.2⟩ ⟨rfl, rfl⟩ args
  | .agg op w g e => by
    rw [engHints, refHints]
    exact eng_eq_ref step (h.withFn op (!w) g) (.agg op w g e :: path) ⟨rfl, rfl, rfl, ha.2.2.2.1, ha.2.2.2.2⟩ e
  | .aggP op w g p e => by
    rw [engHints, refHints]
    try simp only
    rw [eng_eq_ref step (h.withFn op (!w) g) (.aggP op w g p e :: path) ⟨rfl, rfl, rfl, ha.2.2.2.1, ha.2.2.2.2⟩ e]
    try simp only
    rw [eng_eq_ref step (h.withFn op (!w) g) (.aggP op w g p e :: path) ⟨rfl, rfl, rfl, ha.2.2.2.1, ha.2.2.2.2⟩ p]
  | .bin op b m l r => by
    rw [engHints, refHints]
    try simp only
    rw [eng_eq_ref step h.clear (.bin op b m l r :: path) ⟨rfl, rfl, rfl, ha.2.2.2.1, ha.2.2.2.2⟩ l]
    try simp only
    rw [eng_eq_ref step h.clear (.bin op b m l r :: path) ⟨rfl, rfl, rfl, ha.2.2.2.1, ha.2.2.2.2⟩ r]
  | .neg e => by
    rw [engHints, refHints]
    exact eng_eq_ref step h.noGroup (.neg e :: path) ⟨ha.1, rfl, rfl, ha.2.2.2.1, ha.2.2.2.2⟩ e
  | .pos e => by
    rw [engHints, refHints]
    exact eng_eq_ref step h.noGroup (.pos e :: path) ⟨ha.1, rfl, rfl, ha.2.2.2.1, ha.2.2.2.2⟩ e
  | .paren e => by
    rw [engHints, refHints]
    exact eng_eq_ref step h.noGroup (.paren e :: path) ⟨ha.1, rfl, rfl, ha.2.2.2.1, ha.2.2.2.2⟩ e
  | .stepInv e => by
    rw [engHints, refHints]
    exact eng_eq_ref step h.noGroup (.stepInv e :: path) ⟨ha.1, rfl, rfl, ha.2.2.2.1, ha.2.2.2.2⟩ e
  | .subq e => by
    rw [engHints, refHints]
    exact eng_eq_ref step h.noGroup (.subq e :: path) ⟨ha.1, rfl, rfl, ha.2.2.2.1, ha.2.2.2.2⟩ e
  | .num _ => by rw [engHints, refHints] <;> (intros; contradiction)
  | .str => by rw [engHints, refHints] <;> (intros; contradiction)
  | .msel _ _ => by rw [engHints, refHints] <;> (intros; contradiction)
  | .coalesce _ => by rw [engHints, refHints] <;> (intros; contradiction)
  | .remote _ _ => by rw [engHints, refHints] <;> (intros; contradiction)

/-- the arguments of a call: `hc` is the call's hint, `p` the path with the call in front; the
reference's `evalRange` is 0 before and after every argument -/
theorem args_eq_ref (step : Int) (hc : Hint) (p : List (Expr V)) (ha : Agrees step hc p)
    (hcall : hc.by_ = false ∧ hc.grouping = []) :
    ∀ args : List (Expr V), refHints.refArgs step p 0 args = (engHints.callArgs hc args, 0)
  | [] => by rw [engHints.callArgs, refHints.refArgs]
  | .msel s r :: as => by
    rw [engHints.callArgs, refHints.refArgs]
    try simp only
    rw [args_eq_ref step hc p ha hcall as]
    obtain ⟨h1, _, _, h4, _⟩ := ha
    cases hc
    simp only [refFunc, refGroup] at *
    simp_all
  | .vsel s :: as => by
    rw [engHints.callArgs, refHints.refArgs]
    try simp only
    rw [eng_eq_ref step hc p ha (.vsel s)]
    try simp only
    rw [args_eq_ref step hc p ha hcall as]
    all_goals (intro s r hh; cases hh)
  | .call fn xs :: as => by
    rw [engHints.callArgs, refHints.refArgs]
    try simp only
    rw [eng_eq_ref step hc p ha (.call fn xs)]
    try simp only
    rw [args_eq_ref step hc p ha hcall as]
    all_goals (intro s r hh; cases hh)
  | .agg op w g e :: as => by
    rw [engHints.callArgs, refHints.refArgs]
    try simp only
    rw [eng_eq_ref step hc p ha (.agg op w g e)]
    try simp only
    rw [args_eq_ref step hc p ha hcall as]
    all_goals (intro s r hh; cases hh)
  | .aggP op w g q e :: as => by
    rw [engHints.callArgs, refHints.refArgs]
    try simp only
    rw [eng_eq_ref step hc p ha (.aggP op w g q e)]
    try simp only
    rw [args_eq_ref step hc p ha hcall as]
    all_goals (intro s r hh; cases hh)
  | .bin op b m l r :: as => by
    rw [engHints.callArgs, refHints.refArgs]
    try simp only
    rw [eng_eq_ref step hc p ha (.bin op b m l r)]
    try simp only
    rw [args_eq_ref step hc p ha hcall as]
    all_goals (intro s r hh; cases hh)
  | .neg e :: as => by
    rw [engHints.callArgs, refHints.refArgs]
    try simp only
    rw [eng_eq_ref step hc p ha (.neg e)]
    try simp only
    rw [args_eq_ref step hc p ha hcall as]
    all_goals (intro s r hh; cases hh)
  | .pos e :: as => by
    rw [engHints.callArgs, refHints.refArgs]
    try simp only
    rw [eng_eq_ref step hc p ha (.pos e)]
    try simp only
    rw [args_eq_ref step hc p ha hcall as]
    all_goals (intro s r hh; cases hh)
  | .paren e :: as => by
    rw [engHints.callArgs, refHints.refArgs]
    try simp only
    rw [eng_eq_ref step hc p ha (.paren e)]
    try simp only
    rw [args_eq_ref step hc p ha hcall as]
    all_goals (intro s r hh; cases hh)
  | .stepInv e :: as => by
    rw [engHints.callArgs, refHints.refArgs]
    try simp only
    rw [eng_eq_ref step hc p ha (.stepInv e)]
    try simp only
    rw [args_eq_ref step hc p ha hcall as]
    all_goals (intro s r hh; cases hh)
  | .subq e :: as => by
    rw [engHints.callArgs, refHints.refArgs]
    try simp only
    rw [eng_eq_ref step hc p ha (.subq e)]
    try simp only
    rw [args_eq_ref step hc p ha hcall as]
    all_goals (intro s r hh; cases hh)
  | .num v :: as => by
    rw [engHints.callArgs, refHints.refArgs]
    try simp only
    rw [eng_eq_ref step hc p ha (.num v)]
    try simp only
    rw [args_eq_ref step hc p ha hcall as]
    all_goals (intro s r hh; cases hh)
  | .str :: as => by
    rw [engHints.callArgs, refHints.refArgs]
    try simp only
    rw [eng_eq_ref step hc p ha (.str)]
    try simp only
    rw [args_eq_ref step hc p ha hcall as]
    all_goals (intro s r hh; cases hh)
  | .coalesce es :: as => by
    rw [engHints.callArgs, refHints.refArgs]
    try simp only
    rw [eng_eq_ref step hc p ha (.coalesce es)]
    try simp only
    rw [args_eq_ref step hc p ha hcall as]
    all_goals (intro s r hh; cases hh)
  | .remote i e :: as => by
    rw [engHints.callArgs, refHints.refArgs]
    try simp only
    rw [eng_eq_ref step hc p ha (.remote i e)]
    try simp only
    rw [args_eq_ref step hc p ha hcall as]
    all_goals (intro s r hh; cases hh)

end

/-- **for every expression the engine creates each selector with the `Func`, `By`, `Grouping`,
`Step` and `Range` hints the reference engine derives for it**, and the reference's mutable
`evalRange` is back at 0 when the traversal ends -/
theorem engine_hints_are_reference_hints (step : Int) (e : Expr V) :
    refHints step [] 0 e = (engHints (Hint.start step) e, 0) :=
  eng_eq_ref step (Hint.start step) [] (agrees_start step) e

end PromqlVerif
