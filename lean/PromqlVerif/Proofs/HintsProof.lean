/-
The engine's hints (handed down the recursion of `newOperator`) are the reference engine's (derived
from each selector's path), for every expression: by induction over the expression, carrying "the
hints in hand are what the path so far yields".
-/
import PromqlVerif.Hints
namespace PromqlVerif

variable {V : Type}

/-- the hints in hand agree with the path walked so far -/
def Agrees (h : Hint) (path : List (Expr V)) : Prop :=
  h.fn = refFunc path ∧ h.by_ = (refGroup path).1 ∧ h.grouping = (refGroup path).2

theorem agrees_empty : Agrees (V := V) Hint.empty [] := ⟨rfl, rfl, rfl⟩

mutual

theorem eng_eq_ref (h : Hint) (path : List (Expr V)) (ha : Agrees h path) :
    ∀ e : Expr V, engHints h e = refHints path e
  | .vsel s => by
    obtain ⟨h1, h2, h3⟩ := ha
    rw [engHints, refHints]
    cases h
    simp_all
  | .call fn args => by
    rw [engHints, refHints]
    exact args_eq_ref ⟨fn, false, []⟩ (.call fn args :: path) ⟨rfl, rfl, rfl⟩ ⟨rfl, rfl⟩ args
  | .agg op w g e => by
    rw [engHints, refHints]
    exact eng_eq_ref ⟨op, !w, g⟩ (.agg op w g e :: path) ⟨rfl, rfl, rfl⟩ e
  | .aggP op w g p e => by
    rw [engHints, refHints]
    rw [eng_eq_ref ⟨op, !w, g⟩ (.aggP op w g p e :: path) ⟨rfl, rfl, rfl⟩ e,
      eng_eq_ref ⟨op, !w, g⟩ (.aggP op w g p e :: path) ⟨rfl, rfl, rfl⟩ p]
  | .bin op b m l r => by
    rw [engHints, refHints]
    rw [eng_eq_ref Hint.empty (.bin op b m l r :: path) ⟨rfl, rfl, rfl⟩ l,
      eng_eq_ref Hint.empty (.bin op b m l r :: path) ⟨rfl, rfl, rfl⟩ r]
  | .neg e => by
    rw [engHints, refHints]
    exact eng_eq_ref h.noGroup (.neg e :: path) ⟨ha.1, rfl, rfl⟩ e
  | .pos e => by
    rw [engHints, refHints]
    exact eng_eq_ref h.noGroup (.pos e :: path) ⟨ha.1, rfl, rfl⟩ e
  | .paren e => by
    rw [engHints, refHints]
    exact eng_eq_ref h.noGroup (.paren e :: path) ⟨ha.1, rfl, rfl⟩ e
  | .stepInv e => by
    rw [engHints, refHints]
    exact eng_eq_ref h.noGroup (.stepInv e :: path) ⟨ha.1, rfl, rfl⟩ e
  | .subq e => by
    rw [engHints, refHints]
    exact eng_eq_ref h.noGroup (.subq e :: path) ⟨ha.1, rfl, rfl⟩ e
  | .num _ => by rw [engHints, refHints] <;> (intros; contradiction)
  | .str => by rw [engHints, refHints] <;> (intros; contradiction)
  | .msel _ _ => by rw [engHints, refHints] <;> (intros; contradiction)
  | .coalesce _ => by rw [engHints, refHints] <;> (intros; contradiction)
  | .remote _ _ => by rw [engHints, refHints] <;> (intros; contradiction)

/-- the arguments of a call: `hc` is the call's hint, `p` the path with the call in front -/
theorem args_eq_ref (hc : Hint) (p : List (Expr V)) (ha : Agrees hc p)
    (hcall : hc.by_ = false ∧ hc.grouping = []) :
    ∀ args : List (Expr V), engHints.callArgs hc args = refHints.refArgs p args
  | [] => by rw [engHints.callArgs, refHints.refArgs]
  | .msel s r :: as => by
    rw [engHints.callArgs, refHints.refArgs, args_eq_ref hc p ha hcall as]
    congr 1
    obtain ⟨h1, _, _⟩ := ha
    cases hc
    simp only [refFunc, refGroup] at *
    simp_all
  | .vsel s :: as => by
    rw [engHints.callArgs, refHints.refArgs, args_eq_ref hc p ha hcall as, eng_eq_ref hc p ha (.vsel s)]
    all_goals (intro s r hh; cases hh)
  | .call fn xs :: as => by
    rw [engHints.callArgs, refHints.refArgs, args_eq_ref hc p ha hcall as, eng_eq_ref hc p ha (.call fn xs)]
    all_goals (intro s r hh; cases hh)
  | .agg op w g e :: as => by
    rw [engHints.callArgs, refHints.refArgs, args_eq_ref hc p ha hcall as, eng_eq_ref hc p ha (.agg op w g e)]
    all_goals (intro s r hh; cases hh)
  | .aggP op w g q e :: as => by
    rw [engHints.callArgs, refHints.refArgs, args_eq_ref hc p ha hcall as, eng_eq_ref hc p ha (.aggP op w g q e)]
    all_goals (intro s r hh; cases hh)
  | .bin op b m l r :: as => by
    rw [engHints.callArgs, refHints.refArgs, args_eq_ref hc p ha hcall as, eng_eq_ref hc p ha (.bin op b m l r)]
    all_goals (intro s r hh; cases hh)
  | .neg e :: as => by
    rw [engHints.callArgs, refHints.refArgs, args_eq_ref hc p ha hcall as, eng_eq_ref hc p ha (.neg e)]
    all_goals (intro s r hh; cases hh)
  | .pos e :: as => by
    rw [engHints.callArgs, refHints.refArgs, args_eq_ref hc p ha hcall as, eng_eq_ref hc p ha (.pos e)]
    all_goals (intro s r hh; cases hh)
  | .paren e :: as => by
    rw [engHints.callArgs, refHints.refArgs, args_eq_ref hc p ha hcall as, eng_eq_ref hc p ha (.paren e)]
    all_goals (intro s r hh; cases hh)
  | .stepInv e :: as => by
    rw [engHints.callArgs, refHints.refArgs, args_eq_ref hc p ha hcall as, eng_eq_ref hc p ha (.stepInv e)]
    all_goals (intro s r hh; cases hh)
  | .subq e :: as => by
    rw [engHints.callArgs, refHints.refArgs, args_eq_ref hc p ha hcall as, eng_eq_ref hc p ha (.subq e)]
    all_goals (intro s r hh; cases hh)
  | .num v :: as => by
    rw [engHints.callArgs, refHints.refArgs, args_eq_ref hc p ha hcall as, eng_eq_ref hc p ha (.num v)]
    all_goals (intro s r hh; cases hh)
  | .str :: as => by
    rw [engHints.callArgs, refHints.refArgs, args_eq_ref hc p ha hcall as, eng_eq_ref hc p ha .str]
    all_goals (intro s r hh; cases hh)
  | .coalesce es :: as => by
    rw [engHints.callArgs, refHints.refArgs, args_eq_ref hc p ha hcall as, eng_eq_ref hc p ha (.coalesce es)]
    all_goals (intro s r hh; cases hh)
  | .remote i e :: as => by
    rw [engHints.callArgs, refHints.refArgs, args_eq_ref hc p ha hcall as, eng_eq_ref hc p ha (.remote i e)]
    all_goals (intro s r hh; cases hh)

end

/-- **for every expression the engine creates each selector with the `Func`, `By` and `Grouping`
hints the reference engine derives for it** -/
theorem engine_hints_are_reference_hints (e : Expr V) : engHints Hint.empty e = refHints [] e :=
  eng_eq_ref Hint.empty [] agrees_empty e

end PromqlVerif
