/-
Where the engine's vector-to-vector operator is right: a one-to-one match in which no two series
of a side share a match key. Then the static hash join is a partial bijection between the two
series lists, the first pass fills one slot per left sample, the second pass probes exactly the
partner's slot, nothing is reported as a duplicate - and the step's output is the reference
engine's, up to order. (Everything outside this - several series per key on either side, the
group modifiers - is the known finding KF-binary-matching.)
-/
import PromqlVerif.Eng
import PromqlVerif.Proofs.Contract
import PromqlVerif.Sem
import PromqlVerif.Proofs.Agg
import PromqlVerif.Proofs.WindowLemmas
namespace PromqlVerif
open Val

variable {V : Type} [Val V]

theorem outerFold_cons_ok {σ : Type} (f : σ → Nat → V → Except Err σ) (outs : Nat → List Nat) (x : Nat × V)
    (xs : IdVec V) (st : σ) :
    outerFold f outs (x :: xs) (.ok st) = outerFold f outs xs (innerFold f x.2 (outs x.1) (.ok st)) := rfl

theorem outerFold_nil {σ : Type} (f : σ → Nat → V → Except Err σ) (outs : Nat → List Nat) (acc : Except Err σ) :
    outerFold f outs ([] : IdVec V) acc = acc := rfl

/-! ### pass 1 -/

/-- with at most one output per sample and no output shared by two samples, the first pass never
fails and fills the slots in sample order -/
theorem lhsPass_eq (j : Join) (lhs : IdVec V)
    (hinj : ∀ x ∈ lhs, ∀ y ∈ lhs, ∀ o, j.highIdx.getD x.1 none = some o → j.highIdx.getD y.1 none = some o → x.1 = y.1)
    (hids : (lhs.map (·.1)).Pairwise (· ≠ ·)) :
    lhsPass .oneToOne j lhs = .ok (lhs.filterMap fun x => (j.highIdx.getD x.1 none).map fun o => (o, x.2)) := by
  unfold lhsPass
  have key : ∀ (pre suf : List (Nat × V)), lhs = pre ++ suf →
      outerFold (lhsStep .oneToOne) (lhsOutsOf .oneToOne j) suf
        (.ok (pre.filterMap fun x => (j.highIdx.getD x.1 none).map fun o => (o, x.2)))
      = .ok (lhs.filterMap fun x => (j.highIdx.getD x.1 none).map fun o => (o, x.2)) := by
    intro pre suf
    induction suf generalizing pre with
    | nil => intro h; rw [outerFold_nil, h, List.append_nil]
    | cons x suf ih =>
      intro h
      rw [outerFold_cons_ok]
      have hstep : innerFold (lhsStep .oneToOne) x.2 (lhsOutsOf .oneToOne j x.1)
          (.ok (pre.filterMap fun x => (j.highIdx.getD x.1 none).map fun o => (o, x.2)))
          = .ok ((pre ++ [x]).filterMap fun x => (j.highIdx.getD x.1 none).map fun o => (o, x.2)) := by
        unfold innerFold lhsOutsOf
        simp only [show (Card.oneToOne == Card.oneToMany) = false from rfl, Bool.false_eq_true, if_false,
          List.filterMap_append, List.filterMap_cons, List.filterMap_nil]
        cases ho : j.highIdx.getD x.1 none with
        | none =>
          simp only [Option.toList_none, List.foldl_nil, Option.map_none, List.append_nil]
        | some o =>
          simp only [Option.toList_some, List.foldl_cons, List.foldl_nil, Option.map_some]
          have hnot : (pre.filterMap fun x => (j.highIdx.getD x.1 none).map fun o => (o, x.2)).any (·.1 == o) = false := by
            rw [List.any_eq_false]
            intro p hp
            obtain ⟨y, hy, hyp⟩ := List.mem_filterMap.mp hp
            cases hoy : j.highIdx.getD y.1 none with
            | none => rw [hoy] at hyp; cases hyp
            | some o' =>
              rw [hoy] at hyp
              simp only [Option.map_some, Option.some.injEq] at hyp
              subst hyp
              simp only [beq_iff_eq]
              intro he
              subst he
              have hxl : x ∈ lhs := by rw [h]; simp
              have hyl : y ∈ lhs := by rw [h]; exact List.mem_append_left _ hy
              have hsame := hinj x hxl y hyl o' ho hoy
              rw [h, List.map_append, List.map_cons] at hids
              have := (List.pairwise_append.mp hids).2.2 y.1 (List.mem_map_of_mem hy) x.1 List.mem_cons_self
              exact this hsame.symm
          unfold lhsStep
          rw [hnot]
          rfl
      rw [hstep]
      have := ih (pre ++ [x]) (by rw [h]; simp)
      exact this
  have := key [] lhs rfl
  simp only [List.filterMap_nil] at this
  exact this

/-! ### pass 2 -/

/-- what one probe emits -/
def emit (op : String) (bool : Bool) (o : Nat) (lv xv : V) : Option (Nat × V) :=
  let (value, keep) := elemBinop op lv xv
  if bool then some (o, ofBool keep) else if keep then some (o, value) else none

/-- what a right-hand sample contributes: it probes the slot of its one output, if it has one -/
def probe (op : String) (bool : Bool) (j : Join) (slotVal : Nat → Option V) (y : Nat × V) : Option (Nat × V) :=
  match j.lowIdx.getD y.1 [] with
  | [o] => (slotVal o).bind fun lv => emit op bool o lv y.2
  | _ => none

/-- with at most one output per right-hand sample and no output shared by two of them, the second
pass reports no duplicate and emits the probes in sample order -/
theorem rhsPass_eq (op : String) (bool : Bool) (j : Join) (slotVal : Nat → Option V) (rhs : IdVec V)
    (hone : ∀ y ∈ rhs, (j.lowIdx.getD y.1 []).length ≤ 1)
    (hinj : ∀ y ∈ rhs, ∀ y' ∈ rhs, ∀ o, o ∈ j.lowIdx.getD y.1 [] → o ∈ j.lowIdx.getD y'.1 [] → y.1 = y'.1)
    (hids : (rhs.map (·.1)).Pairwise (· ≠ ·)) :
    (outerFold (vbStep op bool .oneToOne slotVal) (rhsOutsOf .oneToOne j) rhs (.ok ([], []))).map (·.1)
      = .ok (rhs.filterMap (probe op bool j slotVal)) := by
  have key : ∀ (pre suf : List (Nat × V)) (seen : List Nat), rhs = pre ++ suf →
      (∀ o ∈ seen, ∃ y' ∈ pre, o ∈ j.lowIdx.getD y'.1 []) →
      ∃ seen', outerFold (vbStep op bool .oneToOne slotVal) (rhsOutsOf .oneToOne j) suf
          (.ok (pre.filterMap (probe op bool j slotVal), seen))
        = .ok (rhs.filterMap (probe op bool j slotVal), seen') := by
    intro pre suf
    induction suf generalizing pre with
    | nil => intro seen h _; exact ⟨seen, by rw [outerFold_nil, h, List.append_nil]⟩
    | cons y suf ih =>
      intro seen h hseen
      rw [outerFold_cons_ok]
      have hyr : y ∈ rhs := by rw [h]; simp
      -- the single step
      have hstep : ∃ seen2, innerFold (vbStep op bool .oneToOne slotVal) y.2 (rhsOutsOf .oneToOne j y.1)
            (.ok (pre.filterMap (probe op bool j slotVal), seen))
          = .ok ((pre ++ [y]).filterMap (probe op bool j slotVal), seen2) ∧
            ∀ o ∈ seen2, ∃ y' ∈ pre ++ [y], o ∈ j.lowIdx.getD y'.1 [] := by
        unfold innerFold rhsOutsOf
        simp only [show (Card.oneToOne == Card.oneToMany) = false from rfl, Bool.false_eq_true, if_false,
          List.filterMap_append, List.filterMap_cons, List.filterMap_nil]
        have hl := hone y hyr
        cases hlow : j.lowIdx.getD y.1 [] with
        | nil =>
          refine ⟨seen, ?_, fun o ho => ?_⟩
          · simp only [List.foldl_nil, probe, hlow, List.append_nil]
          · obtain ⟨y', hy', ho'⟩ := hseen o ho
            exact ⟨y', List.mem_append_left _ hy', ho'⟩
        | cons o rest =>
          have hrest : rest = [] := by
            rw [hlow] at hl
            cases rest with
            | nil => rfl
            | cons _ _ => simp at hl
          subst hrest
          simp only [List.foldl_cons, List.foldl_nil, probe, hlow]
          -- `o` was not probed before
          have hfresh : seen.contains o = false := by
            cases hc : seen.contains o with
            | false => rfl
            | true =>
              exfalso
              have hmem : o ∈ seen := by simpa using hc
              obtain ⟨y', hy', ho'⟩ := hseen o hmem
              have hy'r : y' ∈ rhs := by rw [h]; exact List.mem_append_left _ hy'
              have hsame := hinj y hyr y' hy'r o (by rw [hlow]; simp) ho'
              rw [h, List.map_append, List.map_cons] at hids
              have := (List.pairwise_append.mp hids).2.2 y'.1 (List.mem_map_of_mem hy') y.1 List.mem_cons_self
              exact this hsame.symm
          unfold vbStep
          cases hs : slotVal o with
          | none =>
            refine ⟨seen, by simp, fun o' ho' => ?_⟩
            obtain ⟨y', hy', ho''⟩ := hseen o' ho'
            exact ⟨y', List.mem_append_left _ hy', ho''⟩
          | some lv =>
            simp only [show (Card.oneToOne != Card.oneToMany) = true from rfl, Bool.true_and, hfresh,
              Bool.false_eq_true, if_false, Option.bind_some, emit]
            refine ⟨o :: seen, ?_, fun o' ho' => ?_⟩
            · cases hb : bool with
              | true => simp
              | false =>
                cases hk : (elemBinop op lv y.2).2 with
                | true => simp [hk]
                | false => simp [hk]
            · rcases List.mem_cons.mp ho' with rfl | ho'
              · exact ⟨y, by simp, by rw [hlow]; simp⟩
              · obtain ⟨y', hy', ho''⟩ := hseen o' ho'
                exact ⟨y', List.mem_append_left _ hy', ho''⟩
      obtain ⟨seen2, hs1, hs2⟩ := hstep
      rw [hs1]
      exact ih (pre ++ [y]) seen2 (by rw [h]; simp) hs2
  obtain ⟨seen', hk⟩ := key [] rhs [] rfl (fun o ho => by cases ho)
  simp only [List.filterMap_nil] at hk
  rw [hk]
  rfl

/-! ### the reference, where the match keys are unique -/

theorem eraseDups_of_nodup {α : Type} [BEq α] [LawfulBEq α] (l : List α) (h : l.Nodup) : l.eraseDups = l := by
  induction l with
  | nil => rfl
  | cons a l ih =>
    obtain ⟨ha, hl⟩ := List.nodup_cons.mp h
    rw [List.eraseDups_cons]
    have : l.filter (fun b => !(b == a)) = l := by
      rw [List.filter_eq_self]
      intro b hb
      simp only [Bool.not_eq_true', beq_eq_false_iff_ne, ne_eq]
      intro he; subst he; exact ha hb
    rw [this, ih hl]

/-- what a left-hand sample contributes in the reference engine: its partner on the right, if any -/
def refPair (op : String) (bool : Bool) (m : Matching) (rhs : Vec V) (ls : Labels × V) : Option (Labels × V) :=
  match rhs.find? (fun r => sigLabels m r.1 == sigLabels m ls.1) with
  | none => none
  | some rs =>
    let (value, keep) := elemBinop op ls.2 rs.2
    if !bool && !keep then none
    else some (resultMetric op bool m ls.1 rs.1, if bool then ofBool keep else value)

/-- one-to-one matching with pairwise distinct match keys on both sides: no error, one output per
left-hand sample that has a partner and passes the comparison -/
theorem vectorBinop_unique (op : String) (bool : Bool) (m : Matching) (hc : m.card = .oneToOne) (lhs rhs : Vec V)
    (hl : (lhs.map fun x => sigLabels m x.1).Nodup) (hr : (rhs.map fun x => sigLabels m x.1).Nodup) :
    vectorBinop op bool m lhs rhs = .ok (lhs.filterMap (refPair op bool m rhs)) := by
  unfold vectorBinop
  by_cases hemp : (lhs.isEmpty || rhs.isEmpty) = true
  · rw [if_pos hemp]
    congr 1
    symm
    rw [List.filterMap_eq_nil_iff]
    intro x hx
    rcases Bool.or_eq_true _ _ |>.mp hemp with h | h
    · rw [List.isEmpty_iff.mp h] at hx; cases hx
    · rw [List.isEmpty_iff.mp h]; rfl
  · rw [if_neg hemp]
    have hswap : (m.card == Card.oneToMany) = false := by rw [hc]; rfl
    simp only [hswap, Bool.false_eq_true, if_false]
    have hnd : ((rhs.map fun x => sigLabels m x.1).length != (rhs.map fun x => sigLabels m x.1).eraseDups.length) = false := by
      rw [eraseDups_of_nodup _ hr]; simp
    rw [if_neg (by rw [hnd]; exact Bool.false_ne_true)]
    -- the fold, with the signatures seen so far; `step` is the fold's function, known through
    -- its value on a non-error state
    suffices h : ∀ (step : Except Err (Vec V × List (Labels × List Labels)) → Labels × V →
          Except Err (Vec V × List (Labels × List Labels))),
        (∀ out matched ls, step (.ok (out, matched)) ls =
          match rhs.find? (fun r => sigLabels m r.1 == sigLabels m ls.1) with
          | none => .ok (out, matched)
          | some rs =>
            if !bool && !(elemBinop op ls.2 rs.2).2 then .ok (out, matched)
            else
              match matched.find? (fun e => e.1 == sigLabels m ls.1) with
              | some e =>
                if m.card == .oneToOne then .error .manyToOne
                else if e.2.contains (resultMetric op bool m ls.1 rs.1) then .error .groupNotUnique
                else .ok (out ++ [(resultMetric op bool m ls.1 rs.1,
                            if bool then ofBool (elemBinop op ls.2 rs.2).2 else (elemBinop op ls.2 rs.2).1)],
                          matched.map (fun e' => if e'.1 == sigLabels m ls.1
                            then (e'.1, resultMetric op bool m ls.1 rs.1 :: e'.2) else e'))
              | none => .ok (out ++ [(resultMetric op bool m ls.1 rs.1,
                            if bool then ofBool (elemBinop op ls.2 rs.2).2 else (elemBinop op ls.2 rs.2).1)],
                          matched ++ [(sigLabels m ls.1, [resultMetric op bool m ls.1 rs.1])])) →
        (lhs.foldl step (.ok ([], []))).map (·.1) = .ok (lhs.filterMap (refPair op bool m rhs)) by
      apply h
      intro out matched ls
      rfl
    intro step hstep
    have key : ∀ (pre suf : Vec V) (matched : List (Labels × List Labels)), lhs = pre ++ suf →
        (∀ e ∈ matched, ∃ y ∈ pre, e.1 = sigLabels m y.1) →
        ∃ matched', suf.foldl step (.ok (pre.filterMap (refPair op bool m rhs), matched))
          = .ok (lhs.filterMap (refPair op bool m rhs), matched') := by
      intro pre suf
      induction suf generalizing pre with
      | nil => intro matched h _; exact ⟨matched, by simp [h]⟩
      | cons x suf ih =>
        intro matched h hm
        rw [List.foldl_cons, hstep]
        have hfresh : matched.find? (fun e => e.1 == sigLabels m x.1) = none := by
          rw [List.find?_eq_none]
          intro e he
          obtain ⟨y, hy, hey⟩ := hm e he
          simp only [beq_iff_eq, hey]
          intro hsame
          rw [h, List.map_append, List.map_cons] at hl
          exact (List.nodup_append.mp hl).2.2 _ (List.mem_map_of_mem hy) _ List.mem_cons_self hsame
        have hpre : ∀ e ∈ matched, ∃ y ∈ pre ++ [x], e.1 = sigLabels m y.1 := fun e he => by
          obtain ⟨y, hy, hey⟩ := hm e he
          exact ⟨y, List.mem_append_left _ hy, hey⟩
        cases hfind : rhs.find? (fun r => sigLabels m r.1 == sigLabels m x.1) with
        | none =>
          have hrp : refPair op bool m rhs x = none := by unfold refPair; rw [hfind]
          have := ih (pre ++ [x]) matched (by rw [h]; simp) hpre
          simp only [List.filterMap_append, List.filterMap_cons, List.filterMap_nil, hrp, List.append_nil] at this
          exact this
        | some rs =>
          cases hkeep : (!bool && !(elemBinop op x.2 rs.2).2) with
          | true =>
            have hrp : refPair op bool m rhs x = none := by
              unfold refPair; rw [hfind]; simp only [hkeep, if_true]
            have := ih (pre ++ [x]) matched (by rw [h]; simp) hpre
            simp only [List.filterMap_append, List.filterMap_cons, List.filterMap_nil, hrp, List.append_nil] at this
            simp only [hkeep, if_true]
            exact this
          | false =>
            have hrp : refPair op bool m rhs x
                = some (resultMetric op bool m x.1 rs.1, if bool then ofBool (elemBinop op x.2 rs.2).2 else (elemBinop op x.2 rs.2).1) := by
              unfold refPair; rw [hfind]; simp only [hkeep, Bool.false_eq_true, if_false]
            have := ih (pre ++ [x]) (matched ++ [(sigLabels m x.1, [resultMetric op bool m x.1 rs.1])])
              (by rw [h]; simp) (fun e he => by
                rcases List.mem_append.mp he with he | he
                · exact hpre e he
                · simp only [List.mem_singleton] at he
                  subst he
                  exact ⟨x, by simp, rfl⟩)
            simp only [List.filterMap_append, List.filterMap_cons, List.filterMap_nil, hrp] at this
            simp only [hkeep, hfresh, Bool.false_eq_true, if_false]
            exact this
    obtain ⟨matched', hk⟩ := key [] lhs [] rfl (fun e he => by cases he)
    simp only [List.filterMap_nil] at hk
    rw [hk]
    rfl

/-! ### enumerating the matched pairs from either side -/

theorem find_by_id (xs : IdVec V) (hids : (xs.map (·.1)).Pairwise (· ≠ ·)) (x : Nat × V) (hx : x ∈ xs) :
    xs.find? (fun z => z.1 == x.1) = some x := by
  induction xs with
  | nil => cases hx
  | cons a as ih =>
    simp only [List.map_cons, List.pairwise_cons] at hids
    rcases List.mem_cons.mp hx with rfl | hx
    · simp
    · have hne : a.1 ≠ x.1 := hids.1 x.1 (List.mem_map_of_mem hx)
      have : (a.1 == x.1) = false := by simpa using hne
      rw [List.find?_cons, this]
      exact ih hids.2 hx

theorem find_by_id_mem (xs : IdVec V) (i : Nat) (x : Nat × V) (h : xs.find? (fun z => z.1 == i) = some x) :
    x ∈ xs ∧ x.1 = i := by
  have := List.find?_some h
  exact ⟨List.mem_of_find?_eq_some h, by simpa using this⟩

/-- the pairs (left id, right id) that are partners and both present, enumerated from the left ... -/
def pairsL (pm : Nat → Option Nat) (lhs rhs : IdVec V) : List (Nat × Nat) :=
  lhs.filterMap fun x => (pm x.1).bind fun l => (rhs.find? (fun z => z.1 == l)).map fun y => (x.1, y.1)

/-- ... and from the right -/
def pairsR (pmInv : Nat → Option Nat) (lhs rhs : IdVec V) : List (Nat × Nat) :=
  rhs.filterMap fun y => (pmInv y.1).bind fun i => (lhs.find? (fun z => z.1 == i)).map fun x => (x.1, y.1)

theorem nodup_filterMap_ids {β : Type} (xs : IdVec V) (hids : (xs.map (·.1)).Pairwise (· ≠ ·))
    (f : Nat × V → Option β) (key : β → Nat) (hkey : ∀ x b, f x = some b → key b = x.1) :
    (xs.filterMap f).Nodup := by
  induction xs with
  | nil => exact List.nodup_nil
  | cons a as ih =>
    simp only [List.map_cons, List.pairwise_cons] at hids
    rw [List.filterMap_cons]
    cases hfa : f a with
    | none => exact ih hids.2
    | some b =>
      refine List.nodup_cons.mpr ⟨?_, ih hids.2⟩
      intro hb
      obtain ⟨x, hx, hfx⟩ := List.mem_filterMap.mp hb
      have h1 := hkey a b hfa
      have h2 := hkey x b hfx
      exact hids.1 x.1 (List.mem_map_of_mem hx) (by rw [← h1, ← h2])

theorem pairs_perm (pm pmInv : Nat → Option Nat) (hpm : ∀ i l, pm i = some l ↔ pmInv l = some i)
    (lhs rhs : IdVec V) (hl : (lhs.map (·.1)).Pairwise (· ≠ ·)) (hr : (rhs.map (·.1)).Pairwise (· ≠ ·)) :
    (pairsL pm lhs rhs).Perm (pairsR pmInv lhs rhs) := by
  apply perm_of_nodup_of_mem_iff
  · apply nodup_filterMap_ids lhs hl _ (·.1)
    intro x b hb
    cases hp : pm x.1 with
    | none => simp [hp] at hb
    | some l =>
      simp only [hp, Option.bind_some, Option.map_eq_some_iff] at hb
      obtain ⟨y, _, rfl⟩ := hb
      rfl
  · apply nodup_filterMap_ids rhs hr _ (·.2)
    intro y b hb
    cases hp : pmInv y.1 with
    | none => simp [hp] at hb
    | some i =>
      simp only [hp, Option.bind_some, Option.map_eq_some_iff] at hb
      obtain ⟨x, _, rfl⟩ := hb
      rfl
  · intro p
    unfold pairsL pairsR
    simp only [List.mem_filterMap]
    constructor
    · rintro ⟨x, hx, hfx⟩
      cases hp : pm x.1 with
      | none => simp [hp] at hfx
      | some l =>
        simp only [hp, Option.bind_some, Option.map_eq_some_iff] at hfx
        obtain ⟨y, hy, rfl⟩ := hfx
        obtain ⟨hym, hyl⟩ := find_by_id_mem rhs l y hy
        refine ⟨y, hym, ?_⟩
        have hinv : pmInv y.1 = some x.1 := by rw [hyl]; exact (hpm x.1 l).mp hp
        simp only [hinv, Option.bind_some, find_by_id lhs hl x hx, Option.map_some]
    · rintro ⟨y, hy, hfy⟩
      cases hp : pmInv y.1 with
      | none => simp [hp] at hfy
      | some i =>
        simp only [hp, Option.bind_some, Option.map_eq_some_iff] at hfy
        obtain ⟨x, hx, rfl⟩ := hfy
        obtain ⟨hxm, hxi⟩ := find_by_id_mem lhs i x hx
        refine ⟨x, hxm, ?_⟩
        have hfw : pm x.1 = some y.1 := by rw [hxi]; exact (hpm i y.1).mpr hp
        simp only [hfw, Option.bind_some, find_by_id rhs hr y hy, Option.map_some]

/-- **enumerating the matched pairs from the left or from the right gives the same outputs, up to
order** -/
theorem matched_perm {β : Type} (pm pmInv : Nat → Option Nat) (hpm : ∀ i l, pm i = some l ↔ pmInv l = some i)
    (lhs rhs : IdVec V) (hl : (lhs.map (·.1)).Pairwise (· ≠ ·)) (hr : (rhs.map (·.1)).Pairwise (· ≠ ·))
    (e : Nat × V → Nat × V → Option β) :
    (lhs.filterMap fun x => (pm x.1).bind fun l => (rhs.find? (fun z => z.1 == l)).bind fun y => e x y).Perm
      (rhs.filterMap fun y => (pmInv y.1).bind fun i => (lhs.find? (fun z => z.1 == i)).bind fun x => e x y) := by
  let g : Nat × Nat → Option β := fun p =>
    (lhs.find? (fun z => z.1 == p.1)).bind fun x => (rhs.find? (fun z => z.1 == p.2)).bind fun y => e x y
  have h1 : (lhs.filterMap fun x => (pm x.1).bind fun l => (rhs.find? (fun z => z.1 == l)).bind fun y => e x y)
      = (pairsL pm lhs rhs).filterMap g := by
    unfold pairsL
    rw [List.filterMap_filterMap]
    apply fm_congr
    intro x hx
    cases hp : pm x.1 with
    | none => simp [hp]
    | some l =>
      simp only [hp, Option.bind_some]
      cases hy : rhs.find? (fun z => z.1 == l) with
      | none => simp [hy]
      | some y =>
        obtain ⟨_, hyl⟩ := find_by_id_mem rhs l y hy
        simp only [Option.bind_some, Option.map_some, g, find_by_id lhs hl x hx, hyl, hy]
  have h2 : (rhs.filterMap fun y => (pmInv y.1).bind fun i => (lhs.find? (fun z => z.1 == i)).bind fun x => e x y)
      = (pairsR pmInv lhs rhs).filterMap g := by
    unfold pairsR
    rw [List.filterMap_filterMap]
    apply fm_congr
    intro y hy
    cases hp : pmInv y.1 with
    | none => simp [hp]
    | some i =>
      simp only [hp, Option.bind_some]
      cases hx : lhs.find? (fun z => z.1 == i) with
      | none => simp [hx]
      | some x =>
        obtain ⟨_, hxi⟩ := find_by_id_mem lhs i x hx
        simp only [Option.bind_some, Option.map_some, g, find_by_id rhs hr y hy, hxi, hx]
  rw [h1, h2]
  exact (pairs_perm pm pmInv hpm lhs rhs hl hr).filterMap g

/-! ### one step of the engine's operator against the reference, given what the join tables are -/

theorem filter_by_id (xs : IdVec V) (hids : (xs.map (·.1)).Pairwise (· ≠ ·)) (i : Nat) :
    xs.filter (fun z => z.1 == i) = (xs.find? (fun z => z.1 == i)).toList := by
  induction xs with
  | nil => rfl
  | cons a as ih =>
    simp only [List.map_cons, List.pairwise_cons] at hids
    by_cases ha : a.1 = i
    · have hb : (a.1 == i) = true := by simpa using ha
      rw [List.filter_cons, List.find?_cons, hb]
      simp only [if_true, Option.toList_some]
      congr 1
      rw [List.filter_eq_nil_iff]
      intro z hz
      have := hids.1 z.1 (List.mem_map_of_mem hz)
      simp only [beq_iff_eq]
      intro hzi
      exact this (by rw [ha, hzi])
    · have hb : (a.1 == i) = false := by simpa using ha
      rw [List.filter_cons, List.find?_cons, hb]
      exact ih hids.2

/-- the facts about the join tables that the step needs: `pmInv` sends a right-hand series to the
left-hand series with the same match key (at most one each way) -/
structure JTables (j : Join) (H : List Labels) (outL : Labels → Labels) (pmInv : Nat → Option Nat) : Prop where
  hi_inj : ∀ i i' o, j.highIdx.getD i none = some o → j.highIdx.getD i' none = some o → i = i'
  hi_lt : ∀ i o, j.highIdx.getD i none = some o → o < j.outputs.length
  out_lab : ∀ i o, j.highIdx.getD i none = some o → j.outputs.getD o [] = outL (H.getD i [])
  low_some : ∀ l i, pmInv l = some i → ∃ o, j.highIdx.getD i none = some o ∧ j.lowIdx.getD l [] = [o]
  low_none : ∀ l, pmInv l = none → j.lowIdx.getD l [] = []
  pm_inj : ∀ l l' i, pmInv l = some i → pmInv l' = some i → l = l'

/-- what a matched pair emits, with its labels -/
def emitL (op : String) (bool : Bool) (lab : Labels) (lv xv : V) : Option (Labels × V) :=
  let (value, keep) := elemBinop op lv xv
  if bool then some (lab, ofBool keep) else if keep then some (lab, value) else none

theorem emit_lookup (op : String) (bool : Bool) (o : Nat) (lv xv : V) (outs : List Labels) (lab : Labels)
    (h : outs[o]? = some lab) :
    (emit op bool o lv xv).bind (fun p => (outs[p.1]?).map fun s => (s, p.2)) = emitL op bool lab lv xv := by
  unfold emit emitL
  cases bool with
  | true => simp [h]
  | false =>
    cases hk : (elemBinop op lv xv).2 with
    | true => simp [hk, h]
    | false => simp [hk]

/-- the slot of output `o` after the first pass holds the value of the left-hand sample of the
series that owns `o` -/
theorem slot_of_output (j : Join) (hinj : ∀ i i' o, j.highIdx.getD i none = some o → j.highIdx.getD i' none = some o → i = i')
    (lhs : IdVec V) (hl : (lhs.map (·.1)).Pairwise (· ≠ ·)) (i o : Nat) (hio : j.highIdx.getD i none = some o) :
    slotValOf (lhs.filterMap fun x => (j.highIdx.getD x.1 none).map fun o => (o, x.2)) o
      = (lhs.find? (fun z => z.1 == i)).map (·.2) := by
  unfold slotValOf
  have hfilter : ((lhs.filterMap fun x => (j.highIdx.getD x.1 none).map fun o => (o, x.2)).filter (·.1 == o))
      = (lhs.filter fun z => z.1 == i).map fun x => (o, x.2) := by
    rw [List.filter_filterMap, ← List.filterMap_eq_map, List.filterMap_filter]
    apply fm_congr
    intro x _
    by_cases hx : x.1 = i
    · subst hx
      rw [hio]
      simp
    · have hb : (x.1 == i) = false := by simpa using hx
      cases hox : j.highIdx.getD x.1 none with
      | none => simp [hb]
      | some o' =>
        have hne : o' ≠ o := by
          intro he; subst he
          exact hx (hinj x.1 i o' hox hio)
        simp [hb, hne]
  rw [hfilter, filter_by_id lhs hl i]
  cases lhs.find? (fun z => z.1 == i) <;> rfl

/-- the engine's step, read through its output series: one probe per right-hand sample -/
theorem engine_step_eq (op : String) (bool : Bool) (j : Join) (H : List Labels) (outL : Labels → Labels)
    (pmInv : Nat → Option Nat) (hj : JTables j H outL pmInv) (lhs rhs : IdVec V)
    (hl : (lhs.map (·.1)).Pairwise (· ≠ ·)) (hr : (rhs.map (·.1)).Pairwise (· ≠ ·)) :
    (engVectorBinop op bool .oneToOne j lhs rhs).map (denote j.outputs)
      = .ok (rhs.filterMap fun y => (pmInv y.1).bind fun i => (lhs.find? (fun z => z.1 == i)).bind fun x =>
          emitL op bool (outL (H.getD x.1 [])) x.2 y.2) := by
  unfold engVectorBinop
  rw [lhsPass_eq j lhs (fun x _ y _ o h1 h2 => hj.hi_inj x.1 y.1 o h1 h2) hl]
  simp only
  have hone : ∀ y ∈ rhs, (j.lowIdx.getD y.1 []).length ≤ 1 := by
    intro y _
    cases hp : pmInv y.1 with
    | none => rw [hj.low_none y.1 hp]; simp
    | some i => obtain ⟨o, _, ho⟩ := hj.low_some y.1 i hp; rw [ho]; simp
  have hinj : ∀ y ∈ rhs, ∀ y' ∈ rhs, ∀ o, o ∈ j.lowIdx.getD y.1 [] → o ∈ j.lowIdx.getD y'.1 [] → y.1 = y'.1 := by
    intro y _ y' _ o h1 h2
    cases hp : pmInv y.1 with
    | none => rw [hj.low_none y.1 hp] at h1; cases h1
    | some i =>
      cases hp' : pmInv y'.1 with
      | none => rw [hj.low_none y'.1 hp'] at h2; cases h2
      | some i' =>
        obtain ⟨o1, hh1, hl1⟩ := hj.low_some y.1 i hp
        obtain ⟨o2, hh2, hl2⟩ := hj.low_some y'.1 i' hp'
        rw [hl1] at h1; rw [hl2] at h2
        simp only [List.mem_singleton] at h1 h2
        subst h1; subst h2
        have hii : i = i' := hj.hi_inj i i' o hh1 hh2
        subst hii
        exact hj.pm_inj y.1 y'.1 i hp hp'
  rw [rhsPass_eq op bool j _ rhs hone hinj hr]
  simp only [Except.map]
  congr 1
  unfold denote
  rw [List.filterMap_filterMap]
  apply fm_congr
  intro y _
  unfold probe
  cases hp : pmInv y.1 with
  | none => rw [hj.low_none y.1 hp]; rfl
  | some i =>
    obtain ⟨o, hio, hlow⟩ := hj.low_some y.1 i hp
    rw [hlow]
    simp only [Option.bind_some]
    rw [slot_of_output j hj.hi_inj lhs hl i o hio]
    cases hf : lhs.find? (fun z => z.1 == i) with
    | none => rfl
    | some x =>
      obtain ⟨_, hxi⟩ := find_by_id_mem lhs i x hf
      simp only [Option.map_some, Option.bind_some]
      have hlt := hj.hi_lt i o hio
      have hget : j.outputs[o]? = some (outL (H.getD x.1 [])) := by
        rw [hxi, ← hj.out_lab i o hio, List.getD_eq_getElem?_getD, List.getElem?_eq_getElem hlt]
        rfl
      exact emit_lookup op bool o x.2 y.2 j.outputs _ hget

/-! ### the reference over the denoted vectors, in the same shape -/

theorem find_congr' {α : Type} (p q : α → Bool) (l : List α) (h : ∀ a ∈ l, p a = q a) : l.find? p = l.find? q := by
  induction l with
  | nil => rfl
  | cons a l ih =>
    simp only [List.find?_cons]
    rw [h a List.mem_cons_self, ih (fun b hb => h b (List.mem_cons_of_mem _ hb))]

theorem find_map {α β : Type} (f : α → β) (p : β → Bool) (l : List α) :
    (l.map f).find? p = (l.find? (fun a => p (f a))).map f := by
  induction l with
  | nil => rfl
  | cons a l ih =>
    simp only [List.map_cons, List.find?_cons]
    cases p (f a) <;> simp [ih]

/-- partners by match key: `pm` for left-hand series ids, over series lists whose keys are unique -/
structure Partners (key : Labels → Labels) (H Lw : List Labels) (pm pmInv : Nat → Option Nat) : Prop where
  iff : ∀ i l, pm i = some l ↔ pmInv l = some i
  key_eq : ∀ i l, pm i = some l → key (H.getD i []) = key (Lw.getD l []) ∧ i < H.length ∧ l < Lw.length
  complete : ∀ i l, i < H.length → l < Lw.length → key (H.getD i []) = key (Lw.getD l []) → pm i = some l

/-- the right-hand sample with the key of left-hand series `i` is the sample of `i`'s partner -/
theorem find_partner (key : Labels → Labels) (H Lw : List Labels) (pm pmInv : Nat → Option Nat)
    (hp : Partners key H Lw pm pmInv) (rhs : IdVec V) (hrv : ∀ y ∈ rhs, y.1 < Lw.length) (i : Nat) (hi : i < H.length) :
    rhs.find? (fun y => key (Lw.getD y.1 []) == key (H.getD i []))
      = (pm i).bind fun l => rhs.find? (fun z => z.1 == l) := by
  cases hpm : pm i with
  | none =>
    simp only [Option.bind_none]
    rw [List.find?_eq_none]
    intro y hy
    simp only [beq_iff_eq]
    intro hk
    have := hp.complete i y.1 hi (hrv y hy) hk.symm
    rw [hpm] at this; cases this
  | some l =>
    simp only [Option.bind_some]
    apply find_congr'
    intro y hy
    have hkl := (hp.key_eq i l hpm).1
    by_cases hyl : y.1 = l
    · have hb : (y.1 == l) = true := by simpa using hyl
      rw [hb, hyl, hkl]
      exact beq_self_eq_true _
    · have hb : (y.1 == l) = false := by simpa using hyl
      rw [hb]
      simp only [beq_eq_false_iff_ne, ne_eq]
      intro hk
      have := hp.complete i y.1 hi (hrv y hy) hk.symm
      rw [hpm] at this
      exact hyl (Option.some.inj this).symm

/-- the reference's step over the two denoted vectors: one output per left-hand sample with a
partner sample -/
theorem reference_step_eq (op : String) (bool : Bool) (m : Matching) (hc : m.card = .oneToOne)
    (H Lw : List Labels) (pm pmInv : Nat → Option Nat) (hp : Partners (sigLabels m) H Lw pm pmInv)
    (hH : ∀ i i', i < H.length → i' < H.length → sigLabels m (H.getD i []) = sigLabels m (H.getD i' []) → i = i')
    (hL : ∀ l l', l < Lw.length → l' < Lw.length → sigLabels m (Lw.getD l []) = sigLabels m (Lw.getD l' []) → l = l')
    (lhs rhs : IdVec V) (hlv : ∀ x ∈ lhs, x.1 < H.length) (hrv : ∀ y ∈ rhs, y.1 < Lw.length)
    (hl : (lhs.map (·.1)).Pairwise (· ≠ ·)) (hr : (rhs.map (·.1)).Pairwise (· ≠ ·)) :
    vectorBinop op bool m (denote H lhs) (denote Lw rhs)
      = .ok (lhs.filterMap fun x => (pm x.1).bind fun l => (rhs.find? (fun z => z.1 == l)).bind fun y =>
          let (value, keep) := elemBinop op x.2 y.2
          if !bool && !keep then none
          else some (resultMetric op bool m (H.getD x.1 []) (Lw.getD y.1 []), if bool then ofBool keep else value)) := by
  rw [denote_eq_map_of_valid H lhs hlv, denote_eq_map_of_valid Lw rhs hrv]
  have hnodup : ∀ (S : List Labels) (xs : IdVec V), (∀ x ∈ xs, x.1 < S.length) →
      (∀ i i', i < S.length → i' < S.length → sigLabels m (S.getD i []) = sigLabels m (S.getD i' []) → i = i') →
      (xs.map (·.1)).Pairwise (· ≠ ·) →
      ((xs.map fun x => (lab S x, x.2)).map fun x => sigLabels m x.1).Nodup := by
    intro S xs hv hS hids
    rw [List.map_map]
    induction xs with
    | nil => exact List.nodup_nil
    | cons a as ih =>
      simp only [List.map_cons, List.pairwise_cons] at hids
      simp only [List.map_cons]
      refine List.nodup_cons.mpr ⟨?_, ih (fun x hx => hv x (List.mem_cons_of_mem _ hx)) hids.2⟩
      intro hmem
      obtain ⟨z, hz, hzk⟩ := List.mem_map.mp hmem
      simp only [Function.comp_def, lab] at hzk
      have := hS z.1 a.1 (hv z (List.mem_cons_of_mem _ hz)) (hv a List.mem_cons_self) hzk
      exact hids.1 z.1 (List.mem_map_of_mem hz) this.symm
  rw [vectorBinop_unique op bool m hc _ _ (hnodup H lhs hlv hH hl) (hnodup Lw rhs hrv hL hr)]
  congr 1
  rw [List.filterMap_map]
  apply fm_congr
  intro x hx
  simp only [Function.comp_def, refPair, lab]
  rw [find_map (fun y : Nat × V => (Lw.getD y.1 [], y.2)) (fun r => sigLabels m r.1 == sigLabels m (H.getD x.1 [])) rhs]
  simp only
  rw [find_partner (sigLabels m) H Lw pm pmInv hp rhs hrv x.1 (hlv x hx)]
  cases hpm : pm x.1 with
  | none => rfl
  | some l =>
    simp only [Option.bind_some]
    cases rhs.find? (fun z => z.1 == l) <;> rfl

/-- **one step of the engine's vector-to-vector operator against the reference**: one-to-one
matching, pairwise distinct match keys on both sides, join tables as `JTables` describes them and
output labels that are the reference's result metric: the engine reports no error, neither does the
reference, and the engine's step vector read through its output series is the reference's result
up to order -/
theorem step_agrees (op : String) (bool : Bool) (m : Matching) (hc : m.card = .oneToOne) (j : Join)
    (H Lw : List Labels) (outL : Labels → Labels) (pm pmInv : Nat → Option Nat)
    (hj : JTables j H outL pmInv) (hp : Partners (sigLabels m) H Lw pm pmInv)
    (hlab : ∀ h lw, outL h = resultMetric op bool m h lw)
    (hH : ∀ i i', i < H.length → i' < H.length → sigLabels m (H.getD i []) = sigLabels m (H.getD i' []) → i = i')
    (hL : ∀ l l', l < Lw.length → l' < Lw.length → sigLabels m (Lw.getD l []) = sigLabels m (Lw.getD l' []) → l = l')
    (lhs rhs : IdVec V) (hlv : ∀ x ∈ lhs, x.1 < H.length) (hrv : ∀ y ∈ rhs, y.1 < Lw.length)
    (hl : (lhs.map (·.1)).Pairwise (· ≠ ·)) (hr : (rhs.map (·.1)).Pairwise (· ≠ ·)) :
    ∃ eng ref, (engVectorBinop op bool .oneToOne j lhs rhs).map (denote j.outputs) = .ok eng ∧
      vectorBinop op bool m (denote H lhs) (denote Lw rhs) = .ok ref ∧ eng.Perm ref := by
  refine ⟨_, _, engine_step_eq op bool j H outL pmInv hj lhs rhs hl hr,
    reference_step_eq op bool m hc H Lw pm pmInv hp hH hL lhs rhs hlv hrv hl hr, ?_⟩
  have hperm := matched_perm pm pmInv hp.iff lhs rhs hl hr (fun x y =>
    let (value, keep) := elemBinop op x.2 y.2
    if !bool && !keep then none
    else some (resultMetric op bool m (H.getD x.1 []) (Lw.getD y.1 []), if bool then ofBool keep else value))
  refine List.Perm.trans (List.Perm.of_eq ?_) hperm.symm
  apply fm_congr
  intro y _
  cases pmInv y.1 with
  | none => rfl
  | some i =>
    simp only [Option.bind_some]
    cases lhs.find? (fun z => z.1 == i) with
    | none => rfl
    | some x =>
      simp only [Option.bind_some, emitL, hlab (H.getD x.1 []) (Lw.getD y.1 [])]
      cases bool with
      | true => simp
      | false =>
        cases hk : (elemBinop op x.2 y.2).2 with
        | true => simp [hk]
        | false => simp [hk]

end PromqlVerif
