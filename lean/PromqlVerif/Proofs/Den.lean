import PromqlVerif.Eng
import PromqlVerif.Proofs.Shards
namespace PromqlVerif
open Val

variable {V : Type} [Val V]

/-- what an operator yields at step `t`, read through its series list -/
def OpSem.den (o : OpSem V) (t : Int) : Except Err (Vec V) := (o.step t).map (denote o.series)

theorem denote_enumFrom {α β γ : Type} (pre : List α) (ms : List γ) (f : γ → α) (g : γ → Option β) :
    denote (pre ++ ms.map f) ((enumFrom pre.length ms).filterMap fun (p : Nat × γ) => (g p.2).map fun b => (p.1, b))
      = ms.filterMap fun x => (g x).map fun b => (f x, b) := by
  induction ms generalizing pre with
  | nil => simp [enumFrom, denote]
  | cons m ms ih =>
    simp only [enumFrom, List.filterMap_cons, List.map_cons]
    have hrest := ih (pre ++ [f m])
    simp only [List.length_append, List.length_singleton, List.append_assoc, List.singleton_append] at hrest
    cases hg : g m with
    | none => simpa using hrest
    | some b =>
      simp only [Option.map_some]
      unfold denote at hrest ⊢
      simp only [List.filterMap_cons]
      have : (pre ++ f m :: ms.map f)[pre.length]? = some (f m) := by
        rw [List.getElem?_append_right (Nat.le_refl _)]; simp
      simp only [this, Option.map_some]
      rw [hrest]

theorem denote_enum {α β γ : Type} (ms : List γ) (f : γ → α) (g : γ → Option β) :
    denote (ms.map f) ((enum ms).filterMap fun (p : Nat × γ) => (g p.2).map fun b => (p.1, b))
      = ms.filterMap fun x => (g x).map fun b => (f x, b) := by
  have := denote_enumFrom ([] : List α) ms f g
  simpa [enum] using this

/-- pointwise operators commute with reading through the series list -/
theorem denote_map {α α' β β' : Type} (S : List α) (h : α → α') (g : β → β') (v : List (Nat × β)) :
    denote (S.map h) (v.map fun x => (x.1, g x.2)) = (denote S v).map fun p => (h p.1, g p.2) := by
  unfold denote
  rw [List.filterMap_map, List.map_filterMap]
  apply filterMap_congr'
  intro x _
  simp only [Function.comp, List.getElem?_map]
  cases S[x.1]? <;> rfl

/-- **C02 (semantic half): the engine's vector selector is the reference selection.** For every
storage, matcher set, lookback, offset / @ and step time, the selector operator read through
its series list is exactly `selectV`. -/
theorem engSelector_den (c : Ctx V) (s : VSel) (t : Int) :
    (engSelector c s false).den t = .ok (selectV c s t) := by
  unfold OpSem.den engSelector selectV selectT
  simp only [Except.map]
  have := denote_enum (matchingSeries c s) (fun sr => sr.labels)
    (fun sr => (selectSample c.lookback (s.refTime c.start t) sr.samples).map fun p => p.2)
  simp only [VSel.refTime, Option.map_map, Function.comp_def] at this ⊢
  rw [List.map_filterMap]
  simp only [Option.map_map, Function.comp_def]
  simpa using this

/-- **C03 (semantic half): a range function over a matrix selector.** -/
theorem engRangeFn_den (c : Ctx V) (fn : String) (s : VSel) (range t : Int) :
    (engRangeFn c fn s range).den t = .ok (evalRangeFn c fn s range t) := by
  unfold OpSem.den engRangeFn evalRangeFn
  simp only [Except.map, VSel.refTime]
  have := denote_enum (matchingSeries c s)
    (fun sr => if fn == "last_over_time" then sr.labels else sr.labels.dropName)
    (fun sr => rangeKernel fn (windowPoints (t - s.offsetAt c.start - range) (t - s.offsetAt c.start) sr.samples)
      (t - s.offsetAt c.start - range) (t - s.offsetAt c.start) (rangeSeconds range : V))
  simpa using this

end PromqlVerif

namespace PromqlVerif
open Val
variable {V : Type} [Val V]

/-- filtering / partial pointwise operators commute with reading through the series list -/
theorem denote_filterMap {α α' β β' : Type} (S : List α) (h : α → α') (g : β → Option β') (v : List (Nat × β)) :
    denote (S.map h) (v.filterMap fun x => (g x.2).map fun b => (x.1, b))
      = (denote S v).filterMap fun p => (g p.2).map fun b => (h p.1, b) := by
  unfold denote
  rw [List.filterMap_filterMap, List.filterMap_filterMap]
  apply filterMap_congr'
  intro x _
  simp only [List.getElem?_map]
  cases hg : g x.2 <;> cases hs : S[x.1]? <;> simp [Option.bind, hg, hs]

end PromqlVerif
