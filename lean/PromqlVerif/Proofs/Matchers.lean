import PromqlVerif.Plan
import PromqlVerif.Sem
namespace PromqlVerif

theorem all_perm {α : Type} {p : α → Bool} {l₁ l₂ : List α} (h : l₁.Perm l₂) :
    l₁.all p = l₂.all p := by
  induction h with
  | nil => rfl
  | cons x _ ih => simp [ih]
  | swap x y l => simp [Bool.and_left_comm]
  | trans _ _ ih1 ih2 => exact ih1.trans ih2

theorem all_eq_of_mem_iff {α : Type} {p : α → Bool} {l₁ l₂ : List α}
    (h : ∀ x, x ∈ l₁ ↔ x ∈ l₂) : l₁.all p = l₂.all p := by
  rw [Bool.eq_iff_iff]
  simp only [List.all_eq_true]
  constructor
  · intro h1 x hx; exact h1 x ((h x).mpr hx)
  · intro h1 x hx; exact h1 x ((h x).mp hx)

theorem matchAll_perm (re : ReTab) {l₁ l₂ : List Matcher} (h : l₁.Perm l₂) (ls : Labels) :
    matchAll re l₁ ls = matchAll re l₂ ls := all_perm h

theorem matchAll_append (re : ReTab) (a b : List Matcher) (ls : Labels) :
    matchAll re (a ++ b) ls = (matchAll re a ls && matchAll re b ls) := by
  simp [matchAll]

theorem matchAll_of_mem_iff (re : ReTab) {l₁ l₂ : List Matcher} (h : ∀ x, x ∈ l₁ ↔ x ∈ l₂)
    (ls : Labels) : matchAll re l₁ ls = matchAll re l₂ ls := all_eq_of_mem_iff h

end PromqlVerif

namespace PromqlVerif

/-- **Soundness of the select merge on one selector.** If `top` passed `findReplacement` for
`sel`, then selecting with `top` and filtering with the remaining matchers accepts exactly the
series `sel` accepts - for every matcher type, every regex table, repeated label names and
every label set (in particular label sets that lack some of the labels). -/
theorem mergeFilters_sound (re : ReTab) (top sel : List Matcher) (ls : Labels)
    (hu : usableReplacement top sel = true) :
    matchAll re (top ++ mergeFilters top sel) ls = matchAll re sel ls := by
  apply matchAll_of_mem_iff
  intro x
  unfold usableReplacement at hu
  simp only [Bool.and_eq_true, List.all_eq_true, List.contains_eq_mem, decide_eq_true_eq] at hu
  simp only [List.mem_append, mergeFilters, List.mem_filter, List.contains_eq_mem]
  constructor
  · rintro (h | ⟨h, _⟩)
    · exact hu.1 x h
    · exact h
  · intro hx
    by_cases hxt : x ∈ top
    · exact Or.inl hxt
    · exact Or.inr ⟨hx, by simpa using hxt⟩

theorem mergeSel_sound (re : ReTab) (h : MatcherHeap) (s : VSel) (ls : Labels) :
    matchAll re (mergeSel h s).allMatchers ls = matchAll re s.allMatchers ls := by
  unfold mergeSel
  split
  · rfl
  · rename_i hf
    have hfn : s.filters = none := by
      cases hsf : s.filters with
      | none => rfl
      | some x => simp [hsf] at hf
    split
    · rename_i top htop
      obtain ⟨l, _, hl⟩ := List.exists_of_findSome?_eq_some htop
      split at hl
      · split at hl
        · rename_i hu
          cases hl
          simp only [VSel.allMatchers, Option.getD_some, hfn, Option.getD_none, List.append_nil]
          exact mergeFilters_sound re top s.matchers ls hu
        · cases hl
      · cases hl
    · rfl

theorem mem_addMissing (ms extra : List Matcher) (x : Matcher) :
    x ∈ addMissing ms extra ↔ x ∈ ms ∨ x ∈ extra := by
  unfold addMissing
  induction extra generalizing ms with
  | nil => simp
  | cons e es ih =>
    simp only [List.foldl_cons]
    rw [ih]
    split
    · rename_i hc
      have : e ∈ ms := by simpa using hc
      constructor
      · rintro (h | h)
        · exact Or.inl h
        · exact Or.inr (List.mem_cons_of_mem _ h)
      · rintro (h | h)
        · exact Or.inl h
        · rcases List.mem_cons.mp h with rfl | h
          · exact Or.inl this
          · exact Or.inr h
    · simp only [List.mem_append, List.mem_cons, List.mem_nil_iff, or_false, or_assoc]

theorem matchAll_addMissing (re : ReTab) (ms extra : List Matcher) (ls : Labels) :
    matchAll re (addMissing ms extra) ls = (matchAll re ms ls && matchAll re extra ls) := by
  rw [← matchAll_append]
  apply matchAll_of_mem_iff
  intro x
  rw [mem_addMissing]
  simp

theorem find?_congr' {α : Type} {p q : α → Bool} {l : List α} (h : ∀ a ∈ l, p a = q a) :
    l.find? p = l.find? q := by
  induction l with
  | nil => rfl
  | cons x xs ih =>
    simp only [List.find?_cons]
    rw [h x (List.mem_cons_self ..), ih (fun a ha => h a (List.mem_cons_of_mem _ ha))]

/-- a matcher on a label other than the metric name does not look at the metric name -/
theorem sat_dropName (re : ReTab) (m : Matcher) (ls : Labels) (h : isNameMatcher m = false) :
    m.sat re ls.dropName = m.sat re ls := by
  have hne : m.name ≠ metricName := by simpa [isNameMatcher] using h
  have hget : Labels.get ls.dropName m.name = Labels.get ls m.name := by
    unfold Labels.get Labels.dropName
    rw [List.find?_filter]
    rw [find?_congr' (q := fun l => l.name == m.name)]
    intro a _
    by_cases ha : a.name = m.name
    · simp [ha, hne]
    · simp [ha]
  unfold Matcher.sat
  simp only [hget]

theorem matchAll_dropName (re : ReTab) (ms : List Matcher) (ls : Labels)
    (h : ∀ m ∈ ms, isNameMatcher m = false) :
    matchAll re ms ls.dropName = matchAll re ms ls := by
  unfold matchAll
  induction ms with
  | nil => rfl
  | cons m ms ih =>
    simp only [List.all_cons]
    rw [sat_dropName re m ls (h m (List.mem_cons_self ..)), ih (fun x hx => h x (List.mem_cons_of_mem _ hx))]

end PromqlVerif
