/-
The remote transport is the identity on well-formed results (strictly increasing timestamps per
series, which C19 gives for every successful result): reading the adapter's storage back with a
lookback of 0 yields, at every time `t`, exactly the points stamped `t`.
-/
import PromqlVerif.Remote
namespace PromqlVerif

variable {V : Type} [Val V]

/-- strictly increasing timestamps -/
def IncTs (pts : List (Int × V)) : Prop := pts.Pairwise fun a b => a.1 < b.1

theorem getLast?_filter_eq_find?_reverse {α : Type} (p : α → Bool) (l : List α) :
    (l.filter p).getLast? = l.reverse.find? p := by
  rw [List.getLast?_eq_head?_reverse, ← List.filter_reverse, List.head?_filter]

/-- on a list with strictly *decreasing* timestamps: the first point at or before `t` is stamped
`t` exactly when the list has a point stamped `t`, and then it is that point -/
theorem find_desc (d : List (Int × V)) (hd : d.Pairwise fun a b => b.1 < a.1) (t : Int) (q : Int × V) :
    (d.find? (fun p => decide (p.1 ≤ t)) = some q ∧ ¬ q.1 < t) ↔ (q ∈ d ∧ q.1 = t) := by
  induction d with
  | nil => simp
  | cons p rest ih =>
    rw [List.pairwise_cons] at hd
    by_cases hp : p.1 ≤ t
    · rw [List.find?_cons_of_pos (by simpa using hp)]
      constructor
      · rintro ⟨h1, h2⟩
        cases h1
        exact ⟨List.mem_cons_self, by omega⟩
      · rintro ⟨h1, h2⟩
        rcases List.mem_cons.mp h1 with rfl | hm
        · exact ⟨rfl, by omega⟩
        · have := hd.1 q hm
          omega
    · rw [List.find?_cons_of_neg (by simpa using hp), ih hd.2]
      constructor
      · rintro ⟨h1, h2⟩
        exact ⟨List.mem_cons_of_mem _ h1, h2⟩
      · rintro ⟨h1, h2⟩
        rcases List.mem_cons.mp h1 with rfl | hm
        · omega
        · exact ⟨hm, h2⟩

theorem find?_map_sample (pts : List (Int × V)) (t : Int) :
    (ptsToSamples pts).reverse.find? (fun s => decide (s.t ≤ t))
      = (pts.reverse.find? (fun p => decide (p.1 ≤ t))).map fun p => ⟨p.1, .num p.2⟩ := by
  unfold ptsToSamples
  rw [← List.map_reverse, List.find?_map]
  rfl

/-- **one series**: with lookback 0 the selector shows `(t', v)` at `t` iff `t' = t` and the result
has the point `(t, v)` -/
theorem select_zero_lookback_exact (pts : List (Int × V)) (h : IncTs pts) (t t' : Int) (v : V) :
    selectSample 0 t (ptsToSamples pts) = some (t', v) ↔ (t' = t ∧ (t, v) ∈ pts) := by
  have hd : pts.reverse.Pairwise fun a b => b.1 < a.1 := by
    rw [List.pairwise_reverse]; exact h
  have key := find_desc pts.reverse hd t (t', v)
  unfold selectSample latestAtOrBefore
  rw [getLast?_filter_eq_find?_reverse, find?_map_sample]
  cases hf : pts.reverse.find? (fun p => decide (p.1 ≤ t)) with
  | none =>
    simp only [Option.map_none]
    constructor
    · intro hh; cases hh
    · rintro ⟨rfl, hm⟩
      have := (key.mpr ⟨by simpa using hm, rfl⟩).1
      rw [hf] at this; cases this
  | some q =>
    obtain ⟨qt, qv⟩ := q
    simp only [Option.map_some, Int.sub_zero]
    rw [hf] at key
    by_cases hlt : qt < t
    · simp only [hlt, if_true]
      constructor
      · intro hh; cases hh
      · rintro ⟨rfl, hm⟩
        have := (key.mpr ⟨by simpa using hm, rfl⟩).1
        cases this
        omega
    · simp only [hlt, if_false]
      constructor
      · intro hh
        cases hh
        have := key.mp ⟨rfl, hlt⟩
        simp only [List.mem_reverse] at this
        obtain ⟨hm, he⟩ := this
        try simp only at he
        subst he
        exact ⟨rfl, hm⟩
      · rintro ⟨rfl, hm⟩
        have := (key.mpr ⟨by simpa using hm, rfl⟩).1
        cases this
        rfl

theorem incTs_unique (pts : List (Int × V)) (h : IncTs pts) (a b : Int × V)
    (ha : a ∈ pts) (hb : b ∈ pts) (he : a.1 = b.1) : a = b := by
  induction pts with
  | nil => cases ha
  | cons p rest ih =>
    unfold IncTs at h
    rw [List.pairwise_cons] at h
    rcases List.mem_cons.mp ha with rfl | ha' <;> rcases List.mem_cons.mp hb with rfl | hb'
    · rfl
    · have := h.1 b hb'; omega
    · have := h.1 a ha'; omega
    · exact ih h.2 ha' hb'

/-- the same as an equation: the selector with lookback 0 is the lookup of the point stamped `t` -/
theorem select_zero_lookback_eq_find (pts : List (Int × V)) (h : IncTs pts) (t : Int) :
    selectSample 0 t (ptsToSamples pts) = pts.find? fun p => p.1 == t := by
  cases hs : selectSample 0 t (ptsToSamples pts) with
  | some q =>
    obtain ⟨t', v⟩ := q
    obtain ⟨rfl, hm⟩ := (select_zero_lookback_exact pts h t t' v).mp hs
    cases hf : pts.find? (fun p => p.1 == t') with
    | none =>
      have := List.find?_eq_none.mp hf _ hm
      simp at this
    | some r =>
      have h1 := List.find?_some hf
      have h2 := List.mem_of_find?_eq_some hf
      simp only [beq_iff_eq] at h1
      rw [incTs_unique pts h r (t', v) h2 hm h1]
  | none =>
    cases hf : pts.find? (fun p => p.1 == t) with
    | none => rfl
    | some r =>
      have h1 := List.find?_some hf
      have h2 := List.mem_of_find?_eq_some hf
      simp only [beq_iff_eq] at h1
      obtain ⟨rt, rv⟩ := r
      simp only at h1
      subst h1
      have := (select_zero_lookback_exact pts h rt rt rv).mpr ⟨rfl, h2⟩
      rw [hs] at this
      cases this

theorem filterMap_congr_remote {α β : Type} (l : List α) (f g : α → Option β) (h : ∀ x ∈ l, f x = g x) :
    l.filterMap f = l.filterMap g := by
  induction l with
  | nil => rfl
  | cons a l ih =>
    rw [List.filterMap_cons, List.filterMap_cons, h a List.mem_cons_self,
      ih fun x hx => h x (List.mem_cons_of_mem _ hx)]

/-- **the transport is the identity**: for a result whose series have strictly increasing
timestamps, the step vector the remote operator delivers at `t` is - series by series, in the
result's order - exactly the points stamped `t` -/
theorem remote_read_is_spec (m : RMatrix V) (hw : ∀ s ∈ m, IncTs s.2) (t : Int) :
    remoteRead 0 m t = remoteSpec m t := by
  unfold remoteRead remoteSpec remoteStorage
  rw [List.zipIdx_map, List.filterMap_map]
  apply filterMap_congr_remote
  intro si hsi
  have hm : si.1 ∈ m := by
    obtain ⟨s, i⟩ := si
    exact List.fst_mem_of_mem_zipIdx hsi
  simp only [Function.comp, Prod.map, id]
  rw [select_zero_lookback_eq_find si.1.2 (hw _ hm) t]

/-- the stream over any grid of step times -/
theorem remote_run_is_spec (m : RMatrix V) (hw : ∀ s ∈ m, IncTs s.2) (grid : List Int) :
    remoteRun 0 m grid = grid.map fun t => (t, remoteSpec m t) := by
  unfold remoteRun
  apply List.map_congr_left
  intro t _
  rw [remote_read_is_spec m hw t]

/-- an instant result (every sample a series with one point) is well-formed for the transport -/
theorem vectorAsMatrix_incTs (v : List (Labels × Int × V)) : ∀ s ∈ vectorAsMatrix v, IncTs s.2 := by
  intro s hs
  unfold vectorAsMatrix at hs
  obtain ⟨x, _, rfl⟩ := List.mem_map.mp hs
  exact List.pairwise_singleton _ _

end PromqlVerif
