/-
Label-set well-formedness (sorted by name, no repeated name, no empty value) through the plan.
-/
import PromqlVerif.Proofs.Contract
namespace PromqlVerif
open Val

variable {V : Type} [Val V]

theorem sortedBy_filter (p : Label → Bool) : ∀ (ls : Labels), Labels.sortedBy ls = true → Labels.sortedBy (ls.filter p) = true := by
  intro ls
  -- strengthen: filtering keeps "all names above a bound"
  have aux : ∀ (ls : Labels) (x : Label), Labels.sortedBy (x :: ls) = true →
      Labels.sortedBy (ls.filter p) = true ∧ ∀ y ∈ ls.filter p, x.name < y.name := by
    intro ls
    induction ls with
    | nil => intro x _; simp [Labels.sortedBy]
    | cons y ys ih =>
      intro x h
      simp only [Labels.sortedBy, Bool.and_eq_true, decide_eq_true_eq] at h
      obtain ⟨hxy, hrest⟩ := h
      obtain ⟨hs, hall⟩ := ih y hrest
      have hall' : ∀ z ∈ ys.filter p, x.name < z.name := fun z hz => String.lt_trans hxy (hall z hz)
      simp only [List.filter_cons]
      split
      · constructor
        · cases hf : ys.filter p with
          | nil => simp [Labels.sortedBy]
          | cons z zs =>
            simp only [Labels.sortedBy, Bool.and_eq_true, decide_eq_true_eq]
            exact ⟨hall z (by rw [hf]; exact List.mem_cons_self ..), by rw [← hf]; exact hs⟩
        · intro z hz
          rcases List.mem_cons.mp hz with rfl | hz
          · exact hxy
          · exact hall' z hz
      · exact ⟨hs, hall'⟩
  intro h
  cases ls with
  | nil => rfl
  | cons x xs =>
    obtain ⟨hs, hall⟩ := aux xs x h
    simp only [List.filter_cons]
    split
    · cases hf : xs.filter p with
      | nil => simp [Labels.sortedBy]
      | cons z zs =>
        simp only [Labels.sortedBy, Bool.and_eq_true, decide_eq_true_eq]
        exact ⟨hall z (by rw [hf]; exact List.mem_cons_self ..), by rw [← hf]; exact hs⟩
    · exact hs

/-- dropping the metric name, `by`/`without` projection and `on`/`ignoring` signatures keep a
label set sorted by name, without repeated names and without empty values -/
theorem wf_filter (p : Label → Bool) (ls : Labels) (h : ls.wf = true) : Labels.wf (ls.filter p) = true := by
  simp only [Labels.wf, Bool.and_eq_true, List.all_eq_true] at h ⊢
  exact ⟨sortedBy_filter p ls h.1, fun l hl => h.2 l (List.mem_filter.mp hl).1⟩

theorem dropName_wf (ls : Labels) (h : ls.wf = true) : ls.dropName.wf = true := wf_filter _ ls h
theorem keep_wf (ls : Labels) (g : List String) (h : ls.wf = true) : (ls.keep g).wf = true := wf_filter _ ls h
theorem del_wf (ls : Labels) (g : List String) (h : ls.wf = true) : (ls.del g).wf = true := wf_filter _ ls h

theorem groupLabels_wf (w : Bool) (g : List String) (ls : Labels) (h : ls.wf = true) : (groupLabels w g ls).wf = true := by
  unfold groupLabels
  split
  · exact dropName_wf _ (del_wf ls g h)
  · exact keep_wf ls g h


def LabelsOk (o : OpSem V) : Prop := ∀ ls ∈ o.series, Labels.wf ls = true

theorem wf_nil : Labels.wf [] = true := rfl

theorem labelsOk_unit (step : Int → Except Err (IdVec V)) : LabelsOk { series := [[]], step := step } := by
  intro ls h
  simp only [List.mem_singleton] at h
  subst h; rfl

theorem labelsOk_map (o : OpSem V) (f : Labels → Labels) (step : Int → Except Err (IdVec V))
    (hf : ∀ ls, Labels.wf ls = true → Labels.wf (f ls) = true) (h : LabelsOk o) :
    LabelsOk { series := o.series.map f, step := step } := by
  intro ls hl
  obtain ⟨l0, h0, rfl⟩ := List.mem_map.mp hl
  exact hf l0 (h l0 h0)

theorem labelsOk_selector (c : Ctx V) (hst : ∀ sr ∈ c.st, Labels.wf sr.labels = true) (s : VSel) (ts : Bool) :
    LabelsOk (engSelector c s ts) := by
  intro ls hl
  simp only [engSelector, List.mem_map] at hl
  obtain ⟨sr, hsr, rfl⟩ := hl
  exact hst sr (List.mem_filter.mp hsr).1

theorem labelsOk_rangefn (c : Ctx V) (hst : ∀ sr ∈ c.st, Labels.wf sr.labels = true) (fn : String) (s : VSel)
    (r : Int) : LabelsOk (engRangeFn c fn s r) := by
  intro ls hl
  simp only [engRangeFn, List.mem_map] at hl
  obtain ⟨sr, hsr, rfl⟩ := hl
  have := hst sr (List.mem_filter.mp hsr).1
  split
  · exact this
  · exact dropName_wf _ this

theorem labelsOk_aggregate (op : String) (w : Bool) (g : List String) (param : Option (OpSem V)) (child : OpSem V)
    (h : LabelsOk child) : LabelsOk (engAggregate op w g param child) := by
  unfold engAggregate
  split
  · exact labelsOk_unit _
  · intro ls hl
    simp only [staticGroups, List.mem_map] at hl
    obtain ⟨k, _, rfl⟩ := hl
    split
    · rename_i l0 hf
      exact groupLabels_wf w g l0 (h l0 (List.mem_of_find?_eq_some hf))
    · rfl

theorem labelsOk_kaggregate (top w : Bool) (g : List String) (param child : OpSem V) (h : LabelsOk child) :
    LabelsOk (engKAggregate top w g param child) := by
  intro ls hl
  exact h ls hl

theorem labelsOk_histogram (c : Ctx V) (q child : OpSem V) (h : LabelsOk child) : LabelsOk (engHistogram c q child) := by
  intro ls hl
  simp only [engHistogram] at hl
  have hm := List.mem_eraseDups.mp hl
  obtain ⟨x, hx, hx2⟩ := List.mem_filterMap.mp hm
  obtain ⟨l0, h0, rfl⟩ := List.mem_map.mp hx
  cases hp : pfLookup c (l0.get "le") with
  | none => simp [hp] at hx2
  | some ub =>
    simp only [hp, Option.map_some, Option.some.injEq] at hx2
    subst hx2
    exact dropName_wf _ (del_wf l0 ["le"] (h l0 h0))

theorem engSignature_wf (m : Matching) (keepName : Bool) (ls : Labels) (h : Labels.wf ls = true) :
    Labels.wf (engSignature m keepName ls).2 = true := by
  unfold engSignature
  simp only
  have hlb : Labels.wf (if keepName then ls else ls.dropName) = true := by
    split
    · exact h
    · exact dropName_wf _ h
  split
  · simp only
    split
    · exact hlb
    · exact del_wf _ _ hlb
  · simp only
    split
    · exact hlb
    · exact keep_wf _ _ hlb

/-- without include labels, every output series of the static join is one input series' labels
with labels removed -/
theorem engJoin_outputs_wf (m : Matching) (hm : m.incl = []) (keepName : Bool) (high low : List Labels)
    (hh : ∀ ls ∈ high, Labels.wf ls = true) : ∀ ls ∈ (engJoin m keepName high low).outputs, Labels.wf ls = true := by
  unfold engJoin
  simp only
  apply foldl_inv (fun (j : Join) => ∀ ls ∈ j.outputs, Labels.wf ls = true)
  · intro ls h; cases h
  · intro j key _ hj
    split
    · exact hj
    · apply foldl_inv (fun (j : Join) => ∀ ls ∈ j.outputs, Labels.wf ls = true)
      · exact hj
      · intro j h hmem hj ls hl
        simp only [hm, List.isEmpty_nil, if_true, List.append_nil] at hl
        rcases List.mem_append.mp hl with h1 | h1
        · exact hj ls h1
        · simp only [List.mem_singleton] at h1
          subst h1
          have hin := (List.mem_filter.mp hmem).1
          obtain ⟨p, hp, rfl⟩ := List.mem_map.mp hin
          simp only
          have hpl : p.2 ∈ high := by
            have : ∀ (k : Nat) (l : List Labels), ∀ q ∈ enumFrom k l, q.2 ∈ l := by
              intro k l
              induction l generalizing k with
              | nil => intro q hq; cases hq
              | cons a l ih =>
                intro q hq
                simp only [enumFrom] at hq
                rcases List.mem_cons.mp hq with rfl | hq
                · exact List.mem_cons_self ..
                · exact List.mem_cons_of_mem _ (ih _ q hq)
            exact this 0 high p hp
          exact engSignature_wf m keepName p.2 (hh p.2 hpl)

end PromqlVerif
