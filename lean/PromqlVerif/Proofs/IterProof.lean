import PromqlVerif.Iter
namespace PromqlVerif

variable {V : Type}

def SortedT (l : List (Sample V)) : Prop := l.Pairwise (fun a b => a.t < b.t)

/-- what is known between two calls: `S = pre ++ rest`, everything passed is older than `bound`,
`prev` is the sample right before the cursor or, after a jump, everything passed is older than the
look-behind window -/
def MInv (S : List (Sample V)) (delta : Int) (m : Memo V) (bound : Int) : Prop :=
  ∃ pre, S = pre ++ m.rest ∧ (∀ s ∈ pre, s.t < bound) ∧
    (match m.rest with
     | x :: _ => m.lastTime = some x.t ∨ (m.lastTime = none ∧ pre = [] ∧ m.prev = none)
     | [] => True) ∧
    (match m.prev with
     | some p => pre.getLast? = some p
     | none => ∀ s ∈ pre, s.t < bound - delta)

theorem minv_new (S : List (Sample V)) (delta b : Int) : MInv S delta (Memo.new S) b := by
  refine ⟨[], by simp [Memo.new], by simp, ?_, by simp [Memo.new]⟩
  cases S <;> simp [Memo.new]

/-- the `Next` loop: walks to the first sample at or after `t`, remembering its predecessor -/
theorem nextLoop_spec (t : Int) (pre : List (Sample V)) (rest : List (Sample V)) (prev : Option (Sample V))
    (lastTime : Option Int) (hsorted : SortedT (pre ++ rest))
    (hpre : ∀ s ∈ pre, s.t < t)
    (hhead : ∀ x r, rest = x :: r → x.t < t)
    (hprev : match prev with | some p => pre.getLast? = some p | none => rest ≠ [] ∨ pre = []) :
    let res := Memo.nextLoop t prev lastTime rest
    ∃ pre', pre ++ rest = pre' ++ res.1.rest ∧ (∀ s ∈ pre', s.t < t) ∧
      (match res.1.rest with | x :: _ => res.1.lastTime = some x.t ∧ x.t ≥ t ∧ res.2 = true | [] => res.2 = false) ∧
      (match res.1.prev with | some p => pre'.getLast? = some p | none => pre' = []) := by
  induction rest generalizing pre prev lastTime with
  | nil =>
    refine ⟨pre, by simp [Memo.nextLoop], hpre, by simp [Memo.nextLoop], ?_⟩
    simp only [Memo.nextLoop]
    cases prev with
    | some p => simpa using hprev
    | none => simpa using hprev
  | cons x tl ih =>
    have hx : x.t < t := hhead x tl rfl
    cases tl with
    | nil =>
      refine ⟨pre ++ [x], by simp [Memo.nextLoop], ?_, by simp [Memo.nextLoop], by simp [Memo.nextLoop]⟩
      intro s hs
      rcases List.mem_append.mp hs with h | h
      · exact hpre s h
      · simp only [List.mem_singleton] at h; subst h; exact hx
    | cons y tl' =>
      by_cases hy : y.t ≥ t
      · refine ⟨pre ++ [x], by simp [Memo.nextLoop, hy], ?_, by simp [Memo.nextLoop, hy], by simp [Memo.nextLoop, hy]⟩
        intro s hs
        rcases List.mem_append.mp hs with h | h
        · exact hpre s h
        · simp only [List.mem_singleton] at h; subst h; exact hx
      · have hy' : y.t < t := by omega
        have := ih (pre ++ [x]) (some x) (some y.t)
          (by simpa [List.append_assoc] using hsorted)
          (by
            intro s hs
            rcases List.mem_append.mp hs with h | h
            · exact hpre s h
            · simp only [List.mem_singleton] at h; subst h; exact hx)
          (by intro x' r' h; cases h; exact hy')
          (by simp)
        simp only [Memo.nextLoop, hy, if_false]
        obtain ⟨pre', h1, h2, h3, h4⟩ := this
        exact ⟨pre', by simpa [List.append_assoc] using h1, h2, h3, h4⟩

theorem dropWhile_split {α : Type} (p : α → Bool) (l : List α) :
    ∃ d, l = d ++ l.dropWhile p ∧ (∀ s ∈ d, p s = true) ∧ (∀ x r, l.dropWhile p = x :: r → p x = false) := by
  induction l with
  | nil => exact ⟨[], rfl, by simp, by simp⟩
  | cons a l ih =>
    by_cases ha : p a = true
    · obtain ⟨d, h1, h2, h3⟩ := ih
      refine ⟨a :: d, ?_, ?_, ?_⟩
      · simp only [List.dropWhile_cons_of_pos ha, List.cons_append]; rw [← h1]
      · intro s hs
        rcases List.mem_cons.mp hs with rfl | h
        · exact ha
        · exact h2 s h
      · intro x r hx; rw [List.dropWhile_cons_of_pos ha] at hx; exact h3 x r hx
    · refine ⟨[], by simp [List.dropWhile_cons_of_neg ha], by simp, ?_⟩
      intro x r hx
      rw [List.dropWhile_cons_of_neg ha] at hx
      cases hx
      simpa using ha

theorem sorted_lt_of_mem_append {pre rest : List (Sample V)} (h : SortedT (pre ++ rest)) :
    ∀ a ∈ pre, ∀ b ∈ rest, a.t < b.t := (List.pairwise_append.mp h).2.2

/-- **`Seek(t)` of the memoized iterator**, for a non-decreasing sequence of targets: afterwards the
cursor is the first sample at or after `t` (or the iterator is exhausted), everything before it is
older than `t`, and `PeekPrev` is the sample right before the cursor unless a jump made
everything before the cursor older than `t - delta`. -/
theorem seek_spec (S : List (Sample V)) (hs : SortedT S) (delta : Int) (hd : 0 ≤ delta) (m : Memo V)
    (b t : Int) (hb : b ≤ t) (h : MInv S delta m b) :
    MInv S delta (m.seek delta t).1 t ∧
      (match (m.seek delta t).1.rest with
       | x :: _ => x.t ≥ t ∧ (m.seek delta t).2 = true
       | [] => (m.seek delta t).2 = false) := by
  obtain ⟨pre, hS, hpre, hlast, hprev⟩ := h
  -- finishing from a state whose cursor (if any) is known, with everything before it older than t
  have finish : ∀ (m1 : Memo V) (pre1 : List (Sample V)), S = pre1 ++ m1.rest → (∀ s ∈ pre1, s.t < t) →
      (match m1.rest with | x :: _ => m1.lastTime = some x.t | [] => True) →
      (match m1.prev with | some p => pre1.getLast? = some p | none => ∀ s ∈ pre1, s.t < t - delta) →
      let r := if geOpt m1.lastTime t then (m1, !m1.rest.isEmpty) else Memo.nextLoop t m1.prev m1.lastTime m1.rest
      (m1.rest = [] ∨ True) →
      MInv S delta r.1 t ∧ (match r.1.rest with | x :: _ => x.t ≥ t ∧ r.2 = true | [] => r.2 = false) := by
    intro m1 pre1 hS1 hpre1 hlast1 hprev1 r _
    cases hrest : m1.rest with
    | nil =>
      have hr : r.1.rest = [] ∧ r.2 = false ∧ r.1.prev = m1.prev := by
        simp only [r]
        split
        · simp [hrest]
        · simp [hrest, Memo.nextLoop]
      refine ⟨⟨pre1, by rw [hr.1]; simpa [hrest] using hS1, hpre1, by rw [hr.1]; trivial, by rw [hr.2.2]; exact hprev1⟩, ?_⟩
      rw [hr.1]; exact hr.2.1
    | cons x tl =>
      have hlt : m1.lastTime = some x.t := by simpa [hrest] using hlast1
      by_cases hge : x.t ≥ t
      · have hr : r = (m1, true) := by simp [r, hlt, geOpt, hge, hrest]
        rw [hr]
        refine ⟨⟨pre1, hS1, hpre1, by simp [hrest, hlt], hprev1⟩, ?_⟩
        simp [hrest, hge]
      · have hxl : x.t < t := by omega
        have hr : r = Memo.nextLoop t m1.prev m1.lastTime (x :: tl) := by
          simp only [r, hlt, geOpt]
          have : ¬ x.t ≥ t := hge
          simp [this, hrest]
        rw [hr]
        have hsorted1 : SortedT (pre1 ++ (x :: tl)) := by rw [← hrest, ← hS1]; exact hs
        have hp : match m1.prev with | some p => pre1.getLast? = some p | none => (x :: tl) ≠ [] ∨ pre1 = [] := by
          cases hpv : m1.prev with
          | some p => simpa [hpv] using hprev1
          | none => exact Or.inl (by simp)
        obtain ⟨pre', h1, h2, h3, h4⟩ := nextLoop_spec t pre1 (x :: tl) m1.prev m1.lastTime hsorted1 hpre1
          (by intro x' r' h; cases h; exact hxl) hp
        refine ⟨⟨pre', by rw [hS1, hrest]; exact h1, h2, ?_, ?_⟩, ?_⟩
        · cases hrr : (Memo.nextLoop t m1.prev m1.lastTime (x :: tl)).1.rest with
          | nil => trivial
          | cons y r' => rw [hrr] at h3; exact Or.inl h3.1
        · cases hpp : (Memo.nextLoop t m1.prev m1.lastTime (x :: tl)).1.prev with
          | some p => rw [hpp] at h4; exact h4
          | none => rw [hpp] at h4; intro s hs'; rw [h4] at hs'; cases hs'
        · cases hrr : (Memo.nextLoop t m1.prev m1.lastTime (x :: tl)).1.rest with
          | nil => rw [hrr] at h3; exact h3
          | cons y r' => rw [hrr] at h3; exact ⟨h3.2.1, h3.2.2⟩
  unfold Memo.seek
  simp only
  have hsorted : SortedT (pre ++ m.rest) := by rw [← hS]; exact hs
  by_cases hj : (!m.rest.isEmpty && ltOpt m.lastTime (t - delta)) = true
  · rw [if_pos hj]
    simp only [Bool.and_eq_true, Bool.not_eq_true', List.isEmpty_eq_false_iff] at hj
    obtain ⟨hne, hlt⟩ := hj
    obtain ⟨d, hd1, hd2, hd3⟩ := dropWhile_split (fun (s : Sample V) => decide (s.t < t - delta)) m.rest
    have hpre0 : ∀ s ∈ pre, s.t < t - delta := by
      intro s hs'
      cases hrest : m.rest with
      | nil => exact absurd hrest hne
      | cons x0 tl =>
        rw [hrest] at hlast
        rcases hlast with hl | ⟨_, hpe, _⟩
        · rw [hl] at hlt
          simp only [ltOpt, decide_eq_true_eq] at hlt
          have := sorted_lt_of_mem_append hsorted s hs' x0 (by rw [hrest]; exact List.mem_cons_self ..)
          omega
        · rw [hpe] at hs'; cases hs'
    have hd0 : ∀ s ∈ d, s.t < t - delta := fun s hs' => by simpa using hd2 s hs'
    cases hdw : m.rest.dropWhile (fun s => decide (s.t < t - delta)) with
    | nil =>
      simp only [hdw]
      rw [hdw, List.append_nil] at hd1
      refine ⟨⟨pre ++ d, by simp [hS, hd1], ?_, trivial, ?_⟩, by simp⟩
      · intro s hs'
        rcases List.mem_append.mp hs' with h | h
        · have := hpre0 s h; omega
        · have := hd0 s h; omega
      · intro s hs'
        rcases List.mem_append.mp hs' with h | h
        · exact hpre0 s h
        · exact hd0 s h
    | cons x r =>
      simp only [hdw]
      rw [hdw] at hd1
      exact finish { rest := x :: r, lastTime := some x.t, prev := none } (pre ++ d)
        (by simp [hS, hd1])
        (by
          intro s hs'
          rcases List.mem_append.mp hs' with h | h
          · have := hpre0 s h; omega
          · have := hd0 s h; omega)
        (by simp)
        (by
          intro s hs'
          rcases List.mem_append.mp hs' with h | h
          · exact hpre0 s h
          · exact hd0 s h)
        (Or.inr trivial)
  · rw [if_neg hj]
    simp only
    apply finish m pre hS (fun s hs' => by have := hpre s hs'; omega)
    · cases hrest : m.rest with
      | nil => trivial
      | cons x0 tl =>
        rw [hrest] at hlast
        rcases hlast with hl | ⟨hl, _, _⟩
        · exact hl
        · exfalso
          apply hj
          simp [hrest, hl, ltOpt]
    · cases hpv : m.prev with
      | some p => rw [hpv] at hprev; exact hprev
      | none => rw [hpv] at hprev; intro s hs'; have := hprev s hs'; omega
    · exact Or.inr trivial

theorem filter_le_of_all_lt (l : List (Sample V)) (t : Int) (h : ∀ s ∈ l, s.t < t) :
    l.filter (fun s => decide (s.t ≤ t)) = l := by
  apply List.filter_eq_self.mpr
  intro s hs'
  have := h s hs'
  simp; omega

theorem filter_le_of_all_gt (l : List (Sample V)) (t : Int) (h : ∀ s ∈ l, t < s.t) :
    l.filter (fun s => decide (s.t ≤ t)) = [] := by
  apply List.filter_eq_nil_iff.mpr
  intro s hs'
  have := h s hs'
  simp; omega

def latestPos (pre rest : List (Sample V)) (t : Int) : Option (Sample V) :=
  match rest with
  | x :: _ => if x.t > t then pre.getLast? else some x
  | [] => pre.getLast?

/-- the latest sample at or before `t`, read off the iterator's position after `Seek(t)` -/
theorem latest_of_position (pre rest : List (Sample V)) (t : Int) (hs : SortedT (pre ++ rest))
    (hpre : ∀ s ∈ pre, s.t < t) (hrest : ∀ x r, rest = x :: r → x.t ≥ t) :
    latestAtOrBefore (pre ++ rest) t = latestPos pre rest t := by
  unfold latestAtOrBefore latestPos
  rw [List.filter_append, filter_le_of_all_lt pre t hpre]
  cases rest with
  | nil => simp
  | cons x r =>
    have hx := hrest x r rfl
    have hsr : SortedT (x :: r) := (List.pairwise_append.mp hs).2.1
    have hr : ∀ s ∈ r, t < s.t := by
      intro s hs'
      have := (List.pairwise_cons.mp hsr).1 s hs'
      omega
    simp only [List.filter_cons]
    by_cases hgt : x.t > t
    · have : ¬ x.t ≤ t := by omega
      simp [this, hgt, filter_le_of_all_gt r t hr]
    · have hle : x.t ≤ t := by omega
      simp [hle, hgt, filter_le_of_all_gt r t hr]

/-- **C02, operational half: `selectPoint` over the memoized iterator is the reference selection** -
for any strictly increasing series, any lookback `≥ 0`, and any state the iterator may be in after
seeks to earlier (or equal) reference times. -/
theorem selectPointM_spec (S : List (Sample V)) (hs : SortedT S) (delta : Int) (hd : 0 ≤ delta) (m : Memo V)
    (b t : Int) (hb : b ≤ t) (h : MInv S delta m b) :
    (selectPointM delta m t).2 = selectSample delta t S ∧ MInv S delta (selectPointM delta m t).1 t := by
  obtain ⟨hinv, hpos⟩ := seek_spec S hs delta hd m b t hb h
  refine ⟨?_, hinv⟩
  obtain ⟨pre, hS, hpre, _, hprev⟩ := hinv
  unfold selectPointM selectSample
  simp only
  have hlat := latest_of_position pre (m.seek delta t).1.rest t (by rw [← hS]; exact hs) hpre
    (by
      intro x r hr
      rw [hr] at hpos
      exact hpos.1)
  rw [hS, hlat]
  unfold latestPos
  cases hrest : (m.seek delta t).1.rest with
  | nil =>
    rw [hrest] at hpos
    simp only [hpos, Bool.false_eq_true, if_false]
    cases hpv : (m.seek delta t).1.prev with
    | none =>
      rw [hpv] at hprev
      simp only [Option.bind_none]
      cases hgl : pre.getLast? with
      | none => rfl
      | some q =>
        have hq := hprev q (List.mem_of_getLast? hgl)
        cases hqv : q.v with
        | stale => cases q; simp_all
        | num v =>
          have : q = ⟨q.t, .num v⟩ := by cases q; simp_all
          rw [this]
          simp [hq]
    | some p =>
      rw [hpv] at hprev
      simp only [Option.bind_some, hprev]
      by_cases hlt : p.t < t - delta
      · cases hpvv : p.v with
        | stale => cases p; simp_all
        | num v =>
          have : p = ⟨p.t, .num v⟩ := by cases p; simp_all
          rw [this]; simp [hlt]
      · simp only [hlt, if_false]
        cases hpvv : p.v with
        | stale => cases p; simp_all
        | num v =>
          have : p = ⟨p.t, .num v⟩ := by cases p; simp_all
          rw [this]; simp [hlt]
  | cons x r =>
    rw [hrest] at hpos
    simp only [hpos.2, if_true, List.head?_cons]
    by_cases hgt : x.t > t
    · simp only [hgt, if_true]
      cases hpv : (m.seek delta t).1.prev with
      | none =>
        rw [hpv] at hprev
        simp only [Option.bind_none]
        cases hgl : pre.getLast? with
        | none => rfl
        | some q =>
          have hq := hprev q (List.mem_of_getLast? hgl)
          cases hqv : q.v with
          | stale => cases q; simp_all
          | num v =>
            have : q = ⟨q.t, .num v⟩ := by cases q; simp_all
            rw [this]
            simp [hq]
      | some p =>
        rw [hpv] at hprev
        simp only [Option.bind_some, hprev]
        by_cases hlt : p.t < t - delta
        · cases hpvv : p.v with
          | stale => cases p; simp_all
          | num v =>
            have : p = ⟨p.t, .num v⟩ := by cases p; simp_all
            rw [this]; simp [hlt]
        · simp only [hlt, if_false]
          cases hpvv : p.v with
          | stale => cases p; simp_all
          | num v =>
            have : p = ⟨p.t, .num v⟩ := by cases p; simp_all
            rw [this]; simp [hlt]
    · simp only [hgt, if_false]
      have hxt : x.t = t := by have := hpos.1; omega
      cases hxv : x.v with
      | stale => cases x; simp_all
      | num v =>
        have : x = ⟨x.t, .num v⟩ := by cases x; simp_all
        rw [this]
        have : ¬ t < t - delta := by omega
        simp [hxt, this]

/-- **along any non-decreasing sequence of reference times** (the steps of a range query, shifted
by the offset; any step width relative to the scrape interval and the lookback), the engine's
`selectPoint` driven over one memoized iterator yields at every step the reference selection. -/
theorem selectPoints_along_steps (S : List (Sample V)) (hs : SortedT S) (delta : Int) (hd : 0 ≤ delta)
    (refs : List Int) (hmono : refs.Pairwise (· ≤ ·)) :
    selectPointsM delta (Memo.new S) refs = refs.map fun r => selectSample delta r S := by
  have key : ∀ (refs : List Int) (m : Memo V) (b : Int), MInv S delta m b → (∀ r ∈ refs, b ≤ r) →
      refs.Pairwise (· ≤ ·) → selectPointsM delta m refs = refs.map fun r => selectSample delta r S := by
    intro refs
    induction refs with
    | nil => intro m b _ _ _; rfl
    | cons r rs ih =>
      intro m b hinv hb hmono
      obtain ⟨h1, h2⟩ := selectPointM_spec S hs delta hd m b r (hb r (List.mem_cons_self ..)) hinv
      simp only [selectPointsM, List.map_cons]
      rw [h1]
      congr 1
      exact ih _ r h2 (fun r' hr' => (List.pairwise_cons.mp hmono).1 r' hr') (List.pairwise_cons.mp hmono).2
  cases refs with
  | nil => rfl
  | cons r rs =>
    exact key (r :: rs) (Memo.new S) r (minv_new S delta r)
      (fun r' hr' => by
        rcases List.mem_cons.mp hr' with rfl | h
        · exact Int.le_refl _
        · exact (List.pairwise_cons.mp hmono).1 r' h) hmono

end PromqlVerif
