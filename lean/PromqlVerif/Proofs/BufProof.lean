import PromqlVerif.Proofs.WindowLemmas
namespace PromqlVerif

variable {V : Type}

/-- what is known between two calls of `selectPoints`: `S = old ++ ring ++ rest`, everything evicted
from (or skipped before) the ring is older than `bound - delta`, the ring holds only samples older
than `bound` -/
def BInv (S : List (Sample V)) (delta : Int) (b : Buf V) (bound : Int) : Prop :=
  ∃ old, S = old ++ (b.ring ++ b.rest) ∧ (∀ s ∈ old, s.t < bound - delta) ∧ (∀ s ∈ b.ring, s.t < bound) ∧
    (match b.rest with
     | x :: _ => b.lastTime = some x.t ∨ (b.lastTime = none ∧ old = [] ∧ b.ring = [])
     | [] => True)

theorem binv_new (S : List (Sample V)) (delta b : Int) : BInv S delta (Buf.new S) b := by
  refine ⟨[], by simp [Buf.new], by simp, by simp [Buf.new], ?_⟩
  cases S <;> simp [Buf.new]

theorem ringAdd_spec (delta : Int) (ring : List (Sample V)) (x : Sample V) :
    ∃ d, ring ++ [x] = d ++ ringAdd delta ring x ∧ ∀ s ∈ d, s.t < x.t - delta := by
  obtain ⟨d, h1, h2, _⟩ := dropWhile_split (fun s : Sample V => decide (s.t < x.t - delta)) (ring ++ [x])
  exact ⟨d, h1, fun s hs => by simpa using h2 s hs⟩

theorem ringAdd_lt (delta t : Int) (ring : List (Sample V)) (x : Sample V) (hr : ∀ s ∈ ring, s.t < t) (hx : x.t < t) :
    ∀ s ∈ ringAdd delta ring x, s.t < t := by
  obtain ⟨d, h1, _⟩ := ringAdd_spec delta ring x
  intro s hs
  have : s ∈ ring ++ [x] := by rw [h1]; exact List.mem_append_right _ hs
  rcases List.mem_append.mp this with h | h
  · exact hr s h
  · simp only [List.mem_singleton] at h; subst h; exact hx

/-- the `Next` loop of `Seek`: walks to the first sample at or after `t`, moving what it passes
into the ring -/
theorem nextLoopB_spec (delta t : Int) (hd : 0 ≤ delta) (rest : List (Sample V)) :
    ∀ (old ring : List (Sample V)) (lastTime : Option Int),
    (∀ s ∈ old, s.t < t - delta) → (∀ s ∈ ring, s.t < t) → (∀ x r, rest = x :: r → x.t < t) →
    let res := Buf.nextLoop delta t ring lastTime rest
    ∃ old', old ++ (ring ++ rest) = old' ++ (res.1.ring ++ res.1.rest) ∧ (∀ s ∈ old', s.t < t - delta) ∧
      (∀ s ∈ res.1.ring, s.t < t) ∧
      (match res.1.rest with
       | x :: _ => res.1.lastTime = some x.t ∧ x.t ≥ t ∧ res.2 = true
       | [] => res.2 = false) := by
  induction rest with
  | nil =>
    intro old ring lastTime hold hring _
    exact ⟨old, by simp [Buf.nextLoop], hold, by simpa [Buf.nextLoop] using hring, by simp [Buf.nextLoop]⟩
  | cons x tl ih =>
    intro old ring lastTime hold hring hhead
    have hx : x.t < t := hhead x tl rfl
    obtain ⟨d, hd1, hd2⟩ := ringAdd_spec delta ring x
    have hring' := ringAdd_lt delta t ring x hring hx
    have hold' : ∀ s ∈ old ++ d, s.t < t - delta := by
      intro s hs
      rcases List.mem_append.mp hs with h | h
      · exact hold s h
      · have := hd2 s h; omega
    have heq : ∀ (rest' : List (Sample V)), old ++ (ring ++ x :: rest') = (old ++ d) ++ (ringAdd delta ring x ++ rest') := by
      intro rest'
      have : ring ++ x :: rest' = (ring ++ [x]) ++ rest' := by simp
      rw [this, hd1]
      simp [List.append_assoc]
    cases tl with
    | nil =>
      refine ⟨old ++ d, ?_, hold', ?_, ?_⟩
      · simpa [Buf.nextLoop] using heq []
      · simpa [Buf.nextLoop] using hring'
      · simp [Buf.nextLoop]
    | cons y tl' =>
      by_cases hy : y.t ≥ t
      · refine ⟨old ++ d, ?_, hold', ?_, ?_⟩
        · simpa [Buf.nextLoop, hy] using heq (y :: tl')
        · simpa [Buf.nextLoop, hy] using hring'
        · simp [Buf.nextLoop, hy]
      · have hy' : y.t < t := by omega
        have := ih (old ++ d) (ringAdd delta ring x) (some y.t) hold' hring'
          (by intro x' r' h; cases h; exact hy')
        simp only [Buf.nextLoop, hy, if_false]
        obtain ⟨old', h1, h2, h3, h4⟩ := this
        exact ⟨old', by rw [heq (y :: tl')]; exact h1, h2, h3, h4⟩

/-- **`Seek(t)` of the buffered iterator**, for a non-decreasing sequence of targets -/
theorem seekB_spec (S : List (Sample V)) (hs : SortedT S) (delta : Int) (hd : 0 ≤ delta) (b : Buf V)
    (bound t : Int) (hb : bound ≤ t) (h : BInv S delta b bound) :
    BInv S delta (b.seek delta t).1 t ∧
      (match (b.seek delta t).1.rest with
       | x :: _ => x.t ≥ t ∧ (b.seek delta t).2 = true
       | [] => (b.seek delta t).2 = false) := by
  obtain ⟨old, hS, hold, hring, hlast⟩ := h
  have finish : ∀ (b1 : Buf V) (old1 : List (Sample V)), S = old1 ++ (b1.ring ++ b1.rest) →
      (∀ s ∈ old1, s.t < t - delta) → (∀ s ∈ b1.ring, s.t < t) →
      (match b1.rest with | x :: _ => b1.lastTime = some x.t | [] => True) →
      let r := if geOpt b1.lastTime t then (b1, !b1.rest.isEmpty) else Buf.nextLoop delta t b1.ring b1.lastTime b1.rest
      BInv S delta r.1 t ∧ (match r.1.rest with | x :: _ => x.t ≥ t ∧ r.2 = true | [] => r.2 = false) := by
    intro b1 old1 hS1 hold1 hring1 hlast1 r
    cases hrest : b1.rest with
    | nil =>
      have hr : r.1.rest = [] ∧ r.2 = false ∧ r.1.ring = b1.ring := by
        simp only [r]
        split
        · simp [hrest]
        · simp [hrest, Buf.nextLoop]
      refine ⟨⟨old1, by rw [hr.1, hr.2.2]; simpa [hrest] using hS1, hold1, by rw [hr.2.2]; exact hring1, by rw [hr.1]; trivial⟩, ?_⟩
      rw [hr.1]; exact hr.2.1
    | cons x tl =>
      have hlt : b1.lastTime = some x.t := by simpa [hrest] using hlast1
      by_cases hge : x.t ≥ t
      · have hr : r = (b1, true) := by simp [r, hlt, geOpt, hge, hrest]
        rw [hr]
        refine ⟨⟨old1, hS1, hold1, hring1, by simp [hrest, hlt]⟩, ?_⟩
        simp [hrest, hge]
      · have hxl : x.t < t := by omega
        have hr : r = Buf.nextLoop delta t b1.ring b1.lastTime (x :: tl) := by
          simp [r, hlt, geOpt, hge, hrest]
        obtain ⟨old', h1, h2, h3, h4⟩ := nextLoopB_spec delta t hd (x :: tl) old1 b1.ring b1.lastTime hold1 hring1
          (by intro x' r' h; cases h; exact hxl)
        rw [hr]
        refine ⟨⟨old', by rw [← h1, ← hrest]; exact hS1, h2, h3, ?_⟩, ?_⟩
        · split
          · rename_i x' r' hx'
            rw [hx'] at h4
            exact Or.inl h4.1
          · trivial
        · split
          · rename_i x' r' hx'
            rw [hx'] at h4
            exact ⟨h4.2.1, h4.2.2⟩
          · rename_i hx'
            rw [hx'] at h4
            exact h4
  have hold_t : ∀ s ∈ old, s.t < t - delta := fun s hs' => by have := hold s hs'; omega
  have hring_t : ∀ s ∈ b.ring, s.t < t := fun s hs' => by have := hring s hs'; omega
  unfold Buf.seek
  simp only
  by_cases hj : (!b.rest.isEmpty && ltOpt b.lastTime (t - delta)) = true
  · -- the jump
    simp only [hj, if_true]
    simp only [Bool.and_eq_true, Bool.not_eq_true', List.isEmpty_eq_false_iff] at hj
    obtain ⟨hne, hlt0⟩ := hj
    have hsrr : SortedT (b.ring ++ b.rest) := by
      rw [hS] at hs
      exact (List.pairwise_append.mp hs).2.1
    have hsall : SortedT (old ++ (b.ring ++ b.rest)) := by rw [← hS]; exact hs
    -- ring and old are older than the jump target
    have hring0 : ∀ s ∈ b.ring, s.t < t - delta := by
      cases hrest : b.rest with
      | nil => exact absurd hrest hne
      | cons x0 tl0 =>
        rw [hrest] at hlast
        rcases hlast with h1 | ⟨_, _, h3⟩
        · intro s hs'
          have hx0 : x0.t < t - delta := by simpa [h1, ltOpt] using hlt0
          have := sorted_lt_of_mem_append hsrr s hs' x0 (by rw [hrest]; exact List.mem_cons_self ..)
          omega
        · rw [h3]; intro s hs'; cases hs'
    obtain ⟨d, hd1, hd2, hd3⟩ := dropWhile_split (fun s : Sample V => decide (s.t < t - delta)) b.rest
    have hd2' : ∀ s ∈ d, s.t < t - delta := fun s hs' => by simpa using hd2 s hs'
    have hold1 : ∀ s ∈ old ++ (b.ring ++ d), s.t < t - delta := by
      intro s hs'
      rcases List.mem_append.mp hs' with h | h
      · exact hold_t s h
      · rcases List.mem_append.mp h with h | h
        · exact hring0 s h
        · exact hd2' s h
    cases hdw : b.rest.dropWhile (fun s => decide (s.t < t - delta)) with
    | nil =>
      simp only
      refine ⟨⟨old ++ (b.ring ++ d), ?_, hold1, by simp, trivial⟩, trivial⟩
      rw [hdw, List.append_nil] at hd1
      simp only [List.nil_append, List.append_nil]
      rw [hS, hd1]
    | cons x r =>
      simp only
      have := finish { rest := x :: r, lastTime := some x.t, ring := [] } (old ++ (b.ring ++ d))
        (by
          rw [hdw] at hd1
          simp only [List.nil_append]
          rw [hS]
          conv => lhs; rw [hd1]
          simp [List.append_assoc])
        hold1 (by simp) (by simp)
      exact this
  · -- no jump: the cursor is known
    have hj' : (!b.rest.isEmpty && ltOpt b.lastTime (t - delta)) = false := by simpa using hj
    simp only [hj', Bool.false_eq_true, if_false]
    have := finish b old hS hold_t hring_t
      (by
        cases hrest : b.rest with
        | nil => trivial
        | cons x0 tl0 =>
          rw [hrest] at hlast
          rcases hlast with h1 | ⟨h1, _, _⟩
          · exact h1
          · exfalso
            simp [hrest, h1, ltOpt] at hj')
    exact this

/-- the sought sample, as `selectPoints` reads it -/
def soughtOf (ok : Bool) (rest : List (Sample V)) (maxt : Int) : List (Int × V) :=
  if ok then
    match rest.head? with
    | some ⟨t, .num v⟩ => if t == maxt then [(t, v)] else []
    | _ => []
  else []

/-- a window read off the iterator's position after `Seek(maxt)`: nothing of the window lies before
the ring -/
theorem window_of_position (S old ring rest : List (Sample V)) (hs : SortedT S) (ok : Bool)
    (lo maxt : Int) (hlo : lo ≤ maxt) (hold : ∀ s ∈ old, inWin lo maxt s = none)
    (hring : ∀ s ∈ ring, s.t < maxt)
    (hpos : match rest with | x :: _ => x.t ≥ maxt ∧ ok = true | [] => ok = false)
    (hS : S = old ++ (ring ++ rest)) :
    windowPoints lo maxt S = ring.filterMap (ptOf lo) ++ soughtOf ok rest maxt := by
  subst hS
  rw [windowPoints_eq, List.filterMap_append, List.filterMap_append]
  rw [fm_nil (f := inWin lo maxt) (l := old) hold, List.nil_append]
  have hr : ring.filterMap (inWin lo maxt) = ring.filterMap (ptOf lo) := by
    apply fm_congr
    intro s hs'
    have := hring s hs'
    have a : s.t ≤ maxt := by omega
    cases hv : s.v <;> simp [inWin, ptOf, hv, a]
  rw [hr]
  congr 1
  cases rest with
  | nil =>
    simp only at hpos
    simp [soughtOf, hpos]
  | cons x r =>
    simp only at hpos
    have hsr : SortedT (x :: r) := by
      exact (List.pairwise_append.mp (List.pairwise_append.mp hs).2.1).2.1
    have hrn : r.filterMap (inWin lo maxt) = [] :=
      fm_nil (fun s hs' => inWin_gt (by have := sorted_tail_gt hsr s hs'; omega))
    simp only [List.filterMap_cons, hrn, soughtOf, hpos.2, if_true, List.head?_cons]
    obtain ⟨xt, xv⟩ := x
    cases xv with
    | stale => simp [inWin]
    | num v =>
      have hx : xt ≥ maxt := hpos.1
      by_cases he : xt = maxt
      · subst he
        simp [inWin, hlo]
      · have : ¬ xt ≤ maxt := by omega
        simp [inWin, this, he]

theorem inWin_mono_lo {lo lo' hi : Int} {s : Sample V} (h : lo ≤ lo') (hn : inWin lo hi s = none) :
    inWin lo' hi s = none := by
  unfold inWin at hn ⊢
  split
  · rename_i v hv
    rw [hv] at hn
    simp only at hn
    by_cases hc : (lo' ≤ s.t ∧ s.t ≤ hi)
    · have : (lo ≤ s.t ∧ s.t ≤ hi) := ⟨by omega, hc.2⟩
      simp [this] at hn
    · simp only [Bool.and_eq_true, decide_eq_true_eq]
      rw [if_neg hc]
  · rfl

theorem mem_window_of {lo hi : Int} {S : List (Sample V)} {s : Sample V} (hs : s ∈ S) {p : Int × V}
    (h : inWin lo hi s = some p) : p ∈ windowPoints lo hi S := by
  rw [windowPoints_eq]
  exact List.mem_filterMap.mpr ⟨s, hs, h⟩

/-- **C03, operational half: `selectPoints` over the buffered iterator is the reference window**.
`delta` is the ring's current delta, `R ≥ delta` the window length, `out` what was retained from an
earlier window that started no later and ended earlier. Where the ring no longer reaches back to
the window's start (`delta < R` after `ReduceDelta`), the non-stale samples of that gap must be in
`out`. -/
theorem selectPointsB_spec (S : List (Sample V)) (hs : SortedT S) (delta R : Int) (hd : 0 ≤ delta)
    (hdR : delta ≤ R) (b : Buf V)
    (bound maxt : Int) (hb : bound ≤ maxt) (hinv : BInv S delta b bound)
    (out : List (Int × V)) (lo' hi' : Int) (hout : out = windowPoints lo' hi' S)
    (hlo : lo' ≤ maxt - R) (hhi : hi' < maxt)
    (hgap : ∀ s ∈ S, maxt - R ≤ s.t → s.t < maxt - delta → ∀ p, inWin (maxt - R) maxt s = some p → p ∈ out) :
    (selectPointsB delta b (maxt - R) maxt out).2 = windowPoints (maxt - R) maxt S ∧
      BInv S delta (selectPointsB delta b (maxt - R) maxt out).1 maxt := by
  obtain ⟨hinv', hpos⟩ := seekB_spec S hs delta hd b bound maxt hb hinv
  refine ⟨?_, hinv'⟩
  obtain ⟨old, hS, hold, hring, _⟩ := hinv'
  have holdS : ∀ s ∈ old, s ∈ S := fun s h => by rw [hS]; exact List.mem_append_left _ h
  -- every point of `out` is at most its last point
  have hmax : ∀ l, out.getLast? = some l → ∀ p ∈ out, p.1 ≤ l.1 := by
    intro l hl p hp
    obtain ⟨_, _, _, h4⟩ := window_after_last S hs lo' hi' l (by rw [← hout]; exact hl)
    rw [hout, h4] at hp
    exact (mem_window hp).2
  have pos : ∀ lo, maxt - R ≤ lo → lo ≤ maxt → (∀ p ∈ out, p.1 < lo) →
      windowPoints lo maxt S = (b.seek delta maxt).1.ring.filterMap (ptOf lo) ++
        soughtOf (b.seek delta maxt).2 (b.seek delta maxt).1.rest maxt := by
    intro lo h0 h1 h2
    refine window_of_position S old _ _ hs _ lo maxt h1 ?_ hring hpos hS
    intro s hs'
    have hst := hold s hs'
    by_cases hlt : s.t < lo
    · exact inWin_lt hlt
    · cases hw : inWin lo maxt s with
      | none => rfl
      | some p =>
        exfalso
        obtain ⟨hp1, hp2, hp3, hp4⟩ := inWin_some hw
        have hw' : inWin (maxt - R) maxt s = some p := by
          rw [← hw]; exact inWin_lo (by omega) (by omega)
        have hin := hgap s (holdS s hs') (by omega) hst p hw'
        have := h2 p hin
        omega
  unfold selectPointsB
  simp only
  cases hl : out.getLast? with
  | none =>
    have hemp : out = [] := List.getLast?_eq_none_iff.mp hl
    simp only [List.nil_append]
    exact (pos (maxt - R) (by omega) (by omega) (by rw [hemp]; intro p hp; cases hp)).symm
  | some l =>
    simp only
    by_cases hge : l.1 ≥ maxt - R
    · simp only [hge, if_true]
      obtain ⟨h1, h2, _, h4⟩ := window_after_last S hs lo' hi' l (by rw [← hout]; exact hl)
      rw [window_split S hs (maxt - R) l.1 maxt (by omega) (by omega)]
      rw [pos (l.1 + 1) (by omega) (by omega) (fun p hp => by have := hmax l hl p hp; omega)]
      rw [hout, h4, window_dropWhile S hs lo' (maxt - R) l.1 hlo]
      simp only [soughtOf, List.append_assoc]
      rfl
    · simp only [hge, if_false, List.nil_append]
      exact (pos (maxt - R) (by omega) (by omega) (fun p hp => by have := hmax l hl p hp; omega)).symm

/-- **along any strictly increasing sequence of window ends** (the steps of a range query; any step
width relative to the range), the engine's `selectPoints` driven over one buffered iterator and one
reused output slice - without `ReduceDelta` - yields at every step exactly the non-stale samples of
the window. -/
theorem selectRanges_along_steps (S : List (Sample V)) (hs : SortedT S) (range : Int) (hd : 0 ≤ range)
    (refs : List Int) (hmono : refs.Pairwise (· < ·)) :
    selectRangesB range (Buf.new S) [] refs = refs.map fun r => windowPoints (r - range) r S := by
  have key : ∀ (refs : List Int) (b : Buf V) (out : List (Int × V)) (bound lo' hi' : Int),
      BInv S range b bound → out = windowPoints lo' hi' S →
      (∀ r ∈ refs, bound ≤ r ∧ lo' ≤ r - range ∧ hi' < r) → refs.Pairwise (· < ·) →
      selectRangesB range b out refs = refs.map fun r => windowPoints (r - range) r S := by
    intro refs
    induction refs with
    | nil => intro _ _ _ _ _ _ _ _ _; rfl
    | cons r rs ih =>
      intro b out bound lo' hi' hinv hout hall hmono
      obtain ⟨hb, hlo, hhi⟩ := hall r (List.mem_cons_self ..)
      obtain ⟨h1, h2⟩ := selectPointsB_spec S hs range range hd (Int.le_refl _) b bound r hb hinv out lo' hi'
        hout hlo hhi (fun s _ h3 h4 => by omega)
      simp only [selectRangesB, List.map_cons]
      rw [h1]
      congr 1
      refine ih _ _ r (r - range) r h2 rfl ?_ (List.pairwise_cons.mp hmono).2
      intro r' hr'
      have := (List.pairwise_cons.mp hmono).1 r' hr'
      omega
  cases refs with
  | nil => rfl
  | cons r rs =>
    refine key (r :: rs) (Buf.new S) [] r (r - range) (r - range - 1) (binv_new S range r)
      (window_empty S _ _ (by omega)).symm ?_ hmono
    intro r' hr'
    rcases List.mem_cons.mp hr' with rfl | h
    · omega
    · have := (List.pairwise_cons.mp hmono).1 r' h
      omega

/-! ### with `ReduceDelta`, as `matrixSelector.Next` drives it -/

theorem reduce_inv (S : List (Sample V)) (delta d : Int) (b : Buf V) (bound : Int) (hd : d ≤ delta)
    (h : BInv S delta b bound) : BInv S d { b with ring := reduceRing d b.ring } bound := by
  obtain ⟨old, hS, hold, hring, hlast⟩ := h
  unfold reduceRing
  cases hl : b.ring.getLast? with
  | none =>
    have he : b.ring = [] := List.getLast?_eq_none_iff.mp hl
    refine ⟨old, by simpa using hS, fun s hs' => by have := hold s hs'; omega, by simpa using hring, ?_⟩
    simp only
    split
    · rename_i x r hx
      rw [hx] at hlast
      rcases hlast with h1 | ⟨h1, h2, h3⟩
      · exact Or.inl h1
      · exact Or.inr ⟨h1, h2, he⟩
    · trivial
  | some l =>
    simp only
    obtain ⟨dd, h1, h2, _⟩ := dropWhile_split (fun x : Sample V => decide (x.t < l.t - d)) b.ring
    have hlt : l.t < bound := hring l (List.mem_of_getLast? hl)
    refine ⟨old ++ dd, ?_, ?_, ?_, ?_⟩
    · rw [hS]
      conv => lhs; rw [h1]
      simp [List.append_assoc]
    · intro s hs'
      rcases List.mem_append.mp hs' with h | h
      · have := hold s h; omega
      · have := h2 s h
        simp only [decide_eq_true_eq] at this
        omega
    · intro s hs'
      exact hring s (by rw [h1]; exact List.mem_append_right _ hs')
    · simp only
      split
      · rename_i x r hx
        rw [hx] at hlast
        rcases hlast with h3 | ⟨_, _, h5⟩
        · exact Or.inl h3
        · rw [h5] at hl; cases hl
      · trivial

/-- **the matrix selector's scan of one series, as written**: per step `selectPoints` into the reused
`previousPoints`, then `ReduceDelta(min(range, step))`. For every sorted sample list, every range
`≥ 0`, every step `> 0` and step count: each step's points are exactly the non-stale samples of
its window. The older part of a window comes from `previousPoints` and the ring only holds the
last `step` milliseconds; the two fit together because a non-stale sample of the overlap is the
last retained point or older. -/
theorem matrix_scan_along_steps (S : List (Sample V)) (hs : SortedT S) (range step : Int) (hr : 0 ≤ range)
    (hst : 0 < step) (r0 : Int) (n : Nat) :
    selectRangesM range step range (Buf.new S) [] ((List.range n).map fun (k : Nat) => r0 + (k : Int) * step) =
      (List.range n).map fun (k : Nat) => windowPoints (r0 + (k : Int) * step - range) (r0 + (k : Int) * step) S := by
  have key : ∀ (n : Nat) (r : Int) (delta : Int) (b : Buf V) (out : List (Int × V)) (bound lo' hi' : Int),
      0 ≤ delta → delta ≤ range → BInv S delta b bound → out = windowPoints lo' hi' S →
      bound ≤ r → lo' ≤ r - range → hi' < r →
      -- the part of the first window the ring does not cover is covered by `out`
      (∀ s ∈ S, r - range ≤ s.t → s.t < r - delta → ∀ p, inWin (r - range) r s = some p → p ∈ out) →
      -- from the second step on the ring holds `min(range, step)` milliseconds
      (delta = range ∨ delta = stepRange range step) →
      selectRangesM range step delta b out ((List.range n).map fun (k : Nat) => r + (k : Int) * step) =
        (List.range n).map fun (k : Nat) => windowPoints (r + (k : Int) * step - range) (r + (k : Int) * step) S := by
    intro n
    induction n with
    | zero => intro _ _ _ _ _ _ _ _ _ _ _ _ _ _ _ _; rfl
    | succ n ih =>
      intro r delta b out bound lo' hi' hd0 hdR hinv hout hb hlo hhi hgap hdelta
      have hsplit : (List.range (n + 1)).map (fun (k : Nat) => r + (k : Int) * step) =
          r :: (List.range n).map (fun (k : Nat) => (r + step) + (k : Int) * step) := by
        rw [List.range_succ_eq_map]
        simp only [List.map_cons, List.map_map, Function.comp_def]
        congr 1
        · simp
        · apply List.map_congr_left
          intro k _
          simp only [Nat.succ_eq_add_one]
          push_cast
          rw [Int.add_mul]
          omega
      have hsplit2 : (List.range (n + 1)).map (fun (k : Nat) => windowPoints (r + (k : Int) * step - range) (r + (k : Int) * step) S) =
          windowPoints (r - range) r S ::
            (List.range n).map (fun (k : Nat) => windowPoints ((r + step) + (k : Int) * step - range) ((r + step) + (k : Int) * step) S) := by
        rw [List.range_succ_eq_map]
        simp only [List.map_cons, List.map_map, Function.comp_def]
        congr 1
        · simp
        · apply List.map_congr_left
          intro k _
          simp only [Nat.succ_eq_add_one]
          push_cast
          rw [Int.add_mul]
          congr 1 <;> omega
      rw [hsplit, hsplit2]
      obtain ⟨h1, h2⟩ := selectPointsB_spec S hs delta range hd0 hdR b bound r hb hinv out lo' hi' hout hlo hhi hgap
      simp only [selectRangesM]
      have hsr0 : 0 ≤ stepRange range step := by unfold stepRange; split <;> omega
      have hsrR : stepRange range step ≤ range := by unfold stepRange; split <;> omega
      -- the next step's gap condition, for the ring of `sr` milliseconds
      have gap' : ∀ s ∈ S, r + step - range ≤ s.t → s.t < r + step - stepRange range step →
          ∀ p, inWin (r + step - range) (r + step) s = some p → p ∈ windowPoints (r - range) r S := by
        intro s hsS hlo1 hhi1 p hp
        obtain ⟨_, _, _, hp4⟩ := inWin_some hp
        unfold stepRange at hhi1
        split at hhi1
        · -- range > step: the gap lies inside the previous window
          have : inWin (r - range) r s = some p := by
            rw [← hp]
            unfold inWin
            rw [hp4]
            have a1 : r - range ≤ s.t := by omega
            have a2 : s.t ≤ r := by omega
            have a3 : r + step - range ≤ s.t := hlo1
            have a4 : s.t ≤ r + step := by omega
            simp [a1, a2, a3, a4]
          exact mem_window_of hsS this
        · omega
      split
      · -- `sr > delta`: impossible from the second step on, and at the first step `delta = range`
        rename_i hgt
        exfalso
        rcases hdelta with h | h <;> omega
      · rw [h1]
        congr 1
        refine ih (r + step) _ _ _ r (r - range) r hsr0 hsrR (reduce_inv S delta _ _ r (by omega) h2) rfl
          (by omega) (by omega) (by omega) gap' (Or.inr rfl)
  have := key n r0 range (Buf.new S) [] r0 (r0 - range) (r0 - range - 1) hr (Int.le_refl _) (binv_new S range r0)
    (window_empty S _ _ (by omega)).symm (Int.le_refl _) (Int.le_refl _) (by omega)
    (fun s _ h3 h4 => by omega) (Or.inl rfl)
  exact this

end PromqlVerif
