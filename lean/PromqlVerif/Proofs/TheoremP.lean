/-
Theorem B up to order. Theorem B (`Proofs/TheoremB.lean`) is an equality of lists: for selectors,
range functions, pointwise functions and vector-scalar arithmetic the engine's step vector, read
through `Series()`, *is* the reference vector. Aggregations and vector matching only agree with
the reference up to the order of the output (the engine numbers groups and join outputs statically,
the reference by first appearance at the step), so they cannot sit inside that induction. Here the
induction carries "a permutation of the reference value" instead, which composes: the reference
operators are invariant under permutations of their inputs (`Proofs/PermRef.lean`).

`FragP c` closes the Theorem-B fragment under
  * aggregations (scalar-table and vectorized path) whose accumulator is the reference reduction
    and whose reduction does not depend on the order of the members,
  * one-to-one vector matching without include labels between operands whose series have pairwise
    distinct match keys,
  * pointwise functions, unary minus, parentheses and vector-scalar arithmetic on top of those,
nested to any depth.
-/
import PromqlVerif.Proofs.PermRef
import PromqlVerif.Proofs.DistAgg
import PromqlVerif.Properties.C04
import PromqlVerif.Properties.C05
import PromqlVerif.Properties.C06
namespace PromqlVerif
open Val

variable {V : Type} [Val V]

/-- pairwise distinct match keys among the series of every operator built for `e` -/
def UniqueKeys (c : Ctx V) (m : Matching) (e : Expr V) : Prop :=
  ∀ o, engOp c e = .ok o → ∀ i i', i < o.series.length → i' < o.series.length →
    sigLabels m (o.series.getD i []) = sigLabels m (o.series.getD i' []) → i = i'

inductive FragP (c : Ctx V) : Expr V → Prop
  | base (e : Expr V) : Frag false e → FragP c e
  | tsSel (s : VSel) (hat : s.atTs = none) (hts : c.q.timestampIsStepTime = false) :
      FragP c (.call "timestamp" [.vsel s])
  | paren (a : Expr V) : FragP c a → FragP c (.paren a)
  | neg (a : Expr V) : FragP c a → FragP c (.neg a)
  | simple (fn : String) (a : Expr V) (h : simpleFns.contains fn = true) : FragP c a → FragP c (.call fn [a])
  | binVS (op : String) (bl : Bool) (m : Matching) (a sc : Expr V) (hop : engineBinOps.contains op = true) :
      FragP c a → Frag true sc → FragP c (.bin op bl m a sc)
  | binSV (op : String) (bl : Bool) (m : Matching) (sc a : Expr V) (hop : engineBinOps.contains op = true) :
      Frag true sc → FragP c a → FragP c (.bin op bl m sc a)
  | clampMin (a lo : Expr V) : FragP c a → Frag true lo → FragP c (.call "clamp_min" [a, lo])
  | clampMax (a hi : Expr V) : FragP c a → Frag true hi → FragP c (.call "clamp_max" [a, hi])
  | agg (op : String) (w : Bool) (g : List String) (a : Expr V)
      (hacc : engineAccumulators.contains op = true)
      (hR : ∀ vals : List V, vals ≠ [] → engReduce op nan vals = aggReduce op nan vals)
      (hP : ∀ l l' : List V, l.Perm l' → aggReduce op nan l = aggReduce op nan l') :
      FragP c a → FragP c (.agg op w g a)
  | aggP (op : String) (w : Bool) (g : List String) (p a : Expr V)
      (hacc : engineAccumulators.contains op = true) (hnv : vectorizedAggs.contains op = false)
      (hR : ∀ (q : V) (vals : List V), vals ≠ [] → engReduce op q vals = aggReduce op q vals)
      (hP : ∀ (q : V) (l l' : List V), l.Perm l' → aggReduce op q l = aggReduce op q l') :
      Frag true p → FragP c a → FragP c (.aggP op w g p a)
  | join (op : String) (bl : Bool) (m : Matching) (l r : Expr V)
      (hc : m.card = .oneToOne) (hincl : m.incl = []) (hop : engineBinOps.contains op = true)
      (hul : UniqueKeys c m l) (hur : UniqueKeys c m r) :
      FragP c l → FragP c r → FragP c (.bin op bl m l r)

/-- what the induction carries: at every step the operator's vector, read through its series list,
is a permutation of the reference value -/
def InvP (c : Ctx V) (e : Expr V) (o : OpSem V) : Prop :=
  ∀ t, ∃ xs out, o.step t = .ok xs ∧ eval c t e = .ok (.vec out) ∧ (denote o.series xs).Perm out

theorem fragP_wt {P : Matching → Prop} (hP : ∀ m, P m) (c : Ctx V) (e : Expr V) (h : FragP c e) : WT P false e := by
  induction h with
  | base e he => exact C05.frag_wt false e he
  | tsSel s _ _ => exact .timestamp _ (.vsel s)
  | paren a _ ih => exact .paren false a ih
  | neg a _ ih => exact .neg false a ih
  | simple fn a hfn _ ih => exact .simple fn a hfn ih
  | binVS op bl m a sc _ _ hs iha => exact .bin op bl m false true a sc (fun _ h => by cases h) iha (C05.frag_wt true sc hs)
  | binSV op bl m sc a _ hs _ iha => exact .bin op bl m true false sc a (fun h => by cases h) (C05.frag_wt true sc hs) iha
  | clampMin a lo _ hlo ih => exact .clampMin a lo ih (C05.frag_wt true lo hlo)
  | clampMax a hi _ hhi ih => exact .clampMax a hi ih (C05.frag_wt true hi hhi)
  | agg op w g a _ _ _ _ ih => exact .agg op w g a ih
  | aggP op w g p a _ _ _ _ hp _ ih => exact .aggP op w g p a (C05.frag_wt true p hp) ih
  | join op bl m l r _ _ _ _ _ _ _ ihl ihr => exact .bin op bl m false false l r (fun _ _ => hP m) ihl ihr

theorem fragP_isScalar (c : Ctx V) (e : Expr V) (h : FragP c e) : e.isScalar = false :=
  wt_isScalar (P := fun _ => True) false e (fragP_wt (fun _ => trivial) c e h)

theorem fragP_not_msel (c : Ctx V) (a : Expr V) (h : FragP c a) : ∀ (s : VSel) (r : Int), a = Expr.msel s r → False := by
  intro s r he
  subst he
  cases h with
  | base _ hf => cases hf

/-- the IDs an operator of the fragment emits index its series list and are pairwise distinct -/
theorem fragP_ids (c : Ctx V) (e : Expr V) (h : FragP c e) (o : OpSem V) (ho : engOp c e = .ok o) (t : Int)
    (xs : IdVec V) (hxs : o.step t = .ok xs) : IdsOk o.series.length xs :=
  (plan_contract (P := fun _ => True) c false e (fragP_wt (fun _ => trivial) c e h) o ho).1 t xs hxs

/-- the series of a labelled vector read off an ID vector with valid, distinct IDs have pairwise
distinct match keys if the series list has -/
theorem denote_sigs_nodup (m : Matching) (S : List Labels) (xs : IdVec V) (hv : ∀ x ∈ xs, x.1 < S.length)
    (hS : ∀ i i', i < S.length → i' < S.length → sigLabels m (S.getD i []) = sigLabels m (S.getD i' []) → i = i')
    (hids : (xs.map (·.1)).Pairwise (· ≠ ·)) :
    ((denote S xs).map fun x => sigLabels m x.1).Nodup := by
  rw [denote_eq_map_of_valid S xs hv, List.map_map]
  induction xs with
  | nil => exact List.nodup_nil
  | cons a as ih =>
    simp only [List.map_cons, List.pairwise_cons] at hids
    simp only [List.map_cons]
    refine List.nodup_cons.mpr ⟨?_, ih (fun x hx => hv x (List.mem_cons_of_mem _ hx)) hids.2⟩
    intro hmem
    obtain ⟨z, hz, hzk⟩ := List.mem_map.mp hmem
    simp only [Function.comp_def, lab] at hzk
    have := hS z.1 a.1 (hv z (List.mem_cons_of_mem _ hz)) (hv a List.mem_cons_self) hzk
    exact hids.1 z.1 (List.mem_map_of_mem hz) this.symm

/-- one step of the vectorized aggregation (no grouping) against the reference aggregation of the
child's vector: exactly -/
theorem vec_agg_step (child : OpSem V) (op : String) (t : Int) (xs : IdVec V)
    (hx : child.step t = .ok xs) (hv : ∀ x ∈ xs, x.1 < child.series.length)
    (hvecop : vectorizedAggs.contains op = true)
    (hk : (op == "topk" || op == "bottomk") = false)
    (hR : ∀ vals : List V, vals ≠ [] → engReduce op nan vals = aggReduce op nan vals) :
    ∃ ys, (engAggregate op false [] none child).step t = .ok ys ∧
      aggregate op false [] nan (denote child.series xs)
        = .ok (denote (engAggregate op false [] none child).series ys) := by
  have hden : denote child.series xs = xs.map fun x => (lab child.series x, x.2) :=
    denote_eq_map_of_valid child.series xs hv
  unfold engAggregate
  simp only [Bool.not_false, List.isEmpty_nil, Bool.true_and, hvecop, if_true]
  refine ⟨if xs.isEmpty then [] else [(0, engReduce op nan (xs.map (·.2)))], by
    simp only [hx, bind, Except.bind, pure, Except.pure], ?_⟩
  rw [aggregate_eq_aggR op false [] nan _ hk]
  cases hxe : xs with
  | nil => simp [aggR, denote, dedup]
  | cons x rest =>
    have hkey : ∀ ls : Labels, groupKey false [] ls = [] := by
      intro ls; simp [groupKey, Labels.keep]
    have hne : xs ≠ [] := by rw [hxe]; simp
    rw [← hxe, hden]
    unfold aggR
    rw [C04.dedup_const ([] : Labels) _ (by
      intro k hk'
      simp only [List.map_map, List.mem_map, Function.comp_def] at hk'
      obtain ⟨y, _, rfl⟩ := hk'
      exact hkey _) (by simp [hne])]
    have hfilter : ((xs.map fun x => (lab child.series x, x.2)).filter fun x => groupKey false [] x.1 == ([] : Labels))
        = xs.map fun x => (lab child.series x, x.2) := by
      rw [List.filter_eq_self]
      intro a _
      simp [hkey]
    simp only [List.map_cons, List.map_nil, hfilter, List.map_map, Function.comp_def]
    have hxsne : xs.isEmpty = false := by rw [hxe]; rfl
    simp only [hxsne, Bool.false_eq_true, if_false, denote, List.filterMap_cons, List.filterMap_nil,
      List.getElem?_cons_zero, Option.map_some]
    rw [hR _ (by simp [hne])]

/-- **Theorem B up to order.** For every expression of `FragP c` plan construction succeeds and the
operator emits, at every step, a permutation of the reference value - with no error on either
side. -/
theorem fragP_inv (c : Ctx V) (hq : c.q.noDupCheck = true) (e : Expr V) (h : FragP c e) :
    ∃ o, engOp c e = .ok o ∧ InvP c e o := by
  induction h with
  | base e he =>
    obtain ⟨o, ho, _, hstep⟩ := frag_inv c hq false e he
    refine ⟨o, ho, fun t => ?_⟩
    obtain ⟨xs, hxs, _, hval⟩ := hstep t
    simp only [Bool.false_eq_true, if_false] at hval
    exact ⟨xs, _, hxs, hval, List.Perm.refl _⟩
  | tsSel s hat hts =>
    obtain ⟨o, ho, _⟩ := C06.timestamp_of_selector c hq hts s hat 0
    refine ⟨o, ho, fun t => ?_⟩
    obtain ⟨o', ho', hden⟩ := C06.timestamp_of_selector c hq hts s hat t
    have : o' = o := by rw [ho] at ho'; exact (Except.ok.inj ho').symm
    subst this
    unfold OpSem.den at hden
    cases hs : o'.step t with
    | error er =>
      rw [hs] at hden
      simp only [Except.map] at hden
      -- the reference value is not an error
      exfalso
      rw [eval] at hden <;> first | (intro s r hh; cases hh) | skip
      simp [Expr.unwrap, hts, hat, dedupCheck, hq] at hden
    | ok xs =>
      rw [hs] at hden
      simp only [Except.map] at hden
      exact ⟨xs, _, rfl, hden.symm, List.Perm.refl _⟩
  | paren a _ ih =>
    obtain ⟨o, ho, hinv⟩ := ih
    refine ⟨o, (by rw [engOp]; exact ho), fun t => ?_⟩
    obtain ⟨xs, out, h1, h2, h3⟩ := hinv t
    exact ⟨xs, out, h1, (by rw [eval]; exact h2), h3⟩
  | clampMin a lo hfa hflo ih =>
    obtain ⟨o, ho, hinv⟩ := ih
    obtain ⟨ol, hol, hinvl⟩ := frag_inv c hq true lo hflo
    refine ⟨{ series := o.series.map Labels.dropName
              step := fun t => do
                let xs ← o.step t
                let lo ← scalarOf ol t
                pure (xs.map fun x => (x.1, maxGo lo x.2)) }, ?_, fun t => ?_⟩
    · rw [engOp]; simp only [ho, hol, bind, Except.bind, pure, Except.pure]
    · obtain ⟨xs, out, hxs, hval, hperm⟩ := hinv t
      obtain ⟨sl, hsl, hel⟩ := scalarOf_of_inv c lo ol hinvl t
      refine ⟨xs.map fun x => (x.1, maxGo sl x.2), out.map fun x => (x.1.dropName, maxGo sl x.2),
        by simp [hxs, hsl, bind, Except.bind, pure, Except.pure], ?_, ?_⟩
      · rw [eval]
        simp only [hval, hel, bind, Except.bind, pure, Except.pure, Value.asVec, Value.asScal, dedupCheck, hq, Bool.not_true, Bool.false_and]
        rfl
      · rw [denote_map o.series Labels.dropName (maxGo sl) xs]
        exact hperm.map _
  | clampMax a hi hfa hfhi ih =>
    obtain ⟨o, ho, hinv⟩ := ih
    obtain ⟨oh, hoh, hinvh⟩ := frag_inv c hq true hi hfhi
    refine ⟨{ series := o.series.map Labels.dropName
              step := fun t => do
                let xs ← o.step t
                let hi ← scalarOf oh t
                pure (xs.map fun x => (x.1, minGo hi x.2)) }, ?_, fun t => ?_⟩
    · rw [engOp]; simp only [ho, hoh, bind, Except.bind, pure, Except.pure]
    · obtain ⟨xs, out, hxs, hval, hperm⟩ := hinv t
      obtain ⟨sh, hsh, heh⟩ := scalarOf_of_inv c hi oh hinvh t
      refine ⟨xs.map fun x => (x.1, minGo sh x.2), out.map fun x => (x.1.dropName, minGo sh x.2),
        by simp [hxs, hsh, bind, Except.bind, pure, Except.pure], ?_, ?_⟩
      · rw [eval]
        simp only [hval, heh, bind, Except.bind, pure, Except.pure, Value.asVec, Value.asScal, dedupCheck, hq, Bool.not_true, Bool.false_and]
        rfl
      · rw [denote_map o.series Labels.dropName (minGo sh) xs]
        exact hperm.map _
  | agg op w g a hacc hR hP hfa ih =>
    obtain ⟨child, hchild, hinv⟩ := ih
    have hk : (op == "topk" || op == "bottomk") = false := by
      cases hc : (op == "topk" || op == "bottomk") with
      | false => rfl
      | true =>
        simp only [Bool.or_eq_true, beq_iff_eq] at hc
        rcases hc with rfl | rfl <;> (revert hacc; decide)
    refine ⟨engAggregate op w g none child, ?_, fun t => ?_⟩
    · rw [engOp]
      simp only [hchild, bind, Except.bind, pure, Except.pure, hk, hacc, Bool.false_eq_true, if_false, Bool.not_true]
    · obtain ⟨xs, out, hxs, hval, hperm⟩ := hinv t
      have hids := (fragP_ids c a hfa child hchild t xs hxs).1
      obtain ⟨A1, A2, hA1, hA2, hA⟩ := aggregate_perm op w g nan _ _ hperm hk hP
      have hev : eval c t (.agg op w g a) = .ok (.vec A2) := by
        rw [eval]
        simp only [hval, hA2, bind, Except.bind, pure, Except.pure, Value.asVec, dedupCheck, hq, Bool.not_true,
          Bool.false_and, Bool.false_eq_true, if_false]
      by_cases hvec : (!w && g.isEmpty && vectorizedAggs.contains op) = true
      · simp only [Bool.and_eq_true, Bool.not_eq_true', List.isEmpty_iff] at hvec
        obtain ⟨⟨hw, hg⟩, hvo⟩ := hvec
        subst hw hg
        obtain ⟨ys, hys, hspec⟩ := vec_agg_step child op t xs hxs hids hvo hk hR
        rw [hA1] at hspec
        refine ⟨ys, A2, hys, hev, ?_⟩
        rw [← Except.ok.inj hspec]; exact hA
      · have hvec' : (!w && g.isEmpty && vectorizedAggs.contains op) = false := by
          cases hh : (!w && g.isEmpty && vectorizedAggs.contains op) with
          | false => rfl
          | true => exact absurd hh hvec
        obtain ⟨ys, A, hys, hspec, hp⟩ := agg_perm child op w g none t xs nan hxs hids hvec' rfl hk hR
        rw [hA1] at hspec
        refine ⟨ys, A2, hys, hev, ?_⟩
        rw [← Except.ok.inj hspec] at hp
        exact hp.trans hA
  | aggP op w g p a hacc hnv hR hP hfp hfa ih =>
    obtain ⟨child, hchild, hinv⟩ := ih
    obtain ⟨po, hpo, hinvp⟩ := frag_inv c hq true p hfp
    have hk : (op == "topk" || op == "bottomk") = false := by
      cases hc : (op == "topk" || op == "bottomk") with
      | false => rfl
      | true =>
        simp only [Bool.or_eq_true, beq_iff_eq] at hc
        rcases hc with rfl | rfl <;> (revert hacc; decide)
    refine ⟨engAggregate op w g (some po) child, ?_, fun t => ?_⟩
    · rw [engOp]
      simp only [hchild, hpo, bind, Except.bind, pure, Except.pure, hk, hacc, Bool.false_eq_true, if_false, Bool.not_true]
    · obtain ⟨xs, out, hxs, hval, hperm⟩ := hinv t
      obtain ⟨q, hq', heq⟩ := scalarOf_of_inv c p po hinvp t
      have hids := (fragP_ids c a hfa child hchild t xs hxs).1
      obtain ⟨A1, A2, hA1, hA2, hA⟩ := aggregate_perm op w g q _ _ hperm hk (hP q)
      have hev : eval c t (.aggP op w g p a) = .ok (.vec A2) := by
        rw [eval]
        simp only [hval, heq, hA2, bind, Except.bind, pure, Except.pure, Value.asVec, Value.asScal, dedupCheck, hq,
          Bool.not_true, Bool.false_and, Bool.false_eq_true, if_false]
      · have hvec' : (!w && g.isEmpty && vectorizedAggs.contains op) = false := by
          rw [hnv]; simp
        obtain ⟨ys, A, hys, hspec, hp⟩ := agg_perm child op w g (some po) t xs q hxs hids hvec' hq' hk (hR q)
        rw [hA1] at hspec
        refine ⟨ys, A2, hys, hev, ?_⟩
        rw [← Except.ok.inj hspec] at hp
        exact hp.trans hA
  | join op bl m l r hc hincl hop hul hur hfl hfr ihl ihr =>
    obtain ⟨lo, hlo, hinvl⟩ := ihl
    obtain ⟨ro, hro, hinvr⟩ := ihr
    have hls := fragP_isScalar c l hfl
    have hrs := fragP_isScalar c r hfr
    refine ⟨_, C05.engOp_vector_vector c op bl m l r lo ro hlo hro hop hls hrs hc, fun t => ?_⟩
    obtain ⟨xs, outl, hxs, hxe, hpl⟩ := hinvl t
    obtain ⟨ys, outr, hys, hye, hpr⟩ := hinvr t
    have hcl := fragP_ids c l hfl lo hlo t xs hxs
    have hcr := fragP_ids c r hfr ro hro t ys hys
    obtain ⟨eng, ref, heng, href, hperm⟩ := C05.vector_matching_with_unique_keys op bl m hc hincl lo.series ro.series
      (hul lo hlo) (hur ro hro) xs ys hcl.1 hcr.1 hcl.2 hcr.2
    obtain ⟨B1, B2, hB1, hB2, hB⟩ := vectorBinop_perm op bl m hc _ _ _ _ hpl hpr
      (denote_sigs_nodup m lo.series xs hcl.1 (hul lo hlo) hcl.2)
      (denote_sigs_nodup m ro.series ys hcr.1 (hur ro hro) hcr.2)
    rw [hB1] at href
    cases hstep : engVectorBinop op bl .oneToOne (engJoin m (!(dropsName op || bl)) lo.series ro.series) xs ys with
    | error e => rw [hstep] at heng; cases heng
    | ok zs =>
      rw [hstep] at heng
      simp only [Except.map, Except.ok.injEq] at heng
      refine ⟨zs, B2, ?_, ?_, ?_⟩
      · simp only [hxs, hys, bind, Except.bind, hstep]
      · rw [eval]
        simp only [hxe, hye, bind, Except.bind, hB2, dedupCheck, hq, Bool.not_true, Bool.false_and, Bool.false_eq_true,
          if_false]
      · rw [heng]
        have hb : B1 = ref := Except.ok.inj href
        subst hb
        exact hperm.trans hB
  | neg a hfa ih =>
    obtain ⟨o, ho, hinv⟩ := ih
    refine ⟨_, (by rw [engOp]; simp only [ho, bind, Except.bind, pure, Except.pure]; rfl), fun t => ?_⟩
    obtain ⟨xs, out, hxs, hval, hperm⟩ := hinv t
    refine ⟨xs.map fun x => (x.1, neg x.2), out.map fun x => (x.1.dropName, neg x.2), by simp [hxs, Except.map], ?_, ?_⟩
    · rw [eval]
      simp only [hval, bind, Except.bind, pure, Except.pure]
    · rw [denote_map o.series Labels.dropName neg xs]
      exact hperm.map _
  | simple fn a hfn hfa ih =>
    obtain ⟨o, ho, hinv⟩ := ih
    have hne : ∀ (s : VSel) (r : Int), a = Expr.msel s r → False := fragP_not_msel c a hfa
    have hn1 : fn ≠ "timestamp" := by intro h; subst h; revert hfn; decide
    have hn2 : fn ≠ "scalar" := by intro h; subst h; revert hfn; decide
    have hn3 : fn ≠ "vector" := by intro h; subst h; revert hfn; decide
    refine ⟨{ series := o.series.map Labels.dropName
              step := fun t => (o.step t).map fun xs => xs.map fun x => (x.1, applySimple fn x.2) }, ?_, fun t => ?_⟩
    · rw [engOp] <;> first | assumption | (intro h; exact absurd h (by assumption)) | skip
      all_goals (try (simp only [hfn, if_true, ho, bind, Except.bind, pure, Except.pure]))
      all_goals (try (intro hh; first | exact hn1 hh | exact hn2 hh | exact hn3 hh))
    · obtain ⟨xs, out, hxs, hval, hperm⟩ := hinv t
      refine ⟨xs.map fun x => (x.1, applySimple fn x.2), out.map fun x => (x.1.dropName, applySimple fn x.2),
        by simp [hxs, Except.map], ?_, ?_⟩
      · rw [eval] <;> first | assumption | skip
        all_goals (try (simp only [hfn, if_true, hval, bind, Except.bind, pure, Except.pure, Value.asVec, dedupCheck, hq, Bool.not_true, Bool.false_and]))
        all_goals (try rfl)
        all_goals (try (intro hh; first | exact hn1 hh | exact hn2 hh | exact hn3 hh))
      · rw [denote_map o.series Labels.dropName (applySimple fn) xs]
        exact hperm.map _
  | binVS op bl m a sc hop hfa hfs iha =>
    obtain ⟨o, ho, hinv⟩ := iha
    obtain ⟨os, hos, hinvs⟩ := frag_inv c hq true sc hfs
    have ta : a.isScalar = false := fragP_isScalar c a hfa
    have ts : sc.isScalar = true := frag_isScalar _ _ hfs
    refine ⟨{ series := o.series.map (if dropsName op || bl then Labels.dropName else id)
              step := fun t => do
                let xs ← o.step t
                let s ← scalarOf os t
                pure (xs.filterMap fun x => (vsFun op bl false s x.2).map fun b => (x.1, b)) }, ?_, fun t => ?_⟩
    · rw [engOp]
      simp only [ho, hos, bind, Except.bind, pure, Except.pure, hop, ta, ts, Bool.false_or, Bool.not_true, Bool.and_false,
        Bool.false_and, if_true, if_false, Bool.not_false, Bool.and_true, Bool.false_eq_true, ↓reduceIte, Bool.or_true, Bool.true_or]
      congr 1
      apply opsem_ext
      · apply List.map_congr_left; intro l _; cases dropsName op <;> cases bl <;> rfl
      · funext t
        simp only []
        cases o.step t with
        | error e => rfl
        | ok xs =>
          cases scalarOf os t with
          | error e => rfl
          | ok s =>
            simp only []
            congr 1
            apply filterMap_congr'
            intro x _
            unfold vsFun
            cases bl <;> simp <;> split <;> simp_all
    · obtain ⟨xs, out, hxs, hval, hperm⟩ := hinv t
      obtain ⟨s, hs, hes⟩ := scalarOf_of_inv c sc os hinvs t
      refine ⟨xs.filterMap fun x => (vsFun op bl false s x.2).map fun b => (x.1, b), vectorScalarBinop op bl out s false,
        by simp [hxs, hs, bind, Except.bind, pure, Except.pure], ?_, ?_⟩
      · rw [eval]
        simp only [hval, hes, bind, Except.bind, pure, Except.pure, dedupCheck, hq, Bool.not_true, Bool.false_and]
        rfl
      · have heq : denote (o.series.map (if dropsName op || bl then Labels.dropName else id))
              (xs.filterMap fun x => (vsFun op bl false s x.2).map fun b => (x.1, b))
            = vectorScalarBinop op bl (denote o.series xs) s false := by
          rw [vectorScalarBinop_eq, denote_filterMap]
        rw [heq, vectorScalarBinop_eq, vectorScalarBinop_eq]
        exact hperm.filterMap _
  | binSV op bl m sc a hop hfs hfa iha =>
    obtain ⟨o, ho, hinv⟩ := iha
    obtain ⟨os, hos, hinvs⟩ := frag_inv c hq true sc hfs
    have ta : a.isScalar = false := fragP_isScalar c a hfa
    have ts : sc.isScalar = true := frag_isScalar _ _ hfs
    refine ⟨{ series := o.series.map (if dropsName op || bl then Labels.dropName else id)
              step := fun t => do
                let xs ← o.step t
                let s ← scalarOf os t
                pure (xs.filterMap fun x => (vsFun op bl true s x.2).map fun b => (x.1, b)) }, ?_, fun t => ?_⟩
    · rw [engOp]
      simp only [ho, hos, bind, Except.bind, pure, Except.pure, hop, ta, ts, Bool.false_or, Bool.not_true, Bool.and_false,
        Bool.false_and, if_true, if_false, Bool.not_false, Bool.and_true, Bool.false_eq_true, ↓reduceIte, Bool.or_true, Bool.true_or,
        Bool.true_and, Bool.or_false]
      congr 1
      apply opsem_ext
      · apply List.map_congr_left; intro l _; cases dropsName op <;> cases bl <;> rfl
      · funext t
        simp only []
        cases o.step t with
        | error e => rfl
        | ok xs =>
          cases scalarOf os t with
          | error e => rfl
          | ok s =>
            simp only []
            congr 1
            apply filterMap_congr'
            intro x _
            unfold vsFun
            cases bl <;> simp <;> split <;> simp_all
    · obtain ⟨xs, out, hxs, hval, hperm⟩ := hinv t
      obtain ⟨s, hs, hes⟩ := scalarOf_of_inv c sc os hinvs t
      refine ⟨xs.filterMap fun x => (vsFun op bl true s x.2).map fun b => (x.1, b), vectorScalarBinop op bl out s true,
        by simp [hxs, hs, bind, Except.bind, pure, Except.pure], ?_, ?_⟩
      · rw [eval]
        simp only [hval, hes, bind, Except.bind, pure, Except.pure, dedupCheck, hq, Bool.not_true, Bool.false_and]
        rfl
      · have heq : denote (o.series.map (if dropsName op || bl then Labels.dropName else id))
              (xs.filterMap fun x => (vsFun op bl true s x.2).map fun b => (x.1, b))
            = vectorScalarBinop op bl (denote o.series xs) s true := by
          rw [vectorScalarBinop_eq, denote_filterMap]
        rw [heq, vectorScalarBinop_eq, vectorScalarBinop_eq]
        exact hperm.filterMap _

/-! ### where the uniqueness hypothesis comes for free -/

/-- a group key is its own match key when the matching uses the grouping's labels the same way
(`by (g)` with `on (g)`, `without (g)` with `ignoring (g)`) -/
theorem sig_groupKey (m : Matching) (w : Bool) (g : List String) (hon : m.on = !w) (hl : m.labels = g) (ls : Labels) :
    sigLabels m (groupKey w g ls) = groupKey w g ls := by
  unfold sigLabels groupKey
  cases w with
  | false =>
    simp only [Bool.not_false] at hon
    simp only [hon, if_true, Bool.false_eq_true, if_false, hl, Labels.keep, List.filter_filter, Bool.and_self]
  | true =>
    simp only [Bool.not_true] at hon
    simp only [hon, Bool.false_eq_true, if_false, if_true, hl, Labels.del, Labels.dropName, List.filter_filter]
    apply List.filter_congr
    intro x _
    cases (x.name != metricName) <;> cases (!g.contains x.name) <;> rfl

/-- **the outputs of `agg by (g) (..)` have pairwise distinct match keys under `on (g)`** (and
`without (g)` under `ignoring (g)`): the usual `agg by (g) (a) op on (g) agg by (g) (b)` meets the
uniqueness hypothesis of the matching theorem for every storage -/
theorem uniqueKeys_agg (c : Ctx V) (m : Matching) (op : String) (w : Bool) (g : List String) (a : Expr V)
    (hon : m.on = !w) (hl : m.labels = g) : UniqueKeys c m (.agg op w g a) := by
  intro o ho i i' hi hi' hk
  rw [engOp] at ho
  cases hch : engOp c a with
  | error e => simp [hch, bind, Except.bind] at ho
  | ok child =>
    simp only [hch, bind, Except.bind, pure, Except.pure] at ho
    split at ho
    · cases ho
    · split at ho
      · cases ho
      · have ho' := Except.ok.inj ho
        subst ho'
        unfold engAggregate at hi hi' hk
        split at hi
        · -- vectorized: a single output series
          rename_i hv
          simp only [hv, if_true, List.length_cons, List.length_nil] at hi hi'
          omega
        · rename_i hv
          simp only [hv, Bool.false_eq_true, if_false] at hi hi' hk
          rw [outs_eq_keys] at hi hi' hk
          have hnd := nodup_dedup (child.series.map (groupKey w g))
          have hmem : ∀ j, j < (dedup (child.series.map (groupKey w g))).length →
              sigLabels m ((dedup (child.series.map (groupKey w g))).getD j [])
                = (dedup (child.series.map (groupKey w g))).getD j [] := by
            intro j hj
            have hjm : (dedup (child.series.map (groupKey w g))).getD j [] ∈ dedup (child.series.map (groupKey w g)) := by
              rw [← List.getElem_eq_getD (h := hj)]; exact List.getElem_mem hj
            rw [mem_dedup] at hjm
            obtain ⟨ls, _, hls⟩ := List.mem_map.mp hjm
            rw [← hls]; exact sig_groupKey m w g hon hl ls
          rw [hmem i hi, hmem i' hi'] at hk
          exact (List.getD_inj hi hi' hnd).mp hk

end PromqlVerif
