/-
The stream contract of every operator of every plan (C18, the ID half): at every step the sample
IDs of an operator's vector index its series list and are pairwise distinct; scalar-typed
operators have exactly one series.
-/
import PromqlVerif.Proofs.TheoremB
import PromqlVerif.Proofs.HeapPerm
namespace PromqlVerif
open Val

variable {V : Type} [Val V]

/-- sample IDs index the series list and are pairwise distinct -/
def IdsOk {β : Type} (n : Nat) (xs : List (Nat × β)) : Prop :=
  (∀ x ∈ xs, x.1 < n) ∧ (xs.map (·.1)).Pairwise (· ≠ ·)

def Contract (o : OpSem V) : Prop := ∀ t xs, o.step t = .ok xs → IdsOk o.series.length xs

theorem idsOk_nil {β : Type} (n : Nat) : IdsOk n ([] : List (Nat × β)) := ⟨by simp, by simp⟩

theorem idsOk_single {β : Type} (n : Nat) (h : 0 < n) (v : β) : IdsOk n [(0, v)] :=
  ⟨by simpa using h, by simp⟩

theorem idsOk_map {β β' : Type} (n : Nat) (xs : List (Nat × β)) (g : Nat × β → β') (h : IdsOk n xs) :
    IdsOk n (xs.map fun x => (x.1, g x)) := by
  obtain ⟨h1, h2⟩ := h
  refine ⟨fun x hx => ?_, ?_⟩
  · obtain ⟨y, hy, rfl⟩ := List.mem_map.mp hx; exact h1 y hy
  · simpa [List.map_map, Function.comp_def] using h2

theorem ids_sublist_filterMap {β β' : Type} (xs : List (Nat × β)) (g : Nat × β → Option β') :
    ((xs.filterMap fun x => (g x).map fun b => (x.1, b)).map (·.1)).Sublist (xs.map (·.1)) := by
  induction xs with
  | nil => simp
  | cons x xs ih =>
    simp only [List.filterMap_cons, List.map_cons]
    cases g x with
    | none => exact ih.cons _
    | some b => simp only [Option.map_some, List.map_cons]; exact ih.cons_cons _

theorem idsOk_filterMap {β β' : Type} (n : Nat) (xs : List (Nat × β)) (g : Nat × β → Option β') (h : IdsOk n xs) :
    IdsOk n (xs.filterMap fun x => (g x).map fun b => (x.1, b)) := by
  obtain ⟨h1, h2⟩ := h
  refine ⟨fun x hx => ?_, h2.sublist (ids_sublist_filterMap xs g)⟩
  obtain ⟨y, hy, hxy⟩ := List.mem_filterMap.mp hx
  cases hg : g y with
  | none => simp [hg] at hxy
  | some b => simp only [hg, Option.map_some, Option.some.injEq] at hxy; subst hxy; exact h1 y hy

theorem fmc {γ δ : Type} {f g : γ → Option δ} {l : List γ} (h : ∀ x ∈ l, f x = g x) :
    l.filterMap f = l.filterMap g := by
  induction l with
  | nil => rfl
  | cons x xs ih =>
    simp only [List.filterMap_cons]
    rw [h x (List.mem_cons_self ..), ih (fun y hy => h y (List.mem_cons_of_mem _ hy))]

/-- a filterMap that keeps the ID of what it keeps -/
theorem idsOk_filterMap' {β β' : Type} (n : Nat) (xs : List (Nat × β)) (F : Nat × β → Option (Nat × β'))
    (hF : ∀ x y, F x = some y → y.1 = x.1) (h : IdsOk n xs) : IdsOk n (xs.filterMap F) := by
  have : xs.filterMap F = xs.filterMap fun x => ((F x).map (·.2)).map fun b => (x.1, b) := by
    apply fmc
    intro x _
    cases hx : F x with
    | none => rfl
    | some y => simp [← hF x y hx]
  rw [this]
  exact idsOk_filterMap n xs _ h

theorem enumFrom_ids' {γ β : Type} (F : Nat × γ → Option (Nat × β)) (hF : ∀ p y, F p = some y → y.1 = p.1) :
    ∀ (k : Nat) (ms : List γ),
    (∀ x ∈ (enumFrom k ms).filterMap F, k ≤ x.1 ∧ x.1 < k + ms.length) ∧
      (((enumFrom k ms).filterMap F).map (·.1)).Pairwise (· < ·) := by
  intro k ms
  induction ms generalizing k with
  | nil => simp [enumFrom]
  | cons m ms ih =>
    obtain ⟨h1, h2⟩ := ih (k + 1)
    simp only [enumFrom, List.filterMap_cons]
    cases hg : F (k, m) with
    | none =>
      simp only
      refine ⟨fun x hx => ?_, h2⟩
      have := h1 x hx
      simp only [List.length_cons]; omega
    | some b =>
      have hb : b.1 = k := hF _ _ hg
      simp only [List.map_cons]
      constructor
      · intro x hx
        rcases List.mem_cons.mp hx with rfl | hx
        · simp only [List.length_cons]; omega
        · have := h1 x hx
          simp only [List.length_cons]; omega
      · apply List.Pairwise.cons
        · intro y hy
          obtain ⟨x, hx, rfl⟩ := List.mem_map.mp hy
          have := h1 x hx
          omega
        · exact h2

theorem idsOk_enum {γ β : Type} (ms : List γ) (F : Nat × γ → Option (Nat × β))
    (hF : ∀ p y, F p = some y → y.1 = p.1) : IdsOk ms.length ((enum ms).filterMap F) := by
  obtain ⟨h1, h2⟩ := enumFrom_ids' F hF 0 ms
  refine ⟨fun x hx => ?_, h2.imp (fun h => Nat.ne_of_lt h)⟩
  have := h1 x hx
  omega

theorem idsOk_range {β : Type} (n : Nat) (F : Nat → Option (Nat × β)) (hF : ∀ g y, F g = some y → y.1 = g) :
    IdsOk n ((List.range n).filterMap F) := by
  constructor
  · intro x hx
    obtain ⟨g, hg, hgx⟩ := List.mem_filterMap.mp hx
    rw [hF g x hgx]
    exact List.mem_range.mp hg
  · have hsub : (((List.range n).filterMap F).map (·.1)).Sublist (List.range n) := by
      generalize List.range n = l
      induction l with
      | nil => simp
      | cons g l ih =>
        simp only [List.filterMap_cons]
        cases hg : F g with
        | none => exact ih.cons _
        | some y =>
          simp only [List.map_cons]
          rw [hF g y hg]
          exact ih.cons_cons _
    exact (List.pairwise_lt_range.imp (fun h => Nat.ne_of_lt h)).sublist hsub

/-! ### leaves -/

theorem contract_const (f : Int → V) : Contract (constOp f) := by
  intro t xs h
  simp only [constOp, Except.ok.injEq] at h
  subst h
  exact idsOk_single _ (by simp [constOp]) _

theorem contract_selector (c : Ctx V) (s : VSel) (ts : Bool) : Contract (engSelector c s ts) := by
  intro t xs h
  simp only [engSelector, Except.ok.injEq] at h ⊢
  subst h
  simp only [List.length_map]
  apply idsOk_enum
  intro p y hy
  cases hsel : selectSample c.lookback (t - s.offsetAt c.start) p.2.samples with
  | none => simp [hsel] at hy
  | some q => simp only [hsel, Option.map_some, Option.some.injEq] at hy; rw [← hy]

theorem contract_rangefn (c : Ctx V) (fn : String) (s : VSel) (r : Int) : Contract (engRangeFn c fn s r) := by
  intro t xs h
  simp only [engRangeFn, Except.ok.injEq] at h ⊢
  subst h
  simp only [List.length_map]
  apply idsOk_enum
  intro p y hy
  cases hk : rangeKernel fn (windowPoints (t - s.offsetAt c.start - r) (t - s.offsetAt c.start) p.2.samples)
      (t - s.offsetAt c.start - r) (t - s.offsetAt c.start) (rangeSeconds r : V) with
  | none => simp [hk] at hy
  | some q => simp only [hk, Option.map_some, Option.some.injEq] at hy; rw [← hy]

/-! ### operators over one child -/

theorem contract_pin (o : OpSem V) (t0 : Int) (h : Contract o) :
    Contract { o with step := fun _ => o.step t0 } := fun _ xs hx => h t0 xs hx

theorem contract_relabel (o : OpSem V) (f : Labels → Labels) (h : Contract o) :
    Contract { o with series := o.series.map f } := by
  intro t xs hx
  simp only [List.length_map]
  exact h t xs hx

theorem contract_pointwise (o : OpSem V) (f : Labels → Labels) (g : Int → Nat × V → V) (h : Contract o) :
    Contract { series := o.series.map f
               step := fun t => (o.step t).map fun xs => xs.map fun x => (x.1, g t x) } := by
  intro t xs hx
  simp only [List.length_map]
  cases ho : o.step t with
  | error e => simp [ho, Except.map] at hx
  | ok ys =>
    simp only [ho, Except.map, Except.ok.injEq] at hx
    subst hx
    exact idsOk_map _ ys (g t) (h t ys ho)

theorem scalarOf_ok (o : OpSem V) (t : Int) (v : V) (h : scalarOf o t = .ok v) : ∃ xs, o.step t = .ok xs := by
  unfold scalarOf at h
  cases ho : o.step t with
  | error e => simp [ho, bind, Except.bind] at h
  | ok xs => exact ⟨xs, rfl⟩

/-! ### aggregations -/

theorem contract_aggregate (op : String) (w : Bool) (g : List String) (param : Option (OpSem V))
    (child : OpSem V) : Contract (engAggregate op w g param child) := by
  intro t xs h
  unfold engAggregate at h ⊢
  by_cases hc : (!w && g.isEmpty && vectorizedAggs.contains op) = true
  · rw [if_pos hc] at h ⊢
    simp only at h ⊢
    cases hch : child.step t with
    | error e => simp [hch, bind, Except.bind] at h
    | ok ys =>
      simp only [hch, bind, Except.bind, pure, Except.pure, Except.ok.injEq] at h
      subst h
      split
      · exact idsOk_nil _
      · exact idsOk_single _ (by simp) _
  · rw [if_neg hc] at h ⊢
    simp only at h ⊢
    cases hch : child.step t with
    | error e => simp [hch, bind, Except.bind] at h
    | ok ys =>
      simp only [hch, bind, Except.bind] at h
      split at h
      · cases h
      · simp only [pure, Except.pure, Except.ok.injEq] at h
        subst h
        apply idsOk_range
        intro gi y hy
        split at hy
        · cases hy
        · cases hy; rfl

theorem idsOk_groups {β : Type} (n m : Nat) (xs : List (Nat × β)) (gid : Nat → Nat)
    (sel : List (Nat × β) → List (Nat × β)) (hsel : ∀ l, ∃ d, (sel l ++ d).Perm l) (h : IdsOk n xs) :
    IdsOk n ((List.range m).flatMap fun g => sel (xs.filter fun x => gid x.1 == g)) := by
  obtain ⟨h1, h2⟩ := h
  have hmem : ∀ g y, y ∈ sel (xs.filter fun x => gid x.1 == g) → y ∈ xs ∧ gid y.1 = g := by
    intro g y hy
    obtain ⟨d, hd⟩ := hsel (xs.filter fun x => gid x.1 == g)
    have : y ∈ xs.filter fun x => gid x.1 == g := hd.mem_iff.mp (List.mem_append_left _ hy)
    obtain ⟨a, b⟩ := List.mem_filter.mp this
    exact ⟨a, by simpa using b⟩
  constructor
  · intro y hy
    obtain ⟨g, _, hg⟩ := List.mem_flatMap.mp hy
    exact h1 y (hmem g y hg).1
  · rw [List.flatMap_def, List.map_flatten, List.pairwise_flatten]
    constructor
    · intro l hl
      simp only [List.map_map, List.mem_map, Function.comp] at hl
      obtain ⟨g, _, rfl⟩ := hl
      obtain ⟨d, hd⟩ := hsel (xs.filter fun x => gid x.1 == g)
      have hf : ((xs.filter fun x => gid x.1 == g).map (·.1)).Pairwise (· ≠ ·) :=
        h2.sublist (List.Sublist.map _ List.filter_sublist)
      have hp : ((sel (xs.filter fun x => gid x.1 == g) ++ d).map (·.1)).Pairwise (· ≠ ·) :=
        ((hd.map (·.1)).pairwise_iff (fun h => Ne.symm h)).mpr hf
      rw [List.map_append] at hp
      exact (List.pairwise_append.mp hp).1
    · simp only [List.map_map]
      rw [List.pairwise_map]
      refine List.pairwise_lt_range.imp ?_
      intro g1 g2 hlt a ha b hb
      simp only [Function.comp, List.mem_map] at ha hb
      obtain ⟨x, hx, rfl⟩ := ha
      obtain ⟨y, hy, rfl⟩ := hb
      intro heq
      have e1 := (hmem g1 x hx).2
      have e2 := (hmem g2 y hy).2
      rw [heq] at e1
      omega

theorem contract_kaggregate (top w : Bool) (g : List String) (param child : OpSem V) (h : Contract child) :
    Contract (engKAggregate top w g param child) := by
  intro t xs hx
  unfold engKAggregate at hx ⊢
  simp only at hx ⊢
  cases hch : child.step t with
  | error e => simp [hch, bind, Except.bind] at hx
  | ok ys =>
    simp only [hch, bind, Except.bind] at hx
    split at hx
    · cases hx
    · split at hx
      · cases hx
      · split at hx
        · simp only [pure, Except.pure, Except.ok.injEq] at hx
          subst hx
          exact idsOk_nil _
        · simp only [pure, Except.pure, Except.ok.injEq] at hx
          subst hx
          rename_i v _ _ _
          exact idsOk_groups _ _ ys (fun i => (staticGroups (groupKey w g) id child.series).fst.getD i 0)
            (fun l => kSelect top (toInt v).toNat l) (fun l => kSelect_perm top _ l) (h t ys hch)

/-! ### histogram_quantile, scalar operands, clamp -/

theorem contract_histogram (c : Ctx V) (q child : OpSem V) : Contract (engHistogram c q child) := by
  intro t xs hx
  unfold engHistogram at hx ⊢
  simp only at hx ⊢
  cases hch : child.step t with
  | error e => simp [hch, bind, Except.bind] at hx
  | ok ys =>
    simp only [hch, bind, Except.bind] at hx
    split at hx
    · cases hx
    · simp only [pure, Except.pure, Except.ok.injEq] at hx
      subst hx
      apply idsOk_enum
      intro p y hy
      split at hy
      · cases hy
      · cases hy; rfl

/-! ### the static hash join -/

theorem foldl_inv {β γ : Type} (P : β → Prop) (f : β → γ → β) (l : List γ) (b : β) (h0 : P b)
    (hstep : ∀ b a, a ∈ l → P b → P (f b a)) : P (l.foldl f b) := by
  induction l generalizing b with
  | nil => exact h0
  | cons a l ih =>
    simp only [List.foldl_cons]
    exact ih _ (hstep b a (List.mem_cons_self ..) h0) (fun b' a' ha' hb' => hstep b' a' (List.mem_cons_of_mem _ ha') hb')

structure JOk (j : Join) : Prop where
  hi_lt : ∀ (i o : Nat), j.highIdx[i]? = some (some o) → o < j.outputs.length
  hi_inj : ∀ (i i' o : Nat), j.highIdx[i]? = some (some o) → j.highIdx[i']? = some (some o) → i = i'
  lo_lt : ∀ (i : Nat) (l : List Nat) (o : Nat), j.lowIdx[i]? = some l → o ∈ l → o < j.outputs.length

theorem engJoin_ok (m : Matching) (keepName : Bool) (high low : List Labels) : JOk (engJoin m keepName high low) := by
  unfold engJoin
  simp only
  apply foldl_inv JOk
  · constructor
    · intro i o h
      simp only [List.getElem?_map] at h
      cases hh : high[i]? <;> simp [hh] at h
    · intro i i' o h
      simp only [List.getElem?_map] at h
      cases hh : high[i]? <;> simp [hh] at h
    · intro i l o h ho
      simp only [List.getElem?_map] at h
      cases hh : low[i]? with
      | none => simp [hh] at h
      | some x => simp only [hh, Option.map_some, Option.some.injEq] at h; subst h; cases ho
  · intro j key _ hj
    split
    · exact hj
    · rename_i low0 lowRest hlow
      apply foldl_inv JOk
      · exact hj
      · intro j h _ hj
        constructor
        · intro i o hi
          simp only [List.length_append, List.length_cons, List.length_nil] at hi ⊢
          rw [List.getElem?_set] at hi
          split at hi
          · split at hi
            · simp only [Option.some.injEq] at hi; omega
            · cases hi
          · have := hj.hi_lt i o hi; omega
        · intro i i' o hi hi'
          rw [List.getElem?_set] at hi hi'
          split at hi
          · rename_i e1
            split at hi
            · simp only [Option.some.injEq] at hi
              split at hi'
              · rename_i e2; omega
              · have := hj.hi_lt i' o hi'; omega
            · cases hi
          · split at hi'
            · split at hi'
              · simp only [Option.some.injEq] at hi'
                have := hj.hi_lt i o hi; omega
              · cases hi'
            · exact hj.hi_inj i i' o hi hi'
        · simp only [List.length_append, List.length_cons, List.length_nil]
          apply foldl_inv (fun (li : List (List Nat)) => ∀ (i : Nat) (l : List Nat) (o : Nat), li[i]? = some l → o ∈ l → o < j.outputs.length + 1)
          · intro i l o hl ho
            have := hj.lo_lt i l o hl ho; omega
          · intro li l _ hli i l' o hl' ho
            rw [List.getElem?_set] at hl'
            split at hl'
            · split at hl'
              · simp only [Option.some.injEq] at hl'
                subst hl'
                rcases List.mem_append.mp ho with h1 | h1
                · rw [List.getD_eq_getElem?_getD] at h1
                  cases hg : li[l.1]? with
                  | none => simp [hg] at h1
                  | some l0 => simp only [hg, Option.getD_some] at h1; exact hli _ l0 o hg h1
                · simp only [List.mem_singleton] at h1; omega
              · cases hl'
            · exact hli i l' o hl' ho

/-! ### the per-step table of a vector-vector operator -/

/-- what one probe of the table may do to `(out, seen)` -/
def StepShape (chk : Bool) (stepf : JState V → Nat → V → Except Err (JState V)) : Prop :=
  ∀ out seen o xv st', stepf (out, seen) o xv = .ok st' →
    st' = (out, seen) ∨ ((chk = true → o ∉ seen) ∧ st'.2 = o :: seen ∧ (st'.1 = out ∨ ∃ v, st'.1 = out ++ [(o, v)]))

theorem innerFold_error (stepf : JState V → Nat → V → Except Err (JState V)) (xv : V) (os : List Nat) (e : Err) :
    innerFold stepf xv os (.error e) = .error e := by
  unfold innerFold
  induction os with
  | nil => rfl
  | cons o os ih => simpa [List.foldl_cons] using ih

theorem outerFold_error (stepf : JState V → Nat → V → Except Err (JState V)) (outsOf : Nat → List Nat)
    (rhs : IdVec V) (e : Err) : outerFold stepf outsOf rhs (.error e) = .error e := by
  unfold outerFold
  induction rhs with
  | nil => rfl
  | cons x xs ih => simpa [List.foldl_cons] using ih

/-- the invariant of the probe loop -/
structure TInv (N : Nat) (st : JState V) : Prop where
  lt : ∀ p ∈ st.1, p.1 < N
  nodup : (st.1.map (·.1)).Pairwise (· ≠ ·)
  seen : ∀ p ∈ st.1, p.1 ∈ st.2

theorem tinv_step (N : Nat) (chk : Bool) (stepf : JState V → Nat → V → Except Err (JState V))
    (hS : StepShape chk stepf) (st st' : JState V) (o : Nat) (xv : V) (ho : o < N)
    (hfresh : chk = false → o ∉ st.2) (hinv : TInv N st) (h : stepf st o xv = .ok st') :
    TInv N st' ∧ (∀ q, q ∈ st'.2 → q = o ∨ q ∈ st.2) := by
  obtain ⟨out, seen⟩ := st
  rcases hS out seen o xv st' h with rfl | ⟨hc, hseen, hout⟩
  · exact ⟨hinv, fun q hq => Or.inr hq⟩
  · have hnot : o ∉ seen := by
      cases chk with
      | true => exact hc rfl
      | false => exact hfresh rfl
    obtain ⟨out', seen'⟩ := st'
    simp only at hseen hout
    subst hseen
    refine ⟨?_, fun q hq => by simpa using hq⟩
    rcases hout with rfl | ⟨v, rfl⟩
    · exact ⟨hinv.lt, hinv.nodup, fun p hp => List.mem_cons_of_mem _ (hinv.seen p hp)⟩
    · refine ⟨?_, ?_, ?_⟩
      · intro p hp
        rcases List.mem_append.mp hp with h1 | h1
        · exact hinv.lt p h1
        · simp only [List.mem_singleton] at h1; subst h1; exact ho
      · simp only [List.map_append, List.map_cons, List.map_nil]
        rw [List.pairwise_append]
        refine ⟨hinv.nodup, by simp, ?_⟩
        intro a ha b hb
        simp only [List.mem_singleton] at hb
        subst hb
        obtain ⟨p, hp, rfl⟩ := List.mem_map.mp ha
        intro heq
        exact hnot (heq ▸ hinv.seen p hp)
      · intro p hp
        rcases List.mem_append.mp hp with h1 | h1
        · exact List.mem_cons_of_mem _ (hinv.seen p h1)
        · simp only [List.mem_singleton] at h1; subst h1; exact List.mem_cons_self ..

theorem outerFold_ok (N : Nat) (chk : Bool) (stepf : JState V → Nat → V → Except Err (JState V))
    (hS : StepShape chk stepf) (outsOf : Nat → List Nat) (hN : ∀ id o, o ∈ outsOf id → o < N)
    (hinj : chk = false → (∀ id, (outsOf id).length ≤ 1) ∧
      ∀ id id' o, o ∈ outsOf id → o ∈ outsOf id' → id = id') :
    ∀ (rhs : IdVec V) (st res : JState V), (rhs.map (·.1)).Pairwise (· ≠ ·) → TInv N st →
      (chk = false → ∀ x ∈ rhs, ∀ o ∈ outsOf x.1, o ∉ st.2) →
      outerFold stepf outsOf rhs (.ok st) = .ok res → TInv N res := by
  intro rhs
  induction rhs with
  | nil =>
    intro st res _ hinv _ h
    simp only [outerFold, List.foldl_nil, Except.ok.injEq] at h
    subst h; exact hinv
  | cons x xs ih =>
    intro st res hnd hinv hfresh h
    have hnd' := List.pairwise_cons.mp hnd
    unfold outerFold at h
    simp only [List.foldl_cons] at h
    -- the probes of `x`
    have inner : ∀ (os : List Nat) (st1 : JState V), (∀ o ∈ os, o ∈ outsOf x.1) → TInv N st1 →
        (chk = false → os.length ≤ 1) →
        (chk = false → ∀ o ∈ os, o ∉ st1.2) →
        (∀ q ∈ st1.2, q ∈ st.2 ∨ q ∈ outsOf x.1) →
        ∀ st2, innerFold stepf x.2 os (.ok st1) = .ok st2 →
          TInv N st2 ∧ (∀ q ∈ st2.2, q ∈ st.2 ∨ q ∈ outsOf x.1) := by
      intro os
      induction os with
      | nil =>
        intro st1 _ hi _ _ hq st2 h2
        simp only [innerFold, List.foldl_nil, Except.ok.injEq] at h2
        subst h2; exact ⟨hi, hq⟩
      | cons o os ihos =>
        intro st1 hos hi hlen hfr hq st2 h2
        unfold innerFold at h2
        simp only [List.foldl_cons] at h2
        cases hst : stepf st1 o x.2 with
        | error e =>
          rw [hst] at h2
          have := innerFold_error stepf x.2 os e
          unfold innerFold at this
          rw [this] at h2
          cases h2
        | ok st1' =>
          rw [hst] at h2
          have hoin := hos o (List.mem_cons_self ..)
          obtain ⟨hi', hq'⟩ := tinv_step N chk stepf hS st1 st1' o x.2 (hN _ _ hoin)
            (fun hc => hfr hc o (List.mem_cons_self ..)) hi hst
          refine ihos st1' (fun o' ho' => hos o' (List.mem_cons_of_mem _ ho')) hi'
            (fun hc => by have := hlen hc; simp only [List.length_cons] at this; omega)
            (fun hc o' ho' => by
              have := hlen hc
              simp only [List.length_cons] at this
              have : os = [] := List.eq_nil_of_length_eq_zero (by omega)
              subst this; cases ho')
            (fun q hq2 => by
              rcases hq' q hq2 with rfl | h3
              · exact Or.inr hoin
              · exact hq q h3)
            st2 h2
    cases hin : innerFold stepf x.2 (outsOf x.1) (.ok st) with
    | error e =>
      rw [hin] at h
      have := outerFold_error stepf outsOf xs e
      unfold outerFold at this
      rw [this] at h
      cases h
    | ok st1 =>
      rw [hin] at h
      obtain ⟨hi1, hq1⟩ := inner (outsOf x.1) st (fun o ho => ho) hinv
        (fun hc => (hinj hc).1 x.1)
        (fun hc o ho => hfresh hc x (List.mem_cons_self ..) o ho)
        (fun q hq => Or.inl hq) st1 hin
      refine ih st1 res hnd'.2 hi1 ?_ (by unfold outerFold; exact h)
      intro hc x' hx' o' ho' hmem
      rcases hq1 o' hmem with h3 | h3
      · exact hfresh hc x' (List.mem_cons_of_mem _ hx') o' ho' h3
      · have := (hinj hc).2 x'.1 x.1 o' ho' h3
        exact hnd'.1 x'.1 (List.mem_map.mpr ⟨x', hx', rfl⟩) this.symm

theorem vbStep_shape (op : String) (bool : Bool) (card : Card) (slotVal : Nat → Option V) :
    StepShape (card != .oneToMany) (vbStep op bool card slotVal) := by
  intro out seen o xv st' h
  unfold vbStep at h
  simp only at h
  split at h
  · cases h; exact Or.inl rfl
  · split at h
    · cases h
    · rename_i hc
      have hfresh : (card != .oneToMany) = true → o ∉ seen := by
        intro hc1
        simp only [hc1, Bool.true_and, List.contains_eq_mem, decide_eq_true_eq] at hc
        exact hc
      right
      split at h
      · cases h; exact ⟨hfresh, rfl, Or.inr ⟨_, rfl⟩⟩
      · split at h
        · cases h; exact ⟨hfresh, rfl, Or.inr ⟨_, rfl⟩⟩
        · cases h; exact ⟨hfresh, rfl, Or.inl rfl⟩

theorem contract_vbinop (op : String) (bool : Bool) (card : Card) (j : Join) (hj : JOk j)
    (lhs rhs : IdVec V) (out : IdVec V) (hr : (rhs.map (·.1)).Pairwise (· ≠ ·))
    (h : engVectorBinop op bool card j lhs rhs = .ok out) : IdsOk j.outputs.length out := by
  unfold engVectorBinop at h
  split at h
  · cases h
  · rename_i slots _
    have h' := h
    clear h
    unfold slotValOf rhsOutsOf at h'
    generalize hsv : (fun (o : Nat) => ((slots.filter (·.1 == o)).getLast?).map (·.2)) = slotVal at h'
    generalize hro : (fun (id : Nat) => if card == .oneToMany then (j.highIdx.getD id none).toList else j.lowIdx.getD id []) = outsOf at h'
    cases hp : outerFold (vbStep op bool card slotVal) outsOf rhs (.ok ([], [])) with
    | error e => simp [hp, Except.map] at h'
    | ok res =>
      simp only [hp, Except.map, Except.ok.injEq] at h'
      subst h'
      have hN : ∀ id o, o ∈ outsOf id → o < j.outputs.length := by
        intro id o ho
        rw [← hro] at ho
        simp only at ho
        split at ho
        · rw [List.getD_eq_getElem?_getD] at ho
          cases hg : j.highIdx[id]? with
          | none => simp [hg] at ho
          | some v =>
            cases v with
            | none => simp [hg] at ho
            | some o' =>
              simp only [hg, Option.getD_some, Option.toList_some, List.mem_singleton] at ho
              subst ho
              exact hj.hi_lt id o hg
        · rw [List.getD_eq_getElem?_getD] at ho
          cases hg : j.lowIdx[id]? with
          | none => simp [hg] at ho
          | some l => simp only [hg, Option.getD_some] at ho; exact hj.lo_lt id l o hg ho
      have hinj : (card != .oneToMany) = false → (∀ id, (outsOf id).length ≤ 1) ∧
          ∀ id id' o, o ∈ outsOf id → o ∈ outsOf id' → id = id' := by
        intro hc
        have hc' : (card == .oneToMany) = true := by
          cases card <;> simp_all
        constructor
        · intro id
          rw [← hro]
          simp only [hc', if_true]
          cases j.highIdx.getD id none <;> simp
        · intro id id' o h1 h2
          rw [← hro] at h1 h2
          simp only [hc', if_true] at h1 h2
          rw [List.getD_eq_getElem?_getD] at h1 h2
          have e1 : j.highIdx[id]? = some (some o) := by
            cases hg : j.highIdx[id]? with
            | none => simp [hg] at h1
            | some v =>
              cases v with
              | none => simp [hg] at h1
              | some o' => simp only [hg, Option.getD_some, Option.toList_some, List.mem_singleton] at h1; rw [h1]
          have e2 : j.highIdx[id']? = some (some o) := by
            cases hg : j.highIdx[id']? with
            | none => simp [hg] at h2
            | some v =>
              cases v with
              | none => simp [hg] at h2
              | some o' => simp only [hg, Option.getD_some, Option.toList_some, List.mem_singleton] at h2; rw [h2]
          exact hj.hi_inj id id' o e1 e2
      have := outerFold_ok j.outputs.length (card != .oneToMany) (vbStep op bool card slotVal)
        (vbStep_shape op bool card slotVal) outsOf hN hinj rhs ([], []) res hr
        ⟨by simp, by simp, by simp⟩ (by simp) hp
      exact ⟨this.lt, this.nodup⟩

end PromqlVerif
