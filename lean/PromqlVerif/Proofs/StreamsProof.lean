/-
Pull execution = per-step semantics on the grid (C18, C07): for every plan tree whose leaves share
the query window, every call of `Next` of every operator returns exactly the batch the per-step
denotation prescribes at the common cursor, the successor tree is aligned at the next cursor, and
its denotation is unchanged. Hence: batches of at most `B` step vectors, one per step, in step
order, siblings aligned position by position, positional pairing = pairing by timestamp, and the
end of the stream is final for every operator.
-/
import PromqlVerif.Streams
import PromqlVerif.Proofs.Grid
namespace PromqlVerif.Streams

variable {α : Type}

theorem walk_pos (stop step : Int) (n : Nat) (cur : Int) (hn : 0 < n) (h : ¬ stop < cur) :
    walk stop step n cur = cur :: walk stop step (n - 1) (cur + step) := by
  cases n with
  | zero => omega
  | succ m =>
    have : cur ≤ stop := by omega
    simp [walk, this]

theorem walk_length_le (stop step : Int) : ∀ (n : Nat) (cur : Int), (walk stop step n cur).length ≤ n
  | 0, _ => by simp [walk]
  | n + 1, cur => by
    unfold walk
    split
    · simp only [List.length_cons]; have := walk_length_le stop step n (cur + step); omega
    · simp

/-- the loop stops early only because the next timestamp is past the end -/
theorem walk_len (stop step : Int) : ∀ (n : Nat) (cur : Int),
    (walk stop step n cur).length = n ∨ stop < cur + step * (walk stop step n cur).length
  | 0, _ => by simp [walk]
  | n + 1, cur => by
    unfold walk
    split
    · rcases walk_len stop step n (cur + step) with h | h
      · left; simp [h]
      · right
        simp only [List.length_cons]
        have : cur + step * (((walk stop step n (cur + step)).length : Nat) + 1 : Int)
            = cur + step + step * ((walk stop step n (cur + step)).length : Int) := by
          rw [Int.mul_add]; omega
        push_cast
        omega
    · right; simp; omega

theorem walk_mem_le (stop step : Int) : ∀ (n : Nat) (cur t : Int), t ∈ walk stop step n cur → t ≤ stop
  | 0, _, _, h => by simp [walk] at h
  | n + 1, cur, t, h => by
    unfold walk at h
    split at h
    · rcases List.mem_cons.mp h with rfl | h'
      · assumption
      · exact walk_mem_le stop step n _ t h'
    · cases h

/-- once `n` steps reach past the end, more fuel adds nothing -/
theorem walk_fuel (stop step : Int) (hs : 0 < step) : ∀ (n m : Nat) (cur : Int), n ≤ m → stop < cur + step * n →
    walk stop step m cur = walk stop step n cur
  | 0, m, cur, _, h => by
    have : stop < cur := by simpa using h
    cases m with
    | zero => rfl
    | succ m' => simp [walk]; omega
  | n + 1, m, cur, hnm, h => by
    cases m with
    | zero => omega
    | succ m' =>
      unfold walk
      split
      · congr 1
        apply walk_fuel stop step hs n m' (cur + step) (by omega)
        have : step * ((n + 1 : Nat) : Int) = step + step * (n : Int) := by push_cast; rw [Int.mul_add]; omega
        omega
      · rfl

theorem pairOpt_same (ts : List Int) (a b : Int → α) :
    pairOpt (ts.map fun t => (t, a t)) (ts.map fun t => (t, b t)) = ts.map fun t => (t, a t, some (b t)) := by
  induction ts with
  | nil => rfl
  | cons t ts ih => simp only [List.map_cons, pairOpt, ih]

theorem zipPos_same (g : Int → Int → α → α → α) (ts : List Int) (a b : Int → α) :
    zipPos g (ts.map fun t => (t, a t)) (ts.map fun t => (t, b t)) = ts.map fun t => (t, g t t (a t) (b t)) := by
  induction ts with
  | nil => rfl
  | cons t ts ih =>
    unfold zipPos at *
    simp only [List.map_cons, List.zipWith_cons_cons, ih]

theorem at_next (k : Cfg) (hs : 0 < k.step) (hB : 0 < k.B) (stop cur x : Int) (h : At stop cur x)
    (hend : stop < cur) : At stop (cur + k.step * k.B) x := by
  have hp : 0 < k.step * (k.B : Int) := Int.mul_pos hs (by omega)
  rcases h with rfl | ⟨h1, h2⟩
  · right; omega
  · right; omega

theorem at_adv (k : Cfg) (hs : 0 < k.step) (hB : 0 < k.B) (stop cur x : Int) (h : At stop cur x)
    (hin : ¬ stop < cur) : At stop (cur + k.step * k.B) (x + k.step * k.B) := by
  rcases h with rfl | ⟨_, h2⟩
  · left; rfl
  · omega

theorem at_cur (stop cur x : Int) (h : At stop cur x) (hin : ¬ stop < cur) : x = cur := by
  rcases h with rfl | ⟨_, h2⟩
  · rfl
  · omega

theorem at_end (stop cur x : Int) (h : At stop cur x) (hend : stop < cur) : stop < x := by
  rcases h with rfl | ⟨h1, _⟩
  · exact hend
  · exact h1

theorem out_end (k : Cfg) (stop cur : Int) (d : Int → α) (h : stop < cur) : out k stop cur d = none := by
  simp [out, h]

theorem out_in (k : Cfg) (stop cur : Int) (d : Int → α) (h : ¬ stop < cur) :
    out k stop cur d = some ((walk stop k.step k.B cur).map fun t => (t, d t)) := by
  simp [out, h]

theorem walk_map_not_empty (k : Cfg) (hB : 0 < k.B) (stop cur : Int) (h : ¬ stop < cur) (f : Int → Int × α) :
    ((walk stop k.step k.B cur).map f).isEmpty = false := by
  rw [walk_pos stop k.step k.B cur hB h]; rfl

/-- a plan that has ended stays aligned when it is not pulled while the window's cursor moves on -/
theorem al_stay (k : Cfg) (hs : 0 < k.step) (hB : 0 < k.B) :
    ∀ (p : Plan α) (stop cur : Int), Al k stop cur p → stop < cur → Al k stop (cur + k.step * k.B) p := by
  intro p
  induction p with
  | leaf f s c n =>
    intro stop cur h hend
    exact ⟨h.1, at_next k hs hB stop cur c h.2.1 hend, h.2.2⟩
  | map g c ih => intro stop cur h hend; exact ih stop cur h hend
  | zip g l r ihl ihr => intro stop cur h hend; exact ⟨ihl stop cur h.1 hend, ihr stop cur h.2 hend⟩
  | fn eoe g v s ihv ihs => intro stop cur h hend; exact ⟨ihv stop cur h.1 hend, ihs stop cur h.2 hend⟩
  | co g l r ihl ihr => intro stop cur h hend; exact ⟨ihl stop cur h.1 hend, ihr stop cur h.2 hend⟩
  | inv s c cache dflt pin ch _ =>
    intro stop cur h hend
    exact ⟨h.1, at_next k hs hB stop cur c h.2.1 hend, h.2.2⟩
  | script bs => intro stop cur h _; exact h.elim

/-- what one call of `Next` has to satisfy -/
def Spec (d0 : α) (k : Cfg) (stop cur : Int) (p : Plan α) : Prop :=
  (next k p).1 = out k stop cur (den d0 p) ∧ Al k stop (cur + k.step * k.B) (next k p).2 ∧
    den d0 (next k p).2 = den d0 p

theorem next_spec (d0 : α) (k : Cfg) (hs : 0 < k.step) (hB : 0 < k.B) :
    ∀ (p : Plan α) (stop cur : Int), Al k stop cur p → Spec d0 k stop cur p := by
  intro p
  induction p with
  | leaf f s c n =>
    intro stop cur hal
    obtain ⟨rfl, hat, hn⟩ := hal
    unfold Spec
    by_cases hend : s < cur
    · have hc := at_end s cur c hat hend
      simp only [next, hc, if_true, out_end k s cur _ hend]
      exact ⟨by trivial, ⟨by trivial, at_next k hs hB s cur c hat hend, hn⟩, by trivial⟩
    · have hc := at_cur s cur c hat hend
      subst hc
      simp only [next, hend, if_false, out_in k s c _ hend]
      have hp : 0 ≤ k.step * (n : Int) := Int.mul_nonneg (by omega) (by omega)
      rcases hn with rfl | ⟨hle, hpast⟩
      · exact ⟨rfl, ⟨rfl, Or.inl rfl, Or.inl rfl⟩, rfl⟩
      · refine ⟨?_, ⟨rfl, ?_, Or.inr ⟨hle, by omega⟩⟩, rfl⟩
        · rw [walk_fuel s k.step hs n k.B c hle hpast]
          rfl
        · right
          have : k.step * (n : Int) ≤ k.step * (k.B : Int) :=
            Int.mul_le_mul_of_nonneg_left (by omega) (by omega)
          omega
  | map g c ih =>
    intro stop cur hal
    obtain ⟨h1, h2, h3⟩ := ih stop cur hal
    unfold Spec
    by_cases hend : stop < cur
    · rw [out_end k stop cur _ hend] at h1
      rw [out_end k stop cur _ hend]
      simp only [next]
      cases hn : next k c with
      | mk o c' =>
        rw [hn] at h1 h2 h3
        simp only at h1 h2 h3
        subst h1
        exact ⟨rfl, h2, by funext t; simp only [den, h3]⟩
    · rw [out_in k stop cur _ hend] at h1
      rw [out_in k stop cur _ hend]
      simp only [next]
      cases hn : next k c with
      | mk o c' =>
        rw [hn] at h1 h2 h3
        simp only at h1 h2 h3
        subst h1
        refine ⟨?_, h2, by funext t; simp only [den, h3]⟩
        simp only [List.map_map]
        rfl
  | zip g l r ihl ihr =>
    intro stop cur hal
    obtain ⟨l1, l2, l3⟩ := ihl stop cur hal.1
    obtain ⟨r1, r2, r3⟩ := ihr stop cur hal.2
    unfold Spec
    simp only [next]
    cases hl : next k l with
    | mk ol l' =>
      cases hr : next k r with
      | mk or' r' =>
        rw [hl] at l1 l2 l3
        rw [hr] at r1 r2 r3
        simp only at l1 l2 l3 r1 r2 r3
        by_cases hend : stop < cur
        · rw [out_end k stop cur _ hend] at l1 r1
          subst l1; subst r1
          rw [out_end k stop cur _ hend]
          exact ⟨rfl, ⟨l2, r2⟩, by funext t; simp only [den, l3, r3]⟩
        · rw [out_in k stop cur _ hend] at l1 r1
          subst l1; subst r1
          rw [out_in k stop cur _ hend]
          simp only [walk_map_not_empty k hB stop cur hend, Bool.or_self, Bool.false_eq_true, if_false]
          refine ⟨?_, ⟨l2, r2⟩, by funext t; simp only [den, l3, r3]⟩
          rw [zipPos_same]
          rfl
  | fn eoe g v sc ihv ihs =>
    intro stop cur hal
    obtain ⟨v1, v2, v3⟩ := ihv stop cur hal.1
    obtain ⟨s1, s2, s3⟩ := ihs stop cur hal.2
    unfold Spec
    simp only [next]
    cases hv : next k v with
    | mk ov v' =>
      rw [hv] at v1 v2 v3
      simp only at v1 v2 v3
      by_cases hend : stop < cur
      · rw [out_end k stop cur _ hend] at v1
        subst v1
        rw [out_end k stop cur _ hend]
        refine ⟨rfl, ⟨v2, ?_⟩, by funext t; simp only [den, v3]⟩
        -- the scalar child was not pulled: it has ended as well, and stays where it is
        exact al_stay k hs hB sc stop cur hal.2 hend
      · rw [out_in k stop cur _ hend] at v1 s1
        subst v1
        rw [out_in k stop cur _ hend]
        simp only [walk_map_not_empty k hB stop cur hend, Bool.false_and, Bool.false_eq_true, if_false]
        cases hsn : next k sc with
        | mk os s' =>
          rw [hsn] at s1 s2 s3
          simp only at s1 s2 s3
          subst s1
          refine ⟨?_, ⟨v2, s2⟩, by funext t; simp only [den, v3, s3]⟩
          simp only [Option.getD_some]
          rw [pairOpt_same, List.map_map]
          rfl
  | co g l r ihl ihr =>
    intro stop cur hal
    obtain ⟨l1, l2, l3⟩ := ihl stop cur hal.1
    obtain ⟨r1, r2, r3⟩ := ihr stop cur hal.2
    unfold Spec
    simp only [next]
    cases hl : next k l with
    | mk ol l' =>
      cases hr : next k r with
      | mk or' r' =>
        rw [hl] at l1 l2 l3
        rw [hr] at r1 r2 r3
        simp only at l1 l2 l3 r1 r2 r3
        by_cases hend : stop < cur
        · rw [out_end k stop cur _ hend] at l1 r1
          subst l1; subst r1
          rw [out_end k stop cur _ hend]
          exact ⟨rfl, ⟨l2, r2⟩, by funext t; simp only [den, l3, r3]⟩
        · rw [out_in k stop cur _ hend] at l1 r1
          subst l1; subst r1
          rw [out_in k stop cur _ hend]
          refine ⟨?_, ⟨l2, r2⟩, by funext t; simp only [den, l3, r3]⟩
          simp only
          rw [pairOpt_same, List.map_map]
          rfl
  | inv s c cache dflt pin ch ih =>
    intro stop cur hal
    obtain ⟨rfl, hat, hc⟩ := hal
    unfold Spec
    by_cases hend : s < cur
    · have hc' := at_end s cur c hat hend
      simp only [next, hc', if_true, out_end k s cur _ hend]
      exact ⟨by trivial, ⟨by trivial, at_next k hs hB s cur c hat hend, hc⟩, by trivial⟩
    · have hcc := at_cur s cur c hat hend
      subst hcc
      have hadv : At s (c + k.step * k.B) (c + k.step * (walk s k.step k.B c).length) := by
        rcases walk_len s k.step k.B c with h | h
        · left; rw [h]
        · right
          have hp : 0 < k.step * (k.B : Int) := Int.mul_pos hs (by omega)
          have hle := walk_length_le s k.step k.B c
          have : k.step * ((walk s k.step k.B c).length : Int) ≤ k.step * (k.B : Int) :=
            Int.mul_le_mul_of_nonneg_left (by omega) (by omega)
          omega
      cases cache with
      | some v =>
        simp only [next, hend, if_false, out_in k s c _ hend]
        exact ⟨rfl, ⟨rfl, hadv, Or.inl rfl⟩, rfl⟩
      | none =>
        have hch : Al k pin pin ch := by
          rcases hc with h | h
          · cases h
          · exact h
        obtain ⟨c1, _, _⟩ := ih pin pin hch
        rw [out_in k pin pin _ (by omega), walk_pos pin k.step k.B pin hB (by omega)] at c1
        simp only [next, hend, if_false, out_in k s c _ hend]
        cases hn : next k ch with
        | mk b ch' =>
          rw [hn] at c1
          simp only at c1
          subst c1
          simp only [List.map_cons]
          exact ⟨rfl, ⟨rfl, hadv, Or.inl rfl⟩, rfl⟩
  | script bs => intro stop cur h; exact h.elim

/-- **the whole stream**: the i-th call of `Next` returns the batch the per-step denotation
prescribes at cursor `cur + step * B * i` -/
theorem run_spec (d0 : α) (k : Cfg) (hs : 0 < k.step) (hB : 0 < k.B) :
    ∀ (n : Nat) (p : Plan α) (stop cur : Int), Al k stop cur p →
      run k n p = (List.range n).map fun (i : Nat) => out k stop (cur + k.step * k.B * (i : Int)) (den d0 p)
  | 0, _, _, _, _ => rfl
  | n + 1, p, stop, cur, hal => by
    obtain ⟨h1, h2, h3⟩ := next_spec d0 k hs hB p stop cur hal
    rw [run, run_spec d0 k hs hB n _ stop _ h2, h1, h3, List.range_succ_eq_map, List.map_cons, List.map_map]
    congr 1
    · simp
    · apply List.map_congr_left
      intro i _
      simp only [Function.comp]
      congr 1
      push_cast
      rw [Int.mul_add]
      omega

/-- **end of stream is final, for every operator of every plan**: once the window's cursor is past
the end, every later call returns nil -/
theorem ended_stays_ended (d0 : α) (k : Cfg) (hs : 0 < k.step) (hB : 0 < k.B) (n : Nat) (p : Plan α) (stop cur : Int)
    (hal : Al k stop cur p) (hend : stop < cur) : ∀ o ∈ run k n p, o = none := by
  rw [run_spec d0 k hs hB n p stop cur hal]
  intro o ho
  obtain ⟨i, _, rfl⟩ := List.mem_map.mp ho
  apply out_end
  have : 0 ≤ k.step * (k.B : Int) * (i : Int) :=
    Int.mul_nonneg (Int.le_of_lt (Int.mul_pos hs (by omega))) (by omega)
  omega

/-- every batch has at most `B` step vectors, none of them past the window's end -/
theorem batches_bounded (d0 : α) (k : Cfg) (hs : 0 < k.step) (hB : 0 < k.B) (n : Nat) (p : Plan α) (stop cur : Int)
    (hal : Al k stop cur p) : ∀ b, some b ∈ run k n p → b.length ≤ k.B ∧ ∀ x ∈ b, x.1 ≤ stop := by
  rw [run_spec d0 k hs hB n p stop cur hal]
  intro b hb
  obtain ⟨i, _, hi⟩ := List.mem_map.mp hb
  unfold out at hi
  split at hi
  · cases hi
  · cases hi
    refine ⟨by simpa using walk_length_le stop k.step k.B _, ?_⟩
    intro x hx
    obtain ⟨t, ht, rfl⟩ := List.mem_map.mp hx
    exact walk_mem_le stop k.step k.B _ t ht

theorem out_length_le (k : Cfg) (stop cur : Int) (d : Int → α) (b : Batch α) (h : out k stop cur d = some b) :
    b.length ≤ k.B := by
  unfold out at h
  split at h
  · cases h
  · cases h; simpa using walk_length_le stop k.step k.B cur

/-- **no unchecked index leaves its range**: in a plan whose leaves share the window every call of
`Next` of every operator keeps `scalars[i]`, `out[i]` and `workers[i]` in range -/
theorem aligned_safe (d0 : α) (k : Cfg) (hs : 0 < k.step) (hB : 0 < k.B) :
    ∀ (p : Plan α) (stop cur : Int), Al k stop cur p → safeNow k p = true := by
  intro p
  induction p with
  | leaf f s c n => intro _ _ _; rfl
  | map g c ih =>
    intro stop cur hal
    have h1 := (next_spec d0 k hs hB c stop cur hal).1
    simp only [safeNow, ih stop cur hal, Bool.true_and]
    cases ho : (next k c).1 with
    | none => rfl
    | some b =>
      rw [ho] at h1
      simpa using out_length_le k stop cur _ b h1.symm
  | zip g l r ihl ihr =>
    intro stop cur hal
    simp only [safeNow, ihl stop cur hal.1, ihr stop cur hal.2, Bool.and_self]
  | fn eoe g v sc ihv ihs =>
    intro stop cur hal
    have hv := (next_spec d0 k hs hB v stop cur hal.1).1
    have hsn := (next_spec d0 k hs hB sc stop cur hal.2).1
    simp only [safeNow, ihv stop cur hal.1, ihs stop cur hal.2, Bool.true_and]
    by_cases hend : stop < cur
    · rw [out_end k stop cur _ hend] at hv
      rw [hv]
    · rw [out_in k stop cur _ hend] at hv hsn
      rw [hv, hsn]
      simp [walk_map_not_empty k hB stop cur hend]
  | co g l r ihl ihr =>
    intro stop cur hal
    have hl := (next_spec d0 k hs hB l stop cur hal.1).1
    have hr := (next_spec d0 k hs hB r stop cur hal.2).1
    simp only [safeNow, ihl stop cur hal.1, ihr stop cur hal.2, Bool.true_and]
    by_cases hend : stop < cur
    · rw [out_end k stop cur _ hend] at hl hr
      rw [hl, hr]
    · rw [out_in k stop cur _ hend] at hl hr
      rw [hl, hr]
      simp
  | inv s c cache dflt pin ch ih =>
    intro stop cur hal
    obtain ⟨_, _, hc⟩ := hal
    simp only [safeNow]
    rcases hc with h | h
    · simp [h]
    · simp [ih pin pin h]
  | script bs => intro _ _ h; exact h.elim

theorem aligned_run_safe (d0 : α) (k : Cfg) (hs : 0 < k.step) (hB : 0 < k.B) :
    ∀ (n : Nat) (p : Plan α) (stop cur : Int), Al k stop cur p → runSafe k n p = true
  | 0, _, _, _, _ => rfl
  | n + 1, p, stop, cur, hal => by
    simp only [runSafe, aligned_safe d0 k hs hB p stop cur hal, Bool.true_and]
    exact aligned_run_safe d0 k hs hB n _ stop _ (next_spec d0 k hs hB p stop cur hal).2.1

/-- **`Options.NumSteps()` keeps a selector aligned with the operators that use the batch size**: a
leaf that starts at the window's start with `numStepsBatch w B` steps per batch is aligned - either
that is the batch size, or it is the total number of steps and its first batch finishes the
window. (Computing it from anything but the millisecond grid the cursors walk on breaks exactly
this.) -/
theorem numSteps_leaf_aligned (w : Window) (hs : 0 < w.step) (hle : w.start ≤ w.stop) (B : Nat) (f : Int → α) :
    Al ⟨w.step, B⟩ w.stop w.start (.leaf f w.stop w.start (numStepsBatch w B)) := by
  refine ⟨rfl, Or.inl rfl, ?_⟩
  unfold numStepsBatch
  have h1 : ¬ w.step ≤ 0 := by omega
  simp only [h1, if_false]
  by_cases hb : B ≤ w.numSteps
  · left; exact Nat.min_eq_left hb
  · right
    have hm : min B w.numSteps = w.numSteps := Nat.min_eq_right (by omega)
    rw [hm]
    refine ⟨by omega, ?_⟩
    have := numSteps_passes_end w hs hle
    rw [Int.mul_comm] at this
    exact this

theorem leafStream_ended (w : Window) (n fuel : Nat) (cur : Int) (h : w.stop < cur) : leafStream w n fuel cur = [] := by
  cases fuel with
  | zero => rfl
  | succ f => simp [leafStream, h]

/-- the non-nil batches of the first `n` calls are the leaf cursor's batches, each step carrying the
denotation -/
theorem run_eq_leafStream (d0 : α) (w : Window) (hs : 0 < w.step) (B : Nat) (hB : 0 < B) :
    ∀ (n : Nat) (p : Plan α) (cur : Int), Al ⟨w.step, B⟩ w.stop cur p →
      (run ⟨w.step, B⟩ n p).filterMap id
        = (leafStream w B n cur).map fun ts => ts.map fun t => (t, den d0 p t)
  | 0, _, _, _ => rfl
  | n + 1, p, cur, hal => by
    obtain ⟨h1, h2, h3⟩ := next_spec d0 ⟨w.step, B⟩ hs hB p w.stop cur hal
    have ih := run_eq_leafStream d0 w hs B hB n _ _ h2
    rw [h3] at ih
    have hstep : ¬ w.step ≤ 0 := by omega
    rw [run, h1]
    by_cases hend : w.stop < cur
    · have hend' : w.stop < cur + w.step * (B : Int) := by
        have : 0 < w.step * (B : Int) := Int.mul_pos hs (by omega)
        omega
      rw [out_end _ _ _ _ hend, List.filterMap_cons_none rfl, ih,
        leafStream_ended w B n _ hend', leafStream_ended w B (n + 1) _ hend]
    · rw [out_in _ _ _ _ hend]
      simp only [List.filterMap_cons, id]
      rw [ih]
      have hc : ¬ cur > w.stop := by omega
      simp only [leafStream, hc, if_false, hstep, List.map_cons, leafBatch]

/-- **the whole result is the denotation on the evaluation grid, whatever the batch size**: the
concatenation of the batches an aligned plan delivers in `numSteps` calls is the grid of the window,
each step with its per-step value - so what a step carries does not depend on the batch size or on
where the step falls inside a batch -/
theorem run_is_grid (d0 : α) (w : Window) (hs : 0 < w.step) (hle : w.start ≤ w.stop) (B : Nat) (hB : 0 < B)
    (p : Plan α) (hal : Al ⟨w.step, B⟩ w.stop w.start p) :
    ((run ⟨w.step, B⟩ w.numSteps p).filterMap id).flatten = w.grid.map fun t => (t, den d0 p t) := by
  rw [run_eq_leafStream d0 w hs B hB w.numSteps p w.start hal, ← List.map_flatten,
    leafStream_flatten w hs B hB]
  congr 1
  have hg : w.grid = walk w.stop w.step w.numSteps w.start := by
    unfold Window.grid
    have : ¬ w.step ≤ 0 := by omega
    simp [this]
  rw [hg]
  apply walk_saturate _ _ (Int.le_of_lt hs)
  · exact Nat.le_mul_of_pos_right _ hB
  · exact numSteps_passes_end w hs hle

end PromqlVerif.Streams
