/-
`PropagateMatchersOptimizer` on one binary expression, against the reference semantics: where the
optimizer rewrites (`propBin`: two plain selectors, no `on`, no label list, one-to-one, not a
comparison, different metric names) and the two sides have pairwise distinct label sets apart from
the name - so that the reference matching raises no error - the rewritten expression has exactly
the value of the original one, at every step: the narrower selectors drop only series that have no
partner.
-/
import PromqlVerif.Plan
import PromqlVerif.Proofs.Matchers
import PromqlVerif.Proofs.JoinPos
namespace PromqlVerif
open Val

variable {V : Type} [Val V]

theorem find_filter_of_imp {α : Type} (p Q : α → Bool) (l : List α) (h : ∀ y ∈ l, p y = true → Q y = true) :
    (l.filter Q).find? p = l.find? p := by
  induction l with
  | nil => rfl
  | cons a as ih =>
    have ih' := ih (fun y hy => h y (List.mem_cons_of_mem _ hy))
    cases hq : Q a with
    | true =>
      rw [List.filter_cons_of_pos (by simpa using hq)]
      simp only [List.find?_cons]
      cases p a <;> simp [ih']
    | false =>
      rw [List.filter_cons_of_neg (by simp [hq])]
      have hpa : p a = false := by
        cases hp : p a with
        | false => rfl
        | true => rw [h a List.mem_cons_self hp] at hq; cases hq
      simp only [List.find?_cons, hpa, ih']

/-- a selector with more matchers selects, step by step, those samples of the original selection
whose series satisfy the added matchers -/
theorem selectV_addMissing (c : Ctx V) (s : VSel) (hf : s.filters = none) (extra : List Matcher) (t : Int) :
    selectV c { s with matchers := addMissing s.matchers extra } t
      = (selectV c s t).filter fun x => matchAll c.re extra x.1 := by
  unfold selectV selectT matchingSeries VSel.allMatchers VSel.refTime VSel.offsetAt
  simp only [hf, Option.getD_none, List.append_nil]
  have hfil : (c.st.filter fun sr => matchAll c.re (addMissing s.matchers extra) sr.labels)
      = (c.st.filter fun sr => matchAll c.re s.matchers sr.labels).filter fun sr => matchAll c.re extra sr.labels := by
    rw [List.filter_filter]
    apply List.filter_congr
    intro sr _
    rw [matchAll_addMissing, Bool.and_comm]
  rw [hfil]
  generalize (c.st.filter fun sr => matchAll c.re s.matchers sr.labels) = l
  generalize (t - (s.origOffset + match s.atTs with | some a => c.start - a | none => 0)) = ref
  induction l with
  | nil => rfl
  | cons sr rest ih =>
    cases h2 : matchAll c.re extra sr.labels with
    | false =>
      rw [List.filter_cons_of_neg (by simp [h2])]
      rw [ih]
      cases hsel : selectSample c.lookback ref sr.samples with
      | none => simp [hsel]
      | some p => simp [hsel, h2]
    | true =>
      rw [List.filter_cons_of_pos (by simpa using h2)]
      cases hsel : selectSample c.lookback ref sr.samples with
      | none => simp [hsel, ih]
      | some p => simp [hsel, h2, ih]

/-- every selected sample belongs to a series that satisfies the selector's matchers -/
theorem selectV_matches (c : Ctx V) (s : VSel) (hf : s.filters = none) (t : Int) :
    ∀ x ∈ selectV c s t, matchAll c.re s.matchers x.1 = true := by
  intro x hx
  unfold selectV selectT matchingSeries VSel.allMatchers at hx
  simp only [hf, Option.getD_none, List.append_nil, List.mem_map, List.mem_filterMap, List.mem_filter] at hx
  obtain ⟨y, ⟨sr, ⟨_, hm⟩, hy⟩, rfl⟩ := hx
  cases hsel : selectSample c.lookback (s.refTime c.start t) sr.samples with
  | none => simp [hsel] at hy
  | some p =>
    simp only [hsel, Option.map_some, Option.some.injEq] at hy
    subst hy
    exact hm

theorem matchAll_sublist (re : ReTab) (ms : List Matcher) (p : Matcher → Bool) (ls : Labels)
    (h : matchAll re ms ls = true) : matchAll re (ms.filter p) ls = true := by
  unfold matchAll at *
  rw [List.all_eq_true] at *
  intro x hx
  exact h x (List.mem_filter.mp hx).1

theorem sig_all_labels (m : Matching) (h1 : m.on = false) (h2 : m.labels = []) (ls : Labels) :
    sigLabels m ls = ls.dropName := by
  unfold sigLabels
  have : ls.filter (fun _ => true) = ls := List.filter_eq_self.mpr (fun _ _ => rfl)
  simp [h1, h2, Labels.del, this]

/-- **the propagation rewrite of one binary expression preserves its value** -/
theorem propagate_node_sound (c : Ctx V) (op : String) (b : Bool) (m : Matching) (ls rs : VSel) (t : Int)
    (hul : ((selectV c ls t).map fun x => x.1.dropName).Nodup)
    (hur : ((selectV c rs t).map fun x => x.1.dropName).Nodup) :
    eval c t (propBin op b m (.vsel ls) (.vsel rs)) = eval c t (.bin op b m (.vsel ls) (.vsel rs)) := by
  unfold propBin
  simp only
  split
  · rfl
  · rename_i hcond
    simp only [Bool.or_eq_true, not_or, Bool.not_eq_true, bne_iff_ne, ne_eq, Decidable.not_not,
      Bool.not_eq_eq_eq_not, Bool.not_true, Bool.not_eq_true', Option.isSome_eq_false_iff,
      Option.isNone_iff_eq_none] at hcond
    obtain ⟨⟨⟨⟨⟨⟨_, hon⟩, hlab⟩, hcard⟩, hlf⟩, hrf⟩, _⟩ := hcond
    have hlab' : m.labels = [] := by simpa using hlab
    have hsig : ∀ x : Labels, sigLabels m x = x.dropName := sig_all_labels m hon hlab'
    have hnn : ∀ (ms : List Matcher), ∀ q ∈ ms.filter (fun x => !isNameMatcher x), isNameMatcher q = false := by
      intro ms q hq
      have := (List.mem_filter.mp hq).2
      simpa using this
    rw [eval, eval, eval, eval, eval, eval]
    simp only [bind, Except.bind, pure, Except.pure]
    rw [selectV_addMissing c ls hlf, selectV_addMissing c rs hrf]
    generalize hL : selectV c ls t = L at hul
    generalize hR : selectV c rs t = R at hur
    have hLm : ∀ x ∈ L, matchAll c.re ls.matchers x.1 = true := by rw [← hL]; exact selectV_matches c ls hlf t
    have hRm : ∀ x ∈ R, matchAll c.re rs.matchers x.1 = true := by rw [← hR]; exact selectV_matches c rs hrf t
    have hulS : (L.map fun x => sigLabels m x.1).Nodup := by simpa [hsig] using hul
    have hurS : (R.map fun x => sigLabels m x.1).Nodup := by simpa [hsig] using hur
    have hsubL : ((L.filter fun x => matchAll c.re (rs.matchers.filter fun x => !isNameMatcher x) x.1).map
        fun x => sigLabels m x.1).Nodup :=
      List.Nodup.sublist (List.Sublist.map _ List.filter_sublist) hulS
    have hsubR : ((R.filter fun x => matchAll c.re (ls.matchers.filter fun x => !isNameMatcher x) x.1).map
        fun x => sigLabels m x.1).Nodup :=
      List.Nodup.sublist (List.Sublist.map _ List.filter_sublist) hurS
    rw [vectorBinop_unique op b m hcard _ _ hsubL hsubR, vectorBinop_unique op b m hcard L R hulS hurS]
    -- the filtered left side gives what the whole left side gives
    have hlist : ((L.filter fun x => matchAll c.re (rs.matchers.filter fun x => !isNameMatcher x) x.1).filterMap
          (refPair op b m (R.filter fun x => matchAll c.re (ls.matchers.filter fun x => !isNameMatcher x) x.1)))
        = L.filterMap (refPair op b m R) := by
      rw [List.filterMap_filter]
      apply fm_congr
      intro x hx
      have hfind : (R.filter fun y => matchAll c.re (ls.matchers.filter fun x => !isNameMatcher x) y.1).find?
            (fun r => sigLabels m r.1 == sigLabels m x.1)
          = R.find? (fun r => sigLabels m r.1 == sigLabels m x.1) := by
        apply find_filter_of_imp
        intro y hy hk
        simp only [beq_iff_eq, hsig] at hk
        rw [← matchAll_dropName c.re _ y.1 (hnn ls.matchers), hk, matchAll_dropName c.re _ x.1 (hnn ls.matchers)]
        exact matchAll_sublist c.re ls.matchers _ x.1 (hLm x hx)
      cases hP : matchAll c.re (rs.matchers.filter fun x => !isNameMatcher x) x.1 with
      | true =>
        simp only [if_true]
        unfold refPair
        rw [hfind]
      | false =>
        simp only [Bool.false_eq_true, if_false]
        -- no partner: a partner would satisfy the right selector's matchers, and with it `x` would
        unfold refPair
        cases hf : R.find? (fun r => sigLabels m r.1 == sigLabels m x.1) with
        | none => rfl
        | some y =>
          exfalso
          have hy := List.mem_of_find?_eq_some hf
          have hk := List.find?_some hf
          simp only [beq_iff_eq, hsig] at hk
          have := matchAll_sublist c.re rs.matchers (fun x => !isNameMatcher x) y.1 (hRm y hy)
          rw [← matchAll_dropName c.re _ y.1 (hnn rs.matchers), hk, matchAll_dropName c.re _ x.1 (hnn rs.matchers)] at this
          rw [this] at hP
          cases hP

    rw [hlist]

end PromqlVerif
