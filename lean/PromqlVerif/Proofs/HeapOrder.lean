/-
The bounded heap of topk / bottomk keeps the k extreme samples: no kept sample is strictly
"less" (in heap order) than a dropped one. For NaN-free groups and a value order that is a strict
weak order (asymmetric, negatively transitive) - true of `Int` and of IEEE doubles without NaN.
-/
import PromqlVerif.Proofs.HeapPerm
namespace PromqlVerif
open Val

variable {V : Type} [Val V] {α : Type}

/-- the strict weak order laws of `lt`, on the values that occur -/
structure LtLaws (P : V → Prop) : Prop where
  asymm : ∀ a b, P a → P b → lt a b = true → lt b a = false
  negtrans : ∀ a b c, P a → P b → P c → lt a b = false → lt b c = false → lt a c = false

/-- heap order on NaN-free values -/
def less (top : Bool) (a b : V) : Bool := if top then lt a b else lt b a

theorem heapLess_eq (top : Bool) (a b : V) (ha : isNaN a = false) : heapLess top a b = less top a b := by
  unfold heapLess less gt
  simp [ha]

section laws
variable {P : V → Prop} (L : LtLaws P) (top : Bool)
include L

theorem less_asymm (a b : V) (ha : P a) (hb : P b) (h : less top a b = true) : less top b a = false := by
  unfold less at *
  cases top
  · simp only [Bool.false_eq_true, if_false] at h ⊢; exact L.asymm b a hb ha h
  · simp only [if_true] at h ⊢; exact L.asymm a b ha hb h

theorem less_negtrans (a b c : V) (ha : P a) (hb : P b) (hc : P c) (h1 : less top a b = false)
    (h2 : less top b c = false) : less top a c = false := by
  unfold less at *
  cases top
  · simp only [Bool.false_eq_true, if_false] at h1 h2 ⊢; exact L.negtrans c b a hc hb ha h2 h1
  · simp only [if_true] at h1 h2 ⊢; exact L.negtrans a b c ha hb hc h1 h2

theorem less_trans (a b c : V) (ha : P a) (hb : P b) (hc : P c) (h1 : less top a b = true)
    (h2 : less top b c = true) : less top a c = true := by
  cases h : less top a c with
  | true => rfl
  | false =>
    have h3 := less_asymm L top b c hb hc h2
    have := less_negtrans L top a c b ha hc hb h h3
    rw [this] at h1; cases h1

end laws

end PromqlVerif

namespace PromqlVerif
open Val

variable {V : Type} [Val V] {α : Type}

/-! ### array facts -/

theorem swap_get (h : Array (α × V)) (i j k : Nat) (x y : α × V) (hx : h[j]? = some x) (hy : h[i]? = some y)
    (hij : i ≠ j) :
    ((h.set! i x).set! j y)[k]? = if k = j then some y else if k = i then some x else h[k]? := by
  have hj : j < h.size := (Array.getElem?_eq_some_iff.mp hx).1
  have hi : i < h.size := (Array.getElem?_eq_some_iff.mp hy).1
  simp only [Array.set!_eq_setIfInBounds, Array.getElem?_setIfInBounds]
  by_cases hkj : k = j
  · subst hkj
    simp [hj]
  · by_cases hki : k = i
    · subst hki
      have : ¬ j = k := fun h => hkj h.symm
      simp [this, hi, hkj]
    · have h1 : ¬ j = k := fun h => hkj h.symm
      have h2 : ¬ i = k := fun h => hki h.symm
      simp [h1, h2, hkj, hki]

theorem swap_size (h : Array (α × V)) (i j : Nat) (x y : α × V) : ((h.set! i x).set! j y).size = h.size := by
  simp [Array.set!_eq_setIfInBounds]

/-! ### the heap invariant -/

/-- every entry's value is NaN-free and in the domain of the laws -/
def AllP (P : V → Prop) (h : Array (α × V)) : Prop :=
  ∀ (i : Nat) (x : α × V), h[i]? = some x → P x.2 ∧ isNaN x.2 = false

/-- the heap property everywhere except at the edge between `j` and its parent, where the children
of `j` are compared with the parent of `j` instead -/
def UpInv (top : Bool) (h : Array (α × V)) (j : Nat) : Prop :=
  (∀ (c : Nat) (x y : α × V), 0 < c → c ≠ j → h[c]? = some x → h[(c - 1) / 2]? = some y → less top x.2 y.2 = false) ∧
  (∀ (c : Nat) (x z : α × V), 0 < j → 0 < c → (c - 1) / 2 = j → h[c]? = some x → h[(j - 1) / 2]? = some z → less top x.2 z.2 = false)

def HeapOK (top : Bool) (h : Array (α × V)) : Prop :=
  ∀ (c : Nat) (x y : α × V), 0 < c → h[c]? = some x → h[(c - 1) / 2]? = some y → less top x.2 y.2 = false

theorem allP_swap {P : V → Prop} (h : Array (α × V)) (i j : Nat) (x y : α × V) (hx : h[j]? = some x)
    (hy : h[i]? = some y) (hij : i ≠ j) (hp : AllP P h) : AllP P ((h.set! i x).set! j y) := by
  intro k z hz
  rw [swap_get h i j k x y hx hy hij] at hz
  split at hz
  · cases hz; exact hp i y hy
  · split at hz
    · cases hz; exact hp j x hx
    · exact hp k z hz

section heap
variable {P : V → Prop} (L : LtLaws P) (top : Bool)
include L

/-- `up` (sift-up) restores the heap property -/
theorem heapUp_ok : ∀ (fuel j : Nat) (h : Array (α × V)), j < fuel → j < h.size → AllP P h → UpInv top h j →
    HeapOK top (heapUp top h fuel j) ∧ AllP P (heapUp top h fuel j) ∧ (heapUp top h fuel j).size = h.size := by
  intro fuel
  induction fuel with
  | zero => intro j h hj; omega
  | succ fuel ih =>
    intro j h hjf hjs hp hinv
    unfold heapUp
    simp only
    by_cases hj0 : (j == 0) = true
    · simp only [hj0, if_true]
      have : j = 0 := by simpa using hj0
      subst this
      exact ⟨fun c x y hc hx hy => hinv.1 c x y hc (by omega) hx hy, hp, by first | rfl | trivial⟩
    · simp only [hj0, Bool.false_eq_true, if_false]
      have hjpos : 0 < j := by
        have : j ≠ 0 := by simpa using hj0
        omega
      have hi : (j - 1) / 2 < h.size := by omega
      have hij : (j - 1) / 2 ≠ j := by omega
      have hx : h[j]? = some h[j] := by simp [hjs]
      have hy : h[(j - 1) / 2]? = some h[(j - 1) / 2] := by simp [hi]
      rw [hx, hy]
      simp only
      obtain ⟨px, nx⟩ := hp j _ hx
      obtain ⟨py, ny⟩ := hp _ _ hy
      by_cases hl : heapLess top h[j].2 h[(j - 1) / 2].2 = true
      · -- swap and continue at the parent
        have hless : less top h[j].2 h[(j - 1) / 2].2 = true := by rw [← heapLess_eq top _ _ nx]; exact hl
        simp only [hl, Bool.not_true, Bool.false_eq_true, if_false]
        have hp' := allP_swap (P := P) h ((j - 1) / 2) j h[j] h[(j - 1) / 2] hx hy hij hp
        have hsz := swap_size h ((j - 1) / 2) j h[j] h[(j - 1) / 2]
        have key := ih ((j - 1) / 2) ((h.set! ((j - 1) / 2) h[j]).set! j h[(j - 1) / 2]) (by omega)
          (by rw [hsz]; exact hi) hp' ?_
        · exact ⟨key.1, key.2.1, by rw [key.2.2, hsz]⟩
        · -- the invariant at the parent
          constructor
          · intro c x' y' hc hci hx' hy'
            rw [swap_get h _ j c _ _ hx hy hij] at hx'
            rw [swap_get h _ j ((c - 1) / 2) _ _ hx hy hij] at hy'
            by_cases hcj : c = j
            · rw [hcj] at hx' hy'
              rw [if_pos rfl] at hx'
              rw [if_neg hij, if_pos rfl] at hy'
              cases hx'; cases hy'
              exact less_asymm L top _ _ px py hless
            · simp only [hcj, hci, if_false] at hx'
              obtain ⟨pc, nc⟩ := hp c x' hx'
              by_cases hpj : (c - 1) / 2 = j
              · rw [hpj, if_pos rfl] at hy'
                cases hy'
                exact hinv.2 c x' _ hjpos hc hpj hx' hy
              · by_cases hpi : (c - 1) / 2 = (j - 1) / 2
                · rw [hpi, if_neg hij, if_pos rfl] at hy'
                  cases hy'
                  have h1 := hinv.1 c x' _ hc hcj hx' (by rw [hpi]; exact hy)
                  cases hcx : less top x'.2 h[j].2 with
                  | false => rfl
                  | true =>
                    have := less_trans L top _ _ _ pc px py hcx hless
                    rw [this] at h1; cases h1
                · rw [if_neg hpj, if_neg hpi] at hy'
                  exact hinv.1 c x' y' hc hcj hx' hy'
          · intro c x' z hi0 hc hpc hx' hz
            have hpp : ¬ ((j - 1) / 2 - 1) / 2 = j := by omega
            have hpp2 : ¬ ((j - 1) / 2 - 1) / 2 = (j - 1) / 2 := by omega
            rw [swap_get h _ j _ _ _ hx hy hij] at hz
            simp only [hpp, hpp2, if_false] at hz
            obtain ⟨pz, nz⟩ := hp _ z hz
            rw [swap_get h _ j c _ _ hx hy hij] at hx'
            by_cases hcj : c = j
            · rw [hcj] at hx'
              rw [if_pos rfl] at hx'
              cases hx'
              exact hinv.1 ((j - 1) / 2) _ z hi0 hij hy hz
            · have hci : ¬ c = (j - 1) / 2 := by omega
              simp only [hcj, hci, if_false] at hx'
              obtain ⟨pc, nc⟩ := hp c x' hx'
              have h1 := hinv.1 c x' _ hc hcj hx' (by rw [hpc]; exact hy)
              have h2 := hinv.1 ((j - 1) / 2) _ z hi0 hij hy hz
              exact less_negtrans L top _ _ _ pc py pz h1 h2
      · -- already in place
        have hl' : heapLess top h[j].2 h[(j - 1) / 2].2 = false := by simpa using hl
        simp only [hl', Bool.not_false, if_true]
        refine ⟨?_, hp, by first | rfl | trivial⟩
        intro c x' y' hc hx' hy'
        by_cases hcj : c = j
        · rw [hcj] at hx' hy'
          rw [hx] at hx'; rw [hy] at hy'
          cases hx'; cases hy'
          rw [← heapLess_eq top _ _ nx]; exact hl'
        · exact hinv.1 c x' y' hc hcj hx' hy'

/-- the heap property on the prefix `[0, n)` everywhere except at the edges below `i`, where the
children of `i` are compared with the parent of `i` instead -/
def DownInv (top : Bool) (h : Array (α × V)) (n i : Nat) : Prop :=
  (∀ (c : Nat) (x y : α × V), 0 < c → c < n → (c - 1) / 2 ≠ i → h[c]? = some x → h[(c - 1) / 2]? = some y →
    less top x.2 y.2 = false) ∧
  (∀ (c : Nat) (x z : α × V), 0 < i → 0 < c → c < n → (c - 1) / 2 = i → h[c]? = some x → h[(i - 1) / 2]? = some z →
    less top x.2 z.2 = false)

def HeapOKn (top : Bool) (h : Array (α × V)) (n : Nat) : Prop :=
  ∀ (c : Nat) (x y : α × V), 0 < c → c < n → h[c]? = some x → h[(c - 1) / 2]? = some y → less top x.2 y.2 = false

/-- `down` (sift-down) restores the heap property on the prefix and leaves the rest alone -/
theorem heapDown_ok (n : Nat) : ∀ (fuel i : Nat) (h : Array (α × V)), n ≤ i + fuel → n ≤ h.size → AllP P h →
    DownInv top h n i →
    HeapOKn top (heapDown top h n fuel i) n ∧ AllP P (heapDown top h n fuel i) ∧
      (heapDown top h n fuel i).size = h.size ∧ (∀ k, n ≤ k → (heapDown top h n fuel i)[k]? = h[k]?) := by
  intro fuel
  induction fuel with
  | zero =>
    intro i h hf hn hp hinv
    simp only [heapDown]
    refine ⟨?_, hp, by simp, by simp⟩
    intro c x y hc hcn hx hy
    exact hinv.1 c x y hc hcn (by omega) hx hy
  | succ fuel ih =>
    intro i h hf hn hp hinv
    unfold heapDown
    simp only
    by_cases hleaf : 2 * i + 1 ≥ n
    · simp only [hleaf, if_true]
      refine ⟨?_, hp, by simp, by simp⟩
      intro c x y hc hcn hx hy
      exact hinv.1 c x y hc hcn (by omega) hx hy
    · simp only [hleaf, if_false]
      have hj1 : 2 * i + 1 < n := by omega
      have hi : i < h.size := by omega
      have ha : h[2 * i + 1]? = some h[2 * i + 1] := by
        have : 2 * i + 1 < h.size := by omega
        simp [this]
      have hyi : h[i]? = some h[i] := by simp [hi]
      obtain ⟨pyi, nyi⟩ := hp i _ hyi
      obtain ⟨pa, na⟩ := hp _ _ ha
      -- the child to compare with: the smaller one (in heap order)
      have sel : ∃ j xj, smallerChild top h n i = j ∧ (j = 2 * i + 1 ∨ j = 2 * i + 2) ∧ j < n ∧ h[j]? = some xj ∧
          (∀ (c : Nat) (x : α × V), c < n → (c = 2 * i + 1 ∨ c = 2 * i + 2) → h[c]? = some x →
            less top x.2 xj.2 = false) := by
        unfold smallerChild
        rw [ha]
        have irr : ∀ (x : α × V), P x.2 → less top x.2 x.2 = false := by
          intro x px
          cases hl : less top x.2 x.2 with
          | false => rfl
          | true => have := less_asymm L top _ _ px px hl; rw [this] at hl; cases hl
        cases hb : h[2 * i + 1 + 1]? with
        | none =>
          refine ⟨2 * i + 1, _, rfl, Or.inl rfl, hj1, ha, ?_⟩
          intro c x hcn hc hx
          rcases hc with rfl | rfl
          · rw [ha] at hx; cases hx; exact irr _ pa
          · rw [hb] at hx; cases hx
        | some b =>
          obtain ⟨pb, nb⟩ := hp _ _ hb
          simp only
          by_cases hc2 : (decide (2 * i + 1 + 1 < n) && heapLess top b.2 h[2 * i + 1].2) = true
          · simp only [hc2, if_true]
            simp only [Bool.and_eq_true, decide_eq_true_eq] at hc2
            have hlb : less top b.2 h[2 * i + 1].2 = true := by rw [← heapLess_eq top _ _ nb]; exact hc2.2
            refine ⟨2 * i + 2, b, rfl, Or.inr rfl, by omega, hb, ?_⟩
            intro c x hcn hc hx
            rcases hc with rfl | rfl
            · rw [ha] at hx; cases hx
              exact less_asymm L top _ _ pb pa hlb
            · rw [hb] at hx; cases hx
              exact irr _ pb
          · have hc2' : (decide (2 * i + 1 + 1 < n) && heapLess top b.2 h[2 * i + 1].2) = false := by simpa using hc2
            simp only [hc2', Bool.false_eq_true, if_false]
            refine ⟨2 * i + 1, _, rfl, Or.inl rfl, hj1, ha, ?_⟩
            intro c x hcn hc hx
            rcases hc with rfl | rfl
            · rw [ha] at hx; cases hx; exact irr _ pa
            · rw [hb] at hx; cases hx
              have hlt : 2 * i + 1 + 1 < n := hcn
              simp only [hlt, decide_true, Bool.true_and] at hc2'
              rw [← heapLess_eq top _ _ nb]; exact hc2'
      obtain ⟨j, xj, hjdef, hjc, hjn, hxj0, hmin⟩ := sel
      rw [hjdef]
      have hjs : j < h.size := by omega
      have hxj : h[j]? = some h[j] := by simp [hjs]
      have hxje : xj = h[j] := by rw [hxj] at hxj0; cases hxj0; rfl
      rw [hxje] at hmin
      obtain ⟨pxj, nxj⟩ := hp j _ hxj
      rw [hxj, hyi]
      simp only
      have hij : i ≠ j := by omega
      have hpj : (j - 1) / 2 = i := by omega
      by_cases hl : heapLess top h[j].2 h[i].2 = true
      · have hless : less top h[j].2 h[i].2 = true := by rw [← heapLess_eq top _ _ nxj]; exact hl
        simp only [hl, Bool.not_true, Bool.false_eq_true, if_false]
        have hp' := allP_swap (P := P) h i j h[j] h[i] hxj hyi hij hp
        have hsz := swap_size h i j h[j] h[i]
        have key := ih j ((h.set! i h[j]).set! j h[i]) (by omega) (by rw [hsz]; exact hn) hp' ?_
        · refine ⟨key.1, key.2.1, by rw [key.2.2.1, hsz], ?_⟩
          intro k hk
          rw [key.2.2.2 k hk, swap_get h i j k _ _ hxj hyi hij]
          have h1 : ¬ k = j := by omega
          have h2 : ¬ k = i := by omega
          rw [if_neg h1, if_neg h2]
        · constructor
          · intro c x' y' hc hcn hpc hx' hy'
            rw [swap_get h i j c _ _ hxj hyi hij] at hx'
            rw [swap_get h i j ((c - 1) / 2) _ _ hxj hyi hij] at hy'
            rw [if_neg hpc] at hy'
            by_cases hcj : c = j
            · rw [hcj] at hx' hy'
              rw [if_pos rfl] at hx'
              rw [hpj, if_pos rfl] at hy'
              cases hx'; cases hy'
              exact less_asymm L top _ _ pxj pyi hless
            · rw [if_neg hcj] at hx'
              by_cases hci : c = i
              · rw [hci] at hx' hy'
                rw [if_pos rfl] at hx'
                cases hx'
                have hne : ¬ (i - 1) / 2 = i := by omega
                rw [if_neg hne] at hy'
                have hipos : 0 < i := by omega
                exact hinv.2 j _ y' hipos (by omega) hjn hpj hxj hy'
              · rw [if_neg hci] at hx'
                by_cases hpi : (c - 1) / 2 = i
                · rw [hpi, if_pos rfl] at hy'
                  cases hy'
                  exact hmin c x' hcn (by omega) hx'
                · rw [if_neg hpi] at hy'
                  exact hinv.1 c x' y' hc hcn hpi hx' hy'
          · intro c x' z hj0 hc hcn hpc hx' hz
            rw [hpj] at hz
            rw [swap_get h i j i _ _ hxj hyi hij] at hz
            rw [if_neg hij, if_pos rfl] at hz
            cases hz
            rw [swap_get h i j c _ _ hxj hyi hij] at hx'
            have h1 : ¬ c = j := by omega
            have h2 : ¬ c = i := by omega
            rw [if_neg h1, if_neg h2] at hx'
            exact hinv.1 c x' _ hc hcn (by omega) hx' (by rw [hpc]; exact hxj)
      · have hl' : heapLess top h[j].2 h[i].2 = false := by simpa using hl
        have hnl : less top h[j].2 h[i].2 = false := by rw [← heapLess_eq top _ _ nxj]; exact hl'
        simp only [hl', Bool.not_false, if_true]
        refine ⟨?_, hp, by simp, by simp⟩
        intro c x' y' hc hcn hx' hy'
        by_cases hpi : (c - 1) / 2 = i
        · rw [hpi, hyi] at hy'
          cases hy'
          obtain ⟨pc, _⟩ := hp c x' hx'
          have h1 := hmin c x' hcn (by omega) hx'
          exact less_negtrans L top _ _ _ pc pxj pyi h1 hnl
        · exact hinv.1 c x' y' hc hcn hpi hx' hy'

/-- the root of a heap is a minimum -/
theorem root_min (h : Array (α × V)) (hp : AllP P h) (hk : HeapOK top h) :
    ∀ (k : Nat) (x r : α × V), h[k]? = some x → h[0]? = some r → less top x.2 r.2 = false := by
  intro k
  induction k using Nat.strongRecOn with
  | _ k ih =>
    intro x r hx hr
    obtain ⟨px, _⟩ := hp k x hx
    obtain ⟨pr, _⟩ := hp 0 r hr
    by_cases hk0 : k = 0
    · subst hk0
      rw [hx] at hr; cases hr
      cases hl : less top x.2 x.2 with
      | false => rfl
      | true => have := less_asymm L top _ _ px px hl; rw [this] at hl; cases hl
    · have hks : k < h.size := (Array.getElem?_eq_some_iff.mp hx).1
      have hps : (k - 1) / 2 < h.size := by omega
      have hy : h[(k - 1) / 2]? = some h[(k - 1) / 2] := by simp [hps]
      obtain ⟨py, _⟩ := hp _ _ hy
      have h1 := hk k x _ (by omega) hx hy
      have h2 := ih ((k - 1) / 2) (by omega) _ r hy hr
      exact less_negtrans L top _ _ _ px py pr h1 h2

/-- `heap.Push` keeps the heap property -/
theorem heapPush_ok (h : Array (α × V)) (x : α × V) (hp : AllP P h) (hk : HeapOK top h) (px : P x.2)
    (nx : isNaN x.2 = false) :
    HeapOK top (heapPush top h x) ∧ AllP P (heapPush top h x) := by
  unfold heapPush
  simp only
  have hp' : AllP P (h.push x) := by
    intro i z hz
    rw [Array.getElem?_push] at hz
    split at hz
    · cases hz; exact ⟨px, nx⟩
    · exact hp i z hz
  have := heapUp_ok L top (h.push x).size ((h.push x).size - 1) (h.push x) (by simp) (by simp) hp' ?_
  · exact ⟨this.1, this.2.1⟩
  · constructor
    · intro c z y hc hcj hz hy
      have hcs : c < (h.push x).size := (Array.getElem?_eq_some_iff.mp hz).1
      simp only [Array.size_push] at hcs hcj
      have hc' : c < h.size := by omega
      rw [Array.getElem?_push] at hz hy
      have h1 : ¬ c = h.size := by omega
      have h2 : ¬ (c - 1) / 2 = h.size := by omega
      rw [if_neg h1] at hz
      rw [if_neg h2] at hy
      exact hk c z y hc hz hy
    · intro c z w _ hc hpc hz _
      have hcs : c < (h.push x).size := (Array.getElem?_eq_some_iff.mp hz).1
      simp only [Array.size_push] at hcs hpc
      omega

/-- `heap.Pop` on a heap of at least two entries: the heap property is kept, what remains plus
the old root is a rearrangement of the heap, and the old root is what was removed -/
theorem heapPop_ok (h : Array (α × V)) (hs : 2 ≤ h.size) (hp : AllP P h) (hk : HeapOK top h) :
    HeapOK top (heapPop top h) ∧ AllP P (heapPop top h) ∧
      ((heapPop top h).toList ++ [h[0]'(by omega)]).Perm h.toList := by
  unfold heapPop
  have hne : (h.size == 0) = false := by simp only [beq_eq_false_iff_ne, ne_eq]; omega
  simp only [hne, Bool.false_eq_true, if_false]
  have h0 : h[0]? = some h[0] := by
    have : 0 < h.size := by omega
    simp [this]
  have hn : h[h.size - 1]? = some h[h.size - 1] := by
    rw [Array.getElem?_eq_some_iff]; exact ⟨by omega, rfl⟩
  rw [h0, hn]
  simp only
  have h0n : 0 ≠ h.size - 1 := by omega
  have hp' := allP_swap (P := P) h 0 (h.size - 1) h[h.size - 1] h[0] hn h0 h0n hp
  have hsz := swap_size h 0 (h.size - 1) h[h.size - 1] h[0]
  have key := heapDown_ok L top (h.size - 1) (h.size - 1) 0 ((h.set! 0 h[h.size - 1]).set! (h.size - 1) h[0])
    (by omega) (by rw [hsz]; omega) hp' ?_
  · obtain ⟨d, hd⟩ : ∃ d, heapDown top ((h.set! 0 h[h.size - 1]).set! (h.size - 1) h[0]) (h.size - 1) (h.size - 1) 0 = d :=
      ⟨_, rfl⟩
    rw [hd] at key ⊢
    obtain ⟨k1, k2, k3, k4⟩ := key
    have hds : d.size = h.size := by rw [k3, hsz]
    have hlast : d[h.size - 1]? = some h[0] := by
      rw [k4 (h.size - 1) (Nat.le_refl _), swap_get h 0 (h.size - 1) (h.size - 1) _ _ hn h0 h0n]
      simp
    have hget : ∀ (k : Nat), k < h.size - 1 → d.pop[k]? = d[k]? := by
      intro k hk
      rw [Array.getElem?_pop]
      have : k < d.size - 1 := by omega
      simp [this]
    have hnone : ∀ (k : Nat), h.size - 1 ≤ k → d.pop[k]? = none := by
      intro k hk
      rw [Array.getElem?_eq_none_iff]
      simp only [Array.size_pop]; omega
    refine ⟨?_, ?_, ?_⟩
    · intro c x y hc hx hy
      have hcs : c < h.size - 1 := by
        have := (Array.getElem?_eq_some_iff.mp hx).1
        simp only [Array.size_pop] at this; omega
      rw [hget c hcs] at hx
      rw [hget _ (by omega)] at hy
      exact k1 c x y hc hcs hx hy
    · intro k x hx
      have hcs : k < h.size - 1 := by
        have := (Array.getElem?_eq_some_iff.mp hx).1
        simp only [Array.size_pop] at this; omega
      rw [hget k hcs] at hx
      exact k2 k x hx
    · -- the popped element is the old root
      have hperm := (heapDown_perm top (h.size - 1) (h.size - 1) 0 ((h.set! 0 h[h.size - 1]).set! (h.size - 1) h[0])).trans
        (swap_toList_perm h 0 (h.size - 1) _ _ hn h0)
      rw [hd] at hperm
      have hsplit : d.pop.toList ++ [h[0]] = d.toList := by
        apply List.ext_getElem?
        intro k
        by_cases hk : k < h.size - 1
        · rw [List.getElem?_append_left (by simp; omega)]
          simp only [Array.getElem?_toList]
          exact hget k hk
        · by_cases hk2 : k = h.size - 1
          · subst hk2
            rw [List.getElem?_append_right (by simp; omega)]
            simp only [Array.length_toList, Array.size_pop, Array.getElem?_toList]
            rw [hlast]
            simp [hds]
          · have : h.size ≤ k := by omega
            rw [List.getElem?_eq_none (by simp; omega)]
            simp only [Array.getElem?_toList]
            symm
            rw [Array.getElem?_eq_none_iff]; omega
      rw [hsplit]
      exact hperm
  · constructor
    · intro c x y hc hcn hpc hx hy
      rw [swap_get h 0 (h.size - 1) c _ _ hn h0 h0n] at hx
      rw [swap_get h 0 (h.size - 1) ((c - 1) / 2) _ _ hn h0 h0n] at hy
      have e1 : ¬ c = h.size - 1 := by omega
      have e2 : ¬ c = 0 := by omega
      have e3 : ¬ (c - 1) / 2 = h.size - 1 := by omega
      rw [if_neg e1, if_neg e2] at hx
      rw [if_neg e3, if_neg hpc] at hy
      exact hk c x y hc hx hy
    · intro c x z h00 _ _ _ _ _
      omega

/-- the state of one group's selection: the heap, what was dropped so far -/
structure SelInv (top : Bool) (P : V → Prop) (k : Nat) (h : Array (α × V)) (dropped : List (α × V)) : Prop where
  heap : HeapOK top h
  allP : AllP P h
  size : h.size ≤ k
  full : dropped ≠ [] → h.size = k
  below : ∀ d ∈ dropped, ∀ y ∈ h.toList, less top y.2 d.2 = false
  dropP : ∀ d ∈ dropped, P d.2

omit L in
theorem mem_toList_get (h : Array (α × V)) (y : α × V) (hy : y ∈ h.toList) : ∃ i : Nat, h[i]? = some y := by
  obtain ⟨i, hi, rfl⟩ := List.mem_iff_getElem.mp hy
  exact ⟨i, by simp at hi; simp [hi]⟩

/-- one insertion keeps the invariant; the new dropped list is the old one plus at most one entry -/
theorem kStep_sel (k : Nat) (hk : 1 ≤ k) (h : Array (α × V)) (dropped : List (α × V)) (x : α × V)
    (px : P x.2) (nx : isNaN x.2 = false) (hinv : SelInv top P k h dropped) :
    ∃ extra, SelInv top P k (kStep top k h x) (extra ++ dropped) ∧
      ((kStep top k h x).toList ++ extra).Perm (h.toList ++ [x]) := by
  unfold kStep
  cases h0 : h[0]? with
  | none =>
    have hz : h.size = 0 := by
      have := Array.getElem?_eq_none_iff.mp h0; omega
    have hemp : h = #[] := Array.eq_empty_of_size_eq_zero hz
    subst hemp
    have hd : dropped = [] := by
      cases dropped with
      | nil => rfl
      | cons d ds => have := hinv.full (by simp); simp at this; omega
    subst hd
    refine ⟨[], ⟨?_, ?_, by simp; omega, by simp, by simp, by simp⟩, by simp⟩
    · intro c a b hc ha _
      have := (Array.getElem?_eq_some_iff.mp ha).1
      simp at this; omega
    · intro i a ha
      have hi := (Array.getElem?_eq_some_iff.mp ha)
      have : i = 0 := by have := hi.1; simp at this; omega
      subst this
      simp at ha; subst ha; exact ⟨px, nx⟩
  | some t =>
    have hs : 0 < h.size := (Array.getElem?_eq_some_iff.mp h0).1
    obtain ⟨pt, nt⟩ := hinv.allP 0 t h0
    simp only
    unfold kStepCore
    have admit_eq : (decide (h.size < k) || (if top then lt t.2 x.2 else gt t.2 x.2) || isNaN t.2)
        = (decide (h.size < k) || less top t.2 x.2) := by
      simp only [nt, Bool.or_false, less, gt]
    rw [admit_eq]
    by_cases hlt : h.size < k
    · -- room left: push
      have hd : dropped = [] := by
        cases dropped with
        | nil => rfl
        | cons d ds => have := hinv.full (by simp); omega
      subst hd
      have hne : (h.size == k) = false := by simp only [beq_eq_false_iff_ne, ne_eq]; omega
      simp only [hlt, decide_true, Bool.true_or, if_true, hne, Bool.false_eq_true, if_false]
      obtain ⟨a1, a2⟩ := heapPush_ok L top h x hinv.allP hinv.heap px nx
      refine ⟨[], ⟨a1, a2, by rw [heapPush_size]; omega, by simp, by simp, by simp⟩, ?_⟩
      simpa using heapPush_perm top h x
    · have heq : h.size = k := by have := hinv.size; omega
      have hb : (h.size == k) = true := by simp [heq]
      have hdl : decide (h.size < k) = false := by simp [hlt]
      simp only [hdl, Bool.false_or]
      cases hadm : less top t.2 x.2 with
      | false =>
        -- rejected: `x` is dropped; it is not above the root, hence not above anything kept
        simp only [Bool.false_eq_true, if_false]
        refine ⟨[x], ⟨hinv.heap, hinv.allP, hinv.size, fun _ => heq, ?_, ?_⟩, by simp⟩
        · intro d hd y hy
          rcases List.mem_append.mp hd with h1 | h1
          · simp only [List.mem_singleton] at h1
            subst h1
            obtain ⟨i, hi⟩ := mem_toList_get h y hy
            obtain ⟨py, _⟩ := hinv.allP i y hi
            have := root_min L top h hinv.allP hinv.heap i y t hi h0
            exact less_negtrans L top _ _ _ py pt px this hadm
          · exact hinv.below d h1 y hy
        · intro d hd
          rcases List.mem_append.mp hd with h1 | h1
          · simp only [List.mem_singleton] at h1; subst h1; exact px
          · exact hinv.dropP d h1
      | true =>
        simp only [if_true, hb]
        by_cases hk1 : (k == 1) = true
        · -- k = 1: the single entry is replaced
          simp only [hk1, if_true]
          have hsz : h.size = 1 := by simp only [beq_iff_eq] at hk1; omega
          obtain ⟨l⟩ := h
          cases l with
          | nil => simp at hsz
          | cons a l =>
            cases l with
            | cons _ _ => simp at hsz
            | nil =>
              simp only [List.getElem?_toArray, List.getElem?_cons_zero, Option.some.injEq] at h0
              subst h0
              refine ⟨[a], ⟨?_, ?_, by simp; omega, fun _ => by simp; omega, ?_, ?_⟩, ?_⟩
              · intro c u w hc hu _
                have := (Array.getElem?_eq_some_iff.mp hu).1
                simp at this; omega
              · intro i u hu
                have hi := (Array.getElem?_eq_some_iff.mp hu)
                have : i = 0 := by have := hi.1; simp at this; omega
                subst this
                simp at hu; subst hu; exact ⟨px, nx⟩
              · intro d hd y hy
                simp only [Array.set!_eq_setIfInBounds, List.setIfInBounds_toArray, List.set_cons_zero,
                  List.mem_singleton] at hy
                subst hy
                rcases List.mem_append.mp hd with h1 | h1
                · simp only [List.mem_singleton] at h1; subst h1
                  exact less_asymm L top _ _ pt px hadm
                · have h2 := hinv.below d h1 a (by simp)
                  cases hl : less top y.2 d.2 with
                  | false => rfl
                  | true =>
                    have := less_trans L top _ _ _ pt px (hinv.dropP d h1) hadm hl
                    rw [this] at h2; cases h2
              · intro d hd
                rcases List.mem_append.mp hd with h1 | h1
                · simp only [List.mem_singleton] at h1; subst h1; exact pt
                · exact hinv.dropP d h1
              · simp only [Array.set!_eq_setIfInBounds, List.setIfInBounds_toArray, List.set_cons_zero]
                exact List.Perm.swap ..
        · -- pop the root, push `x`
          simp only [hk1, Bool.false_eq_true, if_false]
          have hk2 : 2 ≤ h.size := by
            simp only [beq_iff_eq] at hk1; omega
          obtain ⟨b1, b2, b3⟩ := heapPop_ok L top h hk2 hinv.allP hinv.heap
          obtain ⟨a1, a2⟩ := heapPush_ok L top (heapPop top h) x b2 b1 px nx
          have hroot : h[0]'(by omega) = t := by
            have := (Array.getElem?_eq_some_iff.mp h0).2; exact this
          rw [hroot] at b3
          have hpsz := heapPop_size top h hs
          refine ⟨[t], ⟨a1, a2, by rw [heapPush_size]; omega, fun _ => by rw [heapPush_size]; omega, ?_, ?_⟩, ?_⟩
          · intro d hd y hy
            have hy' : y ∈ (heapPop top h).toList ++ [x] := (heapPush_perm top _ x).mem_iff.mp hy
            have hyin : y = x ∨ y ∈ h.toList := by
              rcases List.mem_append.mp hy' with h1 | h1
              · exact Or.inr (b3.mem_iff.mp (List.mem_append_left _ h1))
              · simp only [List.mem_singleton] at h1; exact Or.inl h1
            rcases List.mem_append.mp hd with h1 | h1
            · simp only [List.mem_singleton] at h1; subst h1
              rcases hyin with rfl | hyh
              · exact less_asymm L top _ _ pt px hadm
              · obtain ⟨i, hi⟩ := mem_toList_get h y hyh
                exact root_min L top h hinv.allP hinv.heap i y d hi h0
            · rcases hyin with rfl | hyh
              · have ht : t ∈ h.toList := by
                  rw [List.mem_iff_getElem?]
                  exact ⟨0, by simpa using h0⟩
                have h2 := hinv.below d h1 t ht
                cases hl : less top y.2 d.2 with
                | false => rfl
                | true =>
                  have := less_trans L top _ _ _ pt px (hinv.dropP d h1) hadm hl
                  rw [this] at h2; cases h2
              · exact hinv.below d h1 y hyh
          · intro d hd
            rcases List.mem_append.mp hd with h1 | h1
            · simp only [List.mem_singleton] at h1; subst h1; exact pt
            · exact hinv.dropP d h1
          · have h1 := (heapPush_perm top (heapPop top h) x).append_right [t]
            refine h1.trans ?_
            have h2 : (((heapPop top h).toList ++ [x]) ++ [t]).Perm (((heapPop top h).toList ++ [t]) ++ [x]) := by
              simp only [List.append_assoc]
              exact List.Perm.append_left _ (List.Perm.swap ..)
            exact h2.trans (b3.append_right [x])

/-- **topk / bottomk keep the extreme samples of a group**: for a NaN-free group over a strict weak
order, no sample the bounded heap keeps is strictly less (in heap order: smaller for topk, larger
for bottomk) than a sample it dropped - for every `k ≥ 1` and every arrival order. Together with
`kSelect_length` (it keeps `min k n`) and `kSelect_perm` (kept plus dropped is the group), this is
"the k largest / smallest, ties broken arbitrarily". -/
theorem kSelect_extreme (k : Nat) (hk : 1 ≤ k) (items : List (α × V))
    (hitems : ∀ x ∈ items, P x.2 ∧ isNaN x.2 = false) :
    ∃ dropped, (kSelect top k items ++ dropped).Perm items ∧
      ∀ d ∈ dropped, ∀ y ∈ kSelect top k items, less top y.2 d.2 = false := by
  rw [kSelect_eq]
  have key : ∀ (items : List (α × V)) (h : Array (α × V)) (dropped done : List (α × V)),
      (∀ x ∈ items, P x.2 ∧ isNaN x.2 = false) → SelInv top P k h dropped → (h.toList ++ dropped).Perm done →
      ∃ dropped', SelInv top P k (items.foldl (kStep top k) h) dropped' ∧
        ((items.foldl (kStep top k) h).toList ++ dropped').Perm (done ++ items) := by
    intro items
    induction items with
    | nil => intro h dropped done _ hinv hp; exact ⟨dropped, hinv, by simpa using hp⟩
    | cons x xs ih =>
      intro h dropped done hit hinv hp
      simp only [List.foldl_cons]
      obtain ⟨px, nx⟩ := hit x (List.mem_cons_self ..)
      obtain ⟨extra, hinv', he⟩ := kStep_sel L top k hk h dropped x px nx hinv
      obtain ⟨d', hd1, hd2⟩ := ih (kStep top k h x) (extra ++ dropped) (done ++ [x])
        (fun y hy => hit y (List.mem_cons_of_mem _ hy)) hinv' (by
          have h1 : ((kStep top k h x).toList ++ (extra ++ dropped)).Perm ((h.toList ++ [x]) ++ dropped) := by
            rw [← List.append_assoc]
            exact he.append_right dropped
          refine h1.trans ?_
          have h2 : ((h.toList ++ [x]) ++ dropped).Perm ((h.toList ++ dropped) ++ [x]) := by
            simpa using perm_snoc_mid h.toList dropped x
          exact h2.trans (hp.append_right [x]))
      exact ⟨d', hd1, by simpa [List.append_assoc] using hd2⟩
  have init : SelInv top P k (#[] : Array (α × V)) [] := by
    refine ⟨?_, ?_, by simp, by simp, by simp, by simp⟩
    · intro c a b _ ha _
      have := (Array.getElem?_eq_some_iff.mp ha).1
      simp at this
    · intro i a ha
      have := (Array.getElem?_eq_some_iff.mp ha).1
      simp at this
  obtain ⟨d, hd1, hd2⟩ := key items #[] [] [] hitems init (by simp)
  exact ⟨d, by simpa using hd2, hd1.below⟩

end heap

end PromqlVerif
