/-
Reused accumulators compute the per-step reduction: whatever state a previous batch left behind,
`Reset(arg)` followed by the members of the step yields `engReduce`, and `HasValue` tells whether
the group had members.
-/
import PromqlVerif.Acc
namespace PromqlVerif
open Val

variable {V : Type} [Val V]

/-- counting in the value type agrees with counting in `Nat` (true of `Int`; true of IEEE doubles
below 2^53 members) -/
def CountLaw (V : Type) [Val V] : Prop := ∀ n : Nat, add (ofInt (n : Int) : V) one = ofInt ((n + 1 : Nat) : Int)

theorem foldl_count (h : CountLaw V) (vals : List V) (n : Nat) :
    vals.foldl (fun (c : V) _ => add c one) (ofInt (n : Int)) = ofInt ((n + vals.length : Nat) : Int) := by
  induction vals generalizing n with
  | nil => simp
  | cons v vs ih =>
    simp only [List.foldl_cons, List.length_cons]
    rw [h n, ih (n + 1)]
    congr 2
    omega

/-! ### per aggregation -/

theorem acc_sum (a : Acc V) (arg : V) (vals : List V) :
    (a.run "sum" arg vals).2 = if vals.isEmpty then none else some (engReduce "sum" arg vals) := by
  have key : ∀ (vals : List V) (s : Acc V),
      (vals.foldl (Acc.feed "sum") s).value = vals.foldl add s.value ∧
      (vals.foldl (Acc.feed "sum") s).hasValue = (s.hasValue || !vals.isEmpty) := by
    intro vals
    induction vals with
    | nil => intro s; simp
    | cons v vs ih =>
      intro s
      simp only [List.foldl_cons]
      obtain ⟨h1, h2⟩ := ih (Acc.feed "sum" s v)
      rw [h1, h2]
      simp [Acc.feed]
  obtain ⟨h1, h2⟩ := key vals (a.reset "sum" arg)
  unfold Acc.run
  simp only [h2, Acc.val, h1]
  cases vals with
  | nil => simp [Acc.reset]
  | cons v vs => simp [Acc.reset, engReduce]

theorem acc_count (hl : CountLaw V) (a : Acc V) (arg : V) (vals : List V) :
    (a.run "count" arg vals).2 = if vals.isEmpty then none else some (engReduce "count" arg vals) := by
  have key : ∀ (vals : List V) (s : Acc V),
      (vals.foldl (Acc.feed "count") s).value = vals.foldl (fun (c : V) _ => add c one) s.value ∧
      (vals.foldl (Acc.feed "count") s).hasValue = (s.hasValue || !vals.isEmpty) := by
    intro vals
    induction vals with
    | nil => intro s; simp
    | cons v vs ih =>
      intro s
      simp only [List.foldl_cons]
      obtain ⟨h1, h2⟩ := ih (Acc.feed "count" s v)
      rw [h1, h2]
      simp [Acc.feed]
  obtain ⟨h1, h2⟩ := key vals (a.reset "count" arg)
  unfold Acc.run
  simp only [h2, Acc.val, h1]
  cases vals with
  | nil => simp [Acc.reset]
  | cons v vs =>
    have hc := foldl_count hl (v :: vs) 0
    have e0 : (ofInt 0 : V) = ofInt ((0 : Nat) : Int) := rfl
    simp only [Acc.reset, zero, Bool.false_or, List.isEmpty_cons, Bool.not_false, if_true, Bool.false_eq_true, if_false]
    rw [e0, hc]
    simp [engReduce, aggReduce]

/-- `1` is the only count that compares equal to `1` (true of `Int`; true of IEEE doubles below
2^53 members) -/
def MeanLaw (V : Type) [Val V] : Prop := ∀ n : Nat, eq (ofInt ((n + 1 : Nat) : Int) : V) one = decide (n = 0)

theorem meanUpd_count (acc : V × V) (v : V) : (meanUpd acc v).2 = add acc.2 one := by
  unfold meanUpd
  split
  · rfl
  · split <;> rfl

/-- after the first member the engine's running mean takes the reference's steps -/
theorem addToMean_tail (hl : CountLaw V) (hm : MeanLaw V) (rest : List V) (mean : V) (n : Nat) :
    rest.foldl addToMean (mean, ofInt ((n + 1 : Nat) : Int)) = rest.foldl meanUpd (mean, ofInt ((n + 1 : Nat) : Int)) := by
  induction rest generalizing mean n with
  | nil => rfl
  | cons v vs ih =>
    simp only [List.foldl_cons]
    have hstep : addToMean (mean, ofInt ((n + 1 : Nat) : Int)) v = meanUpd (mean, ofInt ((n + 1 : Nat) : Int)) v := by
      unfold addToMean
      simp only [hl (n + 1), hm (n + 1)]
      simp
    rw [hstep]
    have hc : meanUpd (mean, ofInt ((n + 1 : Nat) : Int)) v = ((meanUpd (mean, ofInt ((n + 1 : Nat) : Int)) v).1, ofInt ((n + 1 + 1 : Nat) : Int)) := by
      have h2 := meanUpd_count (mean, ofInt ((n + 1 : Nat) : Int)) v
      simp only [hl (n + 1)] at h2
      exact Prod.ext rfl h2
    rw [hc]
    exact ih _ (n + 1)

/-- **the engine's `avg` is the reference's**: the running mean from the first member on -/
theorem engReduce_avg (hl : CountLaw V) (hm : MeanLaw V) (p : V) (v0 : V) (rest : List V) :
    engReduce "avg" p (v0 :: rest) = aggReduce "avg" p (v0 :: rest) := by
  have h0 : addToMean ((zero : V), (zero : V)) v0 = (v0, ofInt ((0 + 1 : Nat) : Int)) := by
    unfold addToMean
    have e0 : (zero : V) = ofInt ((0 : Nat) : Int) := rfl
    simp only [e0, hl 0, hm 0]
    simp
  simp only [engReduce, aggReduce, List.foldl_cons, h0]
  rw [addToMean_tail hl hm rest v0 0]
  rfl

theorem acc_avg (a : Acc V) (arg : V) (vals : List V) :
    (a.run "avg" arg vals).2 = if vals.isEmpty then none else some (engReduce "avg" arg vals) := by
  have key : ∀ (vals : List V) (s : Acc V),
      ((vals.foldl (Acc.feed "avg") s).mean, (vals.foldl (Acc.feed "avg") s).count)
        = vals.foldl addToMean (s.mean, s.count) ∧
      (vals.foldl (Acc.feed "avg") s).hasValue = (s.hasValue || !vals.isEmpty) := by
    intro vals
    induction vals with
    | nil => intro s; simp
    | cons v vs ih =>
      intro s
      simp only [List.foldl_cons]
      obtain ⟨h1, h2⟩ := ih (Acc.feed "avg" s v)
      rw [h1, h2]
      simp [Acc.feed]
  obtain ⟨h1, h2⟩ := key vals (a.reset "avg" arg)
  unfold Acc.run
  simp only [h2, Acc.val]
  have hm := congrArg (fun t => t.1) h1
  simp only at hm
  rw [hm]
  cases vals with
  | nil => simp [Acc.reset]
  | cons v vs => simp [Acc.reset, engReduce]

theorem acc_group (a : Acc V) (arg : V) (vals : List V) :
    (a.run "group" arg vals).2 = if vals.isEmpty then none else some (engReduce "group" arg vals) := by
  have key : ∀ (vals : List V) (s : Acc V),
      (vals.foldl (Acc.feed "group") s).hasValue = (s.hasValue || !vals.isEmpty) := by
    intro vals
    induction vals with
    | nil => intro s; simp
    | cons v vs ih => intro s; simp only [List.foldl_cons]; rw [ih]; simp [Acc.feed]
  unfold Acc.run
  simp only [key, Acc.val]
  cases vals with
  | nil => simp [Acc.reset]
  | cons v vs => simp [Acc.reset, engReduce, aggReduce]

theorem acc_quantile (a : Acc V) (arg : V) (vals : List V) :
    (a.run "quantile" arg vals).2 = if vals.isEmpty then none else some (engReduce "quantile" arg vals) := by
  have key : ∀ (vals : List V) (s : Acc V),
      (vals.foldl (Acc.feed "quantile") s).points = s.points ++ vals ∧
      (vals.foldl (Acc.feed "quantile") s).arg = s.arg ∧
      (vals.foldl (Acc.feed "quantile") s).hasValue = (s.hasValue || !vals.isEmpty) := by
    intro vals
    induction vals with
    | nil => intro s; simp
    | cons v vs ih =>
      intro s
      simp only [List.foldl_cons]
      obtain ⟨h1, h2, h3⟩ := ih (Acc.feed "quantile" s v)
      rw [h1, h2, h3]
      simp [Acc.feed]
  obtain ⟨h1, h2, h3⟩ := key vals (a.reset "quantile" arg)
  unfold Acc.run
  simp only [h3, Acc.val, h1, h2]
  cases vals with
  | nil => simp [Acc.reset]
  | cons v vs => simp [Acc.reset, engReduce, aggReduce]

/-- max / min: after the first member the accumulator follows the reducer's fold -/
theorem acc_extreme (op : String) (hop : op = "max" ∨ op = "min") (a : Acc V) (arg : V) (vals : List V) :
    (a.run op arg vals).2 = if vals.isEmpty then none else some (engReduce op arg vals) := by
  have key : ∀ (vals : List V) (s : Acc V), s.hasValue = true →
      (vals.foldl (Acc.feed op) s).value =
        vals.foldl (fun m v => if (if op = "max" then lt m v else gt m v) || isNaN m then v else m) s.value ∧
      (vals.foldl (Acc.feed op) s).hasValue = true := by
    intro vals
    induction vals with
    | nil => intro s hs; simp [hs]
    | cons v vs ih =>
      intro s hs
      simp only [List.foldl_cons]
      have hs' : (Acc.feed op s v).hasValue = true := by
        rcases hop with rfl | rfl <;> simp [Acc.feed]
      obtain ⟨h1, h2⟩ := ih (Acc.feed op s v) hs'
      rw [h1, h2]
      refine ⟨?_, rfl⟩
      congr 1
      rcases hop with rfl | rfl <;> simp [Acc.feed, hs]
  unfold Acc.run
  cases vals with
  | nil => rcases hop with rfl | rfl <;> simp [Acc.reset]
  | cons v vs =>
    simp only [List.foldl_cons]
    have h0 : (Acc.feed op (a.reset op arg) v).hasValue = true ∧ (Acc.feed op (a.reset op arg) v).value = v := by
      rcases hop with rfl | rfl <;> simp [Acc.feed, Acc.reset]
    obtain ⟨h1, h2⟩ := key vs _ h0.1
    simp only [h2, if_true, List.isEmpty_cons, Bool.false_eq_true, if_false]
    congr 1
    rcases hop with rfl | rfl
    · simp [Acc.val, h1, h0.2, engReduce, aggReduce]
    · simp [Acc.val, h1, h0.2, engReduce, aggReduce]

/-- stddev / stdvar: count, mean and the sum of squared distances follow the reducer's fold -/
theorem acc_spread (op : String) (hop : op = "stddev" ∨ op = "stdvar") (a : Acc V) (arg : V) (vals : List V) :
    (a.run op arg vals).2 = if vals.isEmpty then none else some (engReduce op arg vals) := by
  have key : ∀ (vals : List V) (s : Acc V), s.hasValue = true →
      ((vals.foldl (Acc.feed op) s).count, (vals.foldl (Acc.feed op) s).mean, (vals.foldl (Acc.feed op) s).value) =
        vals.foldl (fun (acc : V × V × V) v =>
          let (cnt, mean, value) := acc
          let cnt := add cnt one
          let delta := sub v mean
          let mean := add mean (div delta cnt)
          (cnt, mean, add value (mul delta (sub v mean)))) (s.count, s.mean, s.value) ∧
      (vals.foldl (Acc.feed op) s).hasValue = true := by
    intro vals
    induction vals with
    | nil => intro s hs; simp [hs]
    | cons v vs ih =>
      intro s hs
      simp only [List.foldl_cons]
      have hs' : (Acc.feed op s v).hasValue = true := by
        rcases hop with rfl | rfl <;> simp [Acc.feed, hs]
      obtain ⟨h1, h2⟩ := ih (Acc.feed op s v) hs'
      rw [h1, h2]
      refine ⟨?_, rfl⟩
      congr 1
      rcases hop with rfl | rfl <;> simp [Acc.feed, hs]
  unfold Acc.run
  cases vals with
  | nil => rcases hop with rfl | rfl <;> simp [Acc.reset]
  | cons v vs =>
    simp only [List.foldl_cons]
    have h0 : (Acc.feed op (a.reset op arg) v).hasValue = true ∧
        ((Acc.feed op (a.reset op arg) v).count, (Acc.feed op (a.reset op arg) v).mean, (Acc.feed op (a.reset op arg) v).value)
          = ((one : V), v, (zero : V)) := by
      rcases hop with rfl | rfl <;> simp [Acc.feed, Acc.reset]
    obtain ⟨h1, h2⟩ := key vs _ h0.1
    rw [h0.2] at h1
    simp only [h2, if_true, List.isEmpty_cons, Bool.false_eq_true, if_false]
    congr 1
    have hc := congrArg (fun t => t.1) h1
    have hv := congrArg (fun t => t.2.2) h1
    simp only at hc hv
    rcases hop with rfl | rfl
    · simp only [Acc.val, engReduce, aggReduce, hc, hv]
      simp
    · simp only [Acc.val, engReduce, aggReduce, hc, hv]
      simp

/-- **C04, the reused accumulators**: for every aggregation of the engine, every state a previous
batch may have left in the accumulator, every parameter and every list of members: after
`Reset(arg)` and the members of the step, `HasValue` holds iff the group has members at this step
and `ValueFunc` is the per-step reduction `engReduce` -/
theorem acc_run_eq (hl : CountLaw V) (op : String) (hop : engineAccumulators.contains op = true)
    (a : Acc V) (arg : V) (vals : List V) :
    (a.run op arg vals).2 = if vals.isEmpty then none else some (engReduce op arg vals) := by
  simp only [engineAccumulators, List.contains_eq_mem, List.mem_cons, List.mem_nil_iff, or_false,
    decide_eq_true_eq] at hop
  rcases hop with rfl | rfl | rfl | rfl | rfl | rfl | rfl | rfl | rfl
  · exact acc_sum a arg vals
  · exact acc_extreme "max" (Or.inl rfl) a arg vals
  · exact acc_extreme "min" (Or.inr rfl) a arg vals
  · exact acc_count hl a arg vals
  · exact acc_avg a arg vals
  · exact acc_group a arg vals
  · exact acc_spread "stddev" (Or.inl rfl) a arg vals
  · exact acc_spread "stdvar" (Or.inr rfl) a arg vals
  · exact acc_quantile a arg vals

/-- ... hence along all the steps that reuse one accumulator (batch after batch) every step's
output is the fresh per-step reduction: nothing leaks from one batch into the next -/
theorem acc_runs_eq (hl : CountLaw V) (op : String) (hop : engineAccumulators.contains op = true)
    (a : Acc V) (steps : List (V × List V)) :
    Acc.runs op a steps =
      steps.map fun s => if s.2.isEmpty then none else some (engReduce op s.1 s.2) := by
  induction steps generalizing a with
  | nil => rfl
  | cons s rest ih =>
    obtain ⟨arg, vals⟩ := s
    simp only [Acc.runs, List.map_cons]
    rw [acc_run_eq hl op hop a arg vals, ih]

end PromqlVerif
