import PromqlVerif.Kernels
namespace PromqlVerif
open Val

variable {V : Type} [Val V] {α : Type}

/-! ### the bounded heap only moves its elements around -/

theorem swap_toList_perm (h : Array (α × V)) (i j : Nat) (x y : α × V)
    (hx : h[j]? = some x) (hy : h[i]? = some y) :
    ((h.set! i x).set! j y).toList.Perm h.toList := by
  obtain ⟨hj, rfl⟩ := Array.getElem?_eq_some_iff.mp hx
  obtain ⟨hi, rfl⟩ := Array.getElem?_eq_some_iff.mp hy
  simp only [Array.set!_eq_setIfInBounds, Array.toList_setIfInBounds]
  have := List.set_set_perm (as := h.toList) (i := i) (j := j) (by simpa using hi) (by simpa using hj)
  simpa using this

theorem heapUp_perm (top : Bool) : ∀ (fuel j : Nat) (h : Array (α × V)),
    (heapUp top h fuel j).toList.Perm h.toList := by
  intro fuel
  induction fuel with
  | zero => intro j h; simp [heapUp]
  | succ fuel ih =>
    intro j h
    unfold heapUp
    simp only
    split
    · exact List.Perm.refl _
    · split
      · rename_i x y hx hy
        split
        · exact List.Perm.refl _
        · exact (ih _ _).trans (swap_toList_perm h _ _ x y hx hy)
      · exact List.Perm.refl _

theorem heapDown_perm (top : Bool) (n : Nat) : ∀ (fuel i : Nat) (h : Array (α × V)),
    (heapDown top h n fuel i).toList.Perm h.toList := by
  intro fuel
  induction fuel with
  | zero => intro i h; simp [heapDown]
  | succ fuel ih =>
    intro i h
    unfold heapDown
    simp only
    split
    · exact List.Perm.refl _
    · split
      · rename_i x y hx hy
        split
        · exact List.Perm.refl _
        · exact (ih _ _).trans (swap_toList_perm h _ _ x y hx hy)
      · exact List.Perm.refl _

theorem heapPush_perm (top : Bool) (h : Array (α × V)) (x : α × V) :
    (heapPush top h x).toList.Perm (h.toList ++ [x]) := by
  unfold heapPush
  simp only
  exact (heapUp_perm top _ _ _).trans (by simp)

theorem pop_toList (h : Array (α × V)) (hs : 0 < h.size) :
    ∃ a, h.pop.toList ++ [a] = h.toList := by
  refine ⟨h[h.size - 1], ?_⟩
  apply List.ext_getElem
  · simp; omega
  · intro i h1 h2
    simp only [List.length_append, Array.length_toList, Array.size_pop, List.length_cons, List.length_nil] at h1
    by_cases hi : i < h.size - 1
    · rw [List.getElem_append_left (by simpa using hi)]
      simp
    · have : i = h.size - 1 := by omega
      subst this
      rw [List.getElem_append_right (by simp)]
      simp

theorem heapPop_perm (top : Bool) (h : Array (α × V)) (hs : 0 < h.size) :
    ∃ a, ((heapPop top h).toList ++ [a]).Perm h.toList := by
  unfold heapPop
  have hne : (h.size == 0) = false := by simp only [beq_eq_false_iff_ne, ne_eq]; omega
  simp only [hne, Bool.false_eq_true, if_false]
  have h0 : h[0]? = some h[0] := by simp [hs]
  have hn : h[h.size - 1]? = some h[h.size - 1] := by
    rw [Array.getElem?_eq_some_iff]; exact ⟨by omega, rfl⟩
  rw [h0, hn]
  simp only
  have hp := (heapDown_perm top (h.size - 1) (h.size - 1) 0 ((h.set! 0 h[h.size - 1]).set! (h.size - 1) h[0])).trans
    (swap_toList_perm h 0 (h.size - 1) _ _ hn h0)
  have hsz : 0 < (heapDown top ((h.set! 0 h[h.size - 1]).set! (h.size - 1) h[0]) (h.size - 1) (h.size - 1) 0).size := by
    have := hp.length_eq
    simp only [Array.length_toList] at this
    omega
  obtain ⟨a, ha⟩ := pop_toList _ hsz
  exact ⟨a, by rw [ha]; exact hp⟩

/-- one insertion step of `kSelect`, given whether the candidate is admitted -/
def kStepCore (top : Bool) (k : Nat) (h : Array (α × V)) (x : α × V) (c : Bool) : Array (α × V) :=
  if c then
    if h.size == k then
      if k == 1 then h.set! 0 x
      else heapPush top (heapPop top h) x
    else heapPush top h x
  else h

def kStep (top : Bool) (k : Nat) (h : Array (α × V)) (x : α × V) : Array (α × V) :=
  match h[0]? with
  | none => h.push x
  | some t => kStepCore top k h x (h.size < k || (if top then lt t.2 x.2 else gt t.2 x.2) || isNaN t.2)

theorem kSelect_eq (top : Bool) (k : Nat) (items : List (α × V)) :
    kSelect top k items = (items.foldl (kStep top k) #[]).toList := rfl

theorem perm_snoc_mid (A D : List (α × V)) (x : α × V) : (A ++ x :: D).Perm ((A ++ D) ++ [x]) := by
  simp only [List.append_assoc]
  refine List.Perm.append_left _ ?_
  have := List.perm_append_comm (l₁ := [x]) (l₂ := D)
  simpa using this

theorem kStepCore_perm (top : Bool) (k : Nat) (h : Array (α × V)) (x : α × V) (c : Bool) (hs : 0 < h.size) :
    ∃ extra, ((kStepCore top k h x c).toList ++ extra).Perm (h.toList ++ [x]) := by
  unfold kStepCore
  cases c with
  | false => exact ⟨[x], by simp⟩
  | true =>
    simp only [if_true]
    by_cases hk : (h.size == k) = true
    · simp only [hk, if_true]
      by_cases hk1 : (k == 1) = true
      · simp only [hk1, if_true]
        have hsz : h.size = 1 := by
          simp only [beq_iff_eq] at hk hk1; omega
        obtain ⟨l⟩ := h
        cases l with
        | nil => simp at hsz
        | cons a l =>
          cases l with
          | cons _ _ => simp at hsz
          | nil =>
            refine ⟨[a], ?_⟩
            simp only [Array.set!_eq_setIfInBounds, List.setIfInBounds_toArray, List.set_cons_zero,
              List.cons_append, List.nil_append]
            exact List.Perm.swap ..
      · simp only [hk1, Bool.false_eq_true, if_false]
        obtain ⟨a, ha⟩ := heapPop_perm top h hs
        refine ⟨[a], ?_⟩
        have h1 := (heapPush_perm top (heapPop top h) x).append_right [a]
        refine h1.trans ?_
        have h2 : (((heapPop top h).toList ++ [x]) ++ [a]).Perm (((heapPop top h).toList ++ [a]) ++ [x]) := by
          simp only [List.append_assoc]
          exact List.Perm.append_left _ (List.Perm.swap ..)
        exact h2.trans (ha.append_right [x])
    · simp only [hk, Bool.false_eq_true, if_false]
      exact ⟨[], by simpa using heapPush_perm top h x⟩

theorem kStep_perm (top : Bool) (k : Nat) (h : Array (α × V)) (x : α × V) :
    ∃ extra, ((kStep top k h x).toList ++ extra).Perm (h.toList ++ [x]) := by
  unfold kStep
  cases h0 : h[0]? with
  | none => exact ⟨[], by simp⟩
  | some t =>
    simp only
    exact kStepCore_perm top k h x _ (Array.getElem?_eq_some_iff.mp h0).1

/-- **topk / bottomk keep input samples**: what one group's selection returns, together with what
it dropped, is a rearrangement of the group's samples - nothing is invented, nothing is duplicated -/
theorem kSelect_perm (top : Bool) (k : Nat) (items : List (α × V)) :
    ∃ dropped, (kSelect top k items ++ dropped).Perm items := by
  rw [kSelect_eq]
  have key : ∀ (items : List (α × V)) (h : Array (α × V)) (dropped done : List (α × V)),
      (h.toList ++ dropped).Perm done →
      ∃ dropped', ((items.foldl (kStep top k) h).toList ++ dropped').Perm (done ++ items) := by
    intro items
    induction items with
    | nil => intro h dropped done hp; exact ⟨dropped, by simpa using hp⟩
    | cons x xs ih =>
      intro h dropped done hp
      simp only [List.foldl_cons]
      obtain ⟨extra, he⟩ := kStep_perm top k h x
      obtain ⟨d, hd⟩ := ih (kStep top k h x) (extra ++ dropped) (done ++ [x]) (by
        have h1 : ((kStep top k h x).toList ++ (extra ++ dropped)).Perm ((h.toList ++ [x]) ++ dropped) := by
          rw [← List.append_assoc]
          exact he.append_right dropped
        refine h1.trans ?_
        have h2 : ((h.toList ++ [x]) ++ dropped).Perm ((h.toList ++ dropped) ++ [x]) := by
          simpa using perm_snoc_mid h.toList dropped x
        exact h2.trans (hp.append_right [x]))
      exact ⟨d, by simpa [List.append_assoc] using hd⟩
  obtain ⟨d, hd⟩ := key items #[] [] [] (by simp)
  exact ⟨d, by simpa using hd⟩

/-! ### how many samples a group's selection keeps -/

theorem heapPush_size (top : Bool) (h : Array (α × V)) (x : α × V) : (heapPush top h x).size = h.size + 1 := by
  have := (heapPush_perm top h x).length_eq
  simpa using this

theorem heapPop_size (top : Bool) (h : Array (α × V)) (hs : 0 < h.size) : (heapPop top h).size + 1 = h.size := by
  obtain ⟨a, ha⟩ := heapPop_perm top h hs
  have := ha.length_eq
  simpa using this

theorem kStep_size (top : Bool) (k : Nat) (hk : 1 ≤ k) (h : Array (α × V)) (x : α × V) (hle : h.size ≤ k) :
    (kStep top k h x).size = min k (h.size + 1) := by
  unfold kStep
  cases h0 : h[0]? with
  | none =>
    have hz : h.size = 0 := by
      have := Array.getElem?_eq_none_iff.mp h0
      omega
    simp only [Array.size_push, hz]
    omega
  | some t =>
    have hs : 0 < h.size := (Array.getElem?_eq_some_iff.mp h0).1
    simp only
    have key : ∀ c : Bool, (h.size < k → c = true) → (kStepCore top k h x c).size = min k (h.size + 1) := by
      intro c hc
      unfold kStepCore
      by_cases hlt : h.size < k
      · have hne : (h.size == k) = false := by simp only [beq_eq_false_iff_ne, ne_eq]; omega
        simp only [hc hlt, if_true, hne, Bool.false_eq_true, if_false, heapPush_size]
        omega
      · have heq : h.size = k := by omega
        have hb : (h.size == k) = true := by simp [heq]
        cases c with
        | false => simp only [Bool.false_eq_true, if_false]; omega
        | true =>
          simp only [if_true, hb]
          by_cases hk1 : (k == 1) = true
          · simp only [hk1, if_true, Array.set!_eq_setIfInBounds, Array.size_setIfInBounds]; omega
          · have := heapPop_size top h hs
            simp only [hk1, Bool.false_eq_true, if_false, heapPush_size]; omega
    exact key _ (by intro hlt; simp [hlt])

/-- **topk / bottomk keep exactly `min k n` samples of a group of `n`** (for `k ≥ 1`; a
non-positive `k` is handled before the heap is used) -/
theorem kSelect_length (top : Bool) (k : Nat) (hk : 1 ≤ k) (items : List (α × V)) :
    (kSelect top k items).length = min k items.length := by
  rw [kSelect_eq]
  have key : ∀ (items : List (α × V)) (h : Array (α × V)), h.size ≤ k →
      (items.foldl (kStep top k) h).size = min k (h.size + items.length) := by
    intro items
    induction items with
    | nil => intro h hle; simp only [List.foldl_nil, List.length_nil]; omega
    | cons x xs ih =>
      intro h hle
      simp only [List.foldl_cons, List.length_cons]
      have hs := kStep_size top k hk h x hle
      rw [ih _ (by rw [hs]; omega), hs]
      omega
  have := key items #[] (by simp)
  simpa using this

end PromqlVerif
