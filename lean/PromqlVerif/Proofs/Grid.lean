import PromqlVerif.Ops
namespace PromqlVerif

theorem walk_length_le (stop step : Int) (n : Nat) (t : Int) : (walk stop step n t).length ≤ n := by
  induction n generalizing t with
  | zero => simp [walk]
  | succ n ih =>
    unfold walk
    split
    · simp only [List.length_cons]; have := ih (t + step); omega
    · simp

theorem walk_succ_le {stop step : Int} {n : Nat} {t : Int} (h : t ≤ stop) :
    walk stop step (n + 1) t = t :: walk stop step n (t + step) := by
  simp [walk, h]

theorem walk_succ_gt {stop step : Int} {n : Nat} {t : Int} (h : stop < t) :
    walk stop step (n + 1) t = [] := by
  have : ¬ t ≤ stop := by omega
  simp [walk, this]

theorem walk_nil_of_gt (stop step : Int) (k : Nat) (u : Int) (hu : stop < u) : walk stop step k u = [] := by
  cases k with
  | zero => rfl
  | succ k => exact walk_succ_gt hu

/-- splitting a walk: `n + m` iterations are `n` iterations followed by `m` more from where the
first `n` stopped -/
theorem walk_add (stop step : Int) (hs : 0 ≤ step) (n m : Nat) (t : Int) :
    walk stop step (n + m) t = walk stop step n t ++ walk stop step m (t + n * step) := by
  induction n generalizing t with
  | zero => simp [walk]
  | succ n ih =>
    have e : n + 1 + m = (n + m) + 1 := by omega
    have hmul : t + step + ↑n * step = t + ↑(n + 1) * step := by
      rw [Int.natCast_add, Int.add_mul]; simp; omega
    rw [e]
    by_cases hle : t ≤ stop
    · rw [walk_succ_le hle, walk_succ_le hle, ih (t + step), hmul]
      rfl
    · have hgt : stop < t := by omega
      rw [walk_succ_gt hgt, walk_succ_gt hgt]
      have h1 : (0 : Int) ≤ ↑(n + 1) * step := Int.mul_nonneg (by omega) hs
      rw [walk_nil_of_gt stop step m _ (by omega)]
      rfl

/-- every element of a walk lies on the grid `t + k*step` and within `[t, stop]` -/
theorem walk_mem (stop step : Int) (hs : 0 ≤ step) (n : Nat) (t x : Int) (hx : x ∈ walk stop step n t) :
    t ≤ x ∧ x ≤ stop ∧ ∃ k : Nat, k < n ∧ x = t + k * step := by
  induction n generalizing t with
  | zero => simp [walk] at hx
  | succ n ih =>
    unfold walk at hx
    split at hx
    · rcases List.mem_cons.mp hx with rfl | h
      · exact ⟨Int.le_refl _, by assumption, 0, by omega, by simp⟩
      · obtain ⟨h1, h2, k, hk, rfl⟩ := ih (t + step) h
        refine ⟨by omega, h2, k + 1, by omega, ?_⟩
        rw [Int.natCast_add, Int.add_mul]; simp; omega
    · cases hx

/-- the timestamps of a walk strictly increase when the step is positive -/
theorem walk_pairwise_lt (stop step : Int) (hs : 0 < step) (n : Nat) (t : Int) :
    (walk stop step n t).Pairwise (· < ·) := by
  induction n generalizing t with
  | zero => simp [walk]
  | succ n ih =>
    unfold walk
    split
    · apply List.Pairwise.cons
      · intro x hx
        have := (walk_mem stop step (Int.le_of_lt hs) n (t + step) x hx).1
        omega
      · exact ih (t + step)
    · exact List.Pairwise.nil

end PromqlVerif

namespace PromqlVerif

/-- once `m` iterations pass the end, more fuel changes nothing -/
theorem walk_saturate (stop step : Int) (hs : 0 ≤ step) (m k : Nat) (t : Int) (hk : m ≤ k)
    (hm : stop < t + m * step) : walk stop step k t = walk stop step m t := by
  obtain ⟨d, rfl⟩ := Nat.exists_eq_add_of_le hk
  rw [walk_add stop step hs m d t, walk_nil_of_gt stop step d _ hm]
  simp

theorem numSteps_passes_end (w : Window) (hs : 0 < w.step) (hle : w.start ≤ w.stop) :
    w.stop < w.start + (w.numSteps : Int) * w.step := by
  unfold Window.numSteps
  have h1 : ¬ w.step ≤ 0 := by omega
  have h2 : ¬ w.stop < w.start := by omega
  simp only [h1, h2, if_false]
  have hnn : 0 ≤ (w.stop - w.start) / w.step := Int.ediv_nonneg (by omega) (by omega)
  have := Int.lt_ediv_add_one_mul_self (w.stop - w.start) hs
  rw [Int.natCast_add, Int.toNat_of_nonneg hnn]
  have e1 : ((1 : Nat) : Int) = 1 := rfl
  rw [e1]
  omega

/-- **The cursor protocol of the leaf operators enumerates exactly the evaluation grid**: for
every window with a positive step, every batch size `n ≥ 1` and enough fuel, the
concatenation of the batches is `w.grid` - whatever the step count (above or below the batch
size, multiple of it or not). -/
theorem leafStream_flatten (w : Window) (hs : 0 < w.step) (n : Nat) (hn : 0 < n) (fuel : Nat) (cur : Int) :
    (leafStream w n fuel cur).flatten = walk w.stop w.step (fuel * n) cur := by
  induction fuel generalizing cur with
  | zero => simp [leafStream, walk]
  | succ f ih =>
    unfold leafStream
    have hstep : ¬ w.step ≤ 0 := by omega
    by_cases hc : cur > w.stop
    · simp only [hc, if_true, List.flatten_nil]
      exact (walk_nil_of_gt _ _ _ _ hc).symm
    · simp only [hc, if_false, hstep, List.flatten_cons, leafBatch]
      rw [ih]
      have e : (f + 1) * n = n + f * n := by rw [Nat.add_mul]; omega
      rw [e, walk_add w.stop w.step (Int.le_of_lt hs) n (f * n) cur]
      congr 2
      rw [Int.mul_comm]

theorem leaf_stream_is_grid (w : Window) (hs : 0 < w.step) (hle : w.start ≤ w.stop) (B : Nat) (hB : 0 < B) :
    (leafStream w (numStepsBatch w B) w.numSteps w.start).flatten = w.grid := by
  have hn : 0 < numStepsBatch w B := by
    unfold numStepsBatch
    have : ¬ w.step ≤ 0 := by omega
    simp only [this, if_false]
    have : 0 < w.numSteps := by
      unfold Window.numSteps
      have h2 : ¬ w.stop < w.start := by omega
      simp [*]
    omega
  rw [leafStream_flatten w hs _ hn]
  have hg : w.grid = walk w.stop w.step w.numSteps w.start := by
    unfold Window.grid
    have : ¬ w.step ≤ 0 := by omega
    simp [this]
  rw [hg]
  apply walk_saturate _ _ (Int.le_of_lt hs)
  · exact Nat.le_mul_of_pos_right _ hn
  · exact numSteps_passes_end w hs hle

/-- no batch carries more than the batch size of step vectors -/
theorem leaf_batches_le (w : Window) (n fuel : Nat) (cur : Int) :
    ∀ b ∈ leafStream w n fuel cur, b.length ≤ n := by
  induction fuel generalizing cur with
  | zero => intro b hb; simp [leafStream] at hb
  | succ f ih =>
    intro b hb
    unfold leafStream at hb
    split at hb
    · cases hb
    · rcases List.mem_cons.mp hb with rfl | h
      · exact walk_length_le _ _ _ _
      · exact ih _ b h

theorem numStepsBatch_le (w : Window) (B : Nat) (hB : 0 < B) : numStepsBatch w B ≤ B := by
  unfold numStepsBatch
  split
  · omega
  · exact Nat.min_le_left _ _

/-- an instant query is one batch with one step -/
theorem leaf_stream_instant (w : Window) (hs : w.step ≤ 0) (he : w.stop = w.start) (B : Nat) :
    leafStream w (numStepsBatch w B) 2 w.start = [[w.start]] := by
  have hn : numStepsBatch w B = 1 := by simp [numStepsBatch, hs]
  rw [hn]
  unfold leafStream
  have h1 : ¬ w.start > w.stop := by omega
  simp only [h1, if_false, hs, if_true, leafBatch]
  have : walk w.stop w.step 1 w.start = [w.start] := by
    rw [walk_succ_le (by omega)]; rfl
  rw [this]
  unfold leafStream
  simp
  omega

end PromqlVerif
