/-
The reference operators do not depend on the order of their input vectors, up to the order of the
output: aggregation (for a reduction that does not depend on the order of the members) and
one-to-one vector matching with pairwise distinct match keys. These are the steps that let the
"engine = reference up to order" statements compose through nested operators
(`Proofs/TheoremP.lean`).
-/
import PromqlVerif.Proofs.Agg
import PromqlVerif.Proofs.JoinPos
import PromqlVerif.Proofs.Pushdown
namespace PromqlVerif
open Val

variable {V : Type} [Val V]

/-- the reference aggregation on a labelled vector: one output per key present, in order of first
appearance -/
theorem aggregate_eq (op : String) (w : Bool) (g : List String) (p : V) (v : Vec V)
    (hop : (op == "topk" || op == "bottomk") = false) :
    aggregate op w g p v
      = .ok ((dedup (v.map fun x => groupKey w g x.1)).map fun k =>
          (k, aggReduce op p ((v.filter fun x => groupKey w g x.1 == k).map (·.2)))) := by
  unfold aggregate
  simp only [hop, Bool.false_eq_true, if_false]
  unfold groupBy
  simp only [List.map_map, Function.comp_def]
  congr 1
  apply List.map_congr_left
  intro k hk
  rw [mem_dedup] at hk
  obtain ⟨x, hx, hkx⟩ := List.mem_map.mp hk
  have hmem : x ∈ v.filter fun x => groupKey w g x.1 == k := List.mem_filter.mpr ⟨hx, by simp [hkx]⟩
  cases hms : v.filter fun x => groupKey w g x.1 == k with
  | nil => rw [hms] at hmem; cases hmem
  | cons y rest =>
    have hy : y ∈ v.filter fun x => groupKey w g x.1 == k := by rw [hms]; exact List.mem_cons_self ..
    have hyk := (List.mem_filter.mp hy).2
    simp only [beq_iff_eq] at hyk
    simp only [groupLabels_eq_key, hyk]

theorem dedup_perm {α : Type} [BEq α] [LawfulBEq α] [DecidableEq α] {l l' : List α} (h : l.Perm l') : (dedup l).Perm (dedup l') :=
  perm_of_nodup_of_mem_iff (nodup_dedup l) (nodup_dedup l') fun a => by
    rw [mem_dedup, mem_dedup]; exact h.mem_iff

/-- **the reference aggregation does not depend on the order of its input**, up to the order of the
groups, when the reduction does not depend on the order of the members -/
theorem aggregate_perm (op : String) (w : Bool) (g : List String) (p : V) (v v' : Vec V) (hv : v.Perm v')
    (hop : (op == "topk" || op == "bottomk") = false)
    (hP : ∀ l l' : List V, l.Perm l' → aggReduce op p l = aggReduce op p l') :
    ∃ out out', aggregate op w g p v = .ok out ∧ aggregate op w g p v' = .ok out' ∧ out.Perm out' := by
  refine ⟨_, _, aggregate_eq op w g p v hop, aggregate_eq op w g p v' hop, ?_⟩
  have h1 : (dedup (v.map fun x => groupKey w g x.1)).Perm (dedup (v'.map fun x => groupKey w g x.1)) :=
    dedup_perm (hv.map _)
  have h2 : ((dedup (v'.map fun x => groupKey w g x.1)).map fun k =>
        (k, aggReduce op p ((v.filter fun x => groupKey w g x.1 == k).map (·.2))))
      = ((dedup (v'.map fun x => groupKey w g x.1)).map fun k =>
        (k, aggReduce op p ((v'.filter fun x => groupKey w g x.1 == k).map (·.2)))) := by
    apply List.map_congr_left
    intro k _
    rw [hP _ _ ((hv.filter _).map _)]
  rw [← h2]
  exact h1.map _

/-- in a list with pairwise distinct keys, the first element with a given key is the only one: a
permutation finds the same -/
theorem find_perm_unique {α κ : Type} [BEq κ] [LawfulBEq κ] (key : α → κ) (l l' : List α) (h : l.Perm l')
    (hnd : (l.map key).Nodup) (k : κ) :
    l.find? (fun r => key r == k) = l'.find? (fun r => key r == k) := by
  have hnd' : (l'.map key).Nodup := (h.map key).nodup_iff.mp hnd
  have key_inj : ∀ (m : List α), (m.map key).Nodup → ∀ a ∈ m, ∀ b ∈ m, key a = key b → a = b := by
    intro m hm
    induction m with
    | nil => intro a ha; cases ha
    | cons x xs ih =>
      simp only [List.map_cons, List.nodup_cons, List.mem_map, not_exists, not_and] at hm
      intro a ha b hb hab
      rcases List.mem_cons.mp ha with rfl | ha' <;> rcases List.mem_cons.mp hb with rfl | hb'
      · rfl
      · exact absurd hab.symm (hm.1 b hb')
      · exact absurd hab (hm.1 a ha')
      · exact ih hm.2 a ha' b hb' hab
  cases h1 : l.find? (fun r => key r == k) with
  | none =>
    cases h2 : l'.find? (fun r => key r == k) with
    | none => rfl
    | some b =>
      have hb := List.mem_of_find?_eq_some h2
      have hbk := List.find?_some h2
      have := List.find?_eq_none.mp h1 b (h.mem_iff.mpr hb)
      exact absurd hbk this
  | some a =>
    have ha := List.mem_of_find?_eq_some h1
    have hak := List.find?_some h1
    simp only [beq_iff_eq] at hak
    cases h2 : l'.find? (fun r => key r == k) with
    | none =>
      have := List.find?_eq_none.mp h2 a (h.mem_iff.mp ha)
      simp [hak] at this
    | some b =>
      have hb := List.mem_of_find?_eq_some h2
      have hbk := List.find?_some h2
      simp only [beq_iff_eq] at hbk
      rw [key_inj l' hnd' a (h.mem_iff.mp ha) b hb (by rw [hak, hbk])]

/-- **one-to-one matching with pairwise distinct match keys does not depend on the order of its
operands**, up to the order of the output -/
theorem vectorBinop_perm (op : String) (bool : Bool) (m : Matching) (hc : m.card = .oneToOne)
    (lhs lhs' rhs rhs' : Vec V) (hl : lhs.Perm lhs') (hr : rhs.Perm rhs')
    (hlu : (lhs.map fun x => sigLabels m x.1).Nodup) (hru : (rhs.map fun x => sigLabels m x.1).Nodup) :
    ∃ out out', vectorBinop op bool m lhs rhs = .ok out ∧ vectorBinop op bool m lhs' rhs' = .ok out' ∧
      out.Perm out' := by
  have hlu' : (lhs'.map fun x => sigLabels m x.1).Nodup := (hl.map _).nodup_iff.mp hlu
  have hru' : (rhs'.map fun x => sigLabels m x.1).Nodup := (hr.map _).nodup_iff.mp hru
  refine ⟨_, _, vectorBinop_unique op bool m hc lhs rhs hlu hru, vectorBinop_unique op bool m hc lhs' rhs' hlu' hru', ?_⟩
  have hfun : refPair op bool m rhs' = refPair op bool m rhs := by
    funext ls
    unfold refPair
    rw [find_perm_unique (fun r : Labels × V => sigLabels m r.1) rhs rhs' hr hru (sigLabels m ls.1)]
  rw [hfun]
  exact hl.filterMap _

/-! ### reductions that do not depend on the order of the members -/

/-- the fold of `red1`, started from "nothing yet" -/
def optStep {α : Type} (f : α → α → α) (o : Option α) (v : α) : Option α :=
  some (match o with | none => v | some m => f m v)

theorem red1_eq_optFold {α : Type} (f : α → α → α) (d : α) (l : List α) :
    red1 f d l = (l.foldl (optStep f) none).getD d := by
  cases l with
  | nil => rfl
  | cons v0 rest =>
    simp only [red1, List.foldl_cons, optStep]
    suffices h : ∀ (rest : List α) (a : α), (rest.foldl (optStep f) (some a)).getD d = rest.foldl f a from (h rest v0).symm
    intro rest
    induction rest with
    | nil => intro a; rfl
    | cons x xs ih => intro a; simp only [List.foldl_cons, optStep]; exact ih (f a x)

/-- an associative and commutative step reduces a permutation of the members to the same value -/
theorem red1_perm {α : Type} (f : α → α → α) (d : α) (hassoc : ∀ a b c, f (f a b) c = f a (f b c))
    (hcomm : ∀ a b, f a b = f b a) (l l' : List α) (h : l.Perm l') : red1 f d l = red1 f d l' := by
  rw [red1_eq_optFold, red1_eq_optFold]
  congr 1
  apply List.Perm.foldl_eq' h
  intro x _ y _ z
  cases z with
  | none => simp only [optStep]; rw [hcomm]
  | some m => simp only [optStep]; rw [hassoc, hcomm x y, ← hassoc]

/-- the replacement step of `max`/`min` is commutative where incomparable values are equal: a
trichotomy on non-NaN values (of IEEE doubles: up to the sign of zero) and a single NaN -/
theorem extStep_comm (L : LtLaws (fun v : V => isNaN v = false)) (hn : NanLaw V)
    (htri : ∀ a b : V, isNaN a = false → isNaN b = false → lt a b = false → lt b a = false → a = b)
    (hnan : ∀ a b : V, isNaN a = true → isNaN b = true → a = b) (top : Bool) (a b : V) :
    extStep top a b = extStep top b a := by
  have hless : ∀ x y : V, isNaN x = false → isNaN y = false → less top x y = false → less top y x = false → x = y := by
    intro x y hx hy h1 h2
    unfold less at h1 h2
    cases top
    · simp only [Bool.false_eq_true, if_false] at h1 h2; exact htri x y hx hy h2 h1
    · simp only [if_true] at h1 h2; exact htri x y hx hy h1 h2
  unfold extStep
  cases ha : isNaN a with
  | true =>
    cases hb : isNaN b with
    | true => simp only [Bool.or_true, if_true]; exact hnan b a hb ha
    | false =>
      simp only [Bool.or_true, if_true, Bool.or_false, less_nan_right hn top b a ha, Bool.false_eq_true, if_false]
  | false =>
    cases hb : isNaN b with
    | true =>
      simp only [Bool.or_true, if_true, Bool.or_false, less_nan_right hn top a b hb, Bool.false_eq_true, if_false]
    | false =>
      simp only [Bool.or_false]
      cases h1 : less top a b with
      | true =>
        have h2 : less top b a = false := less_asymm L top a b ha hb h1
        simp only [h2, if_true, Bool.false_eq_true, if_false]
      | false =>
        cases h2 : less top b a with
        | true => simp only [if_true, Bool.false_eq_true, if_false]
        | false => simp only [Bool.false_eq_true, if_false]; exact (hless a b ha hb h1 h2)

theorem perm_hyp_max (L : LtLaws (fun v : V => isNaN v = false)) (hn : NanLaw V)
    (htri : ∀ a b : V, isNaN a = false → isNaN b = false → lt a b = false → lt b a = false → a = b)
    (hnan : ∀ a b : V, isNaN a = true → isNaN b = true → a = b) (p : V) :
    ∀ l l' : List V, l.Perm l' → aggReduce "max" p l = aggReduce "max" p l' := by
  intro l l' h
  rw [aggReduce_max_eq, aggReduce_max_eq]
  exact red1_perm _ _ (extStep_assoc L hn true) (extStep_comm L hn htri hnan true) l l' h

theorem perm_hyp_min (L : LtLaws (fun v : V => isNaN v = false)) (hn : NanLaw V)
    (htri : ∀ a b : V, isNaN a = false → isNaN b = false → lt a b = false → lt b a = false → a = b)
    (hnan : ∀ a b : V, isNaN a = true → isNaN b = true → a = b) (p : V) :
    ∀ l l' : List V, l.Perm l' → aggReduce "min" p l = aggReduce "min" p l' := by
  intro l l' h
  rw [aggReduce_min_eq, aggReduce_min_eq]
  exact red1_perm _ _ (extStep_assoc L hn false) (extStep_comm L hn htri hnan false) l l' h

theorem perm_hyp_sum (hassoc : ∀ a b c : V, add (add a b) c = add a (add b c)) (hcomm : ∀ a b : V, add a b = add b a)
    (p : V) : ∀ l l' : List V, l.Perm l' → aggReduce "sum" p l = aggReduce "sum" p l' := by
  intro l l' h
  rw [aggReduce_sum_eq, aggReduce_sum_eq]
  exact red1_perm _ _ hassoc hcomm l l' h

theorem perm_hyp_count (p : V) : ∀ l l' : List V, l.Perm l' → aggReduce "count" p l = aggReduce "count" p l' := by
  intro l l' h
  cases l with
  | nil => rw [List.nil_perm.mp h]
  | cons a as =>
    cases l' with
    | nil => exact absurd h.symm (by simp)
    | cons b bs => simp only [aggReduce]; rw [h.length_eq]

theorem perm_hyp_group (p : V) : ∀ l l' : List V, l.Perm l' → aggReduce "group" p l = aggReduce "group" p l' := by
  intro l l' h
  cases l with
  | nil => rw [List.nil_perm.mp h]
  | cons a as =>
    cases l' with
    | nil => exact absurd h.symm (by simp)
    | cons b bs => simp only [aggReduce]

/-! ### `quantile`: the sort makes it independent of the order -/

section quantile
variable (L : LtLaws (fun v : V => isNaN v = false)) (hn : NanLaw V)
  (htri : ∀ a b : V, isNaN a = false → isNaN b = false → lt a b = false → lt b a = false → a = b)
  (hnan : ∀ a b : V, isNaN a = true → isNaN b = true → a = b)

/-- a true comparison has no NaN operand -/
theorem lt_true_not_nan (hn : NanLaw V) (a b : V) (h : lt a b = true) : isNaN a = false ∧ isNaN b = false := by
  constructor
  · cases ha : isNaN a with
    | false => rfl
    | true => rw [(hn a b ha).1] at h; cases h
  · cases hb : isNaN b with
    | false => rfl
    | true => rw [(hn b a hb).2] at h; cases h

include L hn in
theorem ltNaNFirst_negtrans (a b c : V) (h1 : ltNaNFirst a b = false) (h2 : ltNaNFirst b c = false) :
    ltNaNFirst a c = false := by
  unfold ltNaNFirst at *
  simp only [Bool.or_eq_false_iff, Bool.and_eq_false_iff, Bool.not_eq_false'] at h1 h2 ⊢
  obtain ⟨h1n, h1l⟩ := h1
  obtain ⟨h2n, h2l⟩ := h2
  cases ha : isNaN a with
  | true =>
    -- a NaN: b NaN (h1n), so c NaN (h2n)
    have hb : isNaN b = true := by rcases h1n with h | h <;> simp_all
    have hc : isNaN c = true := by rcases h2n with h | h <;> simp_all
    exact ⟨Or.inr hc, (hn a c ha).1⟩
  | false =>
    refine ⟨Or.inl rfl, ?_⟩
    cases hc : isNaN c with
    | true => exact (hn c a hc).2
    | false =>
      cases hb : isNaN b with
      | true => rcases h2n with h | h <;> simp_all
      | false => exact L.negtrans a b c ha hb hc h1l h2l

include L hn in
theorem ltNaNFirst_asymm (a b : V) (h : ltNaNFirst a b = true) : ltNaNFirst b a = false := by
  unfold ltNaNFirst at *
  simp only [Bool.or_eq_true, Bool.and_eq_true, Bool.not_eq_true'] at h
  simp only [Bool.or_eq_false_iff, Bool.and_eq_false_iff, Bool.not_eq_false']
  rcases h with ⟨ha, hb⟩ | hl
  · exact ⟨Or.inl hb, (hn a b ha).2⟩
  · obtain ⟨ha, hb⟩ := lt_true_not_nan hn a b hl
    exact ⟨Or.inl hb, L.asymm a b ha hb hl⟩

include L hn htri hnan in
/-- the sort of `quantile` gives the same list for every order of the input -/
theorem sortNaNFirst_perm (l l' : List V) (h : l.Perm l') : sortNaNFirst l = sortNaNFirst l' := by
  unfold sortNaNFirst
  have trans : ∀ a b c : V, (!ltNaNFirst b a) = true → (!ltNaNFirst c b) = true → (!ltNaNFirst c a) = true := by
    intro a b c h1 h2
    simp only [Bool.not_eq_true'] at h1 h2 ⊢
    exact ltNaNFirst_negtrans L hn c b a h2 h1
  have total : ∀ a b : V, (!ltNaNFirst b a || !ltNaNFirst a b) = true := by
    intro a b
    cases hba : ltNaNFirst b a with
    | false => rfl
    | true => simp [ltNaNFirst_asymm L hn b a hba]
  apply List.Perm.eq_of_pairwise (le := fun a b => (!ltNaNFirst b a) = true)
  · intro a b _ _ h1 h2
    simp only [Bool.not_eq_true'] at h1 h2
    unfold ltNaNFirst at h1 h2
    simp only [Bool.or_eq_false_iff, Bool.and_eq_false_iff, Bool.not_eq_false'] at h1 h2
    cases ha : isNaN a with
    | true =>
      cases hb : isNaN b with
      | true => exact hnan a b ha hb
      | false => rcases h2.1 with h | h <;> simp_all
    | false =>
      cases hb : isNaN b with
      | true => rcases h1.1 with h | h <;> simp_all
      | false => exact htri a b ha hb h2.2 h1.2
  · exact List.pairwise_mergeSort (le := fun a b => !ltNaNFirst b a) trans total l
  · exact List.pairwise_mergeSort (le := fun a b => !ltNaNFirst b a) trans total l'
  · exact ((List.mergeSort_perm l _).trans h).trans (List.mergeSort_perm l' _).symm

include L hn htri hnan in
theorem perm_hyp_quantile (p : V) : ∀ l l' : List V, l.Perm l' → aggReduce "quantile" p l = aggReduce "quantile" p l' := by
  intro l l' h
  cases l with
  | nil => rw [List.nil_perm.mp h]
  | cons a as =>
    cases l' with
    | nil => exact absurd h.symm (by simp)
    | cons b bs =>
      simp only [aggReduce, quantileK, List.isEmpty_cons, Bool.false_or]
      rw [sortNaNFirst_perm L hn htri hnan (a :: as) (b :: bs) h]

end quantile

end PromqlVerif
