import PromqlVerif.Ops
namespace PromqlVerif

variable {α β : Type}

theorem shard_bound_mono (len n i : Nat) : i * len / n ≤ (i + 1) * len / n :=
  Nat.div_le_div_right (Nat.mul_le_mul_right _ (Nat.le_succ i))

/-- the first `k` shards are the prefix of length `k*len/n` -/
theorem shards_prefix (l : List α) (n k : Nat) :
    (List.range k).flatMap (fun i => seriesShard l i n) = l.take (k * l.length / n) := by
  induction k with
  | zero => simp
  | succ k ih =>
    rw [List.range_succ, List.flatMap_append, ih]
    simp only [List.flatMap_cons, List.flatMap_nil, List.append_nil, seriesShard]
    have hm := shard_bound_mono l.length n k
    have : (k + 1) * l.length / n = k * l.length / n + ((k + 1) * l.length / n - k * l.length / n) := by omega
    conv => rhs; rw [this, List.take_add]

/-- **Contiguous sharding loses and duplicates nothing**: for every list and every shard count
`n ≥ 1` (every remainder of `len mod n`), the shards in order are the list. -/
theorem shards_cover (l : List α) (n : Nat) (hn : 0 < n) :
    (List.range n).flatMap (fun i => seriesShard l i n) = l := by
  rw [shards_prefix, Nat.mul_div_cancel_left _ hn]
  exact List.take_length

theorem filterMap_congr' {γ δ : Type} {f g : γ → Option δ} {l : List γ} (h : ∀ x ∈ l, f x = g x) :
    l.filterMap f = l.filterMap g := by
  induction l with
  | nil => rfl
  | cons x xs ih =>
    simp only [List.filterMap_cons]
    rw [h x (List.mem_cons_self ..), ih (fun y hy => h y (List.mem_cons_of_mem _ hy))]

theorem denote_append_left (S T : List α) (v : List (Nat × β)) (h : ∀ x ∈ v, x.1 < S.length) :
    denote (S ++ T) v = denote S v := by
  unfold denote
  apply filterMap_congr'
  intro x hx
  rw [List.getElem?_append_left (h x hx)]

theorem denote_append_right (S T : List α) (v : List (Nat × β)) :
    denote (S ++ T) (rebase S.length v) = denote T v := by
  unfold denote rebase
  rw [List.filterMap_map]
  apply filterMap_congr'
  intro x _
  simp only [Function.comp]
  rw [List.getElem?_append_right (by omega)]
  simp

theorem denote_append (S : List α) (v w : List (Nat × β)) :
    denote S (v ++ w) = denote S v ++ denote S w := by
  unfold denote; simp

theorem rebase_rebase (a b : Nat) (v : List (Nat × β)) : rebase a (rebase b v) = rebase (b + a) v := by
  unfold rebase; simp [List.map_map, Function.comp, Nat.add_assoc]

theorem rebase_append (a : Nat) (v w : List (Nat × β)) : rebase a (v ++ w) = rebase a v ++ rebase a w := by
  unfold rebase; simp

theorem rebase_flatten (a : Nat) (vs : List (List (Nat × β))) :
    rebase a vs.flatten = (vs.map (rebase a)).flatten := by
  induction vs with
  | nil => rfl
  | cons v vs ih => simp [rebase_append, ih]

/-- the coalesced series list and the re-based step vectors of the children, in child order -/
def coalesceSeries (cs : List (List α × List (Nat × β))) : List α := (cs.map (·.1)).flatten

def coalesceVecs : List (List α × List (Nat × β)) → List (List (Nat × β))
  | [] => []
  | c :: cs => c.2 :: (coalesceVecs cs).map (rebase c.1.length)

/-- **Coalesce, in child order**: reading the merged vector through the concatenated series
list gives the concatenation of the children's own readings - provided every child's sample
IDs index its own series list (the operator contract, C18). -/
theorem coalesce_in_order (cs : List (List α × List (Nat × β)))
    (h : ∀ c ∈ cs, ∀ x ∈ c.2, x.1 < c.1.length) :
    denote (coalesceSeries cs) (coalesceVecs cs).flatten = (cs.map fun c => denote c.1 c.2).flatten := by
  induction cs with
  | nil => rfl
  | cons c cs ih =>
    simp only [coalesceSeries, coalesceVecs, List.map_cons, List.flatten_cons]
    rw [denote_append]
    rw [denote_append_left _ _ _ (h c (List.mem_cons_self ..))]
    rw [← rebase_flatten, denote_append_right]
    have := ih (fun c' hc' => h c' (List.mem_cons_of_mem _ hc'))
    simp only [coalesceSeries] at this
    rw [this]

/-- **Coalesce, any merge order**: the goroutines of `coalesceOperator.Next` append their
vectors in completion order; whatever that order is, the merged vector denotes a permutation
of the in-order result. -/
theorem coalesce_any_order (cs : List (List α × List (Nat × β)))
    (h : ∀ c ∈ cs, ∀ x ∈ c.2, x.1 < c.1.length)
    (merged : List (List (Nat × β))) (hp : merged.Perm (coalesceVecs cs)) :
    (denote (coalesceSeries cs) merged.flatten).Perm ((cs.map fun c => denote c.1 c.2).flatten) := by
  rw [← coalesce_in_order cs h]
  unfold denote
  exact (List.Perm.flatten hp).filterMap _

end PromqlVerif
