/-
What `engJoin` builds when no two series of a side share a match key (one-to-one matching, no
include labels): every left-hand series with a partner gets its own output, labelled with the
series' result labels; the partner's table entry is exactly that output; nothing else is entered.
This discharges the hypotheses `JTables` / `Partners` of `Proofs/JoinPos.lean`.
-/
import PromqlVerif.Proofs.JoinPos
namespace PromqlVerif
open Val

variable {V : Type} [Val V]

/-! ### `enum` -/

theorem mem_enumFrom {α : Type} (l : List α) (k : Nat) (p : Nat × α) :
    p ∈ enumFrom k l ↔ ∃ idx, idx < l.length ∧ p.1 = k + idx ∧ l[idx]? = some p.2 := by
  induction l generalizing k with
  | nil => simp [enumFrom]
  | cons a l ih =>
    simp only [enumFrom, List.mem_cons, List.length_cons]
    constructor
    · rintro (rfl | h)
      · exact ⟨0, by omega, by simp, by simp⟩
      · obtain ⟨idx, h1, h2, h3⟩ := (ih (k + 1) ).mp h
        exact ⟨idx + 1, by omega, by omega, by simpa using h3⟩
    · rintro ⟨idx, h1, h2, h3⟩
      cases idx with
      | zero =>
        left
        simp only [List.getElem?_cons_zero, Option.some.injEq] at h3
        exact Prod.ext (by simpa using h2) h3.symm
      | succ idx =>
        right
        exact (ih (k + 1)).mpr ⟨idx, by omega, by omega, by simpa using h3⟩

theorem enumFrom_fst_nodup {α : Type} (l : List α) (k : Nat) : ((enumFrom k l).map (·.1)).Nodup := by
  induction l generalizing k with
  | nil => exact List.nodup_nil
  | cons a l ih =>
    simp only [enumFrom, List.map_cons]
    refine List.nodup_cons.mpr ⟨?_, ih (k + 1)⟩
    intro h
    obtain ⟨p, hp, hpk⟩ := List.mem_map.mp h
    obtain ⟨idx, _, h2, _⟩ := (mem_enumFrom l (k + 1) p).mp hp
    omega

/-- a filter of an indexed list in which all survivors have the same index has at most one element -/
theorem filter_enum_le_one {α β : Type} (l : List α) (f : Nat × α → β) (P : β → Bool) (idx : β → Nat)
    (hidx : ∀ p, idx (f p) = p.1)
    (hall : ∀ p ∈ enum l, ∀ q ∈ enum l, P (f p) = true → P (f q) = true → p.1 = q.1) :
    (((enum l).map f).filter P).length ≤ 1 := by
  have hnd : ((((enum l).map f).filter P).map idx).Nodup := by
    have h1 : ((enum l).map f).map idx = (enum l).map (·.1) := by
      rw [List.map_map]
      apply List.map_congr_left
      intro p _
      exact hidx p
    have h2 : (((enum l).map f).map idx).Nodup := by rw [h1]; exact enumFrom_fst_nodup l 0
    exact (List.Nodup.sublist ((List.filter_sublist).map idx) h2)
  cases hF : ((enum l).map f).filter P with
  | nil => simp
  | cons a rest =>
    cases rest with
    | nil => simp
    | cons b rest' =>
      exfalso
      have hmem : ∀ x ∈ ((enum l).map f).filter P, ∃ p ∈ enum l, x = f p ∧ P (f p) = true := by
        intro x hx
        obtain ⟨hx1, hx2⟩ := List.mem_filter.mp hx
        obtain ⟨p, hp, rfl⟩ := List.mem_map.mp hx1
        exact ⟨p, hp, rfl, hx2⟩
      rw [hF] at hnd hmem
      obtain ⟨p, hp, rfl, hPp⟩ := hmem a List.mem_cons_self
      obtain ⟨q, hq, rfl, hPq⟩ := hmem b (List.mem_cons_of_mem _ List.mem_cons_self)
      simp only [List.map_cons, List.nodup_cons, List.mem_cons, not_or] at hnd
      exact hnd.1.1 (by rw [hidx p, hidx q]; exact hall p hp q hq hPp hPq)

/-- folding over a duplicate-free list with an invariant that knows what has been processed -/
theorem foldl_done {β γ : Type} (P : List γ → β → Prop) (f : β → γ → β)
    (hstep : ∀ done b a, a ∉ done → P done b → P (a :: done) (f b a)) :
    ∀ (l : List γ) (done : List γ) (b : β), l.Nodup → (∀ a ∈ l, a ∉ done) → P done b →
      ∃ done', (∀ a, a ∈ done' ↔ a ∈ done ∨ a ∈ l) ∧ P done' (l.foldl f b) := by
  intro l
  induction l with
  | nil => intro done b _ _ h; exact ⟨done, fun a => by simp, h⟩
  | cons x xs ih =>
    intro done b hnd hfresh h
    obtain ⟨hx, hxs⟩ := List.nodup_cons.mp hnd
    have h1 := hstep done b x (hfresh x List.mem_cons_self) h
    obtain ⟨done', hd, hp⟩ := ih (x :: done) (f b x) hxs (fun a ha => by
      intro hmem
      rcases List.mem_cons.mp hmem with rfl | hmem
      · exact hx ha
      · exact hfresh a (List.mem_cons_of_mem _ ha) hmem) h1
    refine ⟨done', fun a => ?_, hp⟩
    rw [hd a]
    simp only [List.mem_cons]
    constructor
    · rintro ((rfl | h) | h)
      · exact Or.inr (Or.inl rfl)
      · exact Or.inl h
      · exact Or.inr (Or.inr h)
    · rintro (h | rfl | h)
      · exact Or.inl (Or.inr h)
      · exact Or.inl (Or.inl rfl)
      · exact Or.inr h

section tables
variable (m : Matching) (keepName : Bool) (high low : List Labels)

/-- match key and output labels of a series -/
def kOf (ls : Labels) : Labels := (engSignature m keepName ls).1
def oOf (ls : Labels) : Labels := (engSignature m keepName ls).2

/-- the invariant of `engJoin`'s loop over the buckets, `done` being the keys processed so far -/
structure JInv (pmInv : Nat → Option Nat) (done : List Labels) (j : Join) : Prop where
  len_hi : j.highIdx.length = high.length
  len_lo : j.lowIdx.length = low.length
  hi_sound : ∀ i o, j.highIdx.getD i none = some o →
    o < j.outputs.length ∧ j.outputs.getD o [] = oOf m keepName (high.getD i []) ∧
      kOf m keepName (high.getD i []) ∈ done ∧ i < high.length
  hi_fresh : ∀ i, kOf m keepName (high.getD i []) ∉ done → j.highIdx.getD i none = none
  lo_done : ∀ l, l < low.length → kOf m keepName (low.getD l []) ∈ done →
    match pmInv l with
    | some i => ∃ o, j.highIdx.getD i none = some o ∧ j.lowIdx.getD l [] = [o]
    | none => j.lowIdx.getD l [] = []
  lo_fresh : ∀ l, kOf m keepName (low.getD l []) ∉ done → j.lowIdx.getD l [] = []

theorem getD_set_self {α : Type} (l : List α) (i : Nat) (a d : α) (h : i < l.length) : (l.set i a).getD i d = a := by
  rw [List.getD_eq_getElem?_getD, List.getElem?_set]
  simp [h]

theorem getD_set_ne {α : Type} (l : List α) (i j : Nat) (a d : α) (h : i ≠ j) : (l.set i a).getD j d = l.getD j d := by
  rw [List.getD_eq_getElem?_getD, List.getD_eq_getElem?_getD, List.getElem?_set]
  simp [h]

theorem getD_append_left {α : Type} (l l' : List α) (i : Nat) (d : α) (h : i < l.length) : (l ++ l').getD i d = l.getD i d := by
  rw [List.getD_eq_getElem?_getD, List.getD_eq_getElem?_getD, List.getElem?_append_left h]

theorem getD_append_length {α : Type} (l : List α) (a d : α) : (l ++ [a]).getD l.length d = a := by
  rw [List.getD_eq_getElem?_getD]
  simp

/-- the two sides' keys are unique, and `pmInv` is the partner map they determine -/
structure KeyFacts (pmInv : Nat → Option Nat) : Prop where
  uh : ∀ i i', i < high.length → i' < high.length →
    kOf m keepName (high.getD i []) = kOf m keepName (high.getD i' []) → i = i'
  ul : ∀ l l', l < low.length → l' < low.length →
    kOf m keepName (low.getD l []) = kOf m keepName (low.getD l' []) → l = l'
  p_sound : ∀ l i, pmInv l = some i → i < high.length ∧ l < low.length ∧
    kOf m keepName (high.getD i []) = kOf m keepName (low.getD l [])
  p_complete : ∀ l i, i < high.length → l < low.length →
    kOf m keepName (high.getD i []) = kOf m keepName (low.getD l []) → pmInv l = some i

/-- a bucket that enters nothing: no right-hand series with this key has a partner -/
theorem jinv_skip (pmInv : Nat → Option Nat) (done : List Labels) (j : Join) (key : Labels)
    (hinv : JInv m keepName high low pmInv done j)
    (hnone : ∀ l, l < low.length → kOf m keepName (low.getD l []) = key → pmInv l = none)
    (hhi : ∀ i, kOf m keepName (high.getD i []) = key → j.highIdx.getD i none = none) :
    JInv m keepName high low pmInv (key :: done) j := by
  refine ⟨hinv.len_hi, hinv.len_lo, ?_, ?_, ?_, ?_⟩
  · intro i o h
    obtain ⟨h1, h2, h3, h4⟩ := hinv.hi_sound i o h
    exact ⟨h1, h2, List.mem_cons_of_mem _ h3, h4⟩
  · intro i h
    by_cases hk : kOf m keepName (high.getD i []) = key
    · exact hhi i hk
    · exact hinv.hi_fresh i (fun hd => h (List.mem_cons_of_mem _ hd))
  · intro l hl h
    rcases List.mem_cons.mp h with hk | hd
    · rw [hnone l hl hk]
      simp only
      by_cases hdone : kOf m keepName (low.getD l []) ∈ done
      · have := hinv.lo_done l hl hdone
        rw [hnone l hl hk] at this
        exact this
      · exact hinv.lo_fresh l hdone
    · exact hinv.lo_done l hl hd
  · intro l h
    exact hinv.lo_fresh l (fun hd => h (List.mem_cons_of_mem _ hd))

/-- a bucket with one series on each side: one new output, entered in both tables -/
theorem jinv_assign (pmInv : Nat → Option Nat) (hk : KeyFacts m keepName high low pmInv)
    (done : List Labels) (j : Join) (key : Labels) (hinv : JInv m keepName high low pmInv done j)
    (hfresh : key ∉ done) (n l0 : Nat) (hn : n < high.length) (hl0 : l0 < low.length)
    (hkn : kOf m keepName (high.getD n []) = key) (hkl : kOf m keepName (low.getD l0 []) = key) :
    JInv m keepName high low pmInv (key :: done)
      { outputs := j.outputs ++ [oOf m keepName (high.getD n [])]
        highIdx := j.highIdx.set n (some j.outputs.length)
        lowIdx := j.lowIdx.set l0 (j.lowIdx.getD l0 [] ++ [j.outputs.length]) } := by
  have hpm : pmInv l0 = some n := hk.p_complete l0 n hn hl0 (by rw [hkn, hkl])
  have hlow0 : j.lowIdx.getD l0 [] = [] := hinv.lo_fresh l0 (by rw [hkl]; exact hfresh)
  refine ⟨by simp [hinv.len_hi], by simp [hinv.len_lo], ?_, ?_, ?_, ?_⟩
  · intro i o h
    simp only at h ⊢
    by_cases hi : n = i
    · subst hi
      rw [getD_set_self _ _ _ _ (by rw [hinv.len_hi]; exact hn)] at h
      simp only [Option.some.injEq] at h
      subst h
      refine ⟨by simp, getD_append_length _ _ _, by rw [hkn]; exact List.mem_cons_self, hn⟩
    · rw [getD_set_ne _ _ _ _ _ hi] at h
      obtain ⟨h1, h2, h3, h4⟩ := hinv.hi_sound i o h
      refine ⟨by simp; omega, by rw [getD_append_left _ _ _ _ h1]; exact h2, List.mem_cons_of_mem _ h3, h4⟩
  · intro i h
    simp only
    have hne : n ≠ i := by
      intro he; subst he
      exact h (by rw [hkn]; exact List.mem_cons_self)
    rw [getD_set_ne _ _ _ _ _ hne]
    exact hinv.hi_fresh i (fun hd => h (List.mem_cons_of_mem _ hd))
  · intro l hl h
    simp only
    by_cases hll : l0 = l
    · subst hll
      rw [hpm]
      simp only
      refine ⟨j.outputs.length, getD_set_self _ _ _ _ (by rw [hinv.len_hi]; exact hn), ?_⟩
      rw [getD_set_self _ _ _ _ (by rw [hinv.len_lo]; exact hl0), hlow0]
      rfl
    · rw [getD_set_ne _ _ _ _ _ hll]
      have hkne : kOf m keepName (low.getD l []) ≠ key := by
        intro he
        exact hll (hk.ul l0 l hl0 hl (by rw [hkl, he]))
      have hd : kOf m keepName (low.getD l []) ∈ done := by
        rcases List.mem_cons.mp h with h' | h'
        · exact absurd h' hkne
        · exact h'
      have := hinv.lo_done l hl hd
      cases hp : pmInv l with
      | none => rw [hp] at this; exact this
      | some i =>
        rw [hp] at this
        simp only at this ⊢
        obtain ⟨o, ho, hlo⟩ := this
        have hni : n ≠ i := by
          intro he; subst he
          have := (hk.p_sound l n hp).2.2
          exact hkne (by rw [← this, hkn])
        exact ⟨o, by rw [getD_set_ne _ _ _ _ _ hni]; exact ho, hlo⟩
  · intro l h
    simp only
    have hne : l0 ≠ l := by
      intro he; subst he
      exact h (by rw [hkl]; exact List.mem_cons_self)
    rw [getD_set_ne _ _ _ _ _ hne]
    exact hinv.lo_fresh l (fun hd => h (List.mem_cons_of_mem _ hd))

/-- the body of `engJoin`'s loop over the buckets -/
def engJoinStep (j : Join) (key : Labels) : Join :=
  let hs := (enum high).map fun (i, ls) => (i, engSignature m keepName ls)
  let lsigs := (enum low).map fun (i, ls) => (i, engSignature m keepName ls)
  let lowIn := lsigs.filter (·.2.1 == key)
  match lowIn with
  | [] => j
  | low0 :: _ =>
    (hs.filter (·.2.1 == key)).foldl (fun (j : Join) h =>
      let oid := j.outputs.length
      let metric := h.2.2 ++ (if m.incl.isEmpty then [] else low0.2.2.keep m.incl)
      { outputs := j.outputs ++ [metric]
        highIdx := j.highIdx.set h.1 (some oid)
        lowIdx := lowIn.foldl (fun li l => li.set l.1 (li.getD l.1 [] ++ [oid])) j.lowIdx }) j

theorem engJoin_eq_foldl :
    engJoin m keepName high low
      = ((((enum high).map fun (i, ls) => (i, engSignature m keepName ls)).map (·.2.1)).eraseDups).foldl
          (engJoinStep m keepName high low) ⟨[], high.map (fun _ => none), low.map (fun _ => [])⟩ := rfl

/-- the entries of the signature lists -/
theorem mem_sigs (S : List Labels) (e : Nat × Labels × Labels)
    (h : e ∈ (enum S).map fun (i, ls) => (i, engSignature m keepName ls)) :
    e.1 < S.length ∧ e.2 = engSignature m keepName (S.getD e.1 []) := by
  obtain ⟨p, hp, rfl⟩ := List.mem_map.mp h
  obtain ⟨idx, h1, h2, h3⟩ := (mem_enumFrom S 0 p).mp hp
  simp only [Nat.zero_add] at h2
  refine ⟨by rw [h2]; exact h1, ?_⟩
  simp only
  rw [h2, List.getD_eq_getElem?_getD, h3]
  rfl

theorem sigs_mem (S : List Labels) (i : Nat) (hi : i < S.length) :
    (i, engSignature m keepName (S.getD i [])) ∈ (enum S).map fun (i, ls) => (i, engSignature m keepName ls) := by
  apply List.mem_map.mpr
  refine ⟨(i, S.getD i []), (mem_enumFrom S 0 _).mpr ⟨i, hi, by simp, ?_⟩, rfl⟩
  rw [List.getD_eq_getElem?_getD, List.getElem?_eq_getElem hi]
  rfl

theorem engJoin_step (hincl : m.incl = []) (pmInv : Nat → Option Nat) (hk : KeyFacts m keepName high low pmInv)
    (done : List Labels) (j : Join) (key : Labels) (hfresh : key ∉ done)
    (hinv : JInv m keepName high low pmInv done j) :
    JInv m keepName high low pmInv (key :: done) (engJoinStep m keepName high low j key) := by
  unfold engJoinStep
  simp only
  -- what the two filtered signature lists hold
  have hmemS : ∀ (S : List Labels) (e : Nat × Labels × Labels),
      e ∈ ((enum S).map fun (i, ls) => (i, engSignature m keepName ls)).filter (·.2.1 == key) →
      e.1 < S.length ∧ e.2 = engSignature m keepName (S.getD e.1 []) ∧ kOf m keepName (S.getD e.1 []) = key := by
    intro S e he
    obtain ⟨h1, h2⟩ := List.mem_filter.mp he
    obtain ⟨h3, h4⟩ := mem_sigs m keepName S e h1
    refine ⟨h3, h4, ?_⟩
    simp only [beq_iff_eq] at h2
    rw [← h2, h4]
    rfl
  have hinS : ∀ (S : List Labels) (i : Nat), i < S.length → kOf m keepName (S.getD i []) = key →
      (i, engSignature m keepName (S.getD i [])) ∈
        ((enum S).map fun (i, ls) => (i, engSignature m keepName ls)).filter (·.2.1 == key) := by
    intro S i hi hki
    exact List.mem_filter.mpr ⟨sigs_mem m keepName S i hi, by simpa [kOf] using hki⟩
  have hleS : ∀ (S : List Labels), (∀ i i', i < S.length → i' < S.length →
        kOf m keepName (S.getD i []) = kOf m keepName (S.getD i' []) → i = i') →
      (((enum S).map fun (i, ls) => (i, engSignature m keepName ls)).filter (·.2.1 == key)).length ≤ 1 := by
    intro S hU
    apply filter_enum_le_one S (fun p => (p.1, engSignature m keepName p.2)) (·.2.1 == key) (·.1) (fun _ => rfl)
    intro p hp q hq hPp hPq
    obtain ⟨i1, h11, h12, h13⟩ := (mem_enumFrom S 0 p).mp hp
    obtain ⟨i2, h21, h22, h23⟩ := (mem_enumFrom S 0 q).mp hq
    simp only [Nat.zero_add] at h12 h22
    simp only [beq_iff_eq] at hPp hPq
    have e1 : kOf m keepName (S.getD p.1 []) = key := by
      rw [h12, List.getD_eq_getElem?_getD, h13]; exact hPp
    have e2 : kOf m keepName (S.getD q.1 []) = key := by
      rw [h22, List.getD_eq_getElem?_getD, h23]; exact hPq
    exact hU p.1 q.1 (by rw [h12]; exact h11) (by rw [h22]; exact h21) (by rw [e1, e2])
  have hlow_le := hleS low hk.ul
  have hhigh_le := hleS high hk.uh
  have hlow_mem := hmemS low
  have hhigh_mem := hmemS high
  have hlow_in := hinS low
  have hhigh_in := hinS high
  generalize ((enum low).map fun (i, ls) => (i, engSignature m keepName ls)).filter (·.2.1 == key) = lowIn
    at hlow_le hlow_mem hlow_in
  generalize ((enum high).map fun (i, ls) => (i, engSignature m keepName ls)).filter (·.2.1 == key) = F
    at hhigh_le hhigh_mem hhigh_in
  have hhi_none : ∀ i, kOf m keepName (high.getD i []) = key → j.highIdx.getD i none = none :=
    fun i hi => hinv.hi_fresh i (by rw [hi]; exact hfresh)
  cases lowIn with
  | nil =>
    apply jinv_skip m keepName high low pmInv done j key hinv ?_ hhi_none
    intro l hl hkl
    have := hlow_in l hl hkl
    cases this
  | cons e rest =>
    have hrest : rest = [] := by
      cases rest with
      | nil => rfl
      | cons _ _ => simp at hlow_le
    subst hrest
    simp only
    obtain ⟨he1, he2, he3⟩ := hlow_mem e List.mem_cons_self
    cases F with
    | nil =>
      simp only [List.foldl_nil]
      apply jinv_skip m keepName high low pmInv done j key hinv ?_ hhi_none
      intro l hl hkl
      cases hp : pmInv l with
      | none => rfl
      | some i =>
        exfalso
        obtain ⟨hi, _, hki⟩ := hk.p_sound l i hp
        have := hhigh_in i hi (by rw [hki, hkl])
        cases this
    | cons h frest =>
      have hfrest : frest = [] := by
        cases frest with
        | nil => rfl
        | cons _ _ => simp at hhigh_le
      subst hfrest
      obtain ⟨hh1, hh2, hh3⟩ := hhigh_mem h List.mem_cons_self
      simp only [List.foldl_cons, List.foldl_nil, hincl, List.isEmpty_nil, if_true, List.append_nil]
      have hmetric : h.2.2 = oOf m keepName (high.getD h.1 []) := by rw [hh2]; rfl
      rw [hmetric]
      exact jinv_assign m keepName high low pmInv hk done j key hinv hfresh h.1 e.1 hh1 he1 hh3 he3

theorem enum_map_snd {α β : Type} (g : α → β) (l : List α) (k : Nat) :
    (enumFrom k l).map (fun p => g p.2) = l.map g := by
  induction l generalizing k with
  | nil => rfl
  | cons a l ih => simp [enumFrom, ih]

theorem nodup_keys_of_unique (S : List Labels)
    (hU : ∀ i i', i < S.length → i' < S.length →
      kOf m keepName (S.getD i []) = kOf m keepName (S.getD i' []) → i = i') :
    (S.map (kOf m keepName)).Nodup := by
  induction S with
  | nil => exact List.nodup_nil
  | cons a S ih =>
    simp only [List.map_cons]
    refine List.nodup_cons.mpr ⟨?_, ih ?_⟩
    · intro h
      obtain ⟨b, hb, hbk⟩ := List.mem_map.mp h
      obtain ⟨i, hi, rfl⟩ := List.getElem_of_mem hb
      have := hU 0 (i + 1) (by simp) (by simp; omega) (by
        simp only [List.getD_cons_zero, List.getD_cons_succ]
        rw [List.getD_eq_getElem?_getD, List.getElem?_eq_getElem hi]
        exact hbk.symm)
      omega
    · intro i i' hi hi' hk
      have := hU (i + 1) (i' + 1) (by simp; omega) (by simp; omega) (by simpa using hk)
      omega

/-- **what `engJoin` builds under unique match keys** (no include labels): the invariant holds at
the end, for a `done` that is exactly the set of left-hand keys -/
theorem engJoin_inv (hincl : m.incl = []) (pmInv : Nat → Option Nat) (hk : KeyFacts m keepName high low pmInv) :
    ∃ done, (∀ a, a ∈ done ↔ a ∈ high.map (kOf m keepName)) ∧
      JInv m keepName high low pmInv done (engJoin m keepName high low) := by
  rw [engJoin_eq_foldl]
  have hkeys : (((enum high).map fun (i, ls) => (i, engSignature m keepName ls)).map (·.2.1))
      = high.map (kOf m keepName) := by
    rw [List.map_map]
    exact enum_map_snd (fun ls => (engSignature m keepName ls).1) high 0
  have hnd := nodup_keys_of_unique m keepName high hk.uh
  rw [hkeys, eraseDups_of_nodup _ hnd]
  have hinit : JInv m keepName high low pmInv [] ⟨[], high.map (fun _ => none), low.map (fun _ => [])⟩ := by
    refine ⟨by simp, by simp, ?_, ?_, ?_, ?_⟩
    · intro i o h
      simp only [List.getD_eq_getElem?_getD, List.getElem?_map] at h
      cases hh : high[i]? <;> simp [hh] at h
    · intro i _
      simp only [List.getD_eq_getElem?_getD, List.getElem?_map]
      cases high[i]? <;> rfl
    · intro l _ h; cases h
    · intro l _
      simp only [List.getD_eq_getElem?_getD, List.getElem?_map]
      cases low[l]? <;> rfl
  obtain ⟨done', hd, hp⟩ := foldl_done (JInv m keepName high low pmInv) (engJoinStep m keepName high low)
    (fun done b a hfresh hinv => engJoin_step m keepName high low hincl pmInv hk done b a hfresh hinv)
    (high.map (kOf m keepName)) [] _ hnd (fun a _ h => by cases h) hinit
  exact ⟨done', fun a => by rw [hd a]; simp, hp⟩

/-- ... hence the tables are what the step theorem needs -/
theorem engJoin_tables (hincl : m.incl = []) (pmInv : Nat → Option Nat) (hk : KeyFacts m keepName high low pmInv) :
    JTables (engJoin m keepName high low) high (oOf m keepName) pmInv := by
  obtain ⟨done, hd, hinv⟩ := engJoin_inv m keepName high low hincl pmInv hk
  have hok := engJoin_ok m keepName high low
  have conv : ∀ i o, (engJoin m keepName high low).highIdx.getD i none = some o →
      (engJoin m keepName high low).highIdx[i]? = some (some o) := by
    intro i o h
    rw [List.getD_eq_getElem?_getD] at h
    cases hh : (engJoin m keepName high low).highIdx[i]? with
    | none => rw [hh] at h; cases h
    | some x => rw [hh] at h; simp only [Option.getD_some] at h; rw [h]
  refine ⟨fun i i' o h1 h2 => hok.hi_inj i i' o (conv i o h1) (conv i' o h2),
    fun i o h => (hinv.hi_sound i o h).1, fun i o h => (hinv.hi_sound i o h).2.1, ?_, ?_, ?_⟩
  · intro l i hp
    obtain ⟨hi, hl, hkk⟩ := hk.p_sound l i hp
    have hmem : kOf m keepName (low.getD l []) ∈ done := by
      rw [hd, ← hkk]
      exact List.mem_map.mpr ⟨high.getD i [], by
        rw [List.getD_eq_getElem?_getD, List.getElem?_eq_getElem hi]; exact List.getElem_mem hi, rfl⟩
    have := hinv.lo_done l hl hmem
    rw [hp] at this
    exact this
  · intro l hp
    by_cases hl : l < low.length
    · by_cases hmem : kOf m keepName (low.getD l []) ∈ done
      · have := hinv.lo_done l hl hmem
        rw [hp] at this
        exact this
      · exact hinv.lo_fresh l hmem
    · rw [List.getD_eq_getElem?_getD, List.getElem?_eq_none (by rw [hinv.len_lo]; omega)]
      rfl
  · intro l l' i h1 h2
    obtain ⟨_, hl, hk1⟩ := hk.p_sound l i h1
    obtain ⟨_, hl', hk2⟩ := hk.p_sound l' i h2
    exact hk.ul l l' hl hl' (by rw [← hk1, ← hk2])

theorem kOf_eq_sig (ls : Labels) : kOf m keepName ls = sigLabels m ls := by
  unfold kOf engSignature sigLabels
  cases m.on <;> simp

/-- the engine's output labels of a one-to-one match without include labels are the reference's
result metric -/
theorem oOf_eq_resultMetric (op : String) (bool : Bool) (hc : m.card = .oneToOne) (hincl : m.incl = [])
    (h lw : Labels) : oOf m (!(dropsName op || bool)) h = resultMetric op bool m h lw := by
  unfold oOf engSignature resultMetric
  simp only [hc, hincl, List.foldl_nil, show (Card.oneToOne != Card.oneToOne) = false from rfl,
    show (Card.oneToOne == Card.oneToOne) = true from rfl, Bool.false_eq_true, if_false, if_true]
  cases hon : m.on <;> cases hd : dropsName op <;> cases bool <;>
    simp only [Labels.keep, Labels.del, Labels.dropName, List.filter_filter, Bool.or_false, Bool.or_true, Bool.not_false,
      Bool.not_true, Bool.false_eq_true, if_false, if_true, Bool.true_or, Bool.false_or] <;>
    (apply List.filter_congr
     intro a _
     by_cases h1 : m.labels.contains a.name = true <;> by_cases h2 : (a.name != metricName) = true <;>
       simp_all [List.contains_append])

end tables

end PromqlVerif
