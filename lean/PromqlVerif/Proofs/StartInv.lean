/-
The value of an expression at a step does not depend on where the query window starts - which is
what makes the point of a range query at `t` the result of an instant query at `t` (the range query
evaluates with `start` = the first step, the instant query with `start = t`). The window start
enters the semantics in two places only: step-invariant wrappers are evaluated at `start`, and an
`@`-pinned selector's offset was fixed up relative to `start`. For a preprocessed expression - every
pinned selector below a wrapper, every wrapper's body free of `time()` / `timestamp()` - the two
cancel.
-/
import PromqlVerif.Proofs.TrimSound
namespace PromqlVerif
open Val

variable {V : Type} [Val V]

def withStart (c : Ctx V) (s : Int) : Ctx V := { c with start := s }

/-- a pinned selector evaluated at the window start reads at `ts - offset`, wherever the window starts -/
theorem refTime_pinned (s : VSel) (ts : Int) (h : s.atTs = some ts) (start : Int) :
    s.refTime start start = ts - s.origOffset := by
  unfold VSel.refTime VSel.offsetAt
  rw [h]
  simp only
  omega

/-- an unpinned selector reads at `t - offset`, wherever the window starts -/
theorem refTime_unpinned (s : VSel) (h : s.atTs = none) (start t : Int) :
    s.refTime start t = t - s.origOffset := by
  unfold VSel.refTime VSel.offsetAt
  rw [h]
  simp only
  omega

section
variable (c : Ctx V) (s1 s2 : Int)

theorem matchingSeries_start (s : VSel) (st : Int) : matchingSeries (withStart c st) s = matchingSeries c s := rfl

theorem selectT_start (s : VSel) (st ref : Int) : selectT (withStart c st) s ref = selectT c s ref := rfl

/-- the body of a step-invariant wrapper: every selector pinned, no `time()`, no `timestamp()`,
no nested wrapper -/
def Pin : Expr V → Prop
  | .num _ => True
  | .str => True
  | .vsel s => s.atTs.isSome = true
  | .msel s _ => s.atTs.isSome = true
  | .subq e => Pin e
  | .call fn args => fn ≠ "time" ∧ fn ≠ "timestamp" ∧ pinArgs args
  | .agg _ _ _ e => Pin e
  | .aggP _ _ _ p e => Pin p ∧ Pin e
  | .bin _ _ _ l r => Pin l ∧ Pin r
  | .neg e => Pin e
  | .pos e => Pin e
  | .paren e => Pin e
  | .stepInv _ => False
  | .coalesce _ => False
  | .remote _ _ => False
where
  pinArgs : List (Expr V) → Prop
    | [] => True
    | a :: as => Pin a ∧ pinArgs as

/-- a preprocessed expression: unpinned selectors outside wrappers, pinned bodies inside -/
def WP : Expr V → Prop
  | .num _ => True
  | .str => True
  | .vsel s => s.atTs = none
  | .msel s _ => s.atTs = none
  | .subq e => WP e
  | .call _ args => wpArgs args
  | .agg _ _ _ e => WP e
  | .aggP _ _ _ p e => WP p ∧ WP e
  | .bin _ _ _ l r => WP l ∧ WP r
  | .neg e => WP e
  | .pos e => WP e
  | .paren e => WP e
  | .stepInv e => Pin e
  | .coalesce _ => False
  | .remote _ _ => False
where
  wpArgs : List (Expr V) → Prop
    | [] => True
    | a :: as => WP a ∧ wpArgs as

theorem call1_start (st : Int) (fn : String) (r : Except Err (Value V)) : call1 (withStart c st) fn r = call1 c fn r := rfl
theorem call2_start (st : Int) (fn : String) (ra rb : Except Err (Value V)) :
    call2 (withStart c st) fn ra rb = call2 c fn ra rb := rfl
theorem call3_start (st : Int) (fn : String) (ra rb rc : Except Err (Value V)) :
    call3 (withStart c st) fn ra rb rc = call3 c fn ra rb rc := rfl

theorem selectV_pinned (s : VSel) (ts : Int) (h : s.atTs = some ts) :
    selectV (withStart c s1) s s1 = selectV (withStart c s2) s s2 := by
  unfold selectV
  show (selectT (withStart c s1) s (s.refTime s1 s1)).map _ = (selectT (withStart c s2) s (s.refTime s2 s2)).map _
  rw [refTime_pinned s ts h, refTime_pinned s ts h]
  rfl

theorem selectV_unpinned (s : VSel) (h : s.atTs = none) (t : Int) :
    selectV (withStart c s1) s t = selectV (withStart c s2) s t := by
  unfold selectV
  show (selectT (withStart c s1) s (s.refTime s1 t)).map _ = (selectT (withStart c s2) s (s.refTime s2 t)).map _
  rw [refTime_unpinned s h, refTime_unpinned s h]
  rfl

theorem evalRangeFn_pinned (fn : String) (s : VSel) (r ts : Int) (h : s.atTs = some ts) :
    evalRangeFn (withStart c s1) fn s r s1 = evalRangeFn (withStart c s2) fn s r s2 := by
  unfold evalRangeFn
  show (matchingSeries (withStart c s1) s).filterMap _ = (matchingSeries (withStart c s2) s).filterMap _
  simp only [show (withStart c s1).start = s1 from rfl, show (withStart c s2).start = s2 from rfl,
    refTime_pinned s ts h]
  rfl

theorem evalRangeFn_unpinned (fn : String) (s : VSel) (r t : Int) (h : s.atTs = none) :
    evalRangeFn (withStart c s1) fn s r t = evalRangeFn (withStart c s2) fn s r t := by
  unfold evalRangeFn
  simp only [show (withStart c s1).start = s1 from rfl, show (withStart c s2).start = s2 from rfl,
    refTime_unpinned s h]
  rfl

/-- what `timestamp()` reads does not depend on the window start -/
theorem tsBody_start (t : Int) (u : Expr V) (r : Except Err (Value V)) :
    tsBody (withStart c s1) t u r = tsBody (withStart c s2) t u r := by
  cases u with
  | vsel s =>
    unfold tsBody
    cases hat : s.atTs with
    | none =>
      simp only [hat, show (withStart c s1).start = s1 from rfl, show (withStart c s2).start = s2 from rfl,
        refTime_unpinned s hat]
      rfl
    | some a =>
      simp only [hat]
      rfl
  | _ => rfl

/-- a call, given its arguments (`same`: the two evaluation times coincide, so `time()` agrees) -/
theorem call_start (t1 t2 : Int) (fn : String) (args : List (Expr V))
    (htime : fn = "time" → t1 = t2)
    (hrange : ∀ s r, args = [.msel s r] →
      evalRangeFn (withStart c s1) fn s r t1 = evalRangeFn (withStart c s2) fn s r t2)
    (hts : fn = "timestamp" → t1 = t2)
    (hargs : ∀ a ∈ args, eval (withStart c s1) t1 a = eval (withStart c s2) t2 a) :
    eval (withStart c s1) t1 (.call fn args) = eval (withStart c s2) t2 (.call fn args) := by
  match args, hrange, hargs with
  | [], _, _ =>
    rw [eval_call_none, eval_call_none]
    by_cases h : fn = "time"
    · rw [htime h]
    · simp only [h, if_false]
  | [a], hrange, hargs =>
    have hea := hargs a List.mem_cons_self
    cases hma : isMsel a with
    | true =>
      cases a with
      | msel s r => rw [eval_rangecall, eval_rangecall, hrange s r rfl]
      | _ => cases hma
    | false =>
      by_cases hfn : fn = "timestamp"
      · subst hfn
        have := hts rfl
        subst this
        rw [eval_timestamp _ t1 a hma, eval_timestamp _ t1 a hma, hea, tsBody_start]
      · rw [eval_call1 _ t1 fn a hma hfn, eval_call1 _ t2 fn a hma hfn, hea, call1_start, call1_start]
  | [a, b], _, hargs =>
    rw [eval_call2, eval_call2, hargs a List.mem_cons_self, hargs b (by simp), call2_start, call2_start]
  | [a, b, d], _, hargs =>
    rw [eval_call3, eval_call3, hargs a List.mem_cons_self, hargs b (by simp), hargs d (by simp), call3_start,
      call3_start]
  | _ :: _ :: _ :: _ :: _, _, _ => rw [eval_call_many, eval_call_many]

/-- the body of a step-invariant wrapper has the same value at the start of any window -/
theorem pin_inv : ∀ e : Expr V, Pin e → eval (withStart c s1) s1 e = eval (withStart c s2) s2 e := by
  apply collectSelectors.induct
    (motive_1 := fun args => Pin.pinArgs args → ∀ a ∈ args, eval (withStart c s1) s1 a = eval (withStart c s2) s2 a)
    (motive_2 := fun e => Pin e → eval (withStart c s1) s1 e = eval (withStart c s2) s2 e)
  · intro s h
    rw [Pin] at h
    obtain ⟨ts, hts⟩ := Option.isSome_iff_exists.mp h
    rw [eval, eval, selectV_pinned c s1 s2 s ts hts]
  · intro s r _; rw [eval, eval]
  · intro e _ _; rw [eval, eval]
  · intro fn args ih h
    rw [Pin] at h
    obtain ⟨h1, h2, h3⟩ := h
    apply call_start c s1 s2 s1 s2 fn args (fun hh => absurd hh h1) ?_ (fun hh => absurd hh h2) (ih h3)
    intro s r hargs
    subst hargs
    rw [Pin.pinArgs, Pin] at h3
    obtain ⟨ts, hts⟩ := Option.isSome_iff_exists.mp h3.1
    exact evalRangeFn_pinned c s1 s2 fn s r ts hts
  · intro op w g e ih h
    rw [Pin] at h
    rw [eval, eval, ih h]; rfl
  · intro op w g p e ihp ihe h
    rw [Pin] at h
    rw [eval, eval, ihp h.1, ihe h.2]; rfl
  · intro op b m l r ihl ihr h
    rw [Pin] at h
    rw [eval, eval, ihl h.1, ihr h.2]; rfl
  · intro e ih h; rw [Pin] at h; rw [eval, eval, ih h]
  · intro e ih h; rw [Pin] at h; rw [eval, eval, ih h]
  · intro e ih h; rw [Pin] at h; rw [eval, eval, ih h]
  · intro e _ h; rw [Pin] at h; exact h.elim
  · intro e h1 h2 h3 h4 h5 h6 h7 h8 h9 h10 h11 h
    cases e with
    | num v => rw [eval, eval]
    | str => rw [eval, eval]
    | coalesce es => rw [Pin] at h; exact h.elim
    | remote i e0 => rw [Pin] at h; exact h.elim
    | vsel s => exact (h1 s rfl).elim
    | msel s r => exact (h2 s r rfl).elim
    | subq e0 => exact (h3 e0 rfl).elim
    | call fn args => exact (h4 fn args rfl).elim
    | agg op wo g e0 => exact (h5 op wo g e0 rfl).elim
    | aggP op wo g p e0 => exact (h6 op wo g p e0 rfl).elim
    | bin op b m l r => exact (h7 op b m l r rfl).elim
    | neg e0 => exact (h8 e0 rfl).elim
    | pos e0 => exact (h9 e0 rfl).elim
    | paren e0 => exact (h10 e0 rfl).elim
    | stepInv e0 => exact (h11 e0 rfl).elim
  · intro _ a ha; cases ha
  · intro a as iha ihas h x hx
    rw [Pin.pinArgs] at h
    rcases List.mem_cons.mp hx with rfl | hx
    · exact iha h.1
    · exact ihas h.2 x hx

/-- **the value of a preprocessed expression at a step does not depend on the window start** -/
theorem wp_inv : ∀ e : Expr V, WP e → ∀ t, eval (withStart c s1) t e = eval (withStart c s2) t e := by
  apply collectSelectors.induct
    (motive_1 := fun args => WP.wpArgs args → ∀ t, ∀ a ∈ args, eval (withStart c s1) t a = eval (withStart c s2) t a)
    (motive_2 := fun e => WP e → ∀ t, eval (withStart c s1) t e = eval (withStart c s2) t e)
  · intro s h t
    rw [WP] at h
    rw [eval, eval, selectV_unpinned c s1 s2 s h t]
  · intro s r _ t; rw [eval, eval]
  · intro e _ _ t; rw [eval, eval]
  · intro fn args ih h t
    rw [WP] at h
    apply call_start c s1 s2 t t fn args (fun _ => rfl) ?_ (fun _ => rfl) (ih h t)
    intro s r hargs
    subst hargs
    rw [WP.wpArgs, WP] at h
    exact evalRangeFn_unpinned c s1 s2 fn s r t h.1
  · intro op w g e ih h t
    rw [WP] at h
    rw [eval, eval, ih h t]; rfl
  · intro op w g p e ihp ihe h t
    rw [WP] at h
    rw [eval, eval, ihp h.1 t, ihe h.2 t]; rfl
  · intro op b m l r ihl ihr h t
    rw [WP] at h
    rw [eval, eval, ihl h.1 t, ihr h.2 t]; rfl
  · intro e ih h t; rw [WP] at h; rw [eval, eval, ih h t]
  · intro e ih h t; rw [WP] at h; rw [eval, eval, ih h t]
  · intro e ih h t; rw [WP] at h; rw [eval, eval, ih h t]
  · intro e _ h t
    rw [WP] at h
    rw [eval, eval]
    exact pin_inv c s1 s2 e h
  · intro e h1 h2 h3 h4 h5 h6 h7 h8 h9 h10 h11 h t
    cases e with
    | num v => rw [eval, eval]
    | str => rw [eval, eval]
    | coalesce es => rw [WP] at h; exact h.elim
    | remote i e0 => rw [WP] at h; exact h.elim
    | vsel s => exact (h1 s rfl).elim
    | msel s r => exact (h2 s r rfl).elim
    | subq e0 => exact (h3 e0 rfl).elim
    | call fn args => exact (h4 fn args rfl).elim
    | agg op wo g e0 => exact (h5 op wo g e0 rfl).elim
    | aggP op wo g p e0 => exact (h6 op wo g p e0 rfl).elim
    | bin op b m l r => exact (h7 op b m l r rfl).elim
    | neg e0 => exact (h8 e0 rfl).elim
    | pos e0 => exact (h9 e0 rfl).elim
    | paren e0 => exact (h10 e0 rfl).elim
    | stepInv e0 => exact (h11 e0 rfl).elim
  · intro _ t a ha; cases ha
  · intro a as iha ihas h t x hx
    rw [WP.wpArgs] at h
    rcases List.mem_cons.mp hx with rfl | hx
    · exact iha h.1 t
    · exact ihas h.2 t x hx

end

end PromqlVerif
