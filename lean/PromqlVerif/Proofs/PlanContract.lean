/-
The stream contract, for every operator of every plan of natively supported, well-typed
expressions (C18): by induction over the typing derivation.
-/
import PromqlVerif.Proofs.Contract
import PromqlVerif.Proofs.LabelsWf
namespace PromqlVerif
open Val

variable {V : Type} [Val V]

/-- well-typed expressions over the natively supported constructs, indexed by "is scalar-typed" -/
inductive WT (P : Matching → Prop) : Bool → Expr V → Prop
  | num (v : V) : WT P true (.num v)
  | time : WT P true (.call "time" [])
  | pi : WT P true (.call "pi" [])
  | vsel (s : VSel) : WT P false (.vsel s)
  | rangefn (fn : String) (s : VSel) (r : Int)
      (h : (engineFuncs.contains fn && rangeFnNames.contains fn) = true) : WT P false (.call fn [.msel s r])
  | neg (b : Bool) (a : Expr V) : WT P b a → WT P b (.neg a)
  | pos (b : Bool) (a : Expr V) : WT P b a → WT P b (.pos a)
  | paren (b : Bool) (a : Expr V) : WT P b a → WT P b (.paren a)
  | stepInvNum (v : V) : WT P true (.stepInv (.num v))
  | stepInv (b : Bool) (a : Expr V) (hn : ∀ v, a ≠ .num v) : WT P b a → WT P b (.stepInv a)
  | simple (fn : String) (a : Expr V) (h : simpleFns.contains fn = true) : WT P false a → WT P false (.call fn [a])
  | timestamp (a : Expr V) : WT P false a → WT P false (.call "timestamp" [a])
  | scalar (a : Expr V) : WT P false a → WT P true (.call "scalar" [a])
  | vector (a : Expr V) : WT P true a → WT P false (.call "vector" [a])
  | clampMin (a lo : Expr V) : WT P false a → WT P true lo → WT P false (.call "clamp_min" [a, lo])
  | clampMax (a hi : Expr V) : WT P false a → WT P true hi → WT P false (.call "clamp_max" [a, hi])
  | clamp (a lo hi : Expr V) : WT P false a → WT P true lo → WT P true hi → WT P false (.call "clamp" [a, lo, hi])
  | hist (q a : Expr V) : WT P true q → WT P false a → WT P false (.call "histogram_quantile" [q, a])
  | agg (op : String) (w : Bool) (g : List String) (a : Expr V) : WT P false a → WT P false (.agg op w g a)
  | aggP (op : String) (w : Bool) (g : List String) (p a : Expr V) : WT P true p → WT P false a →
      WT P false (.aggP op w g p a)
  | bin (op : String) (bl : Bool) (m : Matching) (b1 b2 : Bool) (l r : Expr V)
      (hm : b1 = false → b2 = false → P m) : WT P b1 l → WT P b2 r → WT P (b1 && b2) (.bin op bl m l r)

theorem wt_isScalar {P : Matching → Prop} (b : Bool) (e : Expr V) (h : WT P b e) : e.isScalar = b := by
  induction h with
  | num v => rfl
  | time => rfl
  | pi => rfl
  | vsel s => rfl
  | rangefn fn s r h =>
    simp only [Expr.isScalar]
    simp only [Bool.and_eq_true] at h
    exact scalarFns_not_range fn h.2
  | neg b a _ ih => simpa [Expr.isScalar] using ih
  | pos b a _ ih => simpa [Expr.isScalar] using ih
  | paren b a _ ih => simpa [Expr.isScalar] using ih
  | stepInvNum v => rfl
  | stepInv b a _ _ ih => simpa [Expr.isScalar] using ih
  | simple fn a h _ _ => simp only [Expr.isScalar]; exact scalarFns_not_simple fn h
  | timestamp a _ _ => rfl
  | scalar a _ _ => rfl
  | vector a _ _ => rfl
  | clampMin a lo _ _ _ _ => rfl
  | clampMax a hi _ _ _ _ => rfl
  | clamp a lo hi _ _ _ _ _ _ => rfl
  | hist q a _ _ _ _ => rfl
  | agg op w g a _ _ => rfl
  | aggP op w g p a _ _ _ _ => rfl
  | bin op bl m b1 b2 l r _ _ _ ih1 ih2 => simp [Expr.isScalar, ih1, ih2]

theorem wt_not_msel {P : Matching → Prop} (b : Bool) (a : Expr V) (h : WT P b a) : ∀ (s : VSel) (r : Int), a = Expr.msel s r → False := by
  intro s r he; subst he; cases h

/-- the operator built for the argument of `timestamp()` over a selector honours the contract -/
theorem tsSel_contract (c : Ctx V) : ∀ (a : Expr V) (o : OpSem V), engTimestampSel c a = some o → Contract o
  | .paren e, o, h => by rw [engTimestampSel] at h; exact tsSel_contract c e o h
  | .stepInv e, o, h => by
    rw [engTimestampSel] at h
    cases he : engTimestampSel c e with
    | none => simp [he] at h
    | some o' =>
      simp only [he, Option.map_some, Option.some.injEq] at h
      subst h
      exact contract_pin o' c.start (tsSel_contract c e o' he)
  | .vsel s, o, h => by
    rw [engTimestampSel] at h
    cases h
    exact contract_selector c s true
  | .num _, o, h => by simp [engTimestampSel] at h
  | .str, o, h => by simp [engTimestampSel] at h
  | .msel _ _, o, h => by simp [engTimestampSel] at h
  | .subq _, o, h => by simp [engTimestampSel] at h
  | .call _ _, o, h => by simp [engTimestampSel] at h
  | .agg _ _ _ _, o, h => by simp [engTimestampSel] at h
  | .aggP _ _ _ _ _, o, h => by simp [engTimestampSel] at h
  | .bin _ _ _ _ _, o, h => by simp [engTimestampSel] at h
  | .neg _, o, h => by simp [engTimestampSel] at h
  | .pos _, o, h => by simp [engTimestampSel] at h
  | .coalesce _, o, h => by simp [engTimestampSel] at h
  | .remote _ _, o, h => by simp [engTimestampSel] at h

theorem tsSel_labels (c : Ctx V) (hst : ∀ sr ∈ c.st, Labels.wf sr.labels = true) :
    ∀ (a : Expr V) (o : OpSem V), engTimestampSel c a = some o → LabelsOk o
  | .paren e, o, h => by rw [engTimestampSel] at h; exact tsSel_labels c hst e o h
  | .stepInv e, o, h => by
    rw [engTimestampSel] at h
    cases he : engTimestampSel c e with
    | none => simp [he] at h
    | some o' =>
      simp only [he, Option.map_some, Option.some.injEq] at h
      subst h
      exact fun ls hl => tsSel_labels c hst e o' he ls hl
  | .vsel s, o, h => by
    rw [engTimestampSel] at h
    cases h
    exact labelsOk_selector c hst s true
  | .num _, o, h => by simp [engTimestampSel] at h
  | .str, o, h => by simp [engTimestampSel] at h
  | .msel _ _, o, h => by simp [engTimestampSel] at h
  | .subq _, o, h => by simp [engTimestampSel] at h
  | .call _ _, o, h => by simp [engTimestampSel] at h
  | .agg _ _ _ _, o, h => by simp [engTimestampSel] at h
  | .aggP _ _ _ _ _, o, h => by simp [engTimestampSel] at h
  | .bin _ _ _ _ _, o, h => by simp [engTimestampSel] at h
  | .neg _, o, h => by simp [engTimestampSel] at h
  | .pos _, o, h => by simp [engTimestampSel] at h
  | .coalesce _, o, h => by simp [engTimestampSel] at h
  | .remote _ _, o, h => by simp [engTimestampSel] at h

/-- the hypotheses of the label half: vector-vector operators have no include labels, the stored
label sets are well-formed -/
def LHyp (P : Matching → Prop) (c : Ctx V) : Prop :=
  (∀ m, P m → m.incl = []) ∧ ∀ sr ∈ c.st, Labels.wf sr.labels = true

theorem labelsOk_const (f : Int → V) : LabelsOk (constOp f) := by
  intro ls h
  simp only [constOp, List.mem_singleton] at h
  subst h; rfl

/-- what the induction carries -/
def PC (P : Matching → Prop) (c : Ctx V) (b : Bool) (o : OpSem V) : Prop :=
  Contract o ∧ (b = true → o.series.length = 1) ∧ (LHyp P c → LabelsOk o)

theorem pc_of_eq {P : Matching → Prop} {c : Ctx V} {b : Bool} {o o' : OpSem V}
    (h : (Except.ok o' : Except Err (OpSem V)) = .ok o) (hp : PC P c b o') : PC P c b o := by
  cases h; exact hp

/-- **C18, for every plan**: every operator built for a well-typed expression of natively supported
constructs - and hence every operator of its plan, since every sub-expression is one - emits, at
every step, sample IDs that index its series list and are pairwise distinct; a scalar-typed
operator has exactly one series. For every storage, window, lookback and matcher table. -/
theorem plan_contract {P : Matching → Prop} (c : Ctx V) (b : Bool) (e : Expr V) (h : WT P b e) :
    ∀ o, engOp c e = .ok o → PC P c b o := by
  induction h with
  | num v =>
    intro o ho; rw [engOp] at ho
    exact pc_of_eq ho ⟨contract_const _, fun _ => rfl, fun _ => labelsOk_const _⟩
  | time =>
    intro o ho; rw [engOp] at ho
    exact pc_of_eq ho ⟨contract_const _, fun _ => rfl, fun _ => labelsOk_const _⟩
  | pi =>
    intro o ho; rw [engOp] at ho
    exact pc_of_eq ho ⟨contract_const _, fun _ => rfl, fun _ => labelsOk_const _⟩
  | vsel s =>
    intro o ho; rw [engOp] at ho
    exact pc_of_eq ho ⟨contract_selector c s false, fun hb => (by cases hb), fun hy => labelsOk_selector c hy.2 s false⟩
  | rangefn fn s r hfn =>
    intro o ho; rw [engOp] at ho
    rw [if_pos hfn] at ho
    exact pc_of_eq ho ⟨contract_rangefn c fn s r, fun hb => (by cases hb), fun hy => labelsOk_rangefn c hy.2 fn s r⟩
  | neg b a _ ih =>
    intro o ho; rw [engOp] at ho
    cases ha : engOp c a with
    | error er => simp [ha, bind, Except.bind] at ho
    | ok oa =>
      simp only [ha, bind, Except.bind, pure, Except.pure] at ho
      obtain ⟨h1, h2, h3⟩ := ih oa ha
      refine pc_of_eq ho ⟨contract_pointwise oa Labels.dropName (fun _ x => neg x.2) h1, fun hb => ?_, fun hy => labelsOk_map _ Labels.dropName _ (fun ls h => dropName_wf ls h) (h3 hy)⟩
      simp only [List.length_map]; exact h2 hb
  | pos b a _ ih => intro o ho; rw [engOp] at ho; exact ih o ho
  | paren b a _ ih => intro o ho; rw [engOp] at ho; exact ih o ho
  | stepInvNum v =>
    intro o ho; rw [engOp] at ho
    exact pc_of_eq ho ⟨contract_const _, fun _ => rfl, fun _ => labelsOk_const _⟩
  | stepInv b a hn _ ih =>
    intro o ho
    rw [engOp] at ho
    · cases ha : engOp c a with
      | error er => simp [ha, bind, Except.bind] at ho
      | ok oa =>
        simp only [ha, bind, Except.bind, pure, Except.pure] at ho
        obtain ⟨h1, h2, h3⟩ := ih oa ha
        exact pc_of_eq ho ⟨contract_pin oa c.start h1, h2, fun hy ls hl => h3 hy ls hl⟩
    · intro v hv; exact hn v hv
  | simple fn a hfn hfa ih =>
    intro o ho
    have hne := wt_not_msel _ _ hfa
    have hn1 : fn ≠ "timestamp" := by intro h; subst h; revert hfn; decide
    have hn2 : fn ≠ "scalar" := by intro h; subst h; revert hfn; decide
    have hn3 : fn ≠ "vector" := by intro h; subst h; revert hfn; decide
    rw [engOp] at ho <;> first | assumption | (intro h; exact absurd h (by assumption)) | skip
    all_goals (try (intro hh; first | exact hn1 hh | exact hn2 hh | exact hn3 hh))
    cases ha : engOp c a with
    | error er => simp only [ha, bind, Except.bind] at ho; split at ho <;> cases ho
    | ok oa =>
      simp only [ha, hfn, if_true, bind, Except.bind, pure, Except.pure] at ho
      obtain ⟨h1, _, h3⟩ := ih oa ha
      exact pc_of_eq ho ⟨contract_pointwise oa Labels.dropName (fun _ x => applySimple fn x.2) h1, fun hb => (by cases hb), fun hy => labelsOk_map _ Labels.dropName _ (fun ls h => dropName_wf ls h) (h3 hy)⟩
  | timestamp a hfa ih =>
    intro o ho
    have hne := wt_not_msel _ _ hfa
    rw [engOp] at ho <;> first | assumption | skip
    cases hts : engTimestampSel c a with
    | some o' =>
      simp only [hts] at ho
      exact pc_of_eq ho ⟨contract_relabel o' Labels.dropName (tsSel_contract c a o' hts), fun hb => (by cases hb),
        fun hy => labelsOk_map _ Labels.dropName _ (fun ls h => dropName_wf ls h) (tsSel_labels c hy.2 a o' hts)⟩
    | none =>
      simp only [hts] at ho
      cases ha : engOp c a with
      | error er => simp [ha, bind, Except.bind] at ho
      | ok oa =>
        simp only [ha, bind, Except.bind, pure, Except.pure] at ho
        obtain ⟨h1, _, h3⟩ := ih oa ha
        exact pc_of_eq ho ⟨contract_pointwise oa Labels.dropName (fun t _ => div (ofInt t) (ofInt 1000)) h1, fun hb => (by cases hb), fun hy => labelsOk_map _ Labels.dropName _ (fun ls h => dropName_wf ls h) (h3 hy)⟩
  | scalar a hfa ih =>
    intro o ho
    have hne := wt_not_msel _ _ hfa
    rw [engOp] at ho <;> first | assumption | skip
    cases ha : engOp c a with
    | error er => simp [ha, bind, Except.bind] at ho
    | ok oa =>
      simp only [ha, bind, Except.bind, pure, Except.pure] at ho
      refine pc_of_eq ho ⟨?_, fun _ => rfl, fun _ => labelsOk_unit _⟩
      intro t xs hx
      simp only at hx
      cases hs : oa.step t with
      | error er => simp [hs, Except.map] at hx
      | ok ys =>
        simp only [hs, Except.map, Except.ok.injEq] at hx
        subst hx
        split <;> exact idsOk_single _ (by simp) _
  | vector a hfa ih =>
    intro o ho
    have hne := wt_not_msel _ _ hfa
    rw [engOp] at ho <;> first | assumption | skip
    cases ha : engOp c a with
    | error er => simp [ha, bind, Except.bind] at ho
    | ok oa =>
      simp only [ha, bind, Except.bind, pure, Except.pure] at ho
      obtain ⟨h1, h2, _⟩ := ih oa ha
      refine pc_of_eq ho ⟨?_, fun hb => (by cases hb), fun _ => labelsOk_unit _⟩
      intro t xs hx
      have := h1 t xs hx
      rw [h2 rfl] at this
      exact this
  | clampMin a lo hfa _ iha ihlo =>
    intro o ho
    rw [engOp] at ho
    cases ha : engOp c a with
    | error er => simp [ha, bind, Except.bind] at ho
    | ok oa =>
      cases hl : engOp c lo with
      | error er => simp [ha, hl, bind, Except.bind] at ho
      | ok ol =>
        simp only [ha, hl, bind, Except.bind, pure, Except.pure] at ho
        obtain ⟨h1, _, h3⟩ := iha oa ha
        refine pc_of_eq ho ⟨?_, fun hb => (by cases hb), fun hy => labelsOk_map _ Labels.dropName _ (fun ls h => dropName_wf ls h) (h3 hy)⟩
        intro t xs hx
        simp only [List.length_map] at hx ⊢
        cases hs : oa.step t with
        | error er => simp [hs] at hx
        | ok ys =>
          simp only [hs] at hx
          split at hx
          · cases hx
          · simp only [Except.ok.injEq] at hx
            subst hx
            exact idsOk_map _ ys _ (h1 t ys hs)
  | clampMax a hi hfa _ iha ihhi =>
    intro o ho
    rw [engOp] at ho
    cases ha : engOp c a with
    | error er => simp [ha, bind, Except.bind] at ho
    | ok oa =>
      cases hl : engOp c hi with
      | error er => simp [ha, hl, bind, Except.bind] at ho
      | ok ol =>
        simp only [ha, hl, bind, Except.bind, pure, Except.pure] at ho
        obtain ⟨h1, _, h3⟩ := iha oa ha
        refine pc_of_eq ho ⟨?_, fun hb => (by cases hb), fun hy => labelsOk_map _ Labels.dropName _ (fun ls h => dropName_wf ls h) (h3 hy)⟩
        intro t xs hx
        simp only [List.length_map] at hx ⊢
        cases hs : oa.step t with
        | error er => simp [hs] at hx
        | ok ys =>
          simp only [hs] at hx
          split at hx
          · cases hx
          · simp only [Except.ok.injEq] at hx
            subst hx
            exact idsOk_map _ ys _ (h1 t ys hs)
  | clamp a lo hi hfa _ _ iha ihlo ihhi =>
    intro o ho
    rw [engOp] at ho
    cases ha : engOp c a with
    | error er => simp [ha, bind, Except.bind] at ho
    | ok oa =>
      cases hl : engOp c lo with
      | error er => simp [ha, hl, bind, Except.bind] at ho
      | ok ol =>
        cases hh : engOp c hi with
        | error er => simp [ha, hl, hh, bind, Except.bind] at ho
        | ok oh =>
          simp only [ha, hl, hh, bind, Except.bind, pure, Except.pure] at ho
          obtain ⟨h1, _, h3⟩ := iha oa ha
          refine pc_of_eq ho ⟨?_, fun hb => (by cases hb), fun hy => labelsOk_map _ Labels.dropName _ (fun ls h => dropName_wf ls h) (h3 hy)⟩
          intro t xs hx
          simp only [List.length_map] at hx ⊢
          cases hs : oa.step t with
          | error er => simp [hs] at hx
          | ok ys =>
            simp only [hs] at hx
            split at hx
            · cases hx
            · split at hx
              · cases hx
              · simp only [Except.ok.injEq] at hx
                subst hx
                split
                · exact idsOk_nil _
                · exact idsOk_map _ ys _ (h1 t ys hs)
  | hist q a _ _ ihq iha =>
    intro o ho
    rw [engOp] at ho
    cases hq : engOp c q with
    | error er => simp [hq, bind, Except.bind] at ho
    | ok oq =>
      cases ha : engOp c a with
      | error er => simp [hq, ha, bind, Except.bind] at ho
      | ok oa =>
        simp only [hq, ha, bind, Except.bind, pure, Except.pure] at ho
        exact pc_of_eq ho ⟨contract_histogram c oq oa, fun hb => (by cases hb), fun hy => labelsOk_histogram c oq oa ((iha oa ha).2.2 hy)⟩
  | agg op w g a _ ih =>
    intro o ho
    rw [engOp] at ho
    cases ha : engOp c a with
    | error er => simp [ha, bind, Except.bind] at ho
    | ok oa =>
      simp only [ha, bind, Except.bind, pure, Except.pure] at ho
      split at ho
      · cases ho
      · split at ho
        · cases ho
        · exact pc_of_eq ho ⟨contract_aggregate op w g none oa, fun hb => (by cases hb), fun hy => labelsOk_aggregate op w g none oa ((ih oa ha).2.2 hy)⟩
  | aggP op w g p a _ _ ihp iha =>
    intro o ho
    rw [engOp] at ho
    cases ha : engOp c a with
    | error er => simp [ha, bind, Except.bind] at ho
    | ok oa =>
      cases hp : engOp c p with
      | error er => simp [ha, hp, bind, Except.bind] at ho
      | ok op' =>
        simp only [ha, hp, bind, Except.bind, pure, Except.pure] at ho
        split at ho
        · exact pc_of_eq ho ⟨contract_kaggregate _ w g op' oa (iha oa ha).1, fun hb => (by cases hb), fun hy => labelsOk_kaggregate _ w g op' oa ((iha oa ha).2.2 hy)⟩
        · split at ho
          · cases ho
          · exact pc_of_eq ho ⟨contract_aggregate op w g (some op') oa, fun hb => (by cases hb), fun hy => labelsOk_aggregate op w g (some op') oa ((iha oa ha).2.2 hy)⟩
  | bin op bl m b1 b2 l r hm hl hr ihl ihr =>
    intro o ho
    rw [engOp] at ho
    have tl := wt_isScalar _ _ hl
    have tr := wt_isScalar _ _ hr
    cases hlo : engOp c l with
    | error er => simp [hlo, bind, Except.bind] at ho
    | ok lo =>
      cases hro : engOp c r with
      | error er => simp [hlo, hro, bind, Except.bind] at ho
      | ok ro =>
        obtain ⟨cl, sl, ll⟩ := ihl lo hlo
        obtain ⟨cr, sr, lr⟩ := ihr ro hro
        have relab : ∀ (next : OpSem V) (step : Int → Except Err (IdVec V)), LabelsOk next →
            LabelsOk { series := next.series.map fun ls => if dropsName op || bl then ls.dropName else ls, step := step } :=
          fun next step hn => labelsOk_map next _ step (fun ls h => by split; exact dropName_wf ls h; exact h) hn
        by_cases hop : engineBinOps.contains op = true
        · -- a scalar operand: samples of the other side are mapped or filtered in place
          have scal : ∀ (next : OpSem V) (f : Labels → Labels) (stepF : Int → Except Err (IdVec V)),
              Contract next →
              (∀ t xs, stepF t = .ok xs → ∃ ys F, next.step t = .ok ys ∧ xs = ys.filterMap F ∧
                ∀ x y, F x = some y → y.1 = x.1) →
              Contract { series := next.series.map f, step := stepF } := by
            intro next f stepF hn hstep t xs hx
            obtain ⟨ys, F, h1, h2, h3⟩ := hstep t xs hx
            subst h2
            simp only [List.length_map]
            exact idsOk_filterMap' _ ys F h3 (hn t ys h1)
          cases b1 <;> cases b2
          · -- two vectors: the static join and the per-step table
            simp only [hlo, hro, bind, Except.bind, pure, Except.pure, hop, tl, tr, Bool.not_true,
              Bool.false_eq_true, if_false, Bool.or_self] at ho
            refine pc_of_eq ho ⟨?_, fun hb => (by cases hb), fun hy => ?_⟩
            rotate_left
            · intro ls hls
              simp only at hls
              refine engJoin_outputs_wf m (hy.1 m (hm rfl rfl)) _ _ _ ?_ ls hls
              intro l0 hl0
              split at hl0
              · exact lr hy l0 hl0
              · exact ll hy l0 hl0
            intro t xs hx
            simp only at hx
            cases ha : lo.step t with
            | error er => simp [ha] at hx
            | ok as =>
              cases hb' : ro.step t with
              | error er => simp [ha, hb'] at hx
              | ok bs =>
                simp only [ha, hb'] at hx
                exact contract_vbinop op bl m.card _ (engJoin_ok _ _ _ _) as bs xs (cr t bs hb').2 hx
          · simp only [hlo, hro, bind, Except.bind, pure, Except.pure, hop, tl, tr, Bool.not_true,
              Bool.false_eq_true, if_false, Bool.false_or, if_true, Bool.false_and, Bool.and_false] at ho
            refine pc_of_eq ho ⟨scal lo _ _ cl ?_, fun hb => (by cases hb), fun hy => relab lo _ (ll hy)⟩
            intro t xs hx
            try simp only at hx
            cases hs : lo.step t with
            | error er => simp [hs] at hx
            | ok ys =>
              simp only [hs] at hx
              split at hx
              · cases hx
              · simp only [Except.ok.injEq] at hx
                refine ⟨ys, _, rfl, hx.symm, ?_⟩
                intro x y hy
                try simp only at hy
                repeat' split at hy
                all_goals first | (cases hy; rfl) | (cases hy)
          · simp only [hlo, hro, bind, Except.bind, pure, Except.pure, hop, tl, tr, Bool.not_true,
              Bool.false_eq_true, if_false, Bool.true_or, Bool.or_false, if_true, Bool.true_and, Bool.and_false,
              Bool.not_false, Bool.and_true] at ho
            refine pc_of_eq ho ⟨scal ro _ _ cr ?_, fun hb => (by cases hb), fun hy => relab ro _ (lr hy)⟩
            intro t xs hx
            try simp only at hx
            cases hs : ro.step t with
            | error er => simp [hs] at hx
            | ok ys =>
              simp only [hs] at hx
              split at hx
              · cases hx
              · simp only [Except.ok.injEq] at hx
                refine ⟨ys, _, rfl, hx.symm, ?_⟩
                intro x y hy
                try simp only at hy
                repeat' split at hy
                all_goals first | (cases hy; rfl) | (cases hy)
          · simp only [hlo, hro, bind, Except.bind, pure, Except.pure, hop, tl, tr, Bool.not_true,
              Bool.false_eq_true, if_false, Bool.true_or, Bool.or_true, if_true, Bool.true_and, Bool.and_true,
              Bool.and_false] at ho
            refine pc_of_eq ho ⟨scal lo _ _ cl ?_, fun _ => (by simpa using sl rfl), fun hy => relab lo _ (ll hy)⟩
            intro t xs hx
            try simp only at hx
            cases hs : lo.step t with
            | error er => simp [hs] at hx
            | ok ys =>
              simp only [hs] at hx
              split at hx
              · cases hx
              · simp only [Except.ok.injEq] at hx
                refine ⟨ys, _, rfl, hx.symm, ?_⟩
                intro x y hy
                try simp only at hy
                repeat' split at hy
                all_goals first | (cases hy; rfl) | (cases hy)
        · have hop' : engineBinOps.contains op = false := by simpa using hop
          simp only [hlo, hro, bind, Except.bind, hop', Bool.not_false, if_true] at ho
          cases ho

end PromqlVerif
