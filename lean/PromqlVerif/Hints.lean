/-
The `Func` / `Grouping` / `By` fields of the select hints. The reference engine derives them, per
selector, from the path of ancestors (`extractFuncFromPath`, `extractGroupsFromPath` in
promql/engine.go); this engine hands a hints value down the recursion of `newOperator`
(execution/execution.go) and rewrites it at calls, aggregations, binary expressions and wrappers.
`Proofs/HintsProof.lean` shows that the two agree for every expression.
-/
import PromqlVerif.Expr
namespace PromqlVerif

variable {V : Type}

structure Hint where
  fn : String
  by_ : Bool
  grouping : List String
deriving DecidableEq, Repr

def Hint.empty : Hint := ⟨"", false, []⟩

/-- what wrappers do to the hints: the function is kept, the grouping is not -/
def Hint.noGroup (h : Hint) : Hint := { h with by_ := false, grouping := [] }

/-- `newOperator`: the hints each selector of the expression is created with, in order. (A range
vector selector is only planned as the argument of a call, with the call's hints; anywhere else
plan construction fails.) -/
def engHints (h : Hint) : Expr V → List Hint
  | .vsel _ => [h]
  | .call fn args => callArgs ⟨fn, false, []⟩ args
  | .agg op w g e => engHints ⟨op, !w, g⟩ e
  | .aggP op w g p e => engHints ⟨op, !w, g⟩ e ++ engHints ⟨op, !w, g⟩ p
  | .bin _ _ _ l r => engHints Hint.empty l ++ engHints Hint.empty r
  | .neg e => engHints h.noGroup e
  | .pos e => engHints h.noGroup e
  | .paren e => engHints h.noGroup e
  | .stepInv e => engHints h.noGroup e
  | .subq e => engHints h.noGroup e
  | _ => []
where
  callArgs (hc : Hint) : List (Expr V) → List Hint
    | [] => []
    | .msel _ _ :: as => hc :: callArgs hc as
    | a :: as => engHints hc a ++ callArgs hc as

/-- `extractFuncFromPath` (ancestors, nearest first) -/
def refFunc : List (Expr V) → String
  | [] => ""
  | .agg op _ _ _ :: _ => op
  | .aggP op _ _ _ _ :: _ => op
  | .call fn _ :: _ => fn
  | .bin _ _ _ _ _ :: _ => ""
  | _ :: rest => refFunc rest

/-- `extractGroupsFromPath`: the nearest ancestor only -/
def refGroup : List (Expr V) → Bool × List String
  | .agg _ w g _ :: _ => (!w, g)
  | .aggP _ w g _ _ :: _ => (!w, g)
  | _ => (false, [])

/-- the reference engine: per selector, from its path -/
def refHints (path : List (Expr V)) : Expr V → List Hint
  | .vsel _ => [⟨refFunc path, (refGroup path).1, (refGroup path).2⟩]
  | .call fn args => refArgs (.call fn args :: path) args
  | .agg op w g e => refHints (.agg op w g e :: path) e
  | .aggP op w g p e => refHints (.aggP op w g p e :: path) e ++ refHints (.aggP op w g p e :: path) p
  | .bin op b m l r => refHints (.bin op b m l r :: path) l ++ refHints (.bin op b m l r :: path) r
  | .neg e => refHints (.neg e :: path) e
  | .pos e => refHints (.pos e :: path) e
  | .paren e => refHints (.paren e :: path) e
  | .stepInv e => refHints (.stepInv e :: path) e
  | .subq e => refHints (.subq e :: path) e
  | _ => []
where
  /-- the vector selector inside a matrix selector has the matrix selector as its parent: no
  grouping, and the function of the enclosing call -/
  refArgs (p : List (Expr V)) : List (Expr V) → List Hint
    | [] => []
    | .msel s r :: as => ⟨refFunc (Expr.msel s r :: p), (refGroup (Expr.msel s r :: p)).1, (refGroup (Expr.msel s r :: p)).2⟩ :: refArgs p as
    | a :: as => refHints p a ++ refArgs p as

def showHint (h : Hint) : String :=
  h.fn ++ "|" ++ (if h.by_ then "1" else "0") ++ "|" ++ String.intercalate "," h.grouping

end PromqlVerif
