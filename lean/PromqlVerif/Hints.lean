/-
The `Func` / `Grouping` / `By` / `Step` / `Range` fields of the select hints. The reference engine derives them, per
selector, from the path of ancestors (`extractFuncFromPath`, `extractGroupsFromPath` in
promql/engine.go); this engine hands a hints value down the recursion of `newOperator`
(execution/execution.go) and rewrites it at calls, aggregations, binary expressions and wrappers.
`Proofs/HintsProof.lean` shows that the two agree for every expression.
-/
import PromqlVerif.Expr
namespace PromqlVerif

variable {V : Type}

structure Hint where
  fn : String
  by_ : Bool
  grouping : List String
  /-- `SelectHints.Step`: the query's step in ms (`execution.New`), never rewritten below -/
  step : Int := 0
  /-- `SelectHints.Range`: the range of the enclosing matrix selector in ms, 0 for a bare selector -/
  range : Int := 0
deriving DecidableEq, Repr

def Hint.empty : Hint := ⟨"", false, [], 0, 0⟩

/-- `execution.New`: the hints `newOperator` starts from -/
def Hint.start (step : Int) : Hint := ⟨"", false, [], step, 0⟩

/-- what wrappers do to the hints: the function is kept, the grouping is not -/
def Hint.noGroup (h : Hint) : Hint := { h with by_ := false, grouping := [] }

/-- a binary expression clears function and grouping (`Step` and `Range` stay) -/
def Hint.clear (h : Hint) : Hint := { h with fn := "", by_ := false, grouping := [] }

/-- a call or an aggregation overwrites function and grouping (`Step` and `Range` stay) -/
def Hint.withFn (h : Hint) (fn : String) (by_ : Bool) (g : List String) : Hint :=
  { h with fn := fn, by_ := by_, grouping := g }

/-- `newOperator`: the hints each selector of the expression is created with, in order. (A range
vector selector is only planned as the argument of a call, with the call's hints and its own range
written into the local copy of the hints; anywhere else plan construction fails.) -/
def engHints (h : Hint) : Expr V → List Hint
  | .vsel _ => [h]
  | .call fn args => callArgs (h.withFn fn false []) args
  | .agg op w g e => engHints (h.withFn op (!w) g) e
  | .aggP op w g p e => engHints (h.withFn op (!w) g) e ++ engHints (h.withFn op (!w) g) p
  | .bin _ _ _ l r => engHints h.clear l ++ engHints h.clear r
  | .neg e => engHints h.noGroup e
  | .pos e => engHints h.noGroup e
  | .paren e => engHints h.noGroup e
  | .stepInv e => engHints h.noGroup e
  | .subq e => engHints h.noGroup e
  | _ => []
where
  callArgs (hc : Hint) : List (Expr V) → List Hint
    | [] => []
    | .msel _ r :: as => { hc with range := r } :: callArgs hc as
    | a :: as => engHints hc a ++ callArgs hc as

/-- `extractFuncFromPath` (ancestors, nearest first) -/
def refFunc : List (Expr V) → String
  | [] => ""
  | .agg op _ _ _ :: _ => op
  | .aggP op _ _ _ _ :: _ => op
  | .call fn _ :: _ => fn
  | .bin _ _ _ _ _ :: _ => ""
  | _ :: rest => refFunc rest

/-- `extractGroupsFromPath`: the nearest ancestor only -/
def refGroup : List (Expr V) → Bool × List String
  | .agg _ w g _ :: _ => (!w, g)
  | .aggP _ w g _ _ :: _ => (!w, g)
  | _ => (false, [])

/-- the reference engine (`populateSeries`): `parser.Inspect` visits the nodes in pre-order; each
vector selector gets `Func`/`By`/`Grouping` from its path, `Step` from the statement's interval
(there is no subquery on the path of a natively planned selector), and `Range` from the *mutable*
variable `evalRange`, which a matrix selector sets and the next vector selector visited consumes
and resets. `ev` is that variable on entry; the second component is its value on exit. -/
def refHints (step : Int) (path : List (Expr V)) (ev : Int) : Expr V → List Hint × Int
  | .vsel _ => ([⟨refFunc path, (refGroup path).1, (refGroup path).2, step, ev⟩], 0)
  | .call fn args => refArgs (.call fn args :: path) ev args
  | .agg op w g e => refHints step (.agg op w g e :: path) ev e
  | .aggP op w g p e =>
    let a := refHints step (.aggP op w g p e :: path) ev e
    let b := refHints step (.aggP op w g p e :: path) a.2 p
    (a.1 ++ b.1, b.2)
  | .bin op b m l r =>
    let x := refHints step (.bin op b m l r :: path) ev l
    let y := refHints step (.bin op b m l r :: path) x.2 r
    (x.1 ++ y.1, y.2)
  | .neg e => refHints step (.neg e :: path) ev e
  | .pos e => refHints step (.pos e :: path) ev e
  | .paren e => refHints step (.paren e :: path) ev e
  | .stepInv e => refHints step (.stepInv e :: path) ev e
  | .subq e => refHints step (.subq e :: path) ev e
  | _ => ([], ev)
where
  /-- a matrix selector sets `evalRange := r`; its vector selector (visited next, with the matrix
  selector as its parent: no grouping, the function of the enclosing call) consumes it -/
  refArgs (p : List (Expr V)) (ev : Int) : List (Expr V) → List Hint × Int
    | [] => ([], ev)
    | .msel s r :: as =>
      let rest := refArgs p 0 as
      (⟨refFunc (Expr.msel s r :: p), (refGroup (Expr.msel s r :: p)).1, (refGroup (Expr.msel s r :: p)).2, step, r⟩
        :: rest.1, rest.2)
    | a :: as =>
      let x := refHints step p ev a
      let rest := refArgs p x.2 as
      (x.1 ++ rest.1, rest.2)

def showHint (h : Hint) : String :=
  h.fn ++ "|" ++ (if h.by_ then "1" else "0") ++ "|" ++ String.intercalate "," h.grouping
    ++ "|" ++ toString h.step ++ "|" ++ toString h.range

end PromqlVerif
