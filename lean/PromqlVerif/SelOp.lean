/-
`vectorSelector.Next` as it is written (execution/scan/vector_selector.go): the operator keeps one
memoized iterator per series for the whole query; a batch is produced by running every series
through all the steps of the batch (`selectPoint` per step) and appending what it finds to the
step vector of that step. `Proofs/SelOpProof.lean` shows that, whatever the batching, the stream
of step vectors is the per-step selection `engSelector` is defined by.
-/
import PromqlVerif.Iter
import PromqlVerif.Eng
namespace PromqlVerif
open Val

variable {V : Type} [Val V]

/-- one series through the reference times of a batch: the iterator afterwards, and what
`selectPoint` returned at each step -/
def runM (lookback : Int) : Memo V → List Int → Memo V × List (Option (Int × V))
  | m, [] => (m, [])
  | m, r :: rs =>
    let (m', res) := selectPointM lookback m r
    let (m'', rest) := runM lookback m' rs
    (m'', res :: rest)

/-- the step vectors of one batch: for step `j`, the series (in order, by signature) that returned a
sample at step `j` -/
def transposeBatch (runs : List (List (Option (Int × V)))) (n : Nat) : List (IdVec V) :=
  (List.range n).map fun j =>
    (enum runs).filterMap fun (i, r) => ((r.getD j none).map fun p => (i, p.2))

/-- `Next()`: all series through the reference times of the batch -/
def vsBatch (lookback : Int) (ms : List (Memo V)) (refs : List Int) : List (Memo V) × List (IdVec V) :=
  let runs := ms.map fun m => runM lookback m refs
  (runs.map (·.1), transposeBatch (runs.map (·.2)) refs.length)

/-- the whole stream: batch after batch, the iterators threaded through -/
def vsStream (lookback : Int) : List (Memo V) → List (List Int) → List (IdVec V)
  | _, [] => []
  | ms, b :: bs =>
    let (ms', vs) := vsBatch lookback ms b
    vs ++ vsStream lookback ms' bs

/-- the per-step selection over the series, as `engSelector` has it -/
def selectStep (lookback : Int) (series : List (List (Sample V))) (ref : Int) : IdVec V :=
  (enum series).filterMap fun (i, s) => (selectSample lookback ref s).map fun p => (i, p.2)

/-! ### `matrixSelector.Next` -/

/-- per series: the buffered iterator with its ring's current delta, and `previousPoints` -/
structure MState (V : Type) where
  delta : Int
  buf : Buf V
  prev : List (Int × V)

def MState.new (range : Int) (ss : List (Sample V)) : MState V := { delta := range, buf := Buf.new ss, prev := [] }

/-- `n` window ends `r, r + step, ...` -/
def ends (r step : Int) : Nat → List Int
  | 0 => []
  | n + 1 => r :: ends (r + step) step n

/-- one series through the window ends of a batch: `selectPoints` into `previousPoints`, then
`ReduceDelta(stepRange)`; returns the state afterwards and each step's points -/
def runR (range step : Int) : MState V → List Int → MState V × List (List (Int × V))
  | st, [] => (st, [])
  | st, r :: rs =>
    let (b', out') := selectPointsB st.delta st.buf (r - range) r st.prev
    let sr := stepRange range step
    let st' : MState V :=
      if sr > st.delta then { delta := st.delta, buf := b', prev := out' }
      else { delta := sr, buf := { b' with ring := reduceRing sr b'.ring }, prev := out' }
    let (st'', rest) := runR range step st' rs
    (st'', out' :: rest)

/-- the step vectors of one batch: the range function applied to every series' points, per step -/
def transposeR (fn : String) (range : Int) (runs : List (List (List (Int × V)))) (refs : List Int) : List (IdVec V) :=
  (List.range refs.length).map fun j =>
    (enum runs).filterMap fun (i, run) =>
      (rangeKernel fn (run.getD j []) (refs.getD j 0 - range) (refs.getD j 0) (rangeSeconds range)).map fun v => (i, v)

def msBatch (fn : String) (range step : Int) (sts : List (MState V)) (refs : List Int) :
    List (MState V) × List (IdVec V) :=
  let runs := sts.map fun st => runR range step st refs
  (runs.map (·.1), transposeR fn range (runs.map (·.2)) refs)

/-- the whole stream: batches of `n` steps each, the per-series states threaded through -/
def msStream (fn : String) (range step : Int) : List (MState V) → Int → List Nat → List (IdVec V)
  | _, _, [] => []
  | sts, r, n :: ns =>
    let (sts', vs) := msBatch fn range step sts (ends r step n)
    vs ++ msStream fn range step sts' (r + n * step) ns

/-- the per-step evaluation over the series, as `engRangeFn` has it -/
def rangeStep (fn : String) (range : Int) (series : List (List (Sample V))) (r : Int) : IdVec V :=
  (enum series).filterMap fun (i, s) =>
    (rangeKernel fn (windowPoints (r - range) r s) (r - range) r (rangeSeconds range)).map fun v => (i, v)

end PromqlVerif
