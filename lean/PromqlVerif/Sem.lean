/-
Per-step denotational semantics of the natively supported PromQL fragment.

`Sem.eval` is parametric in a record of `Quirks`: with `Quirks.none` it is the reference
semantics (Prometheus v0.40.1, `promql/engine.go`); with `Quirks.engine` it is the engine's own
per-step semantics (the known deviations of the pinned tree that are recorded as findings).
-/
import PromqlVerif.Expr
import PromqlVerif.Kernels
namespace PromqlVerif
open Val

inductive Err
  | manyToMany | manyToOne | groupNotUnique | dupLabelset | badParam | unsupported | type | other
deriving DecidableEq, Repr, Inhabited

def Err.name : Err → String
  | .manyToMany => "many-to-many" | .manyToOne => "many-to-one-implicit"
  | .groupNotUnique => "grouping-not-unique" | .dupLabelset => "duplicate-labelset"
  | .badParam => "bad-param" | .unsupported => "unsupported" | .type => "type" | .other => "other"

/-- Deviations of the engine's per-step semantics from the reference that are known findings.
Every field `false` = reference semantics. -/
structure Quirks where
  /-- `timestamp(v)` does not see the sample's own timestamp (A15) -/
  timestampIsStepTime : Bool := false
  /-- no per-step duplicate-labelset check (A2) -/
  noDupCheck : Bool := false
  /-- vector matching errors as the engine's join table raises them (A12, A14, A39) -/
  engineMatching : Bool := false
  /-- histogram_quantile groups by labels minus `le` *and* the metric name (A41) -/
  histIgnoresName : Bool := false
deriving Repr, Inhabited, DecidableEq

def Quirks.none : Quirks := {}

abbrev Vec (V : Type) := List (Labels × V)

inductive Value (V : Type) where
  | vec (v : Vec V)
  | scal (v : V)
deriving Inhabited

structure Ctx (V : Type) where
  st : List (Series V)
  lookback : Int
  /-- start of the query window: evaluation time of step-invariant parts -/
  start : Int
  re : ReTab := []
  /-- `strconv.ParseFloat` on `le` values, tabulated -/
  pf : List (String × Option V) := []
  q : Quirks := {}
  /-- distributed execution: what each remote engine stores (`.remote i e` evaluates `e` there) -/
  parts : List (List (Series V)) := []

variable {V : Type} [Val V]

/-! ### selection -/

/-- the latest sample with `t ≤ ref` -/
def latestAtOrBefore (ss : List (Sample V)) (ref : Int) : Option (Sample V) :=
  (ss.filter (fun s => s.t ≤ ref)).getLast?

/-- instant-vector selection of one series at reference time `ref` -/
def selectSample (lookback ref : Int) (ss : List (Sample V)) : Option (Int × V) :=
  match latestAtOrBefore ss ref with
  | some ⟨t, .num v⟩ => if t < ref - lookback then none else some (t, v)
  | _ => none

/-- the non-stale samples with `mint ≤ t ≤ maxt` -/
def windowPoints (mint maxt : Int) (ss : List (Sample V)) : List (Pt V) :=
  ss.filterMap fun s =>
    match s.v with
    | .num v => if mint ≤ s.t && s.t ≤ maxt then some (s.t, v) else none
    | .stale => none

def VSel.allMatchers (s : VSel) : List Matcher := s.matchers ++ s.filters.getD []

/-- The selector's effective offset: `setOffsetForAtModifier` turns `@ ts` into an offset
relative to the start of the query window. A selector under `@` that sits inside a
step-invariant wrapper is evaluated at `start`, hence at `ts - origOffset`; one that is not
wrapped (Prometheus' `PreprocessExpr` does not descend into aggregation parameters) moves
with the evaluation time - in the reference engine as well. -/
def VSel.offsetAt (s : VSel) (start : Int) : Int :=
  s.origOffset + (match s.atTs with
    | some a => start - a
    | none => 0)

def VSel.refTime (s : VSel) (start t : Int) : Int := t - s.offsetAt start

def matchingSeries (c : Ctx V) (s : VSel) : List (Series V) :=
  c.st.filter (fun sr => matchAll c.re s.allMatchers sr.labels)

/-- selection with the samples' own timestamps -/
def selectT (c : Ctx V) (s : VSel) (ref : Int) : List (Labels × Int × V) :=
  (matchingSeries c s).filterMap fun sr =>
    (selectSample c.lookback ref sr.samples).map fun p => (sr.labels, p.1, p.2)

def selectV (c : Ctx V) (s : VSel) (t : Int) : Vec V :=
  (selectT c s (s.refTime c.start t)).map fun x => (x.1, x.2.2)

/-! ### helpers -/

def hasDupLabels (v : Vec V) : Bool :=
  let keys := v.map (·.1)
  keys.length != keys.eraseDups.length

def dedupCheck (c : Ctx V) (v : Vec V) : Except Err (Value V) :=
  if !c.q.noDupCheck && hasDupLabels v then .error .dupLabelset else .ok (.vec v)

def Value.asVec : Value V → Except Err (Vec V)
  | .vec v => .ok v
  | .scal _ => .error .type

def Value.asScal : Value V → Except Err V
  | .scal v => .ok v
  | .vec _ => .error .type

def arith (op : String) (a b : V) : V :=
  match op with
  | "+" => add a b | "-" => sub a b | "*" => mul a b | "/" => div a b
  | "%" => mod a b | "^" => pow a b | "atan2" => atan2 a b
  | _ => nan

def compareOp (op : String) (a b : V) : Bool :=
  match op with
  | "==" => eq a b | "!=" => ne a b | ">" => gt a b | "<" => lt a b
  | ">=" => ge a b | "<=" => le a b
  | _ => false

def isComparison (op : String) : Bool := comparisonOps.contains op

/-- `shouldDropMetricName` -/
def dropsName (op : String) : Bool := ["+", "-", "*", "/", "%", "^"].contains op

/-- `vectorElemBinop`: value and keep flag -/
def elemBinop (op : String) (l r : V) : V × Bool :=
  if isComparison op then (l, compareOp op l r) else (arith op l r, true)

/-! ### aggregation -/

def groupLabels (without : Bool) (grouping : List String) (ls : Labels) : Labels :=
  if without then (ls.del grouping).dropName else ls.keep grouping

/-- group key: for `without` the metric name never takes part -/
def groupKey (without : Bool) (grouping : List String) (ls : Labels) : Labels :=
  if without then (ls.del grouping).dropName else ls.keep grouping

/-- partition by key, groups in order of first appearance, members in input order -/
def groupBy {α : Type} (key : α → Labels) (xs : List α) : List (Labels × List α) :=
  (dedup (xs.map key)).map fun k => (k, xs.filter fun x => key x == k)

def aggregate (op : String) (without : Bool) (grouping : List String) (param : V) (v : Vec V) :
    Except Err (Vec V) :=
  if op == "topk" || op == "bottomk" then
    if !inInt64 param then .error .badParam
    else
      let k := toInt param
      if k < 1 then .ok []
      else
        let groups := groupBy (fun (x : Labels × V) => groupKey without grouping x.1) v
        .ok (groups.flatMap fun g => kSelect (op == "topk") k.toNat g.2)
  else
    let groups := groupBy (fun (x : Labels × V) => groupKey without grouping x.1) v
    .ok (groups.map fun g =>
      (match g.2 with
       | x :: _ => groupLabels without grouping x.1
       | [] => [],
       aggReduce op param (g.2.map (·.2))))

/-! ### vector matching -/

def sigLabels (m : Matching) (ls : Labels) : Labels :=
  if m.on then ls.keep m.labels else (ls.del m.labels).dropName

/-- `resultMetric` -/
def resultMetric (op : String) (bool : Bool) (m : Matching) (many one : Labels) : Labels :=
  let ls := if dropsName op then many.dropName else many
  let ls := if m.card == .oneToOne then (if m.on then ls.keep m.labels else ls.del m.labels) else ls
  let ls := m.incl.foldl (fun acc ln => acc.set ln (one.get ln)) ls
  -- `bool` drops the name from the finished metric (`enh.DropMetricName` in `VectorBinop`)
  if bool then ls.dropName else ls

/-- reference `VectorBinop` for one step -/
def vectorBinop (op : String) (bool : Bool) (m : Matching) (lhs rhs : Vec V) : Except Err (Vec V) :=
  if lhs.isEmpty || rhs.isEmpty then .ok []
  else
    let swap := m.card == .oneToMany
    let (many, one) := if swap then (rhs, lhs) else (lhs, rhs)
    -- the one side must be unique per signature
    let oneSigs := one.map (fun x => sigLabels m x.1)
    if oneSigs.length != oneSigs.eraseDups.length then .error .manyToMany
    else
      let step := fun (acc : Except Err (Vec V × List (Labels × List Labels))) (ls : Labels × V) =>
        match acc with
        | .error e => .error e
        | .ok (out, matched) =>
          let sig := sigLabels m ls.1
          match one.find? (fun r => sigLabels m r.1 == sig) with
          | none => .ok (out, matched)
          | some rs =>
            let (vl, vr) := if swap then (rs.2, ls.2) else (ls.2, rs.2)
            let (value, keep) := elemBinop op vl vr
            let value := if bool then ofBool keep else value
            if !bool && !keep then .ok (out, matched)
            else
              let metric := resultMetric op bool m ls.1 rs.1
              match matched.find? (fun e => e.1 == sig) with
              | some e =>
                if m.card == .oneToOne then .error .manyToOne
                else if e.2.contains metric then .error .groupNotUnique
                else .ok (out ++ [(metric, value)],
                          matched.map (fun e' => if e'.1 == sig then (e'.1, metric :: e'.2) else e'))
              | none => .ok (out ++ [(metric, value)], matched ++ [(sig, [metric])])
      (many.foldl step (.ok ([], []))).map (·.1)

/-- `VectorscalarBinop` -/
def vectorScalarBinop (op : String) (bool : Bool) (v : Vec V) (s : V) (scalarLeft : Bool) : Vec V :=
  v.filterMap fun x =>
    let (lv, rv) := if scalarLeft then (s, x.2) else (x.2, s)
    let (value, keep) := elemBinop op lv rv
    let value := if isComparison op && scalarLeft then rv else value
    let (value, keep) := if bool then (ofBool keep, true) else (value, keep)
    if keep then
      some (if dropsName op || bool then x.1.dropName else x.1, value)
    else none

/-! ### histogram_quantile -/

def pfLookup (c : Ctx V) (s : String) : Option V :=
  match c.pf.find? (fun e => e.1 == s) with
  | some e => e.2
  | none => none

def histogramQuantile (c : Ctx V) (q : V) (v : Vec V) : Vec V :=
  let withBound := v.filterMap fun x =>
    (pfLookup c (x.1.get "le")).map fun ub => (x.1, ub, x.2)
  let key := fun (x : Labels × V × V) =>
    if c.q.histIgnoresName then (x.1.del ["le"]).dropName else x.1.del ["le"]
  let groups := groupBy key withBound
  groups.filterMap fun g =>
    match g.2 with
    | [] => none
    | x :: _ =>
      some ((x.1.del ["le"]).dropName, bucketQuantile q (g.2.map fun b => ⟨b.2.1, b.2.2⟩))

/-! ### the evaluator -/

def simpleFns : List String :=
  ["abs", "ceil", "floor", "exp", "sqrt", "ln", "log2", "log10", "sin", "cos", "tan", "asin",
   "acos", "atan", "sinh", "cosh", "tanh", "asinh", "acosh", "atanh", "rad", "deg"]

def applySimple (fn : String) (v : V) : V :=
  match fn with
  | "abs" => abs v
  | "floor" => floor v
  | "sqrt" => sqrt v
  | _ => Val.fn fn v

def rangeSeconds (range : Int) : V := div (ofInt range) (ofInt 1000)

/-- a range function over a matrix selector at step `t` -/
def evalRangeFn (c : Ctx V) (fn : String) (s : VSel) (range t : Int) : Vec V :=
  let ref := s.refTime c.start t
  (matchingSeries c s).filterMap fun sr =>
    (rangeKernel fn (windowPoints (ref - range) ref sr.samples) (ref - range) ref
        (rangeSeconds range)).map fun v =>
      (if fn == "last_over_time" then sr.labels else sr.labels.dropName, v)

mutual

def eval (c : Ctx V) (t : Int) : Expr V → Except Err (Value V)
  | .num v => .ok (.scal v)
  | .str => .error .unsupported
  | .vsel s => .ok (.vec (selectV c s t))
  | .msel _ _ => .error .unsupported
  | .subq _ => .error .unsupported
  | .coalesce es => do
    let v ← evalVecs c t es
    pure (.vec v)
  | .remote i e => eval { c with st := c.parts.getD i [] } t e
  | .paren e => eval c t e
  | .pos e => eval c t e
  | .stepInv e => eval c c.start e
  | .neg e => do
    match (← eval c t e) with
    | .scal v => pure (.scal (neg v))
    | .vec v => pure (.vec (v.map fun x => (x.1.dropName, neg x.2)))
  | .agg op without grouping e => do
    let v ← (← eval c t e).asVec
    let r ← aggregate op without grouping nan v
    dedupCheck c r
  | .aggP op without grouping p e => do
    let pv ← (← eval c t p).asScal
    let v ← (← eval c t e).asVec
    let r ← aggregate op without grouping pv v
    dedupCheck c r
  | .bin op bool m l r => do
    let lv ← eval c t l
    let rv ← eval c t r
    match lv, rv with
    | .scal a, .scal b =>
      pure (.scal (if isComparison op then ofBool (compareOp op a b) else arith op a b))
    | .vec a, .scal b => dedupCheck c (vectorScalarBinop op bool a b false)
    | .scal a, .vec b => dedupCheck c (vectorScalarBinop op bool b a true)
    | .vec a, .vec b => do
      let out ← vectorBinop op bool m a b
      dedupCheck c out
  | .call fn args =>
    match fn, args with
    | "time", [] => .ok (.scal (div (ofInt t) (ofInt 1000)))
    | "pi", [] => .ok (.scal pi)
    | fn, [.msel s range] =>
      if rangeFnNames.contains fn then .ok (.vec (evalRangeFn c fn s range t))
      else .error .unsupported
    | "timestamp", [a] =>
      match a.unwrap with
      | .vsel s =>
        if c.q.timestampIsStepTime then do
          let v ← (← eval c t a).asVec
          dedupCheck c (v.map fun x => (x.1.dropName, div (ofInt t) (ofInt 1000)))
        else
          -- the selector is re-evaluated at `t` with the samples' own timestamps
          match s.atTs with
          | none =>
            dedupCheck c ((selectT c s (s.refTime c.start t)).map fun x =>
              (x.1.dropName, div (ofInt x.2.1) (ofInt 1000)))
          | some a =>
            -- Reference quirk: under `@` the offset is recomputed as `t - @`, forgetting the
            -- original offset `o`, while the data was selected for `[@ - o - lookback, @ - o]`:
            -- the latest sample at or before `min(@, @ - o)` is taken and its age is measured
            -- from `@`.
            let o := s.origOffset
            let hi := if o ≥ 0 then a - o else a
            let lo := if o ≥ 0 then a - c.lookback else a - c.lookback - o
            dedupCheck c ((matchingSeries c s).filterMap fun sr =>
              match latestAtOrBefore sr.samples hi with
              | some ⟨ts, .num _⟩ =>
                if ts < lo then none else some (sr.labels.dropName, div (ofInt ts) (ofInt 1000))
              | _ => none)
      | _ => do
        let v ← (← eval c t a).asVec
        dedupCheck c (v.map fun x => (x.1.dropName, div (ofInt t) (ofInt 1000)))
    | "scalar", [a] => do
      let v ← (← eval c t a).asVec
      match v with
      | [x] => pure (.scal x.2)
      | _ => pure (.scal nan)
    | "vector", [a] => do
      let s ← (← eval c t a).asScal
      pure (.vec [([], s)])
    | "clamp", [a, lo, hi] => do
      let v ← (← eval c t a).asVec
      let lo ← (← eval c t lo).asScal
      let hi ← (← eval c t hi).asScal
      if lt hi lo then pure (.vec [])
      else dedupCheck c (v.map fun x => (x.1.dropName, maxGo lo (minGo hi x.2)))
    | "clamp_min", [a, lo] => do
      let v ← (← eval c t a).asVec
      let lo ← (← eval c t lo).asScal
      dedupCheck c (v.map fun x => (x.1.dropName, maxGo lo x.2))
    | "clamp_max", [a, hi] => do
      let v ← (← eval c t a).asVec
      let hi ← (← eval c t hi).asScal
      dedupCheck c (v.map fun x => (x.1.dropName, minGo hi x.2))
    | "histogram_quantile", [q, a] => do
      let q ← (← eval c t q).asScal
      let v ← (← eval c t a).asVec
      dedupCheck c (histogramQuantile c q v)
    | fn, [a] =>
      if simpleFns.contains fn then do
        let v ← (← eval c t a).asVec
        dedupCheck c (v.map fun x => (x.1.dropName, applySimple fn x.2))
      else .error .unsupported
    | _, _ => .error .unsupported

/-- the children of a coalesce node: their vectors one after the other -/
def evalVecs (c : Ctx V) (t : Int) : List (Expr V) → Except Err (Vec V)
  | [] => .ok []
  | e :: es => do
    let v ← (← eval c t e).asVec
    let r ← evalVecs c t es
    pure (v ++ r)

end

end PromqlVerif
