/-
C02 - instant-vector selection honours lookback, staleness, offset and @, however steps are
batched and series are sharded.
-/
import PromqlVerif.Proofs.Den
import PromqlVerif.Proofs.Grid
import PromqlVerif.Proofs.IterProof
import PromqlVerif.Proofs.SelOpProof
import PromqlVerif.Proofs.ShardProof
namespace PromqlVerif.C02
open PromqlVerif Val

variable {V : Type} [Val V]

/-- the engine's selector operator, read through its series list, is the reference selection -
for every storage, matcher set, lookback, offset / @ and step time -/
theorem selector_is_reference (c : Ctx V) (s : VSel) (t : Int) :
    (engSelector c s false).den t = .ok (selectV c s t) := engSelector_den c s t

/-- what the reference selection yields for one series: the latest sample at or before the
reference time ... -/
theorem selectSample_some_iff (lookback ref : Int) (ss : List (Sample V)) (t : Int) (v : V) :
    selectSample lookback ref ss = some (t, v) ↔
      latestAtOrBefore ss ref = some ⟨t, .num v⟩ ∧ ref - lookback ≤ t := by
  unfold selectSample
  split
  · rename_i t' v' h
    rw [h]
    constructor
    · intro hh
      split at hh
      · cases hh
      · rename_i hlt; cases hh; exact ⟨rfl, by omega⟩
    · rintro ⟨h1, h2⟩
      cases h1
      have : ¬ t < ref - lookback := by omega
      simp [this]
  · rename_i hno
    constructor
    · intro hh; cases hh
    · rintro ⟨h1, _⟩
      exact absurd h1 (by intro hc; exact hno t v hc)

/-- ... a sample whose age is exactly the lookback delta is still selected, one millisecond
older is not -/
theorem lookback_boundary (lookback ref : Int) (v : V) (hl : 0 ≤ lookback) :
    selectSample lookback ref [⟨ref - lookback, .num v⟩] = some (ref - lookback, v) ∧
    selectSample lookback ref [⟨ref - lookback - 1, .num v⟩] = none := by
  constructor
  · have h1 : ref - lookback ≤ ref := by omega
    simp [selectSample, latestAtOrBefore, h1]
  · have h1 : ref - lookback - 1 ≤ ref := by omega
    have h2 : ref - lookback - 1 < ref - lookback := by omega
    simp [selectSample, latestAtOrBefore, h1, h2]

/-- a staleness marker as the latest sample yields nothing, even if an older sample is in range -/
theorem stale_marker_hides_series (lookback ref t0 : Int) (v : V) (h0 : t0 < ref) :
    selectSample lookback ref [⟨t0, .num v⟩, ⟨ref, (.stale : SVal V)⟩] = none := by
  have h1 : t0 ≤ ref := by omega
  simp [selectSample, latestAtOrBefore, h1]

/-- the engine's per-series scan - `selectPoint` driving Prometheus' `MemoizedSeriesIterator`
through the step times of a query - returns at every step what the declarative selection
returns, for every sorted sample list, every lookback delta and every non-decreasing sequence of
reference times (any start, step, offset and @, any batching of the steps) -/
theorem memoized_scan_is_reference (S : List (Sample V)) (hs : SortedT S) (delta : Int) (hd : 0 ≤ delta)
    (refs : List Int) (hr : refs.Pairwise (· ≤ ·)) :
    selectPointsM delta (Memo.new S) refs = refs.map (fun r => selectSample delta r S) :=
  selectPoints_along_steps S hs delta hd refs hr

/-- the per-step vector of the selector operator, written with the series' sample lists -/
theorem selector_step_eq (c : Ctx V) (s : VSel) (t : Int) :
    (engSelector c s false).step t =
      .ok (selectStep c.lookback ((matchingSeries c s).map (·.samples)) (t - s.offsetAt c.start)) := by
  simp only [engSelector, selectStep, enum]
  rw [enumFrom_map, List.filterMap_map]
  congr 1

/-- **the selector operator as it is written**: `vectorSelector.Next` keeps one memoized iterator
per series for the whole query and fills the step vectors of a batch series by series. Modelled
as written (`SelOp.lean`): for every storage with sorted series, every matcher set, lookback
`≥ 0`, offset / @, and every split of non-decreasing step times into batches, the stream of step
vectors it produces is the per-step selection `engSelector` is defined by. -/
theorem selector_operator_stream (c : Ctx V) (s : VSel) (hsorted : ∀ sr ∈ c.st, SortedT sr.samples)
    (hlb : 0 ≤ c.lookback) (batches : List (List Int)) (hmono : batches.flatten.Pairwise (· ≤ ·)) :
    (vsStream c.lookback (((matchingSeries c s).map (·.samples)).map Memo.new)
        (batches.map fun b => b.map fun t => t - s.offsetAt c.start)).map Except.ok =
      batches.flatten.map (engSelector c s false).step := by
  have hfl : (batches.map fun b => b.map fun t => t - s.offsetAt c.start).flatten =
      batches.flatten.map fun t => t - s.offsetAt c.start := by
    induction batches with
    | nil => rfl
    | cons b bs ih => simp [ih]
  rw [vsStream_spec c.lookback hlb _ ?_ _ ?_, hfl]
  · simp only [List.map_map]
    apply List.map_congr_left
    intro t _
    simp only [Function.comp]
    exact (selector_step_eq c s t).symm
  · intro sm hsm
    obtain ⟨sr, hsr, rfl⟩ := List.mem_map.mp hsm
    exact hsorted sr (List.mem_filter.mp hsr).1
  · rw [hfl]
    exact hmono.map _ (fun a b h => by omega)

/-- the leaf cursor protocol enumerates exactly the step grid, for every step count -/
theorem cursor_enumerates_grid (w : Window) (hs : 0 < w.step) (hle : w.start ≤ w.stop) (B : Nat) (hB : 0 < B) :
    (leafStream w (numStepsBatch w B) w.numSteps w.start).flatten = w.grid :=
  leaf_stream_is_grid w hs hle B hB

/-- sharding loses and duplicates no series, for every shard count -/
theorem shards_partition {α : Type} (l : List α) (n : Nat) (hn : 0 < n) :
    (List.range n).flatMap (fun i => seriesShard l i n) = l := shards_cover l n hn

/-- merging the shards in any completion order denotes the union of the shards' results -/
theorem merge_any_order {α β : Type} (cs : List (List α × List (Nat × β)))
    (h : ∀ c ∈ cs, ∀ x ∈ c.2, x.1 < c.1.length)
    (merged : List (List (Nat × β))) (hp : merged.Perm (coalesceVecs cs)) :
    (denote (coalesceSeries cs) merged.flatten).Perm ((cs.map fun c => denote c.1 c.2).flatten) :=
  coalesce_any_order cs h merged hp

/-- **sharding is transparent, as the operators are written**: the matching series split into
shards in any way (any shard count, empty shards), each shard's `vectorSelector` producing the
step vectors of one batch of reference times (`SelOp.lean`, proved equal to the per-step selection
by `selector_operator_stream`), and the shards' goroutines reaching the coalesce operator in any
order `arr` (`Coalesce.lean`): `Next` succeeds, the merged batch carries the step timestamps,
and every step vector is - up to the order of its samples - the selection over all the series at
that step, with IDs indexing the concatenated series list. -/
theorem sharded_selector_batch (lookback : Int) (stamp : Int → Int) (refs : List Int) (hrefs : refs ≠ [])
    (shards : List (List (List (Sample V)))) (hsh : shards ≠ [])
    (arr : List (Nat × List (List (Sample V))))
    (harr : arr.Perm ((offsetsOf (shards.map List.length)).zip shards)) :
    ∃ out, coalesceNext ((arr.map (shardArrival (fun s r => (selectSample lookback r s).map (·.2)) stamp refs)).map
        fun a => (a.1, some a.2)) = .ok (some out) ∧
      All2 (fun (sv : SV V) (r : Int) => sv.1 = stamp r ∧ sv.2.Perm (selectStep lookback shards.flatten r)) out refs := by
  rw [selectStep_eq_perStep]
  exact sharded_batch _ stamp refs hrefs shards hsh arr harr

/-- two shards arriving in reverse order -/
example : ∃ out, coalesceNext (([(1, [[⟨95, .num (2 : Int)⟩]]), (0, [[⟨50, .num 1⟩]])].map
      (shardArrival (fun s r => (selectSample 100 r s).map (·.2)) id [100])).map fun a => (a.1, some a.2)) = .ok (some out) ∧
    out = [(100, [(1, 2), (0, 1)])] := ⟨_, rfl, by decide⟩

/-- a concrete series with samples inside and outside the lookback range -/
example : selectSample 10 100 [⟨50, .num (1 : Int)⟩, ⟨95, .num 2⟩, ⟨120, .num 3⟩] = some (95, 2) := by decide

end PromqlVerif.C02
