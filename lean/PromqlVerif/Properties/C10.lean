/-
C10 - distributed execution equals central execution over the union of the partitions
(partial: the algebra of the reference semantics over a disjoint union that the push-down
relies on; the rewrite itself is compared on the real code by the `dist` oracle).
-/
import PromqlVerif.Sem
import PromqlVerif.Gen.Facts
namespace PromqlVerif.C10
open PromqlVerif Val

variable {V : Type} [Val V]

/-- selection over the union of two partitions is the union of the selections -/
theorem select_union (c : Ctx V) (p1 p2 : List (Series V)) (s : VSel) (t : Int) :
    selectV { c with st := p1 ++ p2 } s t = selectV { c with st := p1 } s t ++ selectV { c with st := p2 } s t := by
  simp [selectV, selectT, matchingSeries, List.filter_append, List.filterMap_append]

/-- range functions commute with the union: they are evaluated per series -/
theorem rangefn_union (c : Ctx V) (p1 p2 : List (Series V)) (fn : String) (s : VSel) (r t : Int) :
    evalRangeFn { c with st := p1 ++ p2 } fn s r t
      = evalRangeFn { c with st := p1 } fn s r t ++ evalRangeFn { c with st := p2 } fn s r t := by
  simp [evalRangeFn, matchingSeries, List.filter_append, List.filterMap_append]

/-- an empty partition contributes nothing -/
theorem empty_partition (c : Ctx V) (s : VSel) (t : Int) : selectV { c with st := [] } s t = [] := by
  simp [selectV, selectT, matchingSeries]

/-- pointwise functions and unary minus commute with the union -/
theorem pointwise_union (f : Labels × V → Labels × V) (a b : Vec V) : (a ++ b).map f = a.map f ++ b.map f :=
  List.map_append

/-- `group` can be pushed down: the group value is 1 wherever the group is non-empty -/
theorem group_value (p : V) (v : V) (vs : List V) : aggReduce "group" p (v :: vs) = (one : V) := by
  simp [aggReduce]

/-- `count` is re-aggregated with `sum`: in a value algebra where `ofInt` is additive, the count
over a union is the sum of the counts -/
theorem count_as_sum (p : V) (a b : List V) (ha : a ≠ []) (hb : b ≠ [])
    (hadd : ∀ x y : Int, (ofInt (x + y) : V) = add (ofInt x) (ofInt y)) :
    aggReduce "count" p (a ++ b) = aggReduce "sum" p [aggReduce "count" p a, aggReduce "count" p b] := by
  cases a with
  | nil => exact absurd rfl ha
  | cons x xs =>
    cases b with
    | nil => exact absurd rfl hb
    | cons y ys =>
      simp only [aggReduce, List.cons_append, List.length_cons, List.length_append, List.foldl_cons, List.foldl_nil]
      rw [← hadd]
      congr 1
      push_cast
      omega

/-- the aggregations the source pushes down (regenerated): `count` among them is rewritten to
a central `sum` -/
theorem pushed_down_aggregations : Gen.distributiveAggs = ["BOTTOMK", "COUNT", "GROUP", "MAX", "MIN", "SUM", "TOPK"] := by
  decide

/-- exact-arithmetic witness of `count_as_sum`'s hypothesis -/
example : ∀ x y : Int, (ofInt (x + y) : Int) = add (ofInt x) (ofInt y) := fun _ _ => rfl

end PromqlVerif.C10
