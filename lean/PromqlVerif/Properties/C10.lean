/-
C10 - distributed execution equals central execution over the union of the partitions
(partial: the algebra of the reference semantics over a disjoint union that the push-down
relies on; the rewrite itself is compared on the real code by the `dist` oracle).
-/
import PromqlVerif.Sem
import PromqlVerif.Gen.Facts
import PromqlVerif.Proofs.Pushdown
import PromqlVerif.Proofs.DistAgg
import PromqlVerif.Proofs.TopkPush
import PromqlVerif.Proofs.DistSound
import PromqlVerif.Proofs.RemoteProof
namespace PromqlVerif.C10
open PromqlVerif Val

variable {V : Type} [Val V]

/-- selection over the union of two partitions is the union of the selections -/
theorem select_union (c : Ctx V) (p1 p2 : List (Series V)) (s : VSel) (t : Int) :
    selectV { c with st := p1 ++ p2 } s t = selectV { c with st := p1 } s t ++ selectV { c with st := p2 } s t := by
  simp [selectV, selectT, matchingSeries, List.filter_append, List.filterMap_append]

/-- range functions commute with the union: they are evaluated per series -/
theorem rangefn_union (c : Ctx V) (p1 p2 : List (Series V)) (fn : String) (s : VSel) (r t : Int) :
    evalRangeFn { c with st := p1 ++ p2 } fn s r t
      = evalRangeFn { c with st := p1 } fn s r t ++ evalRangeFn { c with st := p2 } fn s r t := by
  simp [evalRangeFn, matchingSeries, List.filter_append, List.filterMap_append]

/-- an empty partition contributes nothing -/
theorem empty_partition (c : Ctx V) (s : VSel) (t : Int) : selectV { c with st := [] } s t = [] := by
  simp [selectV, selectT, matchingSeries]

/-- pointwise functions and unary minus commute with the union -/
theorem pointwise_union (f : Labels × V → Labels × V) (a b : Vec V) : (a ++ b).map f = a.map f ++ b.map f :=
  List.map_append

/-- `group` can be pushed down: the group value is 1 wherever the group is non-empty -/
theorem group_value (p : V) (v : V) (vs : List V) : aggReduce "group" p (v :: vs) = (one : V) := by
  simp [aggReduce]

/-- `count` is re-aggregated with `sum`: in a value algebra where `ofInt` is additive, the count
over a union is the sum of the counts -/
theorem count_as_sum (p : V) (a b : List V) (ha : a ≠ []) (hb : b ≠ [])
    (hadd : ∀ x y : Int, (ofInt (x + y) : V) = add (ofInt x) (ofInt y)) :
    aggReduce "count" p (a ++ b) = aggReduce "sum" p [aggReduce "count" p a, aggReduce "count" p b] := by
  cases a with
  | nil => exact absurd rfl ha
  | cons x xs =>
    cases b with
    | nil => exact absurd rfl hb
    | cons y ys =>
      simp only [aggReduce, List.cons_append, List.length_cons, List.length_append, List.foldl_cons, List.foldl_nil]
      rw [← hadd]
      congr 1
      push_cast
      omega

/-- **`max` and `min` are pushed down exactly**: for any number of non-empty partitions of a
group - members in any order within and across them, NaNs and signed zeros included - the
maximum (minimum) of the partitions' maxima (minima) is the maximum (minimum) of the group: the
same value, not just an equal one, because the replacement step of the reference reduction
(`if m < v || isNaN m then v else m`) is associative under the order laws of IEEE comparison
(`LtLaws` on non-NaN values, comparisons with NaN false). -/
theorem max_pushdown (L : LtLaws (fun v : V => isNaN v = false)) (hn : NanLaw V) (p : V)
    (p0 : List V) (ps : List (List V)) (h0 : p0 ≠ []) (hne : ∀ q ∈ ps, q ≠ []) :
    aggReduce "max" p (p0 ++ ps.flatten)
      = aggReduce "max" p (aggReduce "max" p p0 :: ps.map (aggReduce "max" p)) := by
  simp only [aggReduce_max_eq]
  exact red1_flatten (extStep true) nan (extStep_assoc L hn true) p0 ps h0 hne

theorem min_pushdown (L : LtLaws (fun v : V => isNaN v = false)) (hn : NanLaw V) (p : V)
    (p0 : List V) (ps : List (List V)) (h0 : p0 ≠ []) (hne : ∀ q ∈ ps, q ≠ []) :
    aggReduce "min" p (p0 ++ ps.flatten)
      = aggReduce "min" p (aggReduce "min" p p0 :: ps.map (aggReduce "min" p)) := by
  simp only [aggReduce_min_eq]
  exact red1_flatten (extStep false) nan (extStep_assoc L hn false) p0 ps h0 hne

/-- `sum` is pushed down exactly where addition is associative (exact arithmetic); for IEEE
doubles the partition sums round differently from the central sum - the `dist` oracle compares
those with a tolerance -/
theorem sum_pushdown (hassoc : ∀ a b c : V, add (add a b) c = add a (add b c)) (p : V)
    (p0 : List V) (ps : List (List V)) (h0 : p0 ≠ []) (hne : ∀ q ∈ ps, q ≠ []) :
    aggReduce "sum" p (p0 ++ ps.flatten)
      = aggReduce "sum" p (aggReduce "sum" p p0 :: ps.map (aggReduce "sum" p)) := by
  simp only [aggReduce_sum_eq]
  exact red1_flatten add nan hassoc p0 ps h0 hne

/-- the laws hold for exact arithmetic -/
example : LtLaws (fun v : Int => isNaN v = false) :=
  ⟨fun a b _ _ h => by
      have h' : a < b := by simpa [lt] using h
      show decide (b < a) = false
      exact decide_eq_false (by omega),
   fun a b c _ _ _ h1 h2 => by
      have h1' : ¬ a < b := by simpa [lt] using h1
      have h2' : ¬ b < c := by simpa [lt] using h2
      show decide (a < c) = false
      exact decide_eq_false (by omega)⟩
example : NanLaw Int := fun a _ h => by cases h
example : aggReduce "max" (0 : Int) ([3, 1] ++ [[7], [2, 5]].flatten)
    = aggReduce "max" 0 (aggReduce "max" 0 [3, 1] :: [[7], [2, 5]].map (aggReduce "max" 0)) := by decide

/-! ### the push-down of a whole aggregation -/

theorem rered_max (L : LtLaws (fun v : V => isNaN v = false)) (hn : NanLaw V) (p : V) :
    Rered (aggReduce "max" p) (aggReduce "max" p) := fun l0 ls h0 hne => max_pushdown L hn p l0 ls h0 hne

theorem rered_min (L : LtLaws (fun v : V => isNaN v = false)) (hn : NanLaw V) (p : V) :
    Rered (aggReduce "min" p) (aggReduce "min" p) := fun l0 ls h0 hne => min_pushdown L hn p l0 ls h0 hne

theorem rered_sum (hassoc : ∀ a b c : V, add (add a b) c = add a (add b c)) (p : V) :
    Rered (aggReduce "sum" p) (aggReduce "sum" p) := fun l0 ls h0 hne => sum_pushdown hassoc p l0 ls h0 hne

theorem rered_group (p : V) : Rered (aggReduce "group" p) (aggReduce "group" p) := by
  intro l0 ls h0 _
  cases l0 with
  | nil => exact absurd rfl h0
  | cons a as => simp [aggReduce]

/-- `count` is re-reduced by `sum`, where `ofInt` is additive -/
theorem rered_count (hadd : ∀ x y : Int, (ofInt (x + y) : V) = add (ofInt x) (ofInt y)) (p : V) :
    Rered (aggReduce "count" p) (aggReduce "sum" p) := by
  intro l0 ls h0 hne
  have hcount : ∀ l : List V, l ≠ [] → aggReduce "count" p l = ofInt l.length := by
    intro l hl
    cases l with
    | nil => exact absurd rfl hl
    | cons a as => simp [aggReduce]
  have hfold : ∀ (ls : List (List V)) (n : Int), (∀ l ∈ ls, l ≠ []) →
      (ls.map (aggReduce "count" p)).foldl add (ofInt n) = ofInt (n + (ls.flatten.length : Int)) := by
    intro ls
    induction ls with
    | nil => intro n _; simp
    | cons l ls ih =>
      intro n hne
      simp only [List.map_cons, List.foldl_cons, List.flatten_cons, List.length_append]
      rw [hcount l (hne l List.mem_cons_self), ← hadd, ih _ (fun q hq => hne q (List.mem_cons_of_mem _ hq))]
      congr 1
      push_cast
      omega
  have hne0 : l0 ++ ls.flatten ≠ [] := by
    intro h
    exact h0 (List.append_eq_nil_iff.mp h).1
  rw [hcount _ hne0, hcount l0 h0]
  simp only [aggReduce, List.length_append]
  rw [hfold ls _ hne]
  congr 1

/-- **an aggregation that is pushed down gives the central result**: for every grouping
(`by`/`without`, any label list), any number of partitions - empty ones, groups split across
partitions, series in any order - aggregating each partition's samples with `op` and
re-aggregating the concatenated partial results with `op'` yields the groups and values of
aggregating the union with `op` (up to the order of the groups), whenever `op'` re-reduces `op`
(`rered_*`: max/max and min/min exactly for IEEE comparison, group/group, sum/sum under
associativity, count/sum under additivity of `ofInt`). This is the rewrite
`agg(x) -> agg'(coalesce(remote(agg(x)), ...))` of `logicalplan/distribute.go`. -/
theorem aggregation_pushdown (op op' : String) (w : Bool) (g : List String) (p : V)
    (hop : (op == "topk" || op == "bottomk") = false) (hop' : (op' == "topk" || op' == "bottomk") = false)
    (hR : Rered (aggReduce op p) (aggReduce op' p)) (parts : List (Vec V)) :
    ∃ partials dist central,
      parts.mapM (aggregate op w g p) = .ok partials ∧
      aggregate op' w g p partials.flatten = .ok dist ∧
      aggregate op w g p parts.flatten = .ok central ∧
      dist.Perm central := by
  refine ⟨parts.map (aggR (groupKey w g) (aggReduce op p)), _, _, ?_, aggregate_eq_aggR op' w g p _ hop',
    aggregate_eq_aggR op w g p _ hop, aggR_pushdown (groupKey w g) (groupKey_idem w g) _ _ hR parts⟩
  induction parts with
  | nil => rfl
  | cons P ps ih =>
    simp only [List.mapM_cons, aggregate_eq_aggR op w g p P hop, ih, bind, Except.bind, pure, Except.pure, List.map_cons]

example : ∀ a b c : Int, add (add a b) c = add a (add b c) := fun a b c => Int.add_assoc a b c

/-- a group split across two partitions, a third partition empty: count is re-aggregated with sum -/
example :
    (aggregate "sum" false ["a"] (0 : Int)
        ((aggregate "count" false ["a"] (0 : Int)
            [([⟨"a", "x"⟩, ⟨"b", "1"⟩], 5), ([⟨"a", "z"⟩], 7)]).toOption.getD []
          ++ (aggregate "count" false ["a"] (0 : Int) [([⟨"a", "x"⟩, ⟨"b", "2"⟩], 9)]).toOption.getD []
          ++ (aggregate "count" false ["a"] (0 : Int) []).toOption.getD [])).toOption
      = (aggregate "count" false ["a"] (0 : Int)
          [([⟨"a", "x"⟩, ⟨"b", "1"⟩], 5), ([⟨"a", "z"⟩], 7), ([⟨"a", "x"⟩, ⟨"b", "2"⟩], 9)]).toOption := by
  decide

/-- **topk / bottomk are pushed down soundly**: for a group split over any number of partitions
(any sizes, empty ones, every arrival order, NaN-free values over a strict weak order), the engine's
bounded heap run over the concatenation of the heaps' results per partition keeps a selection of
the `k` extreme samples of the whole group: `min k n` of them, a sub-multiset of the group, none
strictly below a sample that was dropped at either level - ties broken arbitrarily, as in central
execution (`C04.topk_keeps_the_extremes`). -/
theorem topk_pushdown {α : Type} {P : V → Prop} (L : LtLaws P) (top : Bool) (k : Nat) (hk : 1 ≤ k)
    (parts : List (List (α × V))) (hitems : ∀ p ∈ parts, ∀ x ∈ p, P x.2 ∧ isNaN x.2 = false) :
    IsSel top k parts.flatten (kSelect top k (parts.map (kSelect top k)).flatten) := by
  have hsub : ∀ p ∈ parts, ∀ x ∈ kSelect top k p, x ∈ p := by
    intro p _ x hx
    obtain ⟨d, hd⟩ := kSelect_perm top k p
    exact hd.subset (List.mem_append_left _ hx)
  have hsel : ∀ x ∈ (parts.map (kSelect top k)).flatten, P x.2 ∧ isNaN x.2 = false := by
    intro x hx
    obtain ⟨l, hl, hxl⟩ := List.mem_flatten.mp hx
    obtain ⟨p, hp, rfl⟩ := List.mem_map.mp hl
    exact hitems p hp x (hsub p hp x hxl)
  have h := kSelect_isSel L top k hk _ hsel
  have := isSel_parts L top k (parts.map fun p => (p, kSelect top k p))
    (by
      intro q hq
      obtain ⟨p, hp, rfl⟩ := List.mem_map.mp hq
      exact kSelect_isSel L top k hk p (hitems p hp))
    [] (kSelect top k (parts.map (kSelect top k)).flatten)
    (by
      intro x hx
      simp only [List.map_map, Function.comp_def, List.map_id', List.nil_append] at hx
      obtain ⟨l, hl, hxl⟩ := List.mem_flatten.mp hx
      exact (hitems l hl x hxl).1)
    (by simpa [List.map_map, Function.comp_def] using h)
  simpa [List.map_map, Function.comp_def] using this

theorem aggregate_k_eq (top : Bool) (w : Bool) (g : List String) (p : V) (hp : inInt64 p = true)
    (hk : 1 ≤ toInt p) (X : Vec V) :
    aggregate (if top then "topk" else "bottomk") w g p X
      = .ok ((groupBy (fun (x : Labels × V) => groupKey w g x.1) X).flatMap fun gr => kSelect top (toInt p).toNat gr.2) := by
  have hk' : ¬ toInt p < 1 := by omega
  unfold aggregate
  cases top <;> simp [hp, hk']

/-- **the grouped topk / bottomk, pushed down**: for every grouping, any number of partitions
with groups split across them, `k >= 1`: running `topk` on every partition and `topk` again on
the concatenated partial results keeps, in every group, a selection of the `k` extreme samples of
that group in the union - which is also all that central execution guarantees
(`C04.topk_keeps_the_extremes`). -/
theorem grouped_topk_pushdown {P : V → Prop} (L : LtLaws P) (top : Bool) (w : Bool) (g : List String) (p : V)
    (hp : inInt64 p = true) (hk : 1 ≤ toInt p) (parts : List (Vec V))
    (hitems : ∀ q ∈ parts, ∀ x ∈ q, P x.2 ∧ isNaN x.2 = false) :
    ∃ partials dist,
      parts.mapM (aggregate (if top then "topk" else "bottomk") w g p) = .ok partials ∧
      aggregate (if top then "topk" else "bottomk") w g p partials.flatten = .ok dist ∧
      ∀ kk : Labels, IsSel top (toInt p).toNat
        (parts.flatten.filter fun x => groupKey w g x.1 == kk) (dist.filter fun x => groupKey w g x.1 == kk) := by
  have hk1 : 1 ≤ (toInt p).toNat := by omega
  let sel : Vec V → Vec V := kSelect top (toInt p).toNat
  let aggK : Vec V → Vec V := fun X => (groupBy (fun (x : Labels × V) => groupKey w g x.1) X).flatMap fun gr => sel gr.2
  have hsub : ∀ l, ∀ y ∈ sel l, y ∈ l := by
    intro l y hy
    obtain ⟨d, hd⟩ := kSelect_perm top (toInt p).toNat l
    exact hd.subset (List.mem_append_left _ hy)
  have hnil : sel [] = [] := by
    have := kSelect_length top (toInt p).toNat hk1 ([] : Vec V)
    exact List.length_eq_zero_iff.mp (by simpa using this)
  refine ⟨parts.map aggK, aggK (parts.map aggK).flatten, ?_, aggregate_k_eq top w g p hp hk _, fun kk => ?_⟩
  · induction parts with
    | nil => rfl
    | cons q qs ih =>
      simp only [List.mapM_cons, aggregate_k_eq top w g p hp hk q, bind, Except.bind, pure, Except.pure, List.map_cons]
      rw [ih (fun q' hq' => hitems q' (List.mem_cons_of_mem _ hq'))]
  · -- the group `kk` of the distributed result is the heap over the partitions' heaps of group `kk`
    have h1 := filter_flatMap_groups (groupKey w g) sel hsub hnil (parts.map aggK).flatten kk
    have h2 : ((parts.map aggK).flatten.filter fun x => groupKey w g x.1 == kk)
        = ((parts.map fun q => q.filter fun x => groupKey w g x.1 == kk).map sel).flatten := by
      rw [List.filter_flatten, List.map_map, List.map_map]
      congr 1
      apply List.map_congr_left
      intro q _
      exact filter_flatMap_groups (groupKey w g) sel hsub hnil q kk
    show IsSel top (toInt p).toNat _ ((aggK (parts.map aggK).flatten).filter _)
    rw [h1, h2, List.filter_flatten]
    exact topk_pushdown L top (toInt p).toNat hk1 (parts.map fun q => q.filter fun x => groupKey w g x.1 == kk) (by
      intro q' hq' x hx
      obtain ⟨q, hq, rfl⟩ := List.mem_map.mp hq'
      exact hitems q hq x (List.mem_filter.mp hx).1)

/-- a concrete run: top 2 of three partitions -/
example : kSelect true 2 (([[("a", (5 : Int)), ("b", 1), ("c", 7)], [], [("d", 6), ("e", 9)]] : List (List (String × Int))).map
    (kSelect true 2)).flatten = [("c", 7), ("e", 9)] := by decide

/-! ### the rewritten plan as a whole -/

/-- the exact aggregations are re-reducible under the laws of the value algebra -/
theorem exact_aggs (L : LtLaws (fun v : V => isNaN v = false)) (hn : NanLaw V)
    (hassoc : ∀ a b c : V, add (add a b) c = add a (add b c))
    (hadd : ∀ x y : Int, (ofInt (x + y) : V) = add (ofInt x) (ofInt y)) :
    ∀ op, exactAggs.contains op = true → ExactAgg (V := V) op := by
  intro op hop
  simp only [exactAggs, List.contains_eq_mem, List.mem_cons, List.mem_nil_iff, or_false, decide_eq_true_eq] at hop
  rcases hop with rfl | rfl | rfl | rfl | rfl
  · exact ⟨rered_sum hassoc nan, by decide, by decide⟩
  · exact ⟨rered_min L hn nan, by decide, by decide⟩
  · exact ⟨rered_max L hn nan, by decide, by decide⟩
  · exact ⟨rered_group nan, by decide, by decide⟩
  · exact ⟨rered_count hadd nan, by decide, by decide⟩

/-- **the distributed plan evaluates to the central result.** `Dist.optDistribute` is the model
of `DistributedExecutionOptimizer.Optimize` (`traverseBottomUp` with its early stops, tied to the
real optimizer by the `distplan` oracle); `Sem.eval` gives `remote i e` the meaning "evaluate `e`
over what engine `i` stores" and `coalesce` "the children's vectors one after the other". For
every expression in `siteOk` (calls with at most one argument, or up to three with a literal or
a scalar-typed one among them - `clamp_min(x, 1)`, `clamp_max(x, scalar(y))`,
`histogram_quantile(0.9, x)`: every well-typed call of the language, since a scalar-typed argument
always stops the traversal (`scalar_stops`) -, `timestamp` included: below it
a selector is walked through untouched, so it still reads the samples' own timestamps, per
partition; distributive aggregations among sum/min/max/group/count), any number of remote engines with any partition of
the series (the local storage being their union, as in the repository's tests), the duplicate
check off as in the engine, and a value algebra with the order laws of IEEE comparison, an
associative addition and an additive `ofInt`: at every step the rewritten plan has exactly the
value of the original one - same groups in the same order, same label sets, same values, same
errors. (For IEEE doubles addition is associative up to rounding only; topk / bottomk sites are
covered by `grouped_topk_pushdown` up to ties.) -/
theorem distributed_plan_is_central (c : Ctx V) (hq : c.q.noDupCheck = true) (hst : c.st = c.parts.flatten)
    (hne : c.parts ≠ []) (L : LtLaws (fun v : V => isNaN v = false)) (hn : NanLaw V)
    (hassoc : ∀ a b c : V, add (add a b) c = add a (add b c))
    (hadd : ∀ x y : Int, (ofInt (x + y) : V) = add (ofInt x) (ofInt y))
    (e e' : Expr V) (hok : siteOk e = true) (h : optDistribute c.parts.length e = some e') (t : Int) :
    eval c t e' = eval c t e := by
  unfold optDistribute at h
  cases hr : traverseD c.parts.length none e with
  | none => rw [hr] at h; cases h
  | some r =>
    obtain ⟨r1, r2⟩ := r
    rw [hr] at h
    simp only [Option.map_some, Option.some.injEq] at h
    subst h
    exact (traverse_sound c hq hst hne (exact_aggs L hn hassoc hadd) none e hok r1 r2 hr).1.1 t

/-- `histogram_quantile(0.9, sum by (le) (rate(h_bucket[5m])))` is in `siteOk` -/
example :
    let h : VSel := { matchers := [⟨.eq, "__name__", "h_bucket"⟩], origOffset := 0, atTs := none }
    siteOk (.call "histogram_quantile" [.stepInv (.num (9 : Int)), .agg "sum" false ["le"] (.call "rate" [.msel h 300000])])
      = true := rfl

/-- `clamp_max(m, scalar(n))` is in `siteOk`: the first argument is fetched remotely, which ends the
loop over the arguments (the second stays a local selection - over the union, in this setting) -/
example :
    let m : Expr Int := .vsel { matchers := [⟨.eq, "__name__", "m"⟩], origOffset := 0, atTs := none }
    let n : Expr Int := .vsel { matchers := [⟨.eq, "__name__", "n"⟩], origOffset := 0, atTs := none }
    siteOk (.call "clamp_max" [m, .call "scalar" [n]]) = true ∧
      optDistribute 2 (.call "clamp_max" [m, .call "scalar" [n]])
        = some (.call "clamp_max" [.coalesce [.remote 0 m, .remote 1 m], .call "scalar" [n]]) := by
  exact ⟨rfl, rfl⟩

/-- `max(timestamp(m))` is in `siteOk`, and the selector below `timestamp` stays a selector inside
every remote query -/
example :
    let m : Expr Int := .vsel { matchers := [⟨.eq, "__name__", "m"⟩], origOffset := 0, atTs := none }
    siteOk (.agg "max" false [] (.call "timestamp" [m])) = true ∧
    optDistribute 2 (.agg "max" false [] (.call "timestamp" [m]))
      = some (.agg "max" false [] (.coalesce [.remote 0 (.agg "max" false [] (.call "timestamp" [m])),
                                               .remote 1 (.agg "max" false [] (.call "timestamp" [m]))])) := by
  exact ⟨rfl, rfl⟩

/-- a plan the theorem applies to: `sum by (a) (abs(m))` over two engines becomes
`sum by (a) (coalesce(remote 0 (sum ..), remote 1 (sum ..)))` -/
example :
    let m : Expr Int := .vsel { matchers := [⟨.eq, "__name__", "m"⟩], origOffset := 0, atTs := none }
    siteOk (.agg "sum" false ["a"] (.call "abs" [m])) = true ∧
    optDistribute 2 (.agg "sum" false ["a"] (.call "abs" [m]))
      = some (.agg "sum" false ["a"] (.coalesce [.remote 0 (.agg "sum" false ["a"] (.call "abs" [m])),
                                                 .remote 1 (.agg "sum" false ["a"] (.call "abs" [m]))])) := by
  exact ⟨rfl, rfl⟩

/-- the aggregations the source pushes down (regenerated): `count` among them is rewritten to
a central `sum` -/
theorem pushed_down_aggregations : Gen.distributiveAggs = ["BOTTOMK", "COUNT", "GROUP", "MAX", "MIN", "SUM", "TOPK"] := by
  decide

/-- the model's table of distributive aggregations is the source's (regenerated) -/
theorem model_table_is_source_table :
    (["SUM", "MIN", "MAX", "GROUP", "COUNT", "BOTTOMK", "TOPK"].all fun x => Gen.distributiveAggs.contains x) = true ∧
      distAggs = ["sum", "min", "max", "group", "count", "bottomk", "topk"] ∧
      distAggs.length = Gen.distributiveAggs.length := by decide

/-- exact-arithmetic witness of `count_as_sum`'s hypothesis -/
example : ∀ x y : Int, (ofInt (x + y) : Int) = add (ofInt x) (ofInt y) := fun _ _ => rfl

/-! ### remote execution beyond the optimizer (`execution/remote/operator.go`) -/

/-- **the remote transport is the identity.** The remote operator turns the result of the remote
query into a storage and reads it with a vector selector whose lookback is 0 (`Remote.lean`). For
every result whose series have strictly increasing timestamps - which C19 gives for every
successful result - and every time `t`, the step vector it delivers holds, series by series and in
the result's order, exactly the points stamped `t`: nothing is invented between two points of a
series, after its end, or before its start, and nothing is lost. This is what lets `Sem.eval`
treat `.remote i e` as "the value of `e` on engine `i`" at every step. Tied to the code by the
`krem` kernel correspondence (the real `remote.NewExecution` over a stub query). -/
theorem remote_transport_is_identity (m : RMatrix V) (hw : ∀ s ∈ m, IncTs s.2) (t : Int) :
    remoteRead 0 m t = remoteSpec m t :=
  remote_read_is_spec m hw t

/-- the same over the whole stream, whatever grid the coordinator steps over -/
theorem remote_stream_is_identity (m : RMatrix V) (hw : ∀ s ∈ m, IncTs s.2) (grid : List Int) :
    remoteRun 0 m grid = grid.map fun t => (t, remoteSpec m t) :=
  remote_run_is_spec m hw grid

/-- per series: a point is shown at `t` iff the result has a point stamped `t`, with its value -/
theorem remote_series_exact (pts : List (Int × V)) (h : IncTs pts) (t t' : Int) (v : V) :
    selectSample 0 t (ptsToSamples pts) = some (t', v) ↔ (t' = t ∧ (t, v) ∈ pts) :=
  select_zero_lookback_exact pts h t t' v

/-- an instant result (the `promql.Vector` branch of the adapter) is always well-formed for it -/
theorem remote_instant_result_wellformed (v : List (Labels × Int × V)) (t : Int) :
    remoteRead 0 (vectorAsMatrix v) t = remoteSpec (vectorAsMatrix v) t :=
  remote_read_is_spec _ (vectorAsMatrix_incTs v) t

/-- non-vacuity: a result with a gap and a series that ends early; at t = 20 only series 0 -/
example : IncTs [((0 : Int), (1 : Int)), (20, 2)] ∧
    remoteRead 0 ([([], [(0, 1), (20, 2)]), ([], [(10, 3)])] : RMatrix Int) 20 = [(0, 2)] ∧
    remoteRead 0 ([([], [(0, 1), (20, 2)]), ([], [(10, 3)])] : RMatrix Int) 30 = [] := by
  refine ⟨by unfold IncTs; decide, by decide, by decide⟩

/-- why the lookback has to be 0: read with the coordinator's lookback (here 15) the same result
shows series 1 at t = 20 although it ended at t = 10 - a series kept alive after its end, and not
what the remote engine computed for t = 20 -/
example :
    remoteRead 15 ([([], [(0, 1), (20, 2)]), ([], [(10, 3)])] : RMatrix Int) 20 = [(0, 2), (1, 3)] ∧
    remoteSpec ([([], [(0, 1), (20, 2)]), ([], [(10, 3)])] : RMatrix Int) 20 = [(0, 2)] := by
  exact ⟨by decide, by decide⟩

end PromqlVerif.C10
