/-
C10 - distributed execution equals central execution over the union of the partitions
(partial: the algebra of the reference semantics over a disjoint union that the push-down
relies on; the rewrite itself is compared on the real code by the `dist` oracle).
-/
import PromqlVerif.Sem
import PromqlVerif.Gen.Facts
import PromqlVerif.Proofs.Pushdown
import PromqlVerif.Proofs.DistAgg
namespace PromqlVerif.C10
open PromqlVerif Val

variable {V : Type} [Val V]

/-- selection over the union of two partitions is the union of the selections -/
theorem select_union (c : Ctx V) (p1 p2 : List (Series V)) (s : VSel) (t : Int) :
    selectV { c with st := p1 ++ p2 } s t = selectV { c with st := p1 } s t ++ selectV { c with st := p2 } s t := by
  simp [selectV, selectT, matchingSeries, List.filter_append, List.filterMap_append]

/-- range functions commute with the union: they are evaluated per series -/
theorem rangefn_union (c : Ctx V) (p1 p2 : List (Series V)) (fn : String) (s : VSel) (r t : Int) :
    evalRangeFn { c with st := p1 ++ p2 } fn s r t
      = evalRangeFn { c with st := p1 } fn s r t ++ evalRangeFn { c with st := p2 } fn s r t := by
  simp [evalRangeFn, matchingSeries, List.filter_append, List.filterMap_append]

/-- an empty partition contributes nothing -/
theorem empty_partition (c : Ctx V) (s : VSel) (t : Int) : selectV { c with st := [] } s t = [] := by
  simp [selectV, selectT, matchingSeries]

/-- pointwise functions and unary minus commute with the union -/
theorem pointwise_union (f : Labels × V → Labels × V) (a b : Vec V) : (a ++ b).map f = a.map f ++ b.map f :=
  List.map_append

/-- `group` can be pushed down: the group value is 1 wherever the group is non-empty -/
theorem group_value (p : V) (v : V) (vs : List V) : aggReduce "group" p (v :: vs) = (one : V) := by
  simp [aggReduce]

/-- `count` is re-aggregated with `sum`: in a value algebra where `ofInt` is additive, the count
over a union is the sum of the counts -/
theorem count_as_sum (p : V) (a b : List V) (ha : a ≠ []) (hb : b ≠ [])
    (hadd : ∀ x y : Int, (ofInt (x + y) : V) = add (ofInt x) (ofInt y)) :
    aggReduce "count" p (a ++ b) = aggReduce "sum" p [aggReduce "count" p a, aggReduce "count" p b] := by
  cases a with
  | nil => exact absurd rfl ha
  | cons x xs =>
    cases b with
    | nil => exact absurd rfl hb
    | cons y ys =>
      simp only [aggReduce, List.cons_append, List.length_cons, List.length_append, List.foldl_cons, List.foldl_nil]
      rw [← hadd]
      congr 1
      push_cast
      omega

/-- **`max` and `min` are pushed down exactly**: for any number of non-empty partitions of a
group - members in any order within and across them, NaNs and signed zeros included - the
maximum (minimum) of the partitions' maxima (minima) is the maximum (minimum) of the group: the
same value, not just an equal one, because the replacement step of the reference reduction
(`if m < v || isNaN m then v else m`) is associative under the order laws of IEEE comparison
(`LtLaws` on non-NaN values, comparisons with NaN false). -/
theorem max_pushdown (L : LtLaws (fun v : V => isNaN v = false)) (hn : NanLaw V) (p : V)
    (p0 : List V) (ps : List (List V)) (h0 : p0 ≠ []) (hne : ∀ q ∈ ps, q ≠ []) :
    aggReduce "max" p (p0 ++ ps.flatten)
      = aggReduce "max" p (aggReduce "max" p p0 :: ps.map (aggReduce "max" p)) := by
  simp only [aggReduce_max_eq]
  exact red1_flatten (extStep true) nan (extStep_assoc L hn true) p0 ps h0 hne

theorem min_pushdown (L : LtLaws (fun v : V => isNaN v = false)) (hn : NanLaw V) (p : V)
    (p0 : List V) (ps : List (List V)) (h0 : p0 ≠ []) (hne : ∀ q ∈ ps, q ≠ []) :
    aggReduce "min" p (p0 ++ ps.flatten)
      = aggReduce "min" p (aggReduce "min" p p0 :: ps.map (aggReduce "min" p)) := by
  simp only [aggReduce_min_eq]
  exact red1_flatten (extStep false) nan (extStep_assoc L hn false) p0 ps h0 hne

/-- `sum` is pushed down exactly where addition is associative (exact arithmetic); for IEEE
doubles the partition sums round differently from the central sum - the `dist` oracle compares
those with a tolerance -/
theorem sum_pushdown (hassoc : ∀ a b c : V, add (add a b) c = add a (add b c)) (p : V)
    (p0 : List V) (ps : List (List V)) (h0 : p0 ≠ []) (hne : ∀ q ∈ ps, q ≠ []) :
    aggReduce "sum" p (p0 ++ ps.flatten)
      = aggReduce "sum" p (aggReduce "sum" p p0 :: ps.map (aggReduce "sum" p)) := by
  simp only [aggReduce_sum_eq]
  exact red1_flatten add nan hassoc p0 ps h0 hne

/-- the laws hold for exact arithmetic -/
example : LtLaws (fun v : Int => isNaN v = false) :=
  ⟨fun a b _ _ h => by
      have h' : a < b := by simpa [lt] using h
      show decide (b < a) = false
      exact decide_eq_false (by omega),
   fun a b c _ _ _ h1 h2 => by
      have h1' : ¬ a < b := by simpa [lt] using h1
      have h2' : ¬ b < c := by simpa [lt] using h2
      show decide (a < c) = false
      exact decide_eq_false (by omega)⟩
example : NanLaw Int := fun a _ h => by cases h
example : aggReduce "max" (0 : Int) ([3, 1] ++ [[7], [2, 5]].flatten)
    = aggReduce "max" 0 (aggReduce "max" 0 [3, 1] :: [[7], [2, 5]].map (aggReduce "max" 0)) := by decide

/-! ### the push-down of a whole aggregation -/

theorem rered_max (L : LtLaws (fun v : V => isNaN v = false)) (hn : NanLaw V) (p : V) :
    Rered (aggReduce "max" p) (aggReduce "max" p) := fun l0 ls h0 hne => max_pushdown L hn p l0 ls h0 hne

theorem rered_min (L : LtLaws (fun v : V => isNaN v = false)) (hn : NanLaw V) (p : V) :
    Rered (aggReduce "min" p) (aggReduce "min" p) := fun l0 ls h0 hne => min_pushdown L hn p l0 ls h0 hne

theorem rered_sum (hassoc : ∀ a b c : V, add (add a b) c = add a (add b c)) (p : V) :
    Rered (aggReduce "sum" p) (aggReduce "sum" p) := fun l0 ls h0 hne => sum_pushdown hassoc p l0 ls h0 hne

theorem rered_group (p : V) : Rered (aggReduce "group" p) (aggReduce "group" p) := by
  intro l0 ls h0 _
  cases l0 with
  | nil => exact absurd rfl h0
  | cons a as => simp [aggReduce]

/-- `count` is re-reduced by `sum`, where `ofInt` is additive -/
theorem rered_count (hadd : ∀ x y : Int, (ofInt (x + y) : V) = add (ofInt x) (ofInt y)) (p : V) :
    Rered (aggReduce "count" p) (aggReduce "sum" p) := by
  intro l0 ls h0 hne
  have hcount : ∀ l : List V, l ≠ [] → aggReduce "count" p l = ofInt l.length := by
    intro l hl
    cases l with
    | nil => exact absurd rfl hl
    | cons a as => simp [aggReduce]
  have hfold : ∀ (ls : List (List V)) (n : Int), (∀ l ∈ ls, l ≠ []) →
      (ls.map (aggReduce "count" p)).foldl add (ofInt n) = ofInt (n + (ls.flatten.length : Int)) := by
    intro ls
    induction ls with
    | nil => intro n _; simp
    | cons l ls ih =>
      intro n hne
      simp only [List.map_cons, List.foldl_cons, List.flatten_cons, List.length_append]
      rw [hcount l (hne l List.mem_cons_self), ← hadd, ih _ (fun q hq => hne q (List.mem_cons_of_mem _ hq))]
      congr 1
      push_cast
      omega
  have hne0 : l0 ++ ls.flatten ≠ [] := by
    intro h
    exact h0 (List.append_eq_nil_iff.mp h).1
  rw [hcount _ hne0, hcount l0 h0]
  simp only [aggReduce, List.length_append]
  rw [hfold ls _ hne]
  congr 1

/-- **an aggregation that is pushed down gives the central result**: for every grouping
(`by`/`without`, any label list), any number of partitions - empty ones, groups split across
partitions, series in any order - aggregating each partition's samples with `op` and
re-aggregating the concatenated partial results with `op'` yields the groups and values of
aggregating the union with `op` (up to the order of the groups), whenever `op'` re-reduces `op`
(`rered_*`: max/max and min/min exactly for IEEE comparison, group/group, sum/sum under
associativity, count/sum under additivity of `ofInt`). This is the rewrite
`agg(x) -> agg'(coalesce(remote(agg(x)), ...))` of `logicalplan/distribute.go`. -/
theorem aggregation_pushdown (op op' : String) (w : Bool) (g : List String) (p : V)
    (hop : (op == "topk" || op == "bottomk") = false) (hop' : (op' == "topk" || op' == "bottomk") = false)
    (hR : Rered (aggReduce op p) (aggReduce op' p)) (parts : List (Vec V)) :
    ∃ partials dist central,
      parts.mapM (aggregate op w g p) = .ok partials ∧
      aggregate op' w g p partials.flatten = .ok dist ∧
      aggregate op w g p parts.flatten = .ok central ∧
      dist.Perm central := by
  refine ⟨parts.map (aggR (groupKey w g) (aggReduce op p)), _, _, ?_, aggregate_eq_aggR op' w g p _ hop',
    aggregate_eq_aggR op w g p _ hop, aggR_pushdown (groupKey w g) (groupKey_idem w g) _ _ hR parts⟩
  induction parts with
  | nil => rfl
  | cons P ps ih =>
    simp only [List.mapM_cons, aggregate_eq_aggR op w g p P hop, ih, bind, Except.bind, pure, Except.pure, List.map_cons]

example : ∀ a b c : Int, add (add a b) c = add a (add b c) := fun a b c => Int.add_assoc a b c

/-- a group split across two partitions, a third partition empty: count is re-aggregated with sum -/
example :
    (aggregate "sum" false ["a"] (0 : Int)
        ((aggregate "count" false ["a"] (0 : Int)
            [([⟨"a", "x"⟩, ⟨"b", "1"⟩], 5), ([⟨"a", "z"⟩], 7)]).toOption.getD []
          ++ (aggregate "count" false ["a"] (0 : Int) [([⟨"a", "x"⟩, ⟨"b", "2"⟩], 9)]).toOption.getD []
          ++ (aggregate "count" false ["a"] (0 : Int) []).toOption.getD [])).toOption
      = (aggregate "count" false ["a"] (0 : Int)
          [([⟨"a", "x"⟩, ⟨"b", "1"⟩], 5), ([⟨"a", "z"⟩], 7), ([⟨"a", "x"⟩, ⟨"b", "2"⟩], 9)]).toOption := by
  decide

/-- the aggregations the source pushes down (regenerated): `count` among them is rewritten to
a central `sum` -/
theorem pushed_down_aggregations : Gen.distributiveAggs = ["BOTTOMK", "COUNT", "GROUP", "MAX", "MIN", "SUM", "TOPK"] := by
  decide

/-- exact-arithmetic witness of `count_as_sum`'s hypothesis -/
example : ∀ x y : Int, (ofInt (x + y) : Int) = add (ofInt x) (ofInt y) := fun _ _ => rfl

end PromqlVerif.C10
