/-
C18 - every operator honours the stream contract its consumers rely on. The ID half of the
contract is proven for every operator of every plan over the natively supported constructs
(`plan_contract`, by induction over the typing derivation); the batching half for the leaf cursor;
the remaining clauses (end of stream stays ended, no concurrent Next) are checked on the real
code by the verif-tag wrapper at every Series/Next.
-/
import PromqlVerif.Proofs.PlanContract
import PromqlVerif.Proofs.Grid
import PromqlVerif.Proofs.CoalesceProof
import PromqlVerif.Proofs.StreamsProof
import PromqlVerif.Gen.Facts
namespace PromqlVerif.C18
open PromqlVerif Val

variable {V : Type} [Val V]

/-- **every operator of every plan**: for every well-typed expression over the natively supported
constructs (selectors, range and instant functions, aggregations with parameters, topk/bottomk,
scalar and vector binary operators with any matching, histogram_quantile, timestamp, clamp,
scalar()/vector(), unary operators, @-pinned parts), every storage, window and lookback: the
operator built for it emits at every step sample IDs that index its series list and are pairwise
distinct, and a scalar-typed operator has exactly one series. Every sub-expression is itself such
an expression, so this is a statement about every operator instance in the plan. -/
theorem every_operator_honours_id_contract {P : Matching → Prop} (c : Ctx V) (b : Bool) (e : Expr V) (h : WT P b e) (o : OpSem V)
    (ho : engOp c e = .ok o) :
    (∀ t xs, o.step t = .ok xs → (∀ x ∈ xs, x.1 < o.series.length) ∧ (xs.map (·.1)).Pairwise (· ≠ ·)) ∧
      (b = true → o.series.length = 1) := ⟨(plan_contract c b e h o ho).1, (plan_contract c b e h o ho).2.1⟩

/-- the premises are satisfiable by a plan that goes through the join, a grouped aggregation, a
k-aggregation with a per-step parameter and a pinned selector -/
example : WT (V := Int) (fun _ => True) false
    (.bin "/" false ⟨.manyToOne, true, ["a"], ["b"]⟩
      (.agg "sum" false ["a"] (.call "rate" [.msel ⟨[], 0, none, none⟩ 300000]))
      (.aggP "topk" true ["c"] (.call "scalar" [.vsel ⟨[], 0, none, none⟩])
        (.stepInv (.vsel ⟨[], 60000, some 1000, none⟩)))) :=
  WT.bin "/" false _ false false _ _ (fun _ _ => trivial)
    (WT.agg "sum" false ["a"] _ (WT.rangefn "rate" _ _ (by decide)))
    (WT.aggP "topk" true ["c"] _ _ (WT.scalar _ (WT.vsel _))
      (WT.stepInv false _ (by intro v h; cases h) (WT.vsel _)))

/-- topk / bottomk return input samples: a group's selection plus what it dropped is a
rearrangement of the group's samples (nothing invented, nothing emitted twice) - for the
engine's bounded heap, every k and every arrival order -/
theorem topk_keeps_input_samples {α : Type} (top : Bool) (k : Nat) (items : List (α × V)) :
    ∃ dropped, (kSelect top k items ++ dropped).Perm items := kSelect_perm top k items

/-- the static join tables only ever point at outputs that exist, and two series of the "many"
side never share an output series -/
theorem join_tables_index_outputs (m : Matching) (keepName : Bool) (high low : List Labels) :
    JOk (engJoin m keepName high low) := engJoin_ok m keepName high low

/-- the selector leaves -/
theorem selector_contract (c : Ctx V) (s : VSel) (ts : Bool) : Contract (engSelector c s ts) :=
  contract_selector c s ts

theorem rangefn_contract (c : Ctx V) (fn : String) (s : VSel) (r : Int) : Contract (engRangeFn c fn s r) :=
  contract_rangefn c fn s r

/-- re-basing by the shard offset keeps IDs inside the concatenated series list -/
theorem rebase_in_range {β : Type} (pre n : Nat) (xs : List (Nat × β)) (h : ∀ x ∈ xs, x.1 < n) :
    ∀ x ∈ rebase pre xs, pre ≤ x.1 ∧ x.1 < pre + n := by
  intro x hx
  obtain ⟨y, hy, rfl⟩ := List.mem_map.mp hx
  have := h y hy
  simp only; omega

/-- batches carry at most the batch size of step vectors, one per step, in increasing step order -/
theorem batches_bounded (w : Window) (B : Nat) (hB : 0 < B) (fuel : Nat) (cur : Int) :
    ∀ b ∈ leafStream w (numStepsBatch w B) fuel cur, b.length ≤ B := by
  intro b hb
  exact Nat.le_trans (leaf_batches_le w _ fuel cur b hb) (numStepsBatch_le w B hB)

theorem steps_in_order (w : Window) (hs : 0 < w.step) (hle : w.start ≤ w.stop) (B : Nat) (hB : 0 < B) :
    ((leafStream w (numStepsBatch w B) w.numSteps w.start).flatten).Pairwise (· < ·) := by
  rw [leaf_stream_is_grid w hs hle B hB]
  unfold Window.grid
  have : ¬ w.step ≤ 0 := by omega
  simp only [this, if_false]
  exact walk_pairwise_lt _ _ hs _ _

/-- **the coalesce operator keeps the ID contract, for every order of arrival**: if every child's
batch carries IDs below its number of series, pairwise distinct within a step, and the children's
offsets give them disjoint ranges (`coalesce_offsets_disjoint`: what `loadSeries` computes does),
then every step vector of the merged batch carries pairwise distinct IDs, each inside the range
of one child - hence below the length of the concatenated series list. -/
theorem coalesce_keeps_id_contract {V : Type} (ts : List Int) (hts : ts ≠ [])
    (as : List ((Nat × List (SV V)) × Nat)) (hne : as ≠ [])
    (hal : AlignedArrivals ts (as.map (·.1))) (hr : ∀ a ∈ as, Ranged a.1 a.2) (hd : DisjointRanges as) :
    ∃ out, coalesceNext ((as.map (·.1)).map fun a => (a.1, some a.2)) = .ok (some out) ∧
      out.map (·.1) = ts ∧
      ∀ sv ∈ out, (sv.2.map (·.1)).Nodup ∧
        ∀ id ∈ sv.2.map (·.1), ∃ a ∈ as, a.1.1 ≤ id ∧ id < a.1.1 + a.2 := by
  have hne' : as.map (·.1) ≠ [] := by
    intro h
    exact hne (List.map_eq_nil_iff.mp h)
  refine ⟨_, coalesceNext_spec ts hts _ hal hne', ?_, merged_ids ts as hr hd⟩
  clear hal hr hd hne hne' hts
  generalize as.map (·.1) = bs
  induction ts generalizing bs with
  | nil => rfl
  | cons t ts ih => simp [mergedSpec, ih]

theorem coalesce_offsets_disjoint (sizes : List Nat) (i j : Nat) (hij : i < j) (hj : j < sizes.length) :
    (offsetsOf sizes).getD i 0 + sizes.getD i 0 ≤ (offsetsOf sizes).getD j 0 := by
  have hi : i < sizes.length := by omega
  simp only [offsetsOf, List.getD_eq_getElem?_getD, List.getElem?_map, List.getElem?_range hi, List.getElem?_range hj,
    Option.map_some, Option.getD_some]
  have := offsets_disjoint sizes i j hij hj
  simpa [List.getD_eq_getElem?_getD] using this

/-- **end of stream is final for a leaf**: once the cursor is past the window's end, `Next` returns
nothing now and on every later call (the cursor does not move any more) -/
theorem leaf_end_of_stream_is_final (w : Window) (n : Nat) (cur : Int) (h : cur > w.stop) :
    ∀ fuel, leafStream w n fuel cur = [] := by
  intro fuel
  cases fuel with
  | zero => rfl
  | succ k => simp [leafStream, h]

/-! ### batch-level (pull) execution of whole plans (`Streams.lean`) -/

open Streams in
/-- **pull execution is the per-step semantics, for every operator of every plan.** A plan is a
tree of the engine's pull patterns (leaf with its own cursor; one child step by step; two children
paired by position, ending when either ends; vector child plus a scalar child that is only pulled
when the vector child delivered; coalesce; the step-invariant cache). If its leaves share the query
window (`Al k stop cur`), then the `i`-th call of `Next` of the root - and, since the statement is by
induction over the tree, of every operator inside - returns exactly the batch the per-step
denotation prescribes at cursor `cur + step * B * i`: one step vector per step of the grid, in step
order, at most `B` per batch, each carrying `den p t`. In particular siblings are aligned position
by position, so the engine's positional pairing (`lhs[i]` with `rhs[i]`, `scalars[i]` for the
i-th vector, `out[i]` in the coalesce) pairs step vectors of the same timestamp and never indexes
out of range. -/
theorem pull_execution_is_per_step_semantics {α : Type} (d0 : α) (k : Cfg) (hs : 0 < k.step) (hB : 0 < k.B)
    (n : Nat) (p : Plan α) (stop cur : Int) (hal : Al k stop cur p) :
    run k n p = (List.range n).map fun (i : Nat) => out k stop (cur + k.step * k.B * (i : Int)) (den d0 p) :=
  run_spec d0 k hs hB n p stop cur hal

open Streams in
/-- one call: the batch, the successor plan aligned at the next cursor, the denotation unchanged -/
theorem next_returns_the_prescribed_batch {α : Type} (d0 : α) (k : Cfg) (hs : 0 < k.step) (hB : 0 < k.B)
    (p : Plan α) (stop cur : Int) (hal : Al k stop cur p) :
    (next k p).1 = out k stop cur (den d0 p) ∧ Al k stop (cur + k.step * k.B) (next k p).2 ∧
      den d0 (next k p).2 = den d0 p :=
  next_spec d0 k hs hB p stop cur hal

open Streams in
/-- **end of stream is final for every operator of every plan** (not only for the leaves): once the
window's cursor is past the end every later `Next` returns nil - also for a child that was not
pulled when its sibling ended first -/
theorem end_of_stream_is_final_everywhere {α : Type} (d0 : α) (k : Cfg) (hs : 0 < k.step) (hB : 0 < k.B)
    (n : Nat) (p : Plan α) (stop cur : Int) (hal : Al k stop cur p) (hend : stop < cur) :
    ∀ o ∈ run k n p, o = none :=
  ended_stays_ended d0 k hs hB n p stop cur hal hend

open Streams in
/-- every batch of every operator: at most the batch size, nothing past the window's end -/
theorem every_batch_bounded {α : Type} (d0 : α) (k : Cfg) (hs : 0 < k.step) (hB : 0 < k.B)
    (n : Nat) (p : Plan α) (stop cur : Int) (hal : Al k stop cur p) :
    ∀ b, some b ∈ run k n p → b.length ≤ k.B ∧ ∀ x ∈ b, x.1 ≤ stop :=
  Streams.batches_bounded d0 k hs hB n p stop cur hal

open Streams in
/-- non-vacuity: `(m + clamp_min(-n, s @ 7)) ` as a plan over the window 0..25 (step 1, batches of
10) is aligned, and delivers 10, 10 and 6 step vectors, then nil twice -/
example :
    let p : Plan Int := .zip (fun _ _ a b => a + b) (.leaf (fun t => t) 25 0 10)
      (.fn true (fun _ a s => max a (s.getD 0)) (.map (fun _ a => -a) (.leaf (fun t => 2 * t) 25 0 10))
        (.inv 25 0 none 0 7 (.leaf (fun t => 100 + t) 7 7 1)))
    Al ⟨1, 10⟩ 25 0 p ∧ (run ⟨1, 10⟩ 5 p).map (fun o => o.map List.length) = [some 10, some 10, some 6, none, none] ∧
      (run ⟨1, 10⟩ 1 p).head? = some (some ((List.range 10).map fun (i : Nat) => ((i : Int), (i : Int) + max (-(2 * (i : Int))) 107))) := by
  refine ⟨by simp [Al, At], by decide, by decide⟩

open Streams in
/-- what the alignment hypothesis excludes: a leaf that stands one batch ahead of its sibling (a
child pulled once too often) - the binary operator then pairs step vectors of different timestamps
by position -/
example :
    let p : Plan Int := .zip (fun _ _ a b => a - b) (.leaf (fun t => t) 25 0 10) (.leaf (fun t => t) 25 10 10)
    (run ⟨1, 10⟩ 1 p).head? = some (some ((List.range 10).map fun (i : Nat) => ((i : Int), (-10 : Int)))) := by
  decide

open Streams in
/-- **the selectors' own batching (`Options.NumSteps()`) keeps them aligned with the operators that
use the batch size** (literals, `time()`, the step-invariant operator): a leaf at the window's
start with `numStepsBatch w B` steps per batch satisfies the alignment hypothesis - it is the batch
size, or the total number of steps, in which case the first batch finishes the window. The formula
is compared with the real `Options.NumSteps()` (windows with sub-millisecond parts included) by the
`kpull` correspondence. -/
theorem selector_batching_is_aligned {α : Type} (w : Window) (hs : 0 < w.step) (hle : w.start ≤ w.stop)
    (B : Nat) (f : Int → α) :
    Al ⟨w.step, B⟩ w.stop w.start (.leaf f w.stop w.start (numStepsBatch w B)) :=
  numSteps_leaf_aligned w hs hle B f

open Streams in
/-- what a wrong step count does (6 steps 0..5, batches of 10, a selector that believes there are
5): the selector needs two batches where the literal needs one, and the binary operator pairs the
selector's second batch with nothing - the last step is lost -/
example :
    let p : Plan Int := .zip (fun _ _ a b => a + b) (.leaf (fun t => t) 5 0 5) (.leaf (fun _ => 100) 5 0 10)
    (run ⟨1, 10⟩ 3 p).map (fun o => o.map List.length) = [some 5, none, none] := by decide

/-- **the operators of one plan share one window** (regenerated from the source): every argument of
every call in `execution/execution.go` that mentions the query's options is the options value
itself, the options with `End := Start` (below a step-invariant operator: the one-step window of
the `inv` node), or one of the window's fields handed to a remote query; `WithEndTime` copies the
options and overwrites `End` only; and `NumSteps()` reads the millisecond values the cursors walk
on. Nothing else is handed down, so every leaf of a plan starts at `opts.Start` on the same grid:
the alignment hypothesis `Al` of the theorems above holds for the plans `execution.New` builds. -/
theorem operators_share_the_query_window :
    (Gen.optsArgs.all fun a => ["opts", "opts.WithEndTime(opts.Start)", "opts.Start", "opts.End", "opts.Step",
      "opts.Step.Milliseconds()", "&promql.QueryOpts{LookbackDelta: opts.LookbackDelta}"].contains a) = true ∧
    Gen.withEndTimeWrites = ["result := *o", "result.End = end"] ∧
    Gen.numStepsReads = ["o.End.UnixMilli", "o.Start.UnixMilli", "o.Step.Milliseconds", "o.StepsBatch"] := by
  decide

end PromqlVerif.C18
