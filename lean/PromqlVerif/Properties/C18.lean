/-
C18 - every operator honours the stream contract its consumers rely on. The ID half of the
contract is proven for every operator of every plan over the natively supported constructs
(`plan_contract`, by induction over the typing derivation); the batching half for the leaf cursor;
the remaining clauses (end of stream stays ended, no concurrent Next) are checked on the real
code by the verif-tag wrapper at every Series/Next.
-/
import PromqlVerif.Proofs.PlanContract
import PromqlVerif.Proofs.Grid
import PromqlVerif.Proofs.CoalesceProof
namespace PromqlVerif.C18
open PromqlVerif Val

variable {V : Type} [Val V]

/-- **every operator of every plan**: for every well-typed expression over the natively supported
constructs (selectors, range and instant functions, aggregations with parameters, topk/bottomk,
scalar and vector binary operators with any matching, histogram_quantile, timestamp, clamp,
scalar()/vector(), unary operators, @-pinned parts), every storage, window and lookback: the
operator built for it emits at every step sample IDs that index its series list and are pairwise
distinct, and a scalar-typed operator has exactly one series. Every sub-expression is itself such
an expression, so this is a statement about every operator instance in the plan. -/
theorem every_operator_honours_id_contract {P : Matching → Prop} (c : Ctx V) (b : Bool) (e : Expr V) (h : WT P b e) (o : OpSem V)
    (ho : engOp c e = .ok o) :
    (∀ t xs, o.step t = .ok xs → (∀ x ∈ xs, x.1 < o.series.length) ∧ (xs.map (·.1)).Pairwise (· ≠ ·)) ∧
      (b = true → o.series.length = 1) := ⟨(plan_contract c b e h o ho).1, (plan_contract c b e h o ho).2.1⟩

/-- the premises are satisfiable by a plan that goes through the join, a grouped aggregation, a
k-aggregation with a per-step parameter and a pinned selector -/
example : WT (V := Int) (fun _ => True) false
    (.bin "/" false ⟨.manyToOne, true, ["a"], ["b"]⟩
      (.agg "sum" false ["a"] (.call "rate" [.msel ⟨[], 0, none, none⟩ 300000]))
      (.aggP "topk" true ["c"] (.call "scalar" [.vsel ⟨[], 0, none, none⟩])
        (.stepInv (.vsel ⟨[], 60000, some 1000, none⟩)))) :=
  WT.bin "/" false _ false false _ _ (fun _ _ => trivial)
    (WT.agg "sum" false ["a"] _ (WT.rangefn "rate" _ _ (by decide)))
    (WT.aggP "topk" true ["c"] _ _ (WT.scalar _ (WT.vsel _))
      (WT.stepInv false _ (by intro v h; cases h) (WT.vsel _)))

/-- topk / bottomk return input samples: a group's selection plus what it dropped is a
rearrangement of the group's samples (nothing invented, nothing emitted twice) - for the
engine's bounded heap, every k and every arrival order -/
theorem topk_keeps_input_samples {α : Type} (top : Bool) (k : Nat) (items : List (α × V)) :
    ∃ dropped, (kSelect top k items ++ dropped).Perm items := kSelect_perm top k items

/-- the static join tables only ever point at outputs that exist, and two series of the "many"
side never share an output series -/
theorem join_tables_index_outputs (m : Matching) (keepName : Bool) (high low : List Labels) :
    JOk (engJoin m keepName high low) := engJoin_ok m keepName high low

/-- the selector leaves -/
theorem selector_contract (c : Ctx V) (s : VSel) (ts : Bool) : Contract (engSelector c s ts) :=
  contract_selector c s ts

theorem rangefn_contract (c : Ctx V) (fn : String) (s : VSel) (r : Int) : Contract (engRangeFn c fn s r) :=
  contract_rangefn c fn s r

/-- re-basing by the shard offset keeps IDs inside the concatenated series list -/
theorem rebase_in_range {β : Type} (pre n : Nat) (xs : List (Nat × β)) (h : ∀ x ∈ xs, x.1 < n) :
    ∀ x ∈ rebase pre xs, pre ≤ x.1 ∧ x.1 < pre + n := by
  intro x hx
  obtain ⟨y, hy, rfl⟩ := List.mem_map.mp hx
  have := h y hy
  simp only; omega

/-- batches carry at most the batch size of step vectors, one per step, in increasing step order -/
theorem batches_bounded (w : Window) (B : Nat) (hB : 0 < B) (fuel : Nat) (cur : Int) :
    ∀ b ∈ leafStream w (numStepsBatch w B) fuel cur, b.length ≤ B := by
  intro b hb
  exact Nat.le_trans (leaf_batches_le w _ fuel cur b hb) (numStepsBatch_le w B hB)

theorem steps_in_order (w : Window) (hs : 0 < w.step) (hle : w.start ≤ w.stop) (B : Nat) (hB : 0 < B) :
    ((leafStream w (numStepsBatch w B) w.numSteps w.start).flatten).Pairwise (· < ·) := by
  rw [leaf_stream_is_grid w hs hle B hB]
  unfold Window.grid
  have : ¬ w.step ≤ 0 := by omega
  simp only [this, if_false]
  exact walk_pairwise_lt _ _ hs _ _

/-- **the coalesce operator keeps the ID contract, for every order of arrival**: if every child's
batch carries IDs below its number of series, pairwise distinct within a step, and the children's
offsets give them disjoint ranges (`coalesce_offsets_disjoint`: what `loadSeries` computes does),
then every step vector of the merged batch carries pairwise distinct IDs, each inside the range
of one child - hence below the length of the concatenated series list. -/
theorem coalesce_keeps_id_contract {V : Type} (ts : List Int) (hts : ts ≠ [])
    (as : List ((Nat × List (SV V)) × Nat)) (hne : as ≠ [])
    (hal : AlignedArrivals ts (as.map (·.1))) (hr : ∀ a ∈ as, Ranged a.1 a.2) (hd : DisjointRanges as) :
    ∃ out, coalesceNext ((as.map (·.1)).map fun a => (a.1, some a.2)) = .ok (some out) ∧
      out.map (·.1) = ts ∧
      ∀ sv ∈ out, (sv.2.map (·.1)).Nodup ∧
        ∀ id ∈ sv.2.map (·.1), ∃ a ∈ as, a.1.1 ≤ id ∧ id < a.1.1 + a.2 := by
  have hne' : as.map (·.1) ≠ [] := by
    intro h
    exact hne (List.map_eq_nil_iff.mp h)
  refine ⟨_, coalesceNext_spec ts hts _ hal hne', ?_, merged_ids ts as hr hd⟩
  clear hal hr hd hne hne' hts
  generalize as.map (·.1) = bs
  induction ts generalizing bs with
  | nil => rfl
  | cons t ts ih => simp [mergedSpec, ih]

theorem coalesce_offsets_disjoint (sizes : List Nat) (i j : Nat) (hij : i < j) (hj : j < sizes.length) :
    (offsetsOf sizes).getD i 0 + sizes.getD i 0 ≤ (offsetsOf sizes).getD j 0 := by
  have hi : i < sizes.length := by omega
  simp only [offsetsOf, List.getD_eq_getElem?_getD, List.getElem?_map, List.getElem?_range hi, List.getElem?_range hj,
    Option.map_some, Option.getD_some]
  have := offsets_disjoint sizes i j hij hj
  simpa [List.getD_eq_getElem?_getD] using this

/-- **end of stream is final for a leaf**: once the cursor is past the window's end, `Next` returns
nothing now and on every later call (the cursor does not move any more) -/
theorem leaf_end_of_stream_is_final (w : Window) (n : Nat) (cur : Int) (h : cur > w.stop) :
    ∀ fuel, leafStream w n fuel cur = [] := by
  intro fuel
  cases fuel with
  | zero => rfl
  | succ k => simp [leafStream, h]

end PromqlVerif.C18
