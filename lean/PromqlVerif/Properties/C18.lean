/-
C18 - every operator honours the stream contract its consumers rely on (partial: the leaves,
the exchange operators and pointwise operators; the remaining operators are checked on the
real code by the verif-tag wrapper at every Series/Next).
-/
import PromqlVerif.Proofs.Den
import PromqlVerif.Proofs.Grid
namespace PromqlVerif.C18
open PromqlVerif Val

variable {V : Type} [Val V]

/-- sample IDs index the series list and are pairwise distinct -/
def IdsOk {β : Type} (n : Nat) (xs : List (Nat × β)) : Prop :=
  (∀ x ∈ xs, x.1 < n) ∧ (xs.map (·.1)).Pairwise (· ≠ ·)

theorem enumFrom_ids {γ β : Type} (k : Nat) (ms : List γ) (g : γ → Option β) :
    (∀ x ∈ (enumFrom k ms).filterMap (fun (p : Nat × γ) => (g p.2).map fun b => (p.1, b)), k ≤ x.1 ∧ x.1 < k + ms.length) ∧
      (((enumFrom k ms).filterMap (fun (p : Nat × γ) => (g p.2).map fun b => (p.1, b))).map (·.1)).Pairwise (· < ·) := by
  induction ms generalizing k with
  | nil => simp [enumFrom]
  | cons m ms ih =>
    obtain ⟨h1, h2⟩ := ih (k + 1)
    simp only [enumFrom, List.filterMap_cons]
    cases hg : g m with
    | none =>
      simp only [Option.map_none]
      refine ⟨fun x hx => ?_, h2⟩
      have := h1 x hx
      simp only [List.length_cons]; omega
    | some b =>
      simp only [Option.map_some, List.map_cons]
      constructor
      · intro x hx
        rcases List.mem_cons.mp hx with rfl | hx
        · simp
        · have := h1 x hx
          simp only [List.length_cons]; omega
      · apply List.Pairwise.cons
        · intro y hy
          obtain ⟨x, hx, rfl⟩ := List.mem_map.mp hy
          have := h1 x hx
          omega
        · exact h2

/-- **the selector leaves honour the contract**: at every step, IDs index `Series()` and no ID
repeats; no staleness marker is emitted (the value type of a step vector has none) -/
theorem selector_contract (c : Ctx V) (s : VSel) (ts : Bool) (t : Int) (xs : IdVec V)
    (h : (engSelector c s ts).step t = .ok xs) : IdsOk (engSelector c s ts).series.length xs := by
  simp only [engSelector] at h ⊢
  cases h
  have := enumFrom_ids 0 (matchingSeries c s)
    (fun sr => (selectSample c.lookback (t - s.offsetAt c.start) sr.samples).map fun p =>
      if ts then div (ofInt p.1) (ofInt 1000) else p.2)
  simp only [enum, List.length_map, Option.map_map, Function.comp_def] at this ⊢
  refine ⟨fun x hx => ?_, ?_⟩
  · have := this.1 x hx; omega
  · exact this.2.imp (fun h => Nat.ne_of_lt h)

theorem rangefn_contract (c : Ctx V) (fn : String) (s : VSel) (r : Int) (t : Int) (xs : IdVec V)
    (h : (engRangeFn c fn s r).step t = .ok xs) : IdsOk (engRangeFn c fn s r).series.length xs := by
  simp only [engRangeFn] at h ⊢
  cases h
  have := enumFrom_ids 0 (matchingSeries c s)
    (fun sr => rangeKernel fn (windowPoints (t - s.offsetAt c.start - r) (t - s.offsetAt c.start) sr.samples)
      (t - s.offsetAt c.start - r) (t - s.offsetAt c.start) (rangeSeconds r : V))
  simp only [enum, List.length_map] at this ⊢
  refine ⟨fun x hx => ?_, ?_⟩
  · have := this.1 x hx; omega
  · exact this.2.imp (fun h => Nat.ne_of_lt h)

/-- pointwise operators keep IDs and the length of the series list -/
theorem pointwise_contract {β β' : Type} (n : Nat) (xs : List (Nat × β)) (g : β → β') (h : IdsOk n xs) :
    IdsOk n (xs.map fun x => (x.1, g x.2)) := by
  obtain ⟨h1, h2⟩ := h
  refine ⟨fun x hx => ?_, ?_⟩
  · obtain ⟨y, hy, rfl⟩ := List.mem_map.mp hx; exact h1 y hy
  · simpa [List.map_map, Function.comp_def] using h2

theorem filterMap_ids_sublist {β β' : Type} (xs : List (Nat × β)) (g : β → Option β') :
    ((xs.filterMap fun x => (g x.2).map fun b => (x.1, b)).map (·.1)).Sublist (xs.map (·.1)) := by
  induction xs with
  | nil => simp
  | cons x xs ih =>
    simp only [List.filterMap_cons, List.map_cons]
    cases g x.2 with
    | none => exact ih.cons _
    | some b => simp only [Option.map_some, List.map_cons]; exact ih.cons₂ _

/-- filtering operators (comparisons, clamp with inverted bounds) keep the contract -/
theorem filter_contract {β β' : Type} (n : Nat) (xs : List (Nat × β)) (g : β → Option β') (h : IdsOk n xs) :
    IdsOk n (xs.filterMap fun x => (g x.2).map fun b => (x.1, b)) := by
  obtain ⟨h1, h2⟩ := h
  refine ⟨fun x hx => ?_, h2.sublist (filterMap_ids_sublist xs g)⟩
  obtain ⟨y, hy, hxy⟩ := List.mem_filterMap.mp hx
  cases hg : g y.2 with
  | none => simp [hg] at hxy
  | some b => simp only [hg, Option.map_some, Option.some.injEq] at hxy; subst hxy; exact h1 y hy

/-- re-basing by the shard offset keeps IDs inside the concatenated series list -/
theorem rebase_in_range {β : Type} (pre n : Nat) (xs : List (Nat × β)) (h : ∀ x ∈ xs, x.1 < n) :
    ∀ x ∈ rebase pre xs, pre ≤ x.1 ∧ x.1 < pre + n := by
  intro x hx
  obtain ⟨y, hy, rfl⟩ := List.mem_map.mp hx
  have := h y hy
  simp only; omega

/-- batches carry at most the batch size of step vectors, one per step, in increasing step order -/
theorem batches_bounded (w : Window) (B : Nat) (hB : 0 < B) (fuel : Nat) (cur : Int) :
    ∀ b ∈ leafStream w (numStepsBatch w B) fuel cur, b.length ≤ B := by
  intro b hb
  exact Nat.le_trans (leaf_batches_le w _ fuel cur b hb) (numStepsBatch_le w B hB)

theorem steps_in_order (w : Window) (hs : 0 < w.step) (hle : w.start ≤ w.stop) (B : Nat) (hB : 0 < B) :
    ((leafStream w (numStepsBatch w B) w.numSteps w.start).flatten).Pairwise (· < ·) := by
  rw [leaf_stream_is_grid w hs hle B hB]
  unfold Window.grid
  have : ¬ w.step ≤ 0 := by omega
  simp only [this, if_false]
  exact walk_pairwise_lt _ _ hs _ _

end PromqlVerif.C18
