/-
C06 - instant functions, scalars, unary minus and @-pinned parts match the reference.
-/
import PromqlVerif.Proofs.Den
namespace PromqlVerif.C06
open PromqlVerif Val

variable {V : Type} [Val V]

/-- a pointwise function operator (labels `h`, values `g`) over any child: what the engine emits,
read through its series list, is the child's reading mapped pointwise -/
theorem pointwise_function_den (child : OpSem V) (h : Labels → Labels) (g : V → V) (t : Int) :
    ({ series := child.series.map h
       step := fun t => (child.step t).map fun xs => xs.map fun x => (x.1, g x.2) } : OpSem V).den t
      = (child.den t).map fun v => v.map fun p => (h p.1, g p.2) := by
  unfold OpSem.den
  cases hs : child.step t with
  | error e => simp [Except.map, hs]
  | ok xs => simp [Except.map, hs, denote_map]

/-- **`timestamp(selector)` reads the selected samples' own timestamps, in the engine as in the
reference** (unpinned selector; under `@` with an offset the reference has the quirk the known
finding KF-timestamp-at-offset records): the engine builds the selector in its timestamp mode and
drops the name; at every step what it emits, read through its series list, is exactly the
reference value - also when the selected sample is older than the step. -/
theorem timestamp_of_selector (c : Ctx V) (hq : c.q.noDupCheck = true) (hts : c.q.timestampIsStepTime = false)
    (s : VSel) (hat : s.atTs = none) (t : Int) :
    ∃ o, engOp c (.call "timestamp" [.vsel s]) = .ok o ∧
      (o.den t).map Value.vec = eval c t (.call "timestamp" [.vsel s]) := by
  refine ⟨{ engSelector c s true with series := (engSelector c s true).series.map Labels.dropName }, ?_, ?_⟩
  · rw [engOp] <;> first | rfl | (intro s r hh; cases hh) | skip
  · rw [eval] <;> first | skip | (intro s r hh; cases hh)
    simp only [Expr.unwrap, hts, Bool.false_eq_true, if_false, hat, dedupCheck, hq, Bool.not_true, Bool.false_and]
    unfold OpSem.den engSelector selectT
    simp only [Except.map]
    have := denote_enum (matchingSeries c s) (fun sr => sr.labels.dropName)
      (fun sr => (selectSample c.lookback (s.refTime c.start t) sr.samples).map fun p => (div (ofInt p.1) (ofInt 1000) : V))
    simp only [VSel.refTime, Option.map_map, Function.comp_def, List.map_map] at this ⊢
    rw [List.map_filterMap]
    simp only [Option.map_map, Function.comp_def]
    congr 2
    simpa using this

/-- `scalar(v)` is the value of the only element, NaN otherwise -/
theorem scalar_semantics (c : Ctx V) (t : Int) (e : Expr V) (v : Vec V) (h : eval c t e = .ok (.vec v)) :
    eval c t (.call "scalar" [e]) = .ok (.scal (match v with | [x] => x.2 | _ => nan)) := by
  rw [eval]
  · simp only [h, bind, Except.bind, Value.asVec, pure, Except.pure]
    cases v with
    | nil => rfl
    | cons x xs => cases xs <;> rfl
  · intro s r heq
    subst heq
    rw [eval] at h
    cases h

/-- `clamp` with `max < min` drops every sample of the step -/
theorem clamp_inverted_bounds_drops (c : Ctx V) (t : Int) (a lo hi : Expr V) (v : Vec V) (l u : V)
    (ha : eval c t a = .ok (.vec v)) (hl : eval c t lo = .ok (.scal l)) (hh : eval c t hi = .ok (.scal u))
    (hlt : lt u l = true) : eval c t (.call "clamp" [a, lo, hi]) = .ok (.vec []) := by
  rw [eval]
  simp [ha, hl, hh, bind, Except.bind, Value.asVec, Value.asScal, pure, Except.pure, hlt]

/-- a step-invariant (`@`-pinned) part is evaluated once, at the start of the window, and
contributes that same vector to every step - in the reference and in the engine alike -/
theorem step_invariant_reference (c : Ctx V) (t t' : Int) (e : Expr V) :
    eval c t (.stepInv e) = eval c t' (.stepInv e) := by
  rw [eval, eval]

theorem step_invariant_engine (c : Ctx V) (e : Expr V) (o : OpSem V) (t t' : Int)
    (h : engOp c (.stepInv e) = .ok o) : o.step t = o.step t' := by
  cases e with
  | num v => rw [engOp] at h; cases h; rfl
  | _ =>
    rw [engOp] at h
    · simp only [bind, Except.bind] at h
      split at h
      · cases h
      · cases h; rfl
    · intro v hv; cases hv

/-- `time()` delivers the step time in seconds at every step; literals their value -/
theorem time_every_step (c : Ctx V) (t : Int) :
    eval c t (.call "time" []) = .ok (.scal (div (ofInt t) (ofInt 1000))) := by rw [eval]

theorem literal_every_step (c : Ctx V) (t : Int) (v : V) : eval c t (.num v) = .ok (.scal v) := by rw [eval]

end PromqlVerif.C06
