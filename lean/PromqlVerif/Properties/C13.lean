/-
C13 - no query can crash the host process (partial).
-/
import PromqlVerif.LTS.ConcurrentThms
import PromqlVerif.LTS.WorkerThms
import PromqlVerif.Proofs.EngInd
import PromqlVerif.Properties.C04
import PromqlVerif.Proofs.StreamsProof
namespace PromqlVerif.C13
open PromqlVerif Val

/-- every goroutine the engine starts and that can run storage callbacks or operator code of
a query has a deferred recover (regenerated): the exceptions are the drain goroutine, which
only receives from a channel, and the workers, which run the engine's own per-step tasks -/
theorem goroutines_recover :
    Gen.goSites.all (fun s => s.2.2 || ["c.drainBufferOnCancel", "w.start"].contains s.2.1) = true := by
  decide +kernel

/-- the goroutine that calls `Exec` recovers, and converts every panic value into the query's error -/
theorem exec_recovers : Gen.execRecovers = true ∧ Gen.recoverEngineHasDefault = true := by decide

/-- with the recover in place a panic raised below a pull goroutine never kills the process,
for every schedule; without it, it does -/
theorem pull_panic_is_contained :
    ∀ s, LTS.Reach (LTS.Concurrent.sys LTS.Concurrent.feat) s → LTS.Concurrent.noCrash s = true :=
  LTS.Concurrent.no_crash

theorem pull_panic_kills_without_recover :
    (LTS.Concurrent.explored { LTS.Concurrent.feat with recovers := false }).all LTS.Concurrent.noCrash = false :=
  LTS.Concurrent.crash_without_recover

/-- the worker group never sends on a closed channel and never closes a channel twice, whenever
the context is cancelled (both are process-killing panics in goroutines without recover) -/
theorem worker_group_no_channel_misuse :
    ∀ s, LTS.Reach (LTS.Worker.sys LTS.Worker.feat) s → LTS.Worker.noCrash s = true :=
  LTS.Worker.no_crash

variable {V : Type} [Val V]

/-- invalid runtime parameters are values or errors, never a panic: `k < 1` selects nothing,
NaN / out-of-range `k` is the query's error (model of `kAggregate.Next`) -/
theorem invalid_k_is_handled (top w : Bool) (g : List String) (p : V) (v : Vec V) :
    (inInt64 p = false → aggregate (if top then "topk" else "bottomk") w g p v = .error .badParam) ∧
    (inInt64 p = true → toInt p < 1 → aggregate (if top then "topk" else "bottomk") w g p v = .ok []) :=
  ⟨C04.topk_bad_param top w g p v, C04.topk_nonpositive top w g p v⟩

/-- planning never fails with anything but "unsupported" -/
theorem planning_total (c : Ctx V) (e : Expr V) (er : Err) (h : engOp c e = .error er) : er = .unsupported :=
  engOp_err c e er h

/-! ### data-dependent indexing between operators (`Streams.lean`) -/

open Streams in
/-- **the operators' unchecked positional indexing never leaves its range.** The function operator
reads `scalars[i]` for the i-th vector of a batch, the coalesce appends a child's i-th vector to
`out[i]` (sized by whichever child arrived first), unary minus and the aggregations hand vector
`i` to `workers[i]` - none of them checks the index, and a violation is a runtime panic on
whichever goroutine runs that `Next`. For every plan tree whose leaves share the query window, and
every number of calls, all these indices are in range (`runSafe`): a consequence of the alignment
theorem of C18 - siblings deliver batches of the same length, at most `B` long. Tied to the code by
the `kpull` correspondence (the real operators over scripted children). -/
theorem positional_indexing_in_range {α : Type} (d0 : α) (k : Cfg) (hs : 0 < k.step) (hB : 0 < k.B)
    (n : Nat) (p : Plan α) (stop cur : Int) (hal : Al k stop cur p) : runSafe k n p = true :=
  aligned_run_safe d0 k hs hB n p stop cur hal

open Streams in
/-- the hypothesis is what keeps it safe: with the scalar child one batch ahead of the vector child
near the end of the window (26 steps, batches of 10: the vector child delivers 10 vectors, the
scalar child its last 6) `scalars[6]` does not exist -/
example :
    let p : Plan Int := .fn true (fun _ a s => max a (s.getD 0)) (.leaf (fun t => t) 25 10 10) (.leaf (fun t => t) 25 20 10)
    safeNow ⟨1, 10⟩ p = false := by decide

open Streams in
/-- and an aligned plan of the same shape is safe at every call -/
example :
    let p : Plan Int := .fn true (fun _ a s => max a (s.getD 0)) (.leaf (fun t => t) 25 0 10) (.leaf (fun t => t) 25 0 10)
    Al ⟨1, 10⟩ 25 0 p ∧ runSafe ⟨1, 10⟩ 5 p = true := by
  refine ⟨by simp [Al, At], by decide⟩

end PromqlVerif.C13
