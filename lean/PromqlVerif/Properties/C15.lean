/-
C15 - storage failures surface as query errors, never as partial results.
-/
import PromqlVerif.LTS.ConcurrentThms
import PromqlVerif.Loader
import PromqlVerif.Sem
import PromqlVerif.Eng
import PromqlVerif.LTS.ForkJoinThms
namespace PromqlVerif.C15
open PromqlVerif Val

/-- the loader never succeeds on an incomplete series set: a success saw every series -/
theorem no_partial_load (avail n : Nat) (f : Loader.Faults) (h : (Loader.loadSeries avail f).1 = .ok n) : n = avail :=
  Loader.ok_is_complete avail n f h

/-- a failing querier and a failing series set fail the load -/
theorem querier_failure_surfaces (avail : Nat) : (Loader.loadSeries avail { querierFails := true }).1 = .err := by
  simp [Loader.loadSeries]

theorem set_failure_surfaces (avail k : Nat) (hk : k ≤ avail) :
    (Loader.loadSeries avail { setErrAfter := some k }).1 = .err := Loader.set_error_fails avail k hk

/-- across the pull goroutine an error of the child is what the consumer receives, never a clean
end of stream, for every schedule in which nobody cancels the query -/
theorem error_crosses_goroutines :
    ∀ s, LTS.Reach (LTS.Concurrent.sys LTS.Concurrent.featNoCancel) s → LTS.Concurrent.errorNotSwallowed s = true :=
  LTS.Concurrent.error_delivered_without_cancel

/-- the per-step semantics propagates errors of sub-expressions (`Except`): e.g. an error below
an aggregation is the aggregation's error -/
theorem error_propagates_through_agg {V : Type} [Val V] (c : Ctx V) (t : Int) (op : String) (w : Bool)
    (g : List String) (e : Expr V) (er : Err) (h : eval c t e = .error er) :
    eval c t (.agg op w g e) = .error er := by
  rw [eval]; simp [h, bind, Except.bind]

/-- across the fork-join of the coalesce operator: if any child fails - in `Series` or in `Next`, by
error or by panic - the parent returns an error, for every interleaving of the children -/
theorem error_crosses_the_coalesce_fork_join :
    ∀ s, LTS.Reach (LTS.ForkJoin.sys LTS.ForkJoin.feat) s → LTS.ForkJoin.errorNotLost s = true :=
  LTS.ForkJoin.error_not_lost

/-! ### no operator of the engine turns a failing child step into a successful one

The engine model's operators, one by one: if the operator a node is built on fails at a step, so
does the node, with the same error - also through the step-invariant wrapper, which evaluates its
child once, at the window start (a seeded change made exactly that wrapper swallow the error of
its child; the fault oracle caught it, this is the statement it violated). -/

theorem neg_step_error {V : Type} [Val V] (c : Ctx V) (e : Expr V) (o o' : OpSem V) (t : Int) (er : Err)
    (h : engOp c (.neg e) = .ok o) (h' : engOp c e = .ok o') (hs : o'.step t = .error er) : o.step t = .error er := by
  rw [engOp] at h
  simp only [h', bind, Except.bind, pure, Except.pure, Except.ok.injEq] at h
  subst h
  simp [hs, Except.map]

theorem stepInv_step_error {V : Type} [Val V] (c : Ctx V) (e : Expr V) (hn : ∀ v, e ≠ .num v) (o o' : OpSem V) (er : Err)
    (h : engOp c (.stepInv e) = .ok o) (h' : engOp c e = .ok o') (hs : o'.step c.start = .error er) :
    ∀ t, o.step t = .error er := by
  intro t
  rw [engOp] at h
  · simp only [h', bind, Except.bind, pure, Except.pure, Except.ok.injEq] at h
    subst h
    exact hs
  · intro v hv; exact hn v hv

theorem agg_step_error {V : Type} [Val V] (op : String) (w : Bool) (g : List String) (param : Option (OpSem V))
    (child : OpSem V) (t : Int) (er : Err) (hs : child.step t = .error er) :
    (engAggregate op w g param child).step t = .error er := by
  unfold engAggregate
  split <;> simp [hs, bind, Except.bind]

theorem agg_param_error {V : Type} [Val V] (op : String) (w : Bool) (g : List String) (po child : OpSem V)
    (hnv : (!w && g.isEmpty && vectorizedAggs.contains op) = false)
    (t : Int) (er : Err) (xs : IdVec V) (hc : child.step t = .ok xs) (hs : po.step t = .error er) :
    (engAggregate op w g (some po) child).step t = .error er := by
  unfold engAggregate
  rw [if_neg (by rw [hnv]; exact Bool.false_ne_true)]
  simp only [hc, scalarOf, hs, bind, Except.bind]

theorem kagg_step_error {V : Type} [Val V] (top w : Bool) (g : List String) (po child : OpSem V) (t : Int) (er : Err)
    (hs : child.step t = .error er) : (engKAggregate top w g po child).step t = .error er := by
  unfold engKAggregate
  simp [hs, bind, Except.bind]

theorem vector_vector_step_error {V : Type} [Val V] (c : Ctx V) (op : String) (b : Bool) (m : Matching) (l r : Expr V)
    (hls : l.isScalar = false) (hrs : r.isScalar = false) (o lo ro : OpSem V) (t : Int) (er : Err)
    (h : engOp c (.bin op b m l r) = .ok o) (hl : engOp c l = .ok lo) (hr : engOp c r = .ok ro) :
    (lo.step t = .error er → o.step t = .error er) ∧
    (∀ xs, lo.step t = .ok xs → ro.step t = .error er → o.step t = .error er) := by
  rw [engOp] at h
  simp only [hl, hr, bind, Except.bind, pure, Except.pure, hls, hrs, Bool.or_self, Bool.false_eq_true, if_false] at h
  split at h
  · cases h
  · simp only [Except.ok.injEq] at h
    subst h
    constructor
    · intro hs; simp [hs]
    · intro xs hx hs; simp [hx, hs]

end PromqlVerif.C15
