/-
C15 - storage failures surface as query errors, never as partial results.
-/
import PromqlVerif.LTS.ConcurrentThms
import PromqlVerif.Loader
import PromqlVerif.Sem
namespace PromqlVerif.C15
open PromqlVerif Val

/-- the loader never succeeds on an incomplete series set: a success saw every series -/
theorem no_partial_load (avail n : Nat) (f : Loader.Faults) (h : (Loader.loadSeries avail f).1 = .ok n) : n = avail :=
  Loader.ok_is_complete avail n f h

/-- a failing querier and a failing series set fail the load -/
theorem querier_failure_surfaces (avail : Nat) : (Loader.loadSeries avail { querierFails := true }).1 = .err := by
  simp [Loader.loadSeries]

theorem set_failure_surfaces (avail k : Nat) (hk : k ≤ avail) :
    (Loader.loadSeries avail { setErrAfter := some k }).1 = .err := Loader.set_error_fails avail k hk

/-- across the pull goroutine an error of the child is what the consumer receives, never a clean
end of stream, for every schedule in which nobody cancels the query -/
theorem error_crosses_goroutines :
    ∀ s, LTS.Reach (LTS.Concurrent.sys LTS.Concurrent.featNoCancel) s → LTS.Concurrent.errorNotSwallowed s = true :=
  LTS.Concurrent.error_delivered_without_cancel

/-- the per-step semantics propagates errors of sub-expressions (`Except`): e.g. an error below
an aggregation is the aggregation's error -/
theorem error_propagates_through_agg {V : Type} [Val V] (c : Ctx V) (t : Int) (op : String) (w : Bool)
    (g : List String) (e : Expr V) (er : Err) (h : eval c t e = .error er) :
    eval c t (.agg op w g e) = .error er := by
  rw [eval]; simp [h, bind, Except.bind]

end PromqlVerif.C15
