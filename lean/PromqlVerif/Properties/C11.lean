/-
C11 - results do not depend on core count, scheduling, series order or unrelated data.
-/
import PromqlVerif.Proofs.Den
import PromqlVerif.Proofs.Grid
import PromqlVerif.Proofs.CoalesceProof
namespace PromqlVerif.C11
open PromqlVerif Val

variable {V : Type} [Val V]

/-- every shard count partitions the series list (every remainder of count mod shards) -/
theorem shard_count_irrelevant {α : Type} (l : List α) (n m : Nat) (hn : 0 < n) (hm : 0 < m) :
    (List.range n).flatMap (fun i => seriesShard l i n) = (List.range m).flatMap (fun i => seriesShard l i m) := by
  rw [shards_cover l n hn, shards_cover l m hm]

/-- any completion order of the merge goroutines denotes the same multiset of samples -/
theorem merge_order_irrelevant {α β : Type} (cs : List (List α × List (Nat × β)))
    (h : ∀ c ∈ cs, ∀ x ∈ c.2, x.1 < c.1.length)
    (m1 m2 : List (List (Nat × β))) (h1 : m1.Perm (coalesceVecs cs)) (h2 : m2.Perm (coalesceVecs cs)) :
    (denote (coalesceSeries cs) m1.flatten).Perm (denote (coalesceSeries cs) m2.flatten) :=
  (coalesce_any_order cs h m1 h1).trans (coalesce_any_order cs h m2 h2).symm

/-- the order in which the storage returns series only permutes a selection -/
theorem storage_order_irrelevant (c : Ctx V) (st' : List (Series V)) (hp : st'.Perm c.st) (s : VSel) (t : Int) :
    (selectV { c with st := st' } s t).Perm (selectV c s t) := by
  unfold selectV selectT matchingSeries
  exact ((hp.filter _).filterMap _).map _

/-- series that no selector of the query matches do not change a selection -/
theorem unrelated_series_irrelevant (c : Ctx V) (extra : List (Series V)) (s : VSel) (t : Int)
    (hno : ∀ sr ∈ extra, matchAll c.re s.allMatchers sr.labels = false) :
    selectV { c with st := c.st ++ extra } s t = selectV c s t := by
  unfold selectV selectT matchingSeries
  simp only [List.filter_append]
  have : extra.filter (fun sr => matchAll c.re s.allMatchers sr.labels) = [] := by
    apply List.filter_eq_nil_iff.mpr
    intro sr hsr
    simp [hno sr hsr]
  simp [this]

/-- the same for the windows of range functions -/
theorem unrelated_series_irrelevant_range (c : Ctx V) (extra : List (Series V)) (fn : String) (s : VSel) (r t : Int)
    (hno : ∀ sr ∈ extra, matchAll c.re s.allMatchers sr.labels = false) :
    evalRangeFn { c with st := c.st ++ extra } fn s r t = evalRangeFn c fn s r t := by
  unfold evalRangeFn matchingSeries
  simp only [List.filter_append]
  have : extra.filter (fun sr => matchAll c.re s.allMatchers sr.labels) = [] := by
    apply List.filter_eq_nil_iff.mpr
    intro sr hsr
    simp [hno sr hsr]
  simp [this]

/-- **the merge of the shards does not depend on the scheduler**: `coalesceOperator.Next` as it is
written (`Coalesce.lean`: the first arrival creates the shared batch, every arrival appends under
the lock) - for aligned children and any two orders in which their goroutines arrive, both runs
succeed and their batches have, step by step, the same timestamp and the same samples up to
order. -/
theorem coalesce_arrival_order_irrelevant {V : Type} (ts : List Int) (hts : ts ≠ [])
    (as as' : List (Nat × List (SV V))) (has : AlignedArrivals ts as) (hne : as ≠ []) (hp : as.Perm as') :
    ∃ out out', coalesceNext (as.map fun a => (a.1, some a.2)) = .ok (some out) ∧
      coalesceNext (as'.map fun a => (a.1, some a.2)) = .ok (some out') ∧
      All2 (fun (x y : SV V) => x.1 = y.1 ∧ x.2.Perm y.2) out out' := by
  have has' : AlignedArrivals ts as' := fun a ha => has a (hp.symm.subset ha)
  have hne' : as' ≠ [] := by
    intro h
    rw [h] at hp
    exact hne hp.eq_nil
  exact ⟨_, _, coalesceNext_spec ts hts as has hne, coalesceNext_spec ts hts as' has' hne', mergedSpec_perm ts as as' hp⟩

/-- the alignment is needed: with children whose batches differ in length the outcome depends on
who arrives first (so the siblings of a plan must deliver the same steps - C18) -/
theorem coalesce_needs_aligned_children :
    ∃ (a b : Nat × Option (List (SV Int))),
      (coalesceNext [a, b]).isOk = false ∧ (coalesceNext [b, a]).isOk = true :=
  unaligned_children_depend_on_arrival

/-- the hypotheses of `coalesce_arrival_order_irrelevant` are satisfiable -/
example : AlignedArrivals [0, 60] ([(0, [(0, [(0, 1)]), (60, [])]), (1, [(0, []), (60, [(0, 2)])])] : List (Nat × List (SV Int))) := by
  intro a ha
  simp only [List.mem_cons, List.mem_nil_iff, or_false] at ha
  rcases ha with rfl | rfl <;> rfl

end PromqlVerif.C11
