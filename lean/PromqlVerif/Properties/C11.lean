/-
C11 - results do not depend on core count, scheduling, series order or unrelated data.
-/
import PromqlVerif.Proofs.Den
import PromqlVerif.Proofs.Grid
namespace PromqlVerif.C11
open PromqlVerif Val

variable {V : Type} [Val V]

/-- every shard count partitions the series list (every remainder of count mod shards) -/
theorem shard_count_irrelevant {α : Type} (l : List α) (n m : Nat) (hn : 0 < n) (hm : 0 < m) :
    (List.range n).flatMap (fun i => seriesShard l i n) = (List.range m).flatMap (fun i => seriesShard l i m) := by
  rw [shards_cover l n hn, shards_cover l m hm]

/-- any completion order of the merge goroutines denotes the same multiset of samples -/
theorem merge_order_irrelevant {α β : Type} (cs : List (List α × List (Nat × β)))
    (h : ∀ c ∈ cs, ∀ x ∈ c.2, x.1 < c.1.length)
    (m1 m2 : List (List (Nat × β))) (h1 : m1.Perm (coalesceVecs cs)) (h2 : m2.Perm (coalesceVecs cs)) :
    (denote (coalesceSeries cs) m1.flatten).Perm (denote (coalesceSeries cs) m2.flatten) :=
  (coalesce_any_order cs h m1 h1).trans (coalesce_any_order cs h m2 h2).symm

/-- the order in which the storage returns series only permutes a selection -/
theorem storage_order_irrelevant (c : Ctx V) (st' : List (Series V)) (hp : st'.Perm c.st) (s : VSel) (t : Int) :
    (selectV { c with st := st' } s t).Perm (selectV c s t) := by
  unfold selectV selectT matchingSeries
  exact ((hp.filter _).filterMap _).map _

/-- series that no selector of the query matches do not change a selection -/
theorem unrelated_series_irrelevant (c : Ctx V) (extra : List (Series V)) (s : VSel) (t : Int)
    (hno : ∀ sr ∈ extra, matchAll c.re s.allMatchers sr.labels = false) :
    selectV { c with st := c.st ++ extra } s t = selectV c s t := by
  unfold selectV selectT matchingSeries
  simp only [List.filter_append]
  have : extra.filter (fun sr => matchAll c.re s.allMatchers sr.labels) = [] := by
    apply List.filter_eq_nil_iff.mpr
    intro sr hsr
    simp [hno sr hsr]
  simp [this]

/-- the same for the windows of range functions -/
theorem unrelated_series_irrelevant_range (c : Ctx V) (extra : List (Series V)) (fn : String) (s : VSel) (r t : Int)
    (hno : ∀ sr ∈ extra, matchAll c.re s.allMatchers sr.labels = false) :
    evalRangeFn { c with st := c.st ++ extra } fn s r t = evalRangeFn c fn s r t := by
  unfold evalRangeFn matchingSeries
  simp only [List.filter_append]
  have : extra.filter (fun sr => matchAll c.re s.allMatchers sr.labels) = [] := by
    apply List.filter_eq_nil_iff.mpr
    intro sr hsr
    simp [hno sr hsr]
  simp [this]

end PromqlVerif.C11
