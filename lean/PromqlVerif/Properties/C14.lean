/-
C14 - cancellation is prompt and final; queries never hang or leak goroutines (partial:
per component, all schedules; wall-clock time is represented by "no stuck state").
-/
import PromqlVerif.LTS.ConcurrentThms
import PromqlVerif.LTS.WorkerThms
import PromqlVerif.LTS.ForkJoinThms
namespace PromqlVerif.C14
open PromqlVerif LTS.Concurrent

/-- **no deadlock and no leak in the pull/drain/consumer protocol**: whatever the schedule and
whenever the context is cancelled, a state without successor has the consumer returned and
both goroutines terminated -/
theorem no_deadlock_no_leak : ∀ s, LTS.Reach (sys feat) s → noDeadlock feat s = true := no_deadlock

/-- when the consumer has returned for good the context is cancelled (`Exec` defers `cancel()`;
regenerated fact), which is what releases the goroutines -/
theorem consumer_return_cancels : ∀ s, LTS.Reach (sys feat) s → returnedImpliesCancelled s = true :=
  returned_implies_cancelled

theorem exec_cancels_on_return : Gen.execCancelsOnReturn = true := by decide

/-- the drain goroutine is what makes this true: without it the pull goroutine can block
forever on a full buffer after the consumer left -/
theorem drain_is_needed :
    (explored { feat with hasDrain := false }).all (noDeadlock { feat with hasDrain := false }) = false :=
  deadlock_without_drain

/-- the protocol of the source is the one the model was written for -/
theorem skeleton_as_modelled :
    Gen.concurrentStartsPull = true ∧ Gen.concurrentHasDrain = true ∧ Gen.drainWaitsThenRanges = true ∧
      Gen.pullClosesOnReturn = true ∧ Gen.concurrentBufferCaps.all (fun c => 1 ≤ c && c ≤ 4) = true := by decide

/-- model-level observation M1 (DESIGN.md): after a cancellation the drain goroutine may take the
context error out of the buffer, and the consumer then sees a clean end of stream -/
theorem end_of_stream_after_cancel_possible : (explored feat).any (fun s => !errorNotSwallowed s) = true :=
  swallow_after_cancel_possible

/-- the worker group of the hash aggregation (one `Send` and one `GetOutput` per worker and batch,
`input`/`output` with the regenerated capacities): for every schedule and every moment of
cancellation, a state without successor has the consumer returned and every worker exited -/
theorem worker_group_no_deadlock_no_leak :
    ∀ s, LTS.Reach (LTS.Worker.sys LTS.Worker.feat) s → LTS.Worker.noDeadlock LTS.Worker.feat s = true :=
  LTS.Worker.no_deadlock

/-- the buffer of `Worker.input` is what makes this true -/
theorem worker_input_buffer_is_needed :
    (LTS.Worker.explored { LTS.Worker.feat with capIn := 0 }).all
      (LTS.Worker.noDeadlock { LTS.Worker.feat with capIn := 0 }) = false :=
  LTS.Worker.deadlock_with_unbuffered_input

/-- the plain, blocking hand-off of a worker's result is what `worker_group_no_deadlock_no_leak`
rests on besides the buffer: a hand-off that gives up on cancellation without closing `output`
strands the consumer inside `GetOutput` -/
theorem worker_handoff_must_not_give_up :
    (LTS.Worker.explored { LTS.Worker.feat with sendGivesUp := true }).all
      (LTS.Worker.noDeadlock { LTS.Worker.feat with sendGivesUp := true }) = false :=
  LTS.Worker.deadlock_when_the_handoff_gives_up

/-- **the fork-join of the coalesce operator never gets stuck** (`Next` and `loadSeries`: one
goroutine per child, failures reported through `errChan`, `wg.Wait()` in the parent): three
children, each free to succeed or to fail with an error or a panic, every interleaving - a state
without successor has the parent returned. The channel capacity is the one in the source
(regenerated: `len(c.operators)` at both sites) -/
theorem coalesce_fork_join_never_stuck :
    ∀ s, LTS.Reach (LTS.ForkJoin.sys LTS.ForkJoin.feat) s → LTS.ForkJoin.noDeadlock LTS.ForkJoin.feat s = true :=
  LTS.ForkJoin.no_deadlock

/-- room for every child's error is what makes this true: with room for one, two failing children
leave the second sender blocked and the parent in `wg.Wait()` for ever -/
theorem coalesce_error_channel_capacity_is_needed :
    (LTS.ForkJoin.explored { cap := 1 }).all (LTS.ForkJoin.noDeadlock { cap := 1 }) = false :=
  LTS.ForkJoin.deadlock_with_capacity_one

end PromqlVerif.C14
