/-
C20 - no state leaks between queries; returned results stay untouched (partial: the model has no
engine state by construction; what forces that shape are the regenerated facts below; buffer
reuse is observed by the snapshot harness, not modelled).
-/
import PromqlVerif.Eng
import PromqlVerif.Gen.Facts
namespace PromqlVerif.C20
open PromqlVerif Val

variable {V : Type} [Val V]

/-- running a history of queries: every outcome is the outcome of a fresh run on the data of that
moment - the model threads no state from one query to the next -/
def runHistory (h : List (Ctx V × Window × Expr V)) : List (QResult V) :=
  h.map fun q => engRun q.1 q.2.1 q.2.2

theorem history_is_pointwise (h1 h2 : List (Ctx V × Window × Expr V)) :
    runHistory (h1 ++ h2) = runHistory h1 ++ runHistory h2 := by
  simp [runHistory]

theorem kth_outcome_is_fresh (h : List (Ctx V × Window × Expr V)) (k : Nat) (q : Ctx V × Window × Expr V)
    (hq : h[k]? = some q) : (runHistory h)[k]? = some (engRun q.1 q.2.1 q.2.2) := by
  simp [runHistory, hq]

/-- what justifies that shape for the code: no package-level variable is assigned by any
function of the engine (regenerated on every run) -/
theorem no_global_state_written : Gen.packageVarWrites = [] := by decide

end PromqlVerif.C20
