/-
C20 - no state leaks between queries; returned results stay untouched (the semantic model has no
engine state by construction; what forces that shape are the regenerated facts below; buffer
reuse is modelled in `Pool.lean` - the vector pool and `Exec`'s copy-then-recycle - and tied to
the source by the regenerated facts about how `Exec` writes the result and what goes back to the
pool; the snapshot harness observes the real engine).
-/
import PromqlVerif.Eng
import PromqlVerif.Gen.Facts
import PromqlVerif.Pool
namespace PromqlVerif.C20
open PromqlVerif Val

variable {V : Type} [Val V]

/-- running a history of queries: every outcome is the outcome of a fresh run on the data of that
moment - the model threads no state from one query to the next -/
def runHistory (h : List (Ctx V × Window × Expr V)) : List (QResult V) :=
  h.map fun q => engRun q.1 q.2.1 q.2.2

theorem history_is_pointwise (h1 h2 : List (Ctx V × Window × Expr V)) :
    runHistory (h1 ++ h2) = runHistory h1 ++ runHistory h2 := by
  simp [runHistory]

theorem kth_outcome_is_fresh (h : List (Ctx V × Window × Expr V)) (k : Nat) (q : Ctx V × Window × Expr V)
    (hq : h[k]? = some q) : (runHistory h)[k]? = some (engRun q.1 q.2.1 q.2.2) := by
  simp [runHistory, hq]

/-- what justifies that shape for the code: no package-level variable is assigned by any
function of the engine (regenerated on every run) -/
theorem no_global_state_written : Gen.packageVarWrites = [] := by decide

/-- ... nor a field of the engine value (per-query options such as the lookback delta are computed,
not stored), nor is the address of one handed out (regenerated) -/
theorem no_engine_state_written : Gen.engineFieldWrites = [] ∧ Gen.engineFieldAddrs = [] := by decide

/-! ### returned results stay untouched -/

open PoolM in
/-- **no sequence of pool operations changes what an assembled result reads**: operators taking
buffers from the pool, overwriting buffers they hold, `Exec` copying a buffer's values into arrays
of its own and returning the buffer - in any order and number, starting from any state in which the
result points into `Exec`'s own arrays only: the values seen before are still there afterwards,
with later copies behind them -/
theorem result_untouched_by_buffer_reuse {α : Type} (s : St α) (hi : Inv s) (ops : List (Op α))
    (hops : ∀ op ∈ ops, op.isAlias = false) :
    (values (run s ops)).take (values s).length = values s := (result_is_stable s hi ops hops).2

open PoolM in
/-- from the empty state on: every state the machine reaches keeps the result apart from the pool -/
theorem every_reachable_state_keeps_the_result_apart {α : Type} (ops : List (Op α))
    (hops : ∀ op ∈ ops, op.isAlias = false) : Inv (run (init : St α) ops) :=
  (result_is_stable init inv_init ops hops).1

/-- the counter-model: a result that keeps a reference to a pooled buffer changes when the buffer
is handed out and written again -/
theorem aliased_result_is_not_stable :
    let s1 := PoolM.run (PoolM.init : PoolM.St Nat) [.get, .write 0 [1, 2], .aliasOut 0]
    let s2 := PoolM.run s1 [.put 0, .get, .write 0 [7, 8]]
    PoolM.values s1 = [[1, 2]] ∧ PoolM.values s2 = [[7, 8]] := PoolM.aliased_result_changes

/-- **`Exec` is the copying machine, not the aliasing one** (regenerated from the working tree): every
write to a `Points` slice of the result is `make(..)` or an append of a `promql.Point{..}` literal
built from the sample's scalars - never of a slice; what goes back to the pool are the step
vectors and the batch the operator tree returned, nothing of the result; `Close` and `Cancel`
cancel the context and return nothing to any pool -/
theorem exec_copies_and_recycles_only_buffers :
    Gen.execPointsWrites = ["append-literal", "make", "append-literal"] ∧
    Gen.execPoolPuts = ["PutStepVector(vector)", "PutVectors(r)", "PutStepVector(vector)", "PutVectors(r)"] ∧
    Gen.closeCancelCalls = ["Cancel:q.cancel", "Cancel:q.cancelMu.Lock", "Cancel:q.cancelMu.Unlock", "Close:q.Cancel"] := by
  decide

end PromqlVerif.C20
