/-
C12 - concurrent queries on one engine are race-free and isolated (partial: the level of the
synchronisation skeleton and of the regenerated facts about shared state).
-/
import PromqlVerif.LTS.ConcurrentThms
namespace PromqlVerif.C12
open PromqlVerif

/-- no function of the engine assigns a package-level variable: the only state shared between
queries of one engine is what `engine.New` sets up (regenerated on every run) -/
theorem no_package_variable_is_written : Gen.packageVarWrites = [] := by decide

/-- **no method of an engine assigns a field of the engine or takes the address of one** (regenerated:
every method in engine/*.go whose receiver is an engine type): everything a query works with is
built from copies made when the query is created, so two queries on one engine share nothing
mutable through the engine value -/
theorem engine_value_is_read_only_after_construction :
    Gen.engineFieldWrites = [] ∧ Gen.engineFieldAddrs = [] := by decide

/-- the package-level variables are the dispatch tables, sentinel errors and optimizer lists -/
theorem package_variables_are_tables :
    Gen.packageVars.all (fun v => ["binary.operations", "binary.vectorBinaryOperations", "function.Funcs",
      "function.InvalidSample", "logicalplan.AllOptimizers", "logicalplan.DefaultOptimizers",
      "logicalplan.NoOptimizers", "logicalplan.distributiveAggregations", "parse.ErrNotImplemented",
      "parse.ErrNotSupportedExpr", "scan.ErrNativeHistogramsUnsupported", "storage.sep"].contains v) = true := by
  decide +kernel

/-- intra-query hand-off between the pull goroutine and its consumer goes through the buffered
channel only: for every schedule the channel is never written after close and the protocol
does not deadlock (see `LTS/ConcurrentThms`) -/
theorem handoff_protocol_safe :
    (∀ s, LTS.Reach (LTS.Concurrent.sys LTS.Concurrent.feat) s → LTS.Concurrent.noCrash s = true) ∧
    (∀ s, LTS.Reach (LTS.Concurrent.sys LTS.Concurrent.feat) s → LTS.Concurrent.noDeadlock LTS.Concurrent.feat s = true) :=
  ⟨LTS.Concurrent.no_crash, LTS.Concurrent.no_deadlock⟩

end PromqlVerif.C12
