/-
C03 - range functions see exactly the window's samples and compute the reference value.
-/
import PromqlVerif.Proofs.Den
import PromqlVerif.Proofs.BufProof
import PromqlVerif.Proofs.SelOpProof
import PromqlVerif.Proofs.ShardProof
namespace PromqlVerif.C03
open PromqlVerif Val

variable {V : Type} [Val V]

/-- the engine's matrix-selector operator with its function, read through its series list, is
the reference evaluation of the range function - for every storage, range, offset / @, step -/
theorem rangefn_is_reference (c : Ctx V) (fn : String) (s : VSel) (range t : Int) :
    (engRangeFn c fn s range).den t = .ok (evalRangeFn c fn s range t) := engRangeFn_den c fn s range t

/-- the engine's per-series range scan - `selectPoints` driving Prometheus' `BufferedSeriesIterator`
and re-using its output slice from step to step - returns at every step exactly the window's
non-stale samples: for every sorted sample list, every range `≥ 0` and every strictly increasing
sequence of window ends (any start, step, offset and @; any ratio of step to range, so windows
that overlap, touch or leave gaps) -/
theorem buffered_scan_is_reference (S : List (Sample V)) (hs : SortedT S) (range : Int) (hr : 0 ≤ range)
    (ends : List Int) (hm : ends.Pairwise (· < ·)) :
    selectRangesB range (Buf.new S) [] ends = ends.map (fun r => windowPoints (r - range) r S) :=
  selectRanges_along_steps S hs range hr ends hm

/-- **the matrix selector's scan as `matrixSelector.Next` drives it**: after every step the operator
shrinks the iterator's buffer to `min(range, step)` milliseconds (`ReduceDelta`) and relies on the
points it retained in `previousPoints` for the older part of the next window. Modelled as written
(`selectRangesM`): for every sorted sample list, every range `≥ 0`, every step `> 0`, every start
and step count, each step's points are exactly the window's non-stale samples. -/
theorem matrix_scan_is_reference (S : List (Sample V)) (hs : SortedT S) (range step : Int) (hr : 0 ≤ range)
    (hst : 0 < step) (r0 : Int) (n : Nat) :
    selectRangesM range step range (Buf.new S) [] ((List.range n).map fun (k : Nat) => r0 + (k : Int) * step) =
      (List.range n).map fun (k : Nat) => windowPoints (r0 + (k : Int) * step - range) (r0 + (k : Int) * step) S :=
  matrix_scan_along_steps S hs range step hr hst r0 n

theorem ends_shift (r step off : Int) (n : Nat) :
    (ends r step n).map (fun t => t - off) = ends (r - off) step n := by
  induction n generalizing r with
  | zero => rfl
  | succ n ih =>
    simp only [ends, List.map_cons]
    rw [ih]
    congr 2
    omega

/-- the per-step vector of the matrix-selector operator, written with the series' sample lists -/
theorem rangefn_step_eq (c : Ctx V) (fn : String) (s : VSel) (range t : Int) :
    (engRangeFn c fn s range).step t =
      .ok (rangeStep fn range ((matchingSeries c s).map (·.samples)) (t - s.offsetAt c.start)) := by
  simp only [engRangeFn, rangeStep, enum]
  rw [enumFrom_map, List.filterMap_map]
  congr 1

/-- **the matrix-selector operator as it is written**: `matrixSelector.Next` keeps one buffered
iterator and one `previousPoints` slice per series for the whole query, shrinks the buffer after
every step, and fills the step vectors of a batch series by series. Modelled as written
(`SelOp.lean`): for every storage with sorted series, matcher set, range `≥ 0`, step `> 0`, offset
/ @, start, and every split of the steps into batches, the stream of step vectors it produces is
the per-step evaluation `engRangeFn` is defined by. -/
theorem matrix_operator_stream (c : Ctx V) (fn : String) (s : VSel) (range step : Int) (hr : 0 ≤ range)
    (hst : 0 < step) (hsorted : ∀ sr ∈ c.st, SortedT sr.samples) (t0 : Int) (ns : List Nat) :
    (msStream fn range step (((matchingSeries c s).map (·.samples)).map (MState.new range))
        (t0 - s.offsetAt c.start) ns).map Except.ok =
      (ends t0 step ns.sum).map (engRangeFn c fn s range).step := by
  rw [msStream_spec fn range step hr hst _ ?_, ← ends_shift]
  · simp only [List.map_map]
    apply List.map_congr_left
    intro t _
    simp only [Function.comp]
    exact (rangefn_step_eq c fn s range t).symm
  · intro sm hsm
    obtain ⟨sr, hsr, rfl⟩ := List.mem_map.mp hsm
    exact hsorted sr (List.mem_filter.mp hsr).1

/-- the hypotheses are met by a series with a staleness marker and overlapping windows -/
example : SortedT ([⟨1, .num 1⟩, ⟨5, .stale⟩, ⟨9, .num 3⟩] : List (Sample Int)) ∧
    ([4, 9, 10] : List Int).Pairwise (· < ·) := by
  constructor <;> simp [SortedT]

/-- the window is exactly the non-stale samples with `mint ≤ t ≤ maxt`: a function of the
series and the window only - independent of what earlier steps consumed -/
theorem window_mem (mint maxt : Int) (ss : List (Sample V)) (p : Pt V) :
    p ∈ windowPoints mint maxt ss ↔ ∃ s ∈ ss, s.v = .num p.2 ∧ s.t = p.1 ∧ mint ≤ s.t ∧ s.t ≤ maxt := by
  unfold windowPoints
  simp only [List.mem_filterMap]
  constructor
  · rintro ⟨s, hs, h⟩
    cases hv : s.v with
    | stale => simp [hv] at h
    | num v =>
      simp only [hv] at h
      split at h
      · rename_i hc
        cases h
        simp only [Bool.and_eq_true, decide_eq_true_eq] at hc
        exact ⟨s, hs, hv, rfl, hc.1, hc.2⟩
      · cases h
  · rintro ⟨s, hs, hv, ht, h1, h2⟩
    refine ⟨s, hs, ?_⟩
    simp only [hv]
    have : (decide (mint ≤ s.t) && decide (s.t ≤ maxt)) = true := by simp [h1, h2]
    rw [if_pos this, ht]

/-- both window edges are inclusive; one millisecond outside is excluded; stale markers are skipped -/
theorem window_edges (mint maxt : Int) (a b x y : V) (h : mint ≤ maxt) :
    windowPoints mint maxt
      [⟨mint - 1, .num x⟩, ⟨mint, .num a⟩, ⟨maxt, .num b⟩, ⟨maxt + 1, .num y⟩] = [(mint, a), (maxt, b)] := by
  have h1 : ¬ mint ≤ mint - 1 := by omega
  have h2 : ¬ maxt + 1 ≤ maxt := by omega
  simp [windowPoints, h, h1, h2]

theorem window_skips_stale (mint maxt t : Int) :
    windowPoints mint maxt [(⟨t, .stale⟩ : Sample V)] = [] := by
  simp [windowPoints]

/-- rate-like functions and the instant ones need two samples -/
theorem needs_two_samples (fn : String) (hfn : fn ∈ ["rate", "increase", "delta", "irate", "idelta", "deriv"])
    (p : Pt V) (rs re : Int) (secs : V) : rangeKernel fn [p] rs re secs = none := by
  simp only [List.mem_cons, List.mem_nil_iff, or_false] at hfn
  rcases hfn with rfl | rfl | rfl | rfl | rfl | rfl <;>
    simp [rangeKernel, extrapolatedRate, instantValue]

/-- an empty window yields no output, whatever the function -/
theorem empty_window_no_output (fn : String) (rs re : Int) (secs : V) :
    rangeKernel fn ([] : List (Pt V)) rs re secs = none := by
  simp [rangeKernel]

/-- `*_over_time` functions have an output for every non-empty window -/
theorem over_time_present (p : Pt V) (ps : List (Pt V)) (rs re : Int) (secs : V) :
    (rangeKernel "count_over_time" (p :: ps) rs re secs).isSome ∧
    (rangeKernel "sum_over_time" (p :: ps) rs re secs).isSome ∧
    (rangeKernel "last_over_time" (p :: ps) rs re secs).isSome ∧
    (rangeKernel "present_over_time" (p :: ps) rs re secs).isSome := by
  refine ⟨by simp [rangeKernel], by simp [rangeKernel], ?_, by simp [rangeKernel]⟩
  simp only [rangeKernel]
  cases h : (p :: ps).getLast? with
  | none => simp at h
  | some x => simp

/-- exact-arithmetic sanity of the kernels on a concrete window (Int instance) -/
example : rangeKernel "count_over_time" [((0 : Int), (5 : Int)), (10, 7), (20, 4)] 0 20 20 = some 3 := by decide
example : rangeKernel "resets" [((0 : Int), (5 : Int)), (10, 7), (20, 4)] 0 20 20 = some 1 := by decide
example : rangeKernel "changes" [((0 : Int), (5 : Int)), (10, 5), (20, 4)] 0 20 20 = some 1 := by decide

/-- **sharding is transparent for range functions too**: the series split into shards in any
way, each shard's `matrixSelector` producing one batch (`matrix_operator_stream`), the shards
arriving at the coalesce operator in any order: every merged step vector is - up to the order of
its samples - the range function over all the series at that step. -/
theorem sharded_rangefn_batch (fn : String) (range : Int) (stamp : Int → Int) (refs : List Int) (hrefs : refs ≠ [])
    (shards : List (List (List (Sample V)))) (hsh : shards ≠ [])
    (arr : List (Nat × List (List (Sample V))))
    (harr : arr.Perm ((offsetsOf (shards.map List.length)).zip shards)) :
    ∃ out, coalesceNext ((arr.map (shardArrival (fun s r =>
        rangeKernel fn (windowPoints (r - range) r s) (r - range) r (rangeSeconds range)) stamp refs)).map
        fun a => (a.1, some a.2)) = .ok (some out) ∧
      All2 (fun (sv : SV V) (r : Int) => sv.1 = stamp r ∧ sv.2.Perm (rangeStep fn range shards.flatten r)) out refs := by
  rw [rangeStep_eq_perStep]
  exact sharded_batch _ stamp refs hrefs shards hsh arr harr

end PromqlVerif.C03
