/-
C17 - queriers are always closed exactly once; storage-owned data is never modified (partial:
(a) on the loader model; (b) label edits are functional in the model - aliasing is observed
by the harness, not modelled).
-/
import PromqlVerif.Loader
import PromqlVerif.Gen.Facts
import PromqlVerif.Sem
namespace PromqlVerif.C17
open PromqlVerif

/-- opened = closed, at most one close, on success, storage error and panic alike -/
theorem closed_exactly_once (avail : Nat) (f : Loader.Faults) :
    Loader.count .opened (Loader.loadSeries avail f).2 = Loader.count .closed (Loader.loadSeries avail f).2 ∧
      Loader.count .closed (Loader.loadSeries avail f).2 ≤ 1 := Loader.opens_eq_closes avail f

/-- nothing happens on the storage after the close -/
theorem close_is_last (avail : Nat) (f : Loader.Faults) (h : f.querierFails = false) :
    (Loader.loadSeries avail f).2.getLast? = some .closed := Loader.close_is_last avail f h

/-- a querier that could not be opened is not closed -/
theorem failed_open_not_closed (avail : Nat) : (Loader.loadSeries avail { querierFails := true }).2 = [] := by
  simp [Loader.loadSeries]

/-- the source has one place that opens a querier and one that closes it, the close being
deferred right after the successful open (regenerated) -/
theorem single_open_single_deferred_close :
    Gen.querierOpenSites = 1 ∧ Gen.querierCloseSites = 1 ∧ Gen.querierCloseDeferred = true := by decide

/-- dropping the metric name yields a new label list and leaves the input as it was: in the
model label editing is a function; every label set of the storage a query reads is unchanged -/
theorem dropName_does_not_touch_input (ls : Labels) : ∀ l ∈ ls.dropName, l ∈ ls := by
  intro l hl
  exact (List.mem_filter.mp hl).1

end PromqlVerif.C17
