/-
C17 - queriers are always closed exactly once; storage-owned data is never modified ((a) on the
loader model; (b) on a model of Go slices and their backing arrays - `Slices.lean` - for the two
idioms the engine's label handling relies on: appending through a capacity-capped slice, editing a
copy; where in the source the other kind of append occurs is a regenerated fact).
-/
import PromqlVerif.Loader
import PromqlVerif.Gen.Facts
import PromqlVerif.Sem
import PromqlVerif.Slices
namespace PromqlVerif.C17
open PromqlVerif

/-- opened = closed, at most one close, on success, storage error and panic alike -/
theorem closed_exactly_once (avail : Nat) (f : Loader.Faults) :
    Loader.count .opened (Loader.loadSeries avail f).2 = Loader.count .closed (Loader.loadSeries avail f).2 ∧
      Loader.count .closed (Loader.loadSeries avail f).2 ≤ 1 := Loader.opens_eq_closes avail f

/-- nothing happens on the storage after the close -/
theorem close_is_last (avail : Nat) (f : Loader.Faults) (h : f.querierFails = false) :
    (Loader.loadSeries avail f).2.getLast? = some .closed := Loader.close_is_last avail f h

/-- a querier that could not be opened is not closed -/
theorem failed_open_not_closed (avail : Nat) : (Loader.loadSeries avail { querierFails := true }).2 = [] := by
  simp [Loader.loadSeries]

/-- the source has one place that opens a querier and one that closes it, the close being
deferred right after the successful open (regenerated) -/
theorem single_open_single_deferred_close :
    Gen.querierOpenSites = 1 ∧ Gen.querierCloseSites = 1 ∧ Gen.querierCloseDeferred = true := by decide

/-- dropping the metric name yields a new label list and leaves the input as it was: in the
model label editing is a function; every label set of the storage a query reads is unchanged -/
theorem dropName_does_not_touch_input (ls : Labels) : ∀ l ∈ ls.dropName, l ∈ ls := by
  intro l hl
  exact (List.mem_filter.mp hl).1

/-! ### writes into memory the engine does not own

A label set handed out by the storage is a slice; the storage may have carved it out of a larger
array (its spare capacity is then the next series' labels) and may hand the same slice out again.
In the heap model of `Slices.lean` "the engine never modifies storage-owned data" reads: every
slice of the heap as it was before the query reads the same afterwards. -/

open Mem in
/-- **`append(x[:len(x):len(x)], ..)` - the idiom `buildOutputSeries` uses since the repair - cannot
write into any existing array**, whatever the capacity of `x` was and whatever is appended: every
slice of the old heap, the storage's label sets among them, reads as before -/
theorem capped_append_never_writes_storage {α : Type} (h : Heap α) (x : Slice) (hx : x.arr < h.length)
    (incl : List α) (storage : List Slice) (hst : ∀ t ∈ storage, t.arr < h.length) :
    ∀ t ∈ storage, t.read (x.capped.append h incl).1 = t.read h :=
  fun t ht => capped_append_preserves_reads h x hx incl t (hst t ht)

open Mem in
/-- ... while the result is `x` followed by the appended labels either way - a test that compares
results cannot tell the capped append from the plain one -/
theorem append_result_is_the_same {α : Type} (h : Heap α) (x : Slice) (hw : x.wf h) (incl : List α) :
    (x.append h incl).2.read (x.append h incl).1 = x.read h ++ incl := append_reads h x hw incl

open Mem in
/-- **the plain append, with spare capacity, writes behind the slice** - into the next series'
labels if the storage laid them out one after the other (the defect repaired by `2ead23a`) -/
theorem plain_append_writes_behind_the_slice {α : Type} (h : Heap α) (x : Slice) (hw : x.wf h) (l : α) (rest : List α)
    (hfit : x.len + (l :: rest).length ≤ x.cap) :
    ((x.append h (l :: rest)).1.getD x.arr [])[x.off + x.len]? = some l :=
  append_in_place_writes h x hw l rest hfit

open Mem in
/-- **editing a copy** (`dropLabel(s.Copy(), ..)`: the deletion shifts the tail of the slice to
the left in place) **touches the copy's array only** -/
theorem edit_of_copy_never_writes_storage {α : Type} (h : Heap α) (x : Slice) (edited : List α)
    (storage : List Slice) (hst : ∀ t ∈ storage, t.arr < h.length) :
    ∀ t ∈ storage, t.read ((x.copy h).1.set (x.copy h).2.arr edited) = t.read h :=
  fun t ht => edit_of_copy_preserves_reads h x edited t (hst t ht)

/-- **where the source appends to a slice it did not create** (regenerated from the working tree:
every `append` whose first argument is neither fresh - `make`, `nil`, a literal, `.Copy()` -, nor
capacity-capped, nor a buffer reset `b[:0]`, nor a local that only ever held its own appends): four
functions, none of which is handed a storage-owned slice - `signature` extends the matching labels
of the plan, `dropLabel` edits its argument in place (see the next theorem for what it is given),
`selectPoints` fills the operator's own `previousPoints`, `filteredSelector.Matchers` the plan's
matchers. `buildOutputSeries` is not in the list. -/
theorem appends_to_foreign_slices_are_the_known_ones :
    Gen.foreignAppends =
      ["execution/binary/vector.go:signature:append(grouping, ..)",
       "execution/function/operator.go:dropLabel:append(l[:i], ..)",
       "execution/scan/matrix_selector.go:selectPoints:append(out, ..)",
       "execution/scan/matrix_selector.go:selectPoints:append(out, ..)",
       "execution/storage/filtered_selector.go:Matchers:append(f.selector.matchers, ..)"] := by decide

/-- **every caller of the in-place `dropLabel` / `DropMetricName` passes a copy** (regenerated): the
series' labels `.Copy()`, or - in the histogram operator - the result of `dropLabel` on a copy -/
theorem in_place_label_edits_get_copies :
    Gen.dropLabelCalls =
      ["execution/binary/scalar.go:loadSeries:function.DropMetricName(lbls.Copy())",
       "execution/function/histogram.go:loadSeries:DropMetricName(lbls)",
       "execution/function/histogram.go:loadSeries:dropLabel(s.Copy())",
       "execution/function/operator.go:DropMetricName:dropLabel(l)",
       "execution/function/operator.go:loadSeries:DropMetricName(s.Copy())",
       "execution/scan/matrix_selector.go:loadSeries:function.DropMetricName(lbls.Copy())"] := by decide

end PromqlVerif.C17
