/-
C01 - natively evaluated queries return what the reference Prometheus engine returns.

`Sem.eval` with `Quirks.none` is the reference semantics (validated against the real Prometheus
engine by the `prom_vs_spec` stream), `engOp` is the engine (validated against the real engine
by the `eng_vs_model` stream). The theorem below composes the per-operator agreements over a
fragment of the language; the remaining operators are covered operator-wise in C04-C06 and by
the two correspondence streams. Guard: the engine has no duplicate-labelset check (known
finding KF-no-duplicate-check), so agreement is with the reference *without* that check.
-/
import PromqlVerif.Proofs.EngInd
namespace PromqlVerif.C01
open PromqlVerif Val

variable {V : Type} [Val V]

/-- the fragment: selectors, range functions over matrix selectors, pointwise math functions,
unary minus / plus, parentheses - arbitrarily nested -/
inductive Frag : Expr V → Prop
  | vsel (s : VSel) : Frag (.vsel s)
  | rangefn (fn : String) (s : VSel) (r : Int)
      (h : (engineFuncs.contains fn && rangeFnNames.contains fn) = true) : Frag (.call fn [.msel s r])
  | neg (a : Expr V) : Frag a → Frag (.neg a)
  | pos (a : Expr V) : Frag a → Frag (.pos a)
  | paren (a : Expr V) : Frag a → Frag (.paren a)

/-- the engine operator of `e` exists and, read through its series list, equals the reference
value at every step -/
def Agrees (c : Ctx V) (e : Expr V) : Prop :=
  ∃ o, engOp c e = .ok o ∧ ∀ t, (o.den t).map Value.vec = eval c t e

theorem frag_agrees (c : Ctx V) (e : Expr V) (h : Frag e) : Agrees c e := by
  induction h with
  | vsel s =>
    refine ⟨engSelector c s false, by rw [engOp], fun t => ?_⟩
    rw [engSelector_den, eval]; rfl
  | rangefn fn s r hfn =>
    have h2 : rangeFnNames.contains fn = true := by
      simp only [Bool.and_eq_true] at hfn; exact hfn.2
    refine ⟨engRangeFn c fn s r, by rw [engOp]; rw [if_pos hfn], fun t => ?_⟩
    rw [engRangeFn_den, eval]
    rw [if_pos h2]; rfl
  | neg a _ ih =>
    obtain ⟨o, ho, hden⟩ := ih
    refine ⟨_, by rw [engOp]; simp only [ho, bind, Except.bind, pure, Except.pure]; rfl, fun t => ?_⟩
    rw [eval, ← hden t]
    unfold OpSem.den
    cases hs : o.step t with
    | error er => simp [Except.map, bind, Except.bind, hs]
    | ok xs =>
      simp only [Except.map, bind, Except.bind, pure, Except.pure, hs]
      rw [denote_map o.series Labels.dropName neg xs]
  | pos a _ ih =>
    obtain ⟨o, ho, hden⟩ := ih
    exact ⟨o, by rw [engOp]; exact ho, fun t => by rw [eval]; exact hden t⟩
  | paren a _ ih =>
    obtain ⟨o, ho, hden⟩ := ih
    exact ⟨o, by rw [engOp]; exact ho, fun t => by rw [eval]; exact hden t⟩

/-- **C01 on the fragment**: for every storage, lookback, window position and every expression
of the fragment, the engine's result at a step is the reference result at that step -/
theorem engine_equals_reference_on_fragment (c : Ctx V) (e : Expr V) (h : Frag e) (t : Int) :
    ∃ o, engOp c e = .ok o ∧ (o.den t).map Value.vec = eval c t e := by
  obtain ⟨o, ho, hd⟩ := frag_agrees c e h
  exact ⟨o, ho, hd t⟩

/-- non-vacuity: `-rate(m{a="x"}[1m] offset 30s)` lies in the fragment -/
example : Frag (.neg (.call "rate" [.msel ⟨[⟨.eq, "__name__", "m"⟩, ⟨.eq, "a", "x"⟩], 30000, none, none⟩ 60000]) : Expr V) :=
  .neg _ (.rangefn "rate" _ _ (by decide))

/-- a creation error is always "unsupported": exactly the queries that fall back -/
theorem creation_error_class (c : Ctx V) (e : Expr V) (er : Err) (h : engOp c e = .error er) : er = .unsupported :=
  engOp_err c e er h

end PromqlVerif.C01
