/-
C01 - natively evaluated queries return what the reference Prometheus engine returns.

`Sem.eval` with `Quirks.none` is the reference semantics (validated against the real Prometheus
engine by the `prom_vs_spec` stream), `engOp` is the engine (validated against the real engine
by the `eng_vs_model` stream). The theorem below composes the per-operator agreements over a
fragment of the language; the remaining operators are covered operator-wise in C04-C06 and by
the two correspondence streams. Guard: the engine has no duplicate-labelset check (known
finding KF-no-duplicate-check), so agreement is with the reference *without* that check.
-/
import PromqlVerif.Proofs.Agg
import PromqlVerif.Proofs.OptSound
import PromqlVerif.Properties.C09
import PromqlVerif.Proofs.TheoremP
namespace PromqlVerif.C01
open PromqlVerif Val

variable {V : Type} [Val V]

/-- **C01 on the typed fragment** (`Proofs/TheoremB.lean`): number literals, `time()`, `pi()`,
selectors (any matchers, offset, @), range functions over matrix selectors, pointwise math
functions, `scalar()`, `vector()`, `clamp*` with scalar-typed bounds, unary minus / plus,
parentheses, step-invariant wrappers, and every arithmetic / comparison operator with a scalar on
either or both sides (with and without `bool`) - arbitrarily nested. For every storage, lookback,
window start and step time the engine builds an operator, and what it emits at the step, read
through its series list, is exactly the reference value (in the same order); sample IDs index
the series list. Guard `hq`: agreement is with the reference without its duplicate-labelset
check, which the engine lacks (known finding KF-no-duplicate-check). -/
theorem engine_equals_reference_on_fragment (c : Ctx V) (hq : c.q.noDupCheck = true) (b : Bool) (e : Expr V)
    (h : Frag b e) : ∃ o, engOp c e = .ok o ∧ Inv c b e o := frag_inv c hq b e h

/-- spelled out for vector-typed expressions -/
theorem vector_fragment (c : Ctx V) (hq : c.q.noDupCheck = true) (e : Expr V) (h : Frag false e) (t : Int) :
    ∃ o xs, engOp c e = .ok o ∧ o.step t = .ok xs ∧ (∀ x ∈ xs, x.1 < o.series.length) ∧
      eval c t e = .ok (.vec (denote o.series xs)) := by
  obtain ⟨o, ho, _, hstep⟩ := frag_inv c hq false e h
  obtain ⟨xs, h1, h2, h3⟩ := hstep t
  exact ⟨o, xs, ho, h1, h2, by simpa using h3⟩

/-- ... and for scalar-typed ones: exactly one label-less sample per step, the reference value -/
theorem scalar_fragment (c : Ctx V) (hq : c.q.noDupCheck = true) (e : Expr V) (h : Frag true e) (t : Int) :
    ∃ o s, engOp c e = .ok o ∧ o.series = [[]] ∧ o.step t = .ok [(0, s)] ∧ eval c t e = .ok (.scal s) := by
  obtain ⟨o, ho, hser, hstep⟩ := frag_inv c hq true e h
  obtain ⟨xs, h1, _, h3⟩ := hstep t
  simp only [if_true] at h3
  obtain ⟨s, rfl, hev⟩ := h3
  exact ⟨o, s, ho, hser rfl, h1, hev⟩

/-- non-vacuity: `clamp_min(-rate(m{a="x"}[1m] offset 30s), scalar(n) * 2) > bool time()` is in the fragment -/
example : Frag false
    (.bin ">" true ⟨.oneToOne, false, [], []⟩
      (.call "clamp_min" [.neg (.call "rate" [.msel ⟨[⟨.eq, "__name__", "m"⟩, ⟨.eq, "a", "x"⟩], 30000, none, none⟩ 60000]),
        .bin "*" false ⟨.oneToOne, false, [], []⟩ (.call "scalar" [.vsel ⟨[⟨.eq, "__name__", "n"⟩], 0, none, none⟩]) (.num (ofInt 2))])
      (.call "time" []) : Expr V) :=
  .binVS ">" true _ _ _ (by decide)
    (.clampMin _ _ (.neg _ _ (.rangefn "rate" _ _ (by decide)))
      (.binSS "*" false _ _ _ (by decide) (.scalar _ (.vsel _)) (.num _)))
    .time

/-- the fragment is closed under selector rewrites -/
theorem frag_mapSelectors (f : VSel → VSel) (b : Bool) (e : Expr V) (h : Frag b e) : Frag b (mapSelectors f e) := by
  induction h with
  | num v => rw [mapSelectors] <;> first | exact .num v | (intros; rename_i hh; cases hh)
  | time => rw [mapSelectors, mapSelectors.mapArgs]; exact .time
  | pi => rw [mapSelectors, mapSelectors.mapArgs]; exact .pi
  | vsel s => rw [mapSelectors]; exact .vsel _
  | rangefn fn s r hfn =>
    rw [mapSelectors, mapSelectors.mapArgs, mapSelectors.mapArgs, mapSelectors]
    exact .rangefn fn _ r hfn
  | neg b a _ ih => rw [mapSelectors]; exact .neg b _ ih
  | pos b a _ ih => rw [mapSelectors]; exact .pos b _ ih
  | paren b a _ ih => rw [mapSelectors]; exact .paren b _ ih
  | simple fn a hfn _ ih =>
    rw [mapSelectors, mapSelectors.mapArgs, mapSelectors.mapArgs]
    exact .simple fn _ hfn ih
  | scalar a _ ih =>
    rw [mapSelectors, mapSelectors.mapArgs, mapSelectors.mapArgs]
    exact .scalar _ ih
  | vector a _ ih =>
    rw [mapSelectors, mapSelectors.mapArgs, mapSelectors.mapArgs]
    exact .vector _ ih
  | clampMin a lo _ _ iha ihlo =>
    rw [mapSelectors, mapSelectors.mapArgs, mapSelectors.mapArgs, mapSelectors.mapArgs]
    exact .clampMin _ _ iha ihlo
  | clampMax a hi _ _ iha ihhi =>
    rw [mapSelectors, mapSelectors.mapArgs, mapSelectors.mapArgs, mapSelectors.mapArgs]
    exact .clampMax _ _ iha ihhi
  | clamp a lo hi _ _ _ iha ihlo ihhi =>
    rw [mapSelectors, mapSelectors.mapArgs, mapSelectors.mapArgs, mapSelectors.mapArgs, mapSelectors.mapArgs]
    exact .clamp _ _ _ iha ihlo ihhi
  | stepInvNum v =>
    rw [mapSelectors]
    · exact .stepInvNum v
    · intro s hh; cases hh
  | binVS op bl m a sc hop _ _ iha ihs => rw [mapSelectors]; exact .binVS op bl m _ _ hop iha ihs
  | binSV op bl m sc a hop _ _ ihs iha => rw [mapSelectors]; exact .binSV op bl m _ _ hop ihs iha
  | binSS op bl m x y hop _ _ ihx ihy => rw [mapSelectors]; exact .binSS op bl m _ _ hop ihx ihy
  | stepInv b a hn ha _ =>
    cases a with
    | vsel s =>
      rw [mapSelectors]
      cases ha
      exact .stepInv false _ (fun v hh => by cases hh) (.vsel _)
    | _ =>
      rw [mapSelectors] <;> first | exact .stepInv b _ hn ha | (intro s hh; cases hh)

/-- **C01 on the fragment with the selector optimizers on**: the engine's operator tree built
from the *optimized* plan (matchers sorted, selects merged into broader selects with in-engine
filters) emits, at every step, exactly the reference value of the *original* expression -/
theorem engine_equals_reference_with_optimizers (c : Ctx V) (hq : c.q.noDupCheck = true) (e : Expr V)
    (h : Frag false e) (t : Int) :
    ∃ o xs, engOp c (optMergeSelects (optSortMatchers e)) = .ok o ∧ o.step t = .ok xs ∧
      (∀ x ∈ xs, x.1 < o.series.length) ∧ eval c t e = .ok (.vec (denote o.series xs)) := by
  have hfrag : Frag false (optMergeSelects (optSortMatchers e)) :=
    frag_mapSelectors _ false _ (frag_mapSelectors _ false e h)
  obtain ⟨o, xs, ho, hs, hids, hev⟩ := vector_fragment c hq _ hfrag t
  refine ⟨o, xs, ho, hs, hids, ?_⟩
  rw [← hev, C09.sort_then_merge_plan_sound]

/-- **C01 up to order, through aggregations and vector matching** (`Proofs/TheoremP.lean`). The
fragment above closed under
  * aggregations `op by/without (..) (e)` on both of the engine's paths (hash table, vectorized),
    for every aggregator whose accumulator is the reference reduction on non-empty groups (`hR`:
    `C04.reduce_hyp_plain/_sum/_avg`) and whose reduction does not depend on the order of the
    members (`hP`: `perm_hyp_count`, `perm_hyp_group` outright; `perm_hyp_max/_min` and
    `perm_hyp_quantile` - with a scalar-typed parameter of the fragment, `aggP` - under the IEEE
    order laws with trichotomy and one NaN; `perm_hyp_sum` under associativity and commutativity),
  * one-to-one vector matching `l op on/ignoring (..) r`, with and without `bool`, between operands
    whose series have pairwise distinct match keys (`UniqueKeys`; `uniqueKeys_agg`: always the case
    for `agg by (g) (..)` matched `on (g)` and `agg without (g) (..)` matched `ignoring (g)`),
  * pointwise functions, unary minus, parentheses, vector-scalar arithmetic and comparison,
    `clamp_min` / `clamp_max` with scalar-typed bounds of the fragment,
  * `timestamp()` of an unpinned selector (with the reference's own-timestamp semantics),
nested to any depth: plan construction succeeds, no step fails in either engine, and the step
vector read through `Series()` is a permutation of the reference value. The engine orders groups
and join outputs statically and the reference by first appearance at the step, so a permutation
is all there is; it composes because the reference operators are invariant under permutations of
their operands (`aggregate_perm`, `vectorBinop_perm`). -/
theorem engine_equals_reference_up_to_order (c : Ctx V) (hq : c.q.noDupCheck = true) (e : Expr V) (h : FragP c e) :
    ∃ o, engOp c e = .ok o ∧
      ∀ t, ∃ xs out, o.step t = .ok xs ∧ eval c t e = .ok (.vec out) ∧ (denote o.series xs).Perm out :=
  fragP_inv c hq e h

/-- non-vacuity, for every storage: `count(abs(count by (a) (m) / on (a) group by (a) (rate(n[1m]))) > 0)` -/
example (c : Ctx V) : FragP c
    (.agg "count" false []
      (.bin ">" false ⟨.oneToOne, false, [], []⟩
        (.call "abs" [.bin "/" false ⟨.oneToOne, true, ["a"], []⟩
          (.agg "count" false ["a"] (.vsel ⟨[⟨.eq, "__name__", "m"⟩], 0, none, none⟩))
          (.agg "group" false ["a"] (.call "rate" [.msel ⟨[⟨.eq, "__name__", "n"⟩], 0, none, none⟩ 60000]))])
        (.num (ofInt 0))) : Expr V) :=
  .agg "count" false [] _ (by decide) (C04.reduce_hyp_plain "count" nan (by decide) (by decide)) (perm_hyp_count nan)
    (.binVS ">" false _ _ _ (by decide)
      (.simple "abs" _ (by decide)
        (.join "/" false _ _ _ rfl rfl (by decide)
          (uniqueKeys_agg c _ "count" false ["a"] _ rfl rfl)
          (uniqueKeys_agg c _ "group" false ["a"] _ rfl rfl)
          (.agg "count" false ["a"] _ (by decide) (C04.reduce_hyp_plain "count" nan (by decide) (by decide)) (perm_hyp_count nan)
            (.base _ (.vsel _)))
          (.agg "group" false ["a"] _ (by decide) (C04.reduce_hyp_plain "group" nan (by decide) (by decide)) (perm_hyp_group nan)
            (.base _ (.rangefn "rate" _ _ (by decide))))))
      (.num _))

/-- ... `count by (a) (timestamp(m))`, for every context with the reference's `timestamp()` -/
example (c : Ctx V) (hts : c.q.timestampIsStepTime = false) : FragP c
    (.agg "count" false ["a"] (.call "timestamp" [.vsel ⟨[⟨.eq, "__name__", "m"⟩], 0, none, none⟩]) : Expr V) :=
  .agg "count" false ["a"] _ (by decide) (C04.reduce_hyp_plain "count" nan (by decide) (by decide)) (perm_hyp_count nan)
    (.tsSel _ rfl hts)

/-- ... and, under the order laws, `quantile(scalar(q), max by (a) (m))` -/
example (c : Ctx V) (L : LtLaws (fun v : V => isNaN v = false)) (hn : NanLaw V)
    (htri : ∀ a b : V, isNaN a = false → isNaN b = false → lt a b = false → lt b a = false → a = b)
    (hnan : ∀ a b : V, isNaN a = true → isNaN b = true → a = b) : FragP c
    (.aggP "quantile" false [] (.call "scalar" [.vsel ⟨[⟨.eq, "__name__", "q"⟩], 0, none, none⟩])
      (.agg "max" false ["a"] (.vsel ⟨[⟨.eq, "__name__", "m"⟩], 0, none, none⟩)) : Expr V) :=
  .aggP "quantile" false [] _ _ (by decide) (by decide)
    (fun q => C04.reduce_hyp_plain "quantile" q (by decide) (by decide)) (perm_hyp_quantile L hn htri hnan)
    (.scalar _ (.vsel _))
    (.agg "max" false ["a"] _ (by decide) (C04.reduce_hyp_plain "max" nan (by decide) (by decide))
      (perm_hyp_max L hn htri hnan nan) (.base _ (.vsel _)))

/-- a creation error is always "unsupported": exactly the queries that fall back -/
theorem creation_error_class (c : Ctx V) (e : Expr V) (er : Err) (h : engOp c e = .error er) : er = .unsupported :=
  engOp_err c e er h

end PromqlVerif.C01
