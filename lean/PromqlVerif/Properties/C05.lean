/-
C05 - binary operators match, label, filter and fail exactly as the reference engine.

The vector-vector operator of the pinned tree deviates from the reference (known finding
KF-binary-matching: static hash join, include labels appended, duplicate detection only among
samples that meet). The theorems below cover the parts that agree and exhibit the deviation.
-/
import PromqlVerif.Proofs.Den
import PromqlVerif.Proofs.JoinPos
import PromqlVerif.Proofs.JoinTables
import PromqlVerif.Proofs.TheoremB
import PromqlVerif.Proofs.PlanContract
namespace PromqlVerif.C05
open PromqlVerif Val

variable {V : Type} [Val V]

/-- vector-scalar operators: the engine's operator (labels `h`, per-sample partial function `g`)
read through its series list is the reference `VectorscalarBinop` shape - a `filterMap` -/
theorem scalar_side_den (child : OpSem V) (h : Labels → Labels) (g : V → Option V) (t : Int) :
    ({ series := child.series.map h
       step := fun t => (child.step t).map fun xs => xs.filterMap fun x => (g x.2).map fun b => (x.1, b) } : OpSem V).den t
      = (child.den t).map fun v => v.filterMap fun p => (g p.2).map fun b => (h p.1, b) := by
  unfold OpSem.den
  cases hs : child.step t with
  | error e => simp [Except.map, hs]
  | ok xs => simp [Except.map, hs, denote_filterMap]

/-- an empty side gives an empty result (no error), as in the reference -/
theorem empty_side (op : String) (b : Bool) (m : Matching) (rhs : Vec V) :
    vectorBinop op b m ([] : Vec V) rhs = .ok [] := by
  simp [vectorBinop]

/-- result labels: arithmetic operators (not atan2) and `bool` comparisons drop the metric name -/
theorem result_drops_name (op : String) (m : Matching) (many one : Labels)
    (hop : dropsName op = true) (hcard : m.card ≠ .oneToOne) (hincl : m.incl = []) :
    resultMetric op false m many one = many.dropName := by
  simp [resultMetric, hop, hcard, hincl]

theorem atan2_keeps_name : dropsName "atan2" = false := by decide

/-- filtering comparisons return the left-hand value, `bool` returns 0/1 -/
theorem comparison_value (op : String) (l r : V) (h : isComparison op = true) :
    elemBinop op l r = (l, compareOp op l r) := by
  simp [elemBinop, h]

def isError {α : Type} (r : Except Err α) (e : Err) : Bool :=
  match r with
  | .error e' => e' == e
  | .ok _ => false

def isOkWith {α : Type} [BEq α] (r : Except Err α) (a : α) : Bool :=
  match r with
  | .error _ => false
  | .ok x => x == a

/-- duplicate series on the "one" side fail the step in the reference ... -/
theorem reference_rejects_duplicate_one_side :
    isError (vectorBinop "+" false ⟨.oneToOne, true, ["a"], []⟩
      [([⟨"__name__", "m"⟩, ⟨"a", "x"⟩], (1 : Int))]
      [([⟨"__name__", "n"⟩, ⟨"a", "x"⟩, ⟨"b", "1"⟩], 1), ([⟨"__name__", "n"⟩, ⟨"a", "x"⟩, ⟨"b", "2"⟩], 2)])
      .manyToMany = true := by decide +kernel

/-- ... and several many-side series in a one-to-one match fail it too -/
theorem reference_rejects_implicit_many_to_one :
    isError (vectorBinop "+" false ⟨.oneToOne, true, ["a"], []⟩
      [([⟨"__name__", "m"⟩, ⟨"a", "x"⟩, ⟨"b", "1"⟩], (1 : Int)), ([⟨"__name__", "m"⟩, ⟨"a", "x"⟩, ⟨"b", "2"⟩], 2)]
      [([⟨"__name__", "n"⟩, ⟨"a", "x"⟩], 1)])
      .manyToOne = true := by decide +kernel

/-- **known finding KF-binary-matching, model-level witness**: on the same step the engine's join
table accepts the implicit many-to-one match and emits two samples for output series with the
same label set `{a="x"}` -/
theorem engine_accepts_implicit_many_to_one :
    let m : Matching := ⟨.oneToOne, true, ["a"], []⟩
    let lhs : List Labels := [[⟨"__name__", "m"⟩, ⟨"a", "x"⟩, ⟨"b", "1"⟩], [⟨"__name__", "m"⟩, ⟨"a", "x"⟩, ⟨"b", "2"⟩]]
    let rhs : List Labels := [[⟨"__name__", "n"⟩, ⟨"a", "x"⟩]]
    let j := engJoin m false lhs rhs
    (j.outputs == [[⟨"a", "x"⟩], [⟨"a", "x"⟩]] &&
      isOkWith (engVectorBinop "+" false .oneToOne j [(0, (1 : Int)), (1, 2)] [(0, 1)]) [(0, 2), (1, 3)]) = true := by
  decide +kernel

/-! ### where the engine's join is right: unique match keys (towards a positive theorem)

The known finding KF-binary-matching is about several series per match key. With pairwise distinct
keys on both sides of a one-to-one match the engine is right: the pieces below compose into
`vector_matching_with_unique_keys` at the end of this file. -/

/-- the reference engine, one-to-one, distinct match keys on both sides: never an error, one output
per left-hand sample with a partner that passes the comparison, in left-hand order -/
theorem reference_with_unique_keys (op : String) (bool : Bool) (m : Matching) (hc : m.card = .oneToOne)
    (lhs rhs : Vec V) (hl : (lhs.map fun x => sigLabels m x.1).Nodup) (hr : (rhs.map fun x => sigLabels m x.1).Nodup) :
    vectorBinop op bool m lhs rhs = .ok (lhs.filterMap (refPair op bool m rhs)) :=
  vectorBinop_unique op bool m hc lhs rhs hl hr

/-- the engine's first pass: with one output per left-hand series and none shared, it never reports
a duplicate and fills the slots in sample order -/
theorem engine_first_pass (j : Join) (lhs : IdVec V)
    (hinj : ∀ x ∈ lhs, ∀ y ∈ lhs, ∀ o, j.highIdx.getD x.1 none = some o → j.highIdx.getD y.1 none = some o → x.1 = y.1)
    (hids : (lhs.map (·.1)).Pairwise (· ≠ ·)) :
    lhsPass .oneToOne j lhs = .ok (lhs.filterMap fun x => (j.highIdx.getD x.1 none).map fun o => (o, x.2)) :=
  lhsPass_eq j lhs hinj hids

/-- the engine's second pass: with at most one output per right-hand series and none shared, it
never reports a duplicate and emits one probe per right-hand sample, in sample order -/
theorem engine_second_pass (op : String) (bool : Bool) (j : Join) (slotVal : Nat → Option V) (rhs : IdVec V)
    (hone : ∀ y ∈ rhs, (j.lowIdx.getD y.1 []).length ≤ 1)
    (hinj : ∀ y ∈ rhs, ∀ y' ∈ rhs, ∀ o, o ∈ j.lowIdx.getD y.1 [] → o ∈ j.lowIdx.getD y'.1 [] → y.1 = y'.1)
    (hids : (rhs.map (·.1)).Pairwise (· ≠ ·)) :
    (outerFold (vbStep op bool .oneToOne slotVal) (rhsOutsOf .oneToOne j) rhs (.ok ([], []))).map (·.1)
      = .ok (rhs.filterMap (probe op bool j slotVal)) :=
  rhsPass_eq op bool j slotVal rhs hone hinj hids

/-- the reference enumerates the matched pairs from the left, the engine from the right: the same
outputs up to order, for any partial bijection between the two sides and any emission -/
theorem matched_pairs_from_either_side {β : Type} (pm pmInv : Nat → Option Nat)
    (hpm : ∀ i l, pm i = some l ↔ pmInv l = some i) (lhs rhs : IdVec V)
    (hl : (lhs.map (·.1)).Pairwise (· ≠ ·)) (hr : (rhs.map (·.1)).Pairwise (· ≠ ·))
    (e : Nat × V → Nat × V → Option β) :
    (lhs.filterMap fun x => (pm x.1).bind fun l => (rhs.find? (fun z => z.1 == l)).bind fun y => e x y).Perm
      (rhs.filterMap fun y => (pmInv y.1).bind fun i => (lhs.find? (fun z => z.1 == i)).bind fun x => e x y) :=
  matched_perm pm pmInv hpm lhs rhs hl hr e

open Classical in
/-- **C05 for vector-to-vector operators, where the engine is right.** A one-to-one match without
include labels between two operands whose series have pairwise distinct match keys (for every
operator of the engine, `on` / `ignoring` with any label list, with and without `bool`): the join
tables `engJoin` builds from the two series lists (`Proofs/JoinTables.lean`: its loop over the
buckets, by invariant) give every left-hand series with a partner its own output, labelled with the
reference's result metric; at every step, whatever samples the operands deliver (IDs valid and
distinct - the stream contract, C18), the first pass fills one slot per left-hand sample, the second
probes exactly the partner's slot, no duplicate is reported - and the step vector, read through the
output series, is the reference engine's result for the two denoted vectors, up to order. What lies
outside this theorem - several series per key on a side, `group_left` / `group_right` - is what the
known finding KF-binary-matching records. -/
theorem vector_matching_with_unique_keys (op : String) (bool : Bool) (m : Matching)
    (hc : m.card = .oneToOne) (hincl : m.incl = []) (H Lw : List Labels)
    (hH : ∀ i i', i < H.length → i' < H.length → sigLabels m (H.getD i []) = sigLabels m (H.getD i' []) → i = i')
    (hL : ∀ l l', l < Lw.length → l' < Lw.length → sigLabels m (Lw.getD l []) = sigLabels m (Lw.getD l' []) → l = l')
    (lhs rhs : IdVec V) (hlv : ∀ x ∈ lhs, x.1 < H.length) (hrv : ∀ y ∈ rhs, y.1 < Lw.length)
    (hl : (lhs.map (·.1)).Pairwise (· ≠ ·)) (hr : (rhs.map (·.1)).Pairwise (· ≠ ·)) :
    let j := engJoin m (!(dropsName op || bool)) H Lw
    ∃ eng ref, (engVectorBinop op bool .oneToOne j lhs rhs).map (denote j.outputs) = .ok eng ∧
      vectorBinop op bool m (denote H lhs) (denote Lw rhs) = .ok ref ∧ eng.Perm ref := by
  intro j
  let kn := !(dropsName op || bool)
  -- the partner maps the unique keys determine
  let pmInv : Nat → Option Nat := fun l =>
    if h : ∃ i, i < H.length ∧ l < Lw.length ∧ sigLabels m (H.getD i []) = sigLabels m (Lw.getD l []) then some (choose h) else none
  let pm : Nat → Option Nat := fun i =>
    if h : ∃ l, i < H.length ∧ l < Lw.length ∧ sigLabels m (H.getD i []) = sigLabels m (Lw.getD l []) then some (choose h) else none
  have pmInv_sound : ∀ l i, pmInv l = some i → i < H.length ∧ l < Lw.length ∧ sigLabels m (H.getD i []) = sigLabels m (Lw.getD l []) := by
    intro l i h
    simp only [pmInv] at h
    split at h
    · rename_i hex
      simp only [Option.some.injEq] at h
      subst h
      exact choose_spec hex
    · cases h
  have pmInv_complete : ∀ l i, i < H.length → l < Lw.length → sigLabels m (H.getD i []) = sigLabels m (Lw.getD l []) → pmInv l = some i := by
    intro l i hi hl hk
    have hex : ∃ i, i < H.length ∧ l < Lw.length ∧ sigLabels m (H.getD i []) = sigLabels m (Lw.getD l []) := ⟨i, hi, hl, hk⟩
    simp only [pmInv, dif_pos hex, Option.some.injEq]
    obtain ⟨h1, _, h3⟩ := choose_spec hex
    exact hH _ _ h1 hi (by rw [h3, hk])
  have pm_sound : ∀ i l, pm i = some l → i < H.length ∧ l < Lw.length ∧ sigLabels m (H.getD i []) = sigLabels m (Lw.getD l []) := by
    intro i l h
    simp only [pm] at h
    split at h
    · rename_i hex
      simp only [Option.some.injEq] at h
      subst h
      exact choose_spec hex
    · cases h
  have pm_complete : ∀ i l, i < H.length → l < Lw.length → sigLabels m (H.getD i []) = sigLabels m (Lw.getD l []) → pm i = some l := by
    intro i l hi hl hk
    have hex : ∃ l, i < H.length ∧ l < Lw.length ∧ sigLabels m (H.getD i []) = sigLabels m (Lw.getD l []) := ⟨l, hi, hl, hk⟩
    simp only [pm, dif_pos hex, Option.some.injEq]
    obtain ⟨_, h2, h3⟩ := choose_spec hex
    exact hL _ _ h2 hl (by rw [← h3, hk])
  have hkf : KeyFacts m kn H Lw pmInv :=
    ⟨fun i i' hi hi' hk => hH i i' hi hi' (by rw [← kOf_eq_sig m kn, ← kOf_eq_sig m kn]; exact hk),
     fun l l' hl hl' hk => hL l l' hl hl' (by rw [← kOf_eq_sig m kn, ← kOf_eq_sig m kn]; exact hk),
     fun l i h => by
       obtain ⟨h1, h2, h3⟩ := pmInv_sound l i h
       exact ⟨h1, h2, by rw [kOf_eq_sig, kOf_eq_sig]; exact h3⟩,
     fun l i hi hl hk => pmInv_complete l i hi hl (by rw [← kOf_eq_sig m kn, ← kOf_eq_sig m kn]; exact hk)⟩
  have hpart : Partners (sigLabels m) H Lw pm pmInv :=
    ⟨fun i l => ⟨fun h => by
        obtain ⟨h1, h2, h3⟩ := pm_sound i l h
        exact pmInv_complete l i h1 h2 h3,
      fun h => by
        obtain ⟨h1, h2, h3⟩ := pmInv_sound l i h
        exact pm_complete i l h1 h2 h3⟩,
     fun i l h => by
       obtain ⟨h1, h2, h3⟩ := pm_sound i l h
       exact ⟨h3, h1, h2⟩,
     fun i l hi hl hk => pm_complete i l hi hl hk⟩
  exact step_agrees op bool m hc j H Lw (oOf m kn) pm pmInv
    (engJoin_tables m kn H Lw hincl pmInv hkf) hpart
    (fun h lw => oOf_eq_resultMetric m op bool hc hincl h lw) hH hL lhs rhs hlv hrv hl hr

/-- the operator `engOp` builds for a vector-to-vector expression is that join over its children's
series lists -/
theorem engOp_vector_vector (c : Ctx V) (op : String) (bool : Bool) (m : Matching) (l r : Expr V) (lo ro : OpSem V)
    (hl : engOp c l = .ok lo) (hr : engOp c r = .ok ro) (hop : engineBinOps.contains op = true)
    (hls : l.isScalar = false) (hrs : r.isScalar = false) (hc : m.card = .oneToOne) :
    engOp c (.bin op bool m l r) = .ok
      { series := (engJoin m (!(dropsName op || bool)) lo.series ro.series).outputs
        step := fun t => do
          let a ← lo.step t
          let b ← ro.step t
          engVectorBinop op bool .oneToOne (engJoin m (!(dropsName op || bool)) lo.series ro.series) a b } := by
  rw [engOp]
  simp only [hl, hr, bind, Except.bind, hop, Bool.not_true, Bool.false_eq_true, if_false, hls, hrs, Bool.or_self, hc,
    show (Card.oneToOne == Card.oneToMany) = false from rfl, pure, Except.pure]

/-- the fragment of Theorem B is well-typed in the sense of the contract theorem -/
theorem frag_wt {P : Matching → Prop} (b : Bool) (e : Expr V) (h : Frag b e) : WT P b e := by
  induction h with
  | num v => exact .num v
  | time => exact .time
  | pi => exact .pi
  | vsel s => exact .vsel s
  | rangefn fn s r hfn => exact .rangefn fn s r hfn
  | neg b a _ ih => exact .neg b a ih
  | pos b a _ ih => exact .pos b a ih
  | paren b a _ ih => exact .paren b a ih
  | simple fn a hfn _ ih => exact .simple fn a hfn ih
  | scalar a _ ih => exact .scalar a ih
  | vector a _ ih => exact .vector a ih
  | clampMin a lo _ _ iha ihlo => exact .clampMin a lo iha ihlo
  | clampMax a hi _ _ iha ihhi => exact .clampMax a hi iha ihhi
  | clamp a lo hi _ _ _ iha ihlo ihhi => exact .clamp a lo hi iha ihlo ihhi
  | stepInvNum v => exact .stepInvNum v
  | binVS op bl m a sc _ _ _ iha ihs => exact .bin op bl m false true a sc (fun _ h => by cases h) iha ihs
  | binSV op bl m sc a _ _ _ ihs iha => exact .bin op bl m true false sc a (fun h => by cases h) ihs iha
  | binSS op bl m x y _ _ _ ihx ihy => exact .bin op bl m true true x y (fun h => by cases h) ihx ihy
  | stepInv b a hn _ ih => exact .stepInv b a hn ih

/-- **a vector-to-vector operator over two expressions of the Theorem-B fragment**: one-to-one
matching, no include labels, pairwise distinct match keys among the series of each operand. The
operator `engOp` builds emits, at every step, the reference value of `l op r` up to order: the
children deliver the reference values of `l` and `r` (Theorem B) with valid, pairwise distinct IDs
(the contract theorem, C18), and the join is right (`vector_matching_with_unique_keys`). -/
theorem vector_matching_over_fragment (c : Ctx V) (hq : c.q.noDupCheck = true) (op : String) (bool : Bool)
    (m : Matching) (hc : m.card = .oneToOne) (hincl : m.incl = []) (hop : engineBinOps.contains op = true)
    (l r : Expr V) (hl : Frag false l) (hr : Frag false r) (lo ro : OpSem V)
    (hlo : engOp c l = .ok lo) (hro : engOp c r = .ok ro)
    (hH : ∀ i i', i < lo.series.length → i' < lo.series.length →
      sigLabels m (lo.series.getD i []) = sigLabels m (lo.series.getD i' []) → i = i')
    (hL : ∀ i i', i < ro.series.length → i' < ro.series.length →
      sigLabels m (ro.series.getD i []) = sigLabels m (ro.series.getD i' []) → i = i')
    (t : Int) :
    ∃ o ys out, engOp c (.bin op bool m l r) = .ok o ∧ o.step t = .ok ys ∧
      eval c t (.bin op bool m l r) = .ok (.vec out) ∧ (denote o.series ys).Perm out := by
  obtain ⟨lo', hlo', _, hlstep⟩ := frag_inv c hq false l hl
  obtain ⟨ro', hro', _, hrstep⟩ := frag_inv c hq false r hr
  have e1 : lo' = lo := by rw [hlo] at hlo'; exact (Except.ok.inj hlo').symm
  have e2 : ro' = ro := by rw [hro] at hro'; exact (Except.ok.inj hro').symm
  subst e1 e2
  obtain ⟨xs, hxs, hxv, hxe⟩ := hlstep t
  obtain ⟨ys, hys, hyv, hye⟩ := hrstep t
  simp only [Bool.false_eq_true, if_false] at hxe hye
  have hcl := (plan_contract (P := fun _ => True) c false l (frag_wt false l hl) lo' hlo).1 t xs hxs
  have hcr := (plan_contract (P := fun _ => True) c false r (frag_wt false r hr) ro' hro).1 t ys hys
  obtain ⟨eng, ref, heng, href, hperm⟩ := vector_matching_with_unique_keys op bool m hc hincl lo'.series ro'.series
    hH hL xs ys hxv hyv hcl.2 hcr.2
  have hls : l.isScalar = false := frag_isScalar false l hl
  have hrs : r.isScalar = false := frag_isScalar false r hr
  cases hstep : engVectorBinop op bool .oneToOne (engJoin m (!(dropsName op || bool)) lo'.series ro'.series) xs ys with
  | error e => rw [hstep] at heng; cases heng
  | ok zs =>
    rw [hstep] at heng
    simp only [Except.map, Except.ok.injEq] at heng
    refine ⟨_, zs, ref, engOp_vector_vector c op bool m l r lo' ro' hlo hro hop hls hrs hc, ?_, ?_, ?_⟩
    · simp only [hxs, hys, bind, Except.bind, hstep]
    · rw [eval]
      simp only [hxe, hye, bind, Except.bind, href, dedupCheck, hq, Bool.not_true, Bool.false_and, Bool.false_eq_true,
        if_false]
    · rw [heng]; exact hperm

/-- a concrete step: two series per side, matched on `a`; one pair matches -/
example :
    ((engVectorBinop "+" false .oneToOne
          (engJoin ⟨.oneToOne, true, ["a"], []⟩ false
            [[⟨"__name__", "m"⟩, ⟨"a", "x"⟩], [⟨"__name__", "m"⟩, ⟨"a", "y"⟩]]
            [[⟨"__name__", "n"⟩, ⟨"a", "y"⟩], [⟨"__name__", "n"⟩, ⟨"a", "z"⟩]])
          [(0, (1 : Int)), (1, 2)] [(0, 10), (1, 20)]).map
        (denote (engJoin ⟨.oneToOne, true, ["a"], []⟩ false
            [[⟨"__name__", "m"⟩, ⟨"a", "x"⟩], [⟨"__name__", "m"⟩, ⟨"a", "y"⟩]]
            [[⟨"__name__", "n"⟩, ⟨"a", "y"⟩], [⟨"__name__", "n"⟩, ⟨"a", "z"⟩]]).outputs)).toOption
      = some [([⟨"a", "y"⟩], 12)] ∧
    (vectorBinop "+" false ⟨.oneToOne, true, ["a"], []⟩
        (denote [[⟨"__name__", "m"⟩, ⟨"a", "x"⟩], [⟨"__name__", "m"⟩, ⟨"a", "y"⟩]] [(0, (1 : Int)), (1, 2)])
        (denote [[⟨"__name__", "n"⟩, ⟨"a", "y"⟩], [⟨"__name__", "n"⟩, ⟨"a", "z"⟩]] [(0, 10), (1, 20)])).toOption
      = some [([⟨"a", "y"⟩], 12)] := by
  decide

end PromqlVerif.C05
