/-
C16 - storage selects carry the reference engine's matchers, time range and hints (partial:
the time range and its sufficiency for range selectors; the hint fields are compared on the
real code by the `hints` oracle).
-/
import PromqlVerif.Sem
import PromqlVerif.Proofs.TrimSound
import PromqlVerif.Proofs.HintsProof
namespace PromqlVerif.C16
open PromqlVerif Val

variable {V : Type} [Val V]

/-- `getTimeRangesForVectorSelector` (engine) and `getTimeRangesForSelector` (reference):
`@` overrides the window, the lookback or the range is subtracted from the start, the
original offset from both ends -/
def selectRange (start stop lookback : Int) (s : VSel) (range : Option Int) : Int × Int :=
  let (a, b) := match s.atTs with
    | some ts => (ts, ts)
    | none => (start, stop)
  let a := a - (match range with | some r => r | none => lookback)
  (a - s.origOffset, b - s.origOffset)

/-- every sample a range selector reads at any step of the window lies in the hinted range -/
theorem range_window_within_hints (start stop : Int) (s : VSel) (range t : Int)
    (ht : start ≤ t ∧ t ≤ stop) (hat : s.atTs = none) (lookback : Int) :
    let ref := s.refTime start t
    (selectRange start stop lookback s (some range)).1 ≤ ref - range ∧ ref ≤ (selectRange start stop lookback s (some range)).2 := by
  simp only [selectRange, hat, VSel.refTime, VSel.offsetAt]
  omega

/-- the same for `@`-pinned range selectors evaluated at the start of the window -/
theorem pinned_range_window_within_hints (start stop : Int) (s : VSel) (range ts : Int)
    (hat : s.atTs = some ts) (lookback : Int) :
    let ref := s.refTime start start
    (selectRange start stop lookback s (some range)).1 ≤ ref - range ∧ ref ≤ (selectRange start stop lookback s (some range)).2 := by
  simp only [selectRange, hat, VSel.refTime, VSel.offsetAt]
  omega

/-- instant selectors: the reference time and the whole lookback interval lie in the hinted range -/
theorem lookback_interval_within_hints (start stop : Int) (s : VSel) (t lookback : Int)
    (ht : start ≤ t ∧ t ≤ stop) (hat : s.atTs = none) :
    let ref := s.refTime start t
    (selectRange start stop lookback s none).1 ≤ ref - lookback ∧ ref ≤ (selectRange start stop lookback s none).2 := by
  simp only [selectRange, hat, VSel.refTime, VSel.offsetAt]
  omega

/-- the window of a range function only depends on the samples inside `[mint, maxt]`: dropping
everything outside the hinted range changes nothing -/
theorem window_local (lo hi mint maxt : Int) (ss : List (Sample V)) (h1 : lo ≤ mint) (h2 : maxt ≤ hi) :
    windowPoints mint maxt (ss.filter fun s => lo ≤ s.t && s.t ≤ hi) = windowPoints mint maxt ss := by
  unfold windowPoints
  induction ss with
  | nil => rfl
  | cons x xs ih =>
    simp only [List.filter_cons]
    by_cases hx : (decide (lo ≤ x.t) && decide (x.t ≤ hi)) = true
    · simp only [hx, if_true, List.filterMap_cons, ih]
    · simp only [hx, Bool.false_eq_true, if_false, List.filterMap_cons, ih]
      have hout : ¬ (mint ≤ x.t ∧ x.t ≤ maxt) := by
        intro ⟨a, b⟩
        apply hx
        simp only [Bool.and_eq_true, decide_eq_true_eq]
        omega
      cases hv : x.v with
      | stale => rfl
      | num v =>
        have : (decide (mint ≤ x.t) && decide (x.t ≤ maxt)) = false := by
          simp only [Bool.and_eq_false_iff, decide_eq_false_iff_not]
          by_cases ha : mint ≤ x.t
          · right; intro hb; exact hout ⟨ha, hb⟩
          · left; exact ha
        simp [this]

/-! ### sufficiency for whole plans -/

/-- **the hinted ranges are sufficient, for whole plans**: let the storage drop every sample
outside `[lo, hi]`. If that interval contains what every selector of the expression reads at the
times it is evaluated (`Cov`: the lookback interval of an instant selector, the window of a range
selector, at every step of the window - or at its start only below a step-invariant wrapper; what
`timestamp()` reads), then at every step of the window the value of the expression - any nesting of
functions, aggregations with parameters, binary operators, `timestamp()` - is what it is over the
full storage. (Series sorted by time, as a storage delivers them.) -/
theorem hinted_range_suffices_for_plans (lo hi stop : Int) (c : Ctx V) (hs : SortedSt c) (e : Expr V)
    (hcov : Cov lo hi stop c true e) (t : Int) (ht : c.start ≤ t ∧ t ≤ stop) :
    eval (trimCtx lo hi c) t e = eval c t e :=
  trim_sound lo hi stop c hs e true hcov t (by simpa [Times] using ht)

/-- an interval that contains the hinted range of an unpinned instant selector covers it ... -/
theorem cov_of_hints_vsel (lo hi stop : Int) (c : Ctx V) (s : VSel) (hat : s.atTs = none)
    (h1 : lo ≤ (selectRange c.start stop c.lookback s none).1) (h2 : (selectRange c.start stop c.lookback s none).2 ≤ hi) :
    Cov lo hi stop c true (.vsel s) := by
  rw [Cov]
  intro t ht
  simp only [Times, if_true] at ht
  have := lookback_interval_within_hints c.start stop s t c.lookback ht hat
  simp only at this
  omega

/-- ... and so for an unpinned range selector below its function ... -/
theorem cov_of_hints_msel (lo hi stop : Int) (c : Ctx V) (s : VSel) (r : Int) (hat : s.atTs = none)
    (h1 : lo ≤ (selectRange c.start stop c.lookback s (some r)).1)
    (h2 : (selectRange c.start stop c.lookback s (some r)).2 ≤ hi) :
    Cov lo hi stop c true (.msel s r) := by
  rw [Cov]
  intro t ht
  simp only [Times, if_true] at ht
  have := range_window_within_hints c.start stop s r t ht hat c.lookback
  simp only at this
  omega

/-- ... and for an `@`-pinned range selector below a step-invariant wrapper -/
theorem cov_of_hints_pinned_msel (lo hi stop : Int) (c : Ctx V) (s : VSel) (r ts : Int) (hat : s.atTs = some ts)
    (h1 : lo ≤ (selectRange c.start stop c.lookback s (some r)).1)
    (h2 : (selectRange c.start stop c.lookback s (some r)).2 ≤ hi) :
    Cov lo hi stop c false (.msel s r) := by
  rw [Cov]
  intro t ht
  simp only [Times, Bool.false_eq_true, if_false] at ht
  subst ht
  have := pinned_range_window_within_hints c.start stop s r ts hat c.lookback
  simp only at this
  omega

/-! ### the function, grouping, step and range hints -/

/-- **every selector of every expression is created with the `Func`, `By`, `Grouping`, `Step` and
`Range` hints the reference engine gives it** (`Hints.lean`, `Proofs/HintsProof.lean`): the
reference derives function and grouping from the selector's path of ancestors
(`extractFuncFromPath`: the nearest enclosing call or aggregation, nothing beyond a binary
expression; `extractGroupsFromPath`: the parent only, if it is an aggregation), takes `Step` from the
statement's interval, and takes `Range` from a *mutable* variable (`evalRange` in
`populateSeries`) that a matrix selector sets and the next vector selector visited consumes and
resets; the engine hands a hints value down `newOperator`, rewrites function and grouping at calls,
aggregations, binary expressions and wrappers, and writes the range into its local copy at a matrix
selector. By induction over the expression, carrying "the hints in hand are what the path walked so
far yields, their step is the query's, their range is 0, and the reference's `evalRange` is 0". The
second component says that `evalRange` is 0 again when the traversal ends, i.e. no range leaks from
one selector to a later one on either side. The model of the engine's side is compared with the
hints the real engine passes to the storage (`hints` oracle, `eng_vs_model`, all five fields), the
model of the reference's side with those of the real reference engine (the same oracle compares the
two engines). -/
theorem engine_hints_equal_reference_hints {V : Type} (step : Int) (e : Expr V) :
    refHints step [] 0 e = (engHints (Hint.start step) e, 0) :=
  engine_hints_are_reference_hints step e

/-- `sum by (a) (rate(m[1m])) + max without (b) (-n)`, step 30 s: the range selector below `rate`
gets `rate`, no grouping and the range 60000; the selector below the unary minus keeps `max` but
loses the grouping, and has range 0 (the range of `m[1m]` does not leak to it) -/
example :
    engHints (Hint.start 30000) (.bin "+" false ⟨.oneToOne, false, [], []⟩
      (.agg "sum" false ["a"] (.call "rate" [.msel ⟨[⟨.eq, "__name__", "m"⟩], 0, none, none⟩ 60000]))
      (.agg "max" true ["b"] (.neg (.vsel ⟨[⟨.eq, "__name__", "n"⟩], 0, none, none⟩))) : Expr Int)
      = [⟨"rate", false, [], 30000, 60000⟩, ⟨"max", false, [], 30000, 0⟩] := by decide

/-- `sum by (a) (m)`: the immediate operand of the aggregation gets its grouping -/
example :
    engHints (Hint.start 1000) (.agg "sum" false ["a"] (.vsel ⟨[⟨.eq, "__name__", "m"⟩], 0, none, none⟩) : Expr Int)
      = [⟨"sum", true, ["a"], 1000, 0⟩] := by decide

/-- the reference side on the first example: the same hints, and `evalRange` ends at 0 -/
example :
    refHints 30000 [] 0 (.bin "+" false ⟨.oneToOne, false, [], []⟩
      (.agg "sum" false ["a"] (.call "rate" [.msel ⟨[⟨.eq, "__name__", "m"⟩], 0, none, none⟩ 60000]))
      (.agg "max" true ["b"] (.neg (.vsel ⟨[⟨.eq, "__name__", "n"⟩], 0, none, none⟩))) : Expr Int)
      = ([⟨"rate", false, [], 30000, 60000⟩, ⟨"max", false, [], 30000, 0⟩], 0) := by decide

end PromqlVerif.C16
