/-
C07 - a range query equals the sequence of instant queries on its step grid.
-/
import PromqlVerif.Proofs.Den
import PromqlVerif.Proofs.StartInv
import PromqlVerif.Proofs.Grid
import PromqlVerif.Proofs.TheoremP
import PromqlVerif.Proofs.StreamsProof
namespace PromqlVerif.C07
open PromqlVerif Val

variable {V : Type} [Val V]

/-- the leaf operators enumerate exactly the step grid, whatever the step count and batch size -/
theorem cursor_enumerates_grid (w : Window) (hs : 0 < w.step) (hle : w.start ≤ w.stop) (B : Nat) (hB : 0 < B) :
    (leafStream w (numStepsBatch w B) w.numSteps w.start).flatten = w.grid :=
  leaf_stream_is_grid w hs hle B hB

/-- no batch exceeds the batch size -/
theorem batches_bounded (w : Window) (B : Nat) (hB : 0 < B) (fuel : Nat) (cur : Int) :
    ∀ b ∈ leafStream w (numStepsBatch w B) fuel cur, b.length ≤ B := by
  intro b hb
  exact Nat.le_trans (leaf_batches_le w _ fuel cur b hb) (numStepsBatch_le w B hB)

/-- an instant query is a range query with one step -/
theorem instant_is_one_step (w : Window) (hs : w.step ≤ 0) (he : w.stop = w.start) (B : Nat) :
    leafStream w (numStepsBatch w B) 2 w.start = [[w.start]] := leaf_stream_instant w hs he B

/-- every grid timestamp is `start + k*step` within `[start, end]`, strictly increasing -/
theorem grid_points (w : Window) (hs : 0 < w.step) (x : Int) (hx : x ∈ w.grid) :
    w.start ≤ x ∧ x ≤ w.stop ∧ ∃ k : Nat, x = w.start + k * w.step := by
  unfold Window.grid at hx
  have : ¬ w.step ≤ 0 := by omega
  simp only [this, if_false] at hx
  obtain ⟨h1, h2, k, _, hk⟩ := walk_mem w.stop w.step (Int.le_of_lt hs) _ _ x hx
  exact ⟨h1, h2, k, hk⟩

theorem grid_strictly_increasing (w : Window) (hs : 0 < w.step) : w.grid.Pairwise (· < ·) := by
  unfold Window.grid
  have : ¬ w.step ≤ 0 := by omega
  simp only [this, if_false]
  exact walk_pairwise_lt _ _ hs _ _

/-- **the reference semantics of a range is the per-step semantics mapped over the grid**:
evaluating over a grid split in two (e.g. at a batch boundary, or into a sub-window) is the
concatenation of the evaluations - the value at a timestamp does not depend on the window's
end, its length or the position of the step in the grid (the start matters only through
`@`-pinned and step-invariant parts, `c.start`) -/
theorem evalGrid_append (c : Ctx V) (g1 g2 : List Int) (e : Expr V) :
    evalGrid c (g1 ++ g2) e = (do
      let r1 ← evalGrid c g1 e
      let r2 ← evalGrid c g2 e
      pure (r1 ++ r2)) := by
  unfold evalGrid
  induction g1 with
  | nil =>
    simp only [List.nil_append, List.mapM_nil, pure, Except.pure, bind, Except.bind]
    cases List.mapM (fun t => Except.map (fun v => (t, v)) (eval c t e)) g2 <;> rfl
  | cons t g1 ih =>
    simp only [List.cons_append, List.mapM_cons, ih, bind, Except.bind, pure, Except.pure]
    cases Except.map (fun v => (t, v)) (eval c t e) with
    | error er => rfl
    | ok a =>
      simp only
      cases List.mapM (fun t => Except.map (fun v => (t, v)) (eval c t e)) g1 with
      | error er => rfl
      | ok r1 =>
        simp only
        cases List.mapM (fun t => Except.map (fun v => (t, v)) (eval c t e)) g2 <;> rfl

/-- the engine's result assembly reads, for series `i` at step `t`, exactly what the operator
emitted for `i` at `t` -/
theorem collect_singleton (o : OpSem V) (t : Int) (xs : IdVec V) (h : o.step t = .ok xs) :
    engCollect o [t] = .ok ((enum o.series).map fun (i, ls) =>
      (ls, ([(t, xs)] : List (Int × IdVec V)).filterMap fun (t, xs) => (xs.find? (·.1 == i)).map fun x => (t, x.2))) := by
  simp [engCollect, h, bind, Except.bind, pure, Except.pure, Except.map]

/-- **the point of a range query at `t` is the result of an instant query at `t`** (reference
semantics). A range query evaluates every step with `start` = the first step of its window, an
instant query at `t` with `start = t`; the window start enters the semantics only through
step-invariant wrappers (evaluated at `start`) and through the offset fix-up of `@`-pinned
selectors (relative to `start`). For every preprocessed expression (`WP`: unpinned selectors
outside wrappers; inside a wrapper every selector pinned and no `time()` / `timestamp()` - what
`PreprocessExpr` produces for a query without `start()` / `end()`, whose pinned timestamps would
otherwise differ between the two windows), every storage and every two window starts, the value at
`t` is the same. Hence it does not depend on the window's start, length, or step count either. -/
theorem range_point_is_instant_result (c : Ctx V) (e : Expr V) (hwp : WP e) (start t : Int) :
    eval { c with start := start } t e = eval { c with start := t } t e :=
  wp_inv c start t e hwp t

/-- **... and so it is for the engine**: on the verified fragment (Theorem B) the operator tree
built for the range window and the one built for the instant query at `t` emit, at `t`, the same
labelled vector - both are the reference value, which does not depend on the window start -/
theorem engine_range_point_is_instant_result (c : Ctx V) (hq : c.q.noDupCheck = true) (e : Expr V)
    (hf : Frag false e) (hwp : WP e) (start t : Int) :
    ∃ oR oI xsR xsI, engOp { c with start := start } e = .ok oR ∧ engOp { c with start := t } e = .ok oI ∧
      oR.step t = .ok xsR ∧ oI.step t = .ok xsI ∧ denote oR.series xsR = denote oI.series xsI := by
  obtain ⟨oR, hoR, _, hR⟩ := frag_inv { c with start := start } hq false e hf
  obtain ⟨oI, hoI, _, hI⟩ := frag_inv { c with start := t } hq false e hf
  obtain ⟨xsR, h1, _, h2⟩ := hR t
  obtain ⟨xsI, h3, _, h4⟩ := hI t
  simp only [Bool.false_eq_true, if_false] at h2 h4
  refine ⟨oR, oI, xsR, xsI, hoR, hoI, h1, h3, ?_⟩
  have := range_point_is_instant_result c e hwp start t
  rw [h2, h4] at this
  exact Value.vec.inj (Except.ok.inj this)

/-- the same through aggregations and vector matching (Theorem B up to order): the two step vectors
are permutations of each other -/
theorem engine_range_point_is_instant_result_up_to_order (c : Ctx V) (hq : c.q.noDupCheck = true) (e : Expr V)
    (start t : Int) (hfR : FragP { c with start := start } e) (hfI : FragP { c with start := t } e) (hwp : WP e) :
    ∃ oR oI xsR xsI, engOp { c with start := start } e = .ok oR ∧ engOp { c with start := t } e = .ok oI ∧
      oR.step t = .ok xsR ∧ oI.step t = .ok xsI ∧ (denote oR.series xsR).Perm (denote oI.series xsI) := by
  obtain ⟨oR, hoR, hR⟩ := fragP_inv { c with start := start } hq e hfR
  obtain ⟨oI, hoI, hI⟩ := fragP_inv { c with start := t } hq e hfI
  obtain ⟨xsR, outR, h1, h2, p1⟩ := hR t
  obtain ⟨xsI, outI, h3, h4, p2⟩ := hI t
  refine ⟨oR, oI, xsR, xsI, hoR, hoI, h1, h3, ?_⟩
  have := range_point_is_instant_result c e hwp start t
  rw [h2, h4] at this
  have heq : outR = outI := Value.vec.inj (Except.ok.inj this)
  subst heq
  exact p1.trans p2.symm

/-- an expression the theorem applies to: `rate(m[5m] @ 1000) + n offset 1m` after preprocessing -/
example :
    WP (.bin "+" false ⟨.oneToOne, false, [], []⟩
      (.stepInv (.call "rate" [.msel { matchers := [⟨.eq, "__name__", "m"⟩], origOffset := 0, atTs := some 1000000 } 300000]))
      (.vsel { matchers := [⟨.eq, "__name__", "n"⟩], origOffset := 60000, atTs := none }) : Expr V) := by
  simp [WP, Pin, Pin.pinArgs]

/-! ### where the law fails - in the reference engine and, following it, in this one

`PreprocessExpr` (Prometheus' own, which the engine calls) decides whether an aggregation is step
invariant by looking at the aggregated expression only, not at the parameter. `topk(scalar(n), m @ 0)`
is therefore wrapped as a whole, evaluated once at the window start and replicated - with the
parameter as it was at the start. `WP` excludes it (an unpinned selector inside a wrapper); the
theorem above does not apply, and the statement is false: -/

def movingParamCtx (start : Int) : Ctx Int :=
  { st := [⟨[⟨"__name__", "m"⟩, ⟨"a", "x"⟩], [⟨0, .num 5⟩]⟩, ⟨[⟨"__name__", "m"⟩, ⟨"a", "y"⟩], [⟨0, .num 7⟩]⟩,
           ⟨[⟨"__name__", "n"⟩], [⟨0, .num 1⟩, ⟨60000, .num 2⟩]⟩],
    lookback := 30000, start := start }

/-- `topk(scalar(n), m @ 0)` as `PreprocessExpr` leaves it -/
def movingParamExpr : Expr Int :=
  .stepInv (.aggP "topk" false [] (.call "scalar" [.vsel ⟨[⟨.eq, "__name__", "n"⟩], 0, none, none⟩])
    (.vsel ⟨[⟨.eq, "__name__", "m"⟩], 0, some 0, none⟩))

/-- **the point at `t = 60s` of the range query starting at 0 has one series (`k` = `n` at the
window start = 1), the instant query at 60s has two (`k` = 2)** - reference semantics; the engine
agrees with the reference on both (C01), so its range query is not the sequence of its instant
queries here (known finding KF-stepinvariant-moving-param) -/
theorem range_point_is_not_instant_result_under_a_moving_parameter :
    ((eval (movingParamCtx 0) 60000 movingParamExpr).toOption.map fun v =>
        match v with | .vec v => v.length | .scal _ => 0) = some 1 ∧
    ((eval (movingParamCtx 60000) 60000 movingParamExpr).toOption.map fun v =>
        match v with | .vec v => v.length | .scal _ => 0) = some 2 := by
  decide

/-! ### the batch-level execution delivers the per-step values on the grid (`Streams.lean`) -/

open Streams in
/-- **what a step of a range query carries does not depend on the batch size, the number of steps
or where the step falls inside a batch.** For every plan tree of the engine's pull patterns whose
leaves share the window, the concatenation of the batches the root delivers in `numSteps` calls of
`Next` is the step grid of the window, each step carrying the per-step denotation `den p t` - the
same function of `t` alone that an instant query at `t` (a window of one step) evaluates. Together
with `cursor_enumerates_grid` (the selectors' own batching) this is the operational half of the
property; the semantic half (the per-step value does not depend on the window's start) is
`TheoremP` / `StartInv` above. -/
theorem batches_concatenate_to_the_grid {α : Type} (d0 : α) (w : Window) (hs : 0 < w.step) (hle : w.start ≤ w.stop)
    (B : Nat) (hB : 0 < B) (p : Plan α) (hal : Al ⟨w.step, B⟩ w.stop w.start p) :
    ((run ⟨w.step, B⟩ w.numSteps p).filterMap id).flatten = w.grid.map fun t => (t, den d0 p t) :=
  run_is_grid d0 w hs hle B hB p hal

open Streams in
/-- two batch sizes, one plan: the same stream of (timestamp, value) pairs (26 steps; batches of 10
and of 3; the selector-like leaf uses `numStepsBatch`) -/
example :
    let w : Window := ⟨0, 25, 1⟩
    let mk := fun (B : Nat) => (Plan.zip (fun _ _ a b => a * b) (.leaf (fun t => t) 25 0 (numStepsBatch w B))
      (.map (fun _ a => a + 1) (.leaf (fun t => 2 * t) 25 0 B)) : Plan Int)
    ((run ⟨1, 10⟩ 26 (mk 10)).filterMap id).flatten = ((run ⟨1, 3⟩ 26 (mk 3)).filterMap id).flatten := by
  decide

end PromqlVerif.C07
