/-
C08 - every valid query is answered: unsupported constructs fall back, never degrade.
-/
import PromqlVerif.Proofs.EngInd
import PromqlVerif.Gen.Facts
namespace PromqlVerif.C08
open PromqlVerif Val

variable {V : Type} [Val V]

/-- plan construction fails only with the class that triggers the fallback - for every
expression, an unsupported node in any position included -/
theorem creation_error_is_unsupported (c : Ctx V) (e : Expr V) (er : Err) (h : engOp c e = .error er) :
    er = .unsupported := engOp_err c e er h

/-- the model's dispatch tables are the ones in the source (regenerated on every run):
`function.Funcs`, the accumulators, the vectorized accumulators, the binary operations -/
def sameSet (a b : List String) : Bool := a.all (fun x => b.contains x) && b.all (fun x => a.contains x)

theorem funcs_table_matches : sameSet engineFuncs Gen.funcs = true := by decide +kernel
theorem accumulators_match : sameSet engineAccumulators Gen.accumulators = true := by decide +kernel
theorem vectorized_match : sameSet vectorizedAggs Gen.vectorAccumulators = true := by decide +kernel
theorem binops_match : sameSet engineBinOps Gen.binaryOps = true := by decide +kernel
theorem comparison_ops_match : sameSet comparisonOps Gen.vectorBinaryOps = true := by decide +kernel

/-- constructs outside the native fragment are rejected at construction -/
theorem string_literal_unsupported (c : Ctx V) : ∃ er, engOp c (.str : Expr V) = .error er := ⟨_, by rw [engOp]⟩
theorem subquery_unsupported (c : Ctx V) (e : Expr V) : ∃ er, engOp c (.subq e) = .error er := ⟨_, by rw [engOp]⟩
theorem bare_matrix_unsupported (c : Ctx V) (s : VSel) (r : Int) : ∃ er, engOp c (.msel s r : Expr V) = .error er :=
  ⟨_, by rw [engOp]⟩

/-- set operators are unsupported in every operand configuration -/
theorem set_operator_unsupported (c : Ctx V) (op : String) (hop : op ∈ setOps) (b : Bool) (m : Matching) (l r : Expr V) :
    ∃ er, engOp c (.bin op b m l r) = .error er := by
  have hno : engineBinOps.contains op = false := by
    simp only [setOps, List.mem_cons, List.mem_nil_iff, or_false] at hop
    rcases hop with rfl | rfl | rfl <;> decide
  rw [engOp]
  simp only [bind, Except.bind]
  cases engOp c l with
  | error e => exact ⟨e, rfl⟩
  | ok lo =>
    cases engOp c r with
    | error e => exact ⟨e, rfl⟩
    | ok ro =>
      have hmem : ¬ op ∈ engineBinOps := by simpa using hno
      simp only [List.contains_eq_mem, decide_eq_true_eq] at *
      exact ⟨.unsupported, by simp [hmem]⟩

/-- an unsupported argument makes the enclosing aggregation unsupported (position closure,
one instance; the general statement is `creation_error_is_unsupported`) -/
theorem unsupported_operand_propagates (c : Ctx V) (op : String) (w : Bool) (g : List String) (e : Expr V) (er : Err)
    (h : engOp c e = .error er) : engOp c (.agg op w g e) = .error er := by
  rw [engOp]; simp [h, bind, Except.bind]

end PromqlVerif.C08
