/-
C08 - every valid query is answered: unsupported constructs fall back, never degrade.
-/
import PromqlVerif.Proofs.EngInd
import PromqlVerif.Gen.Facts
namespace PromqlVerif.C08
open PromqlVerif Val

variable {V : Type} [Val V]

/-- plan construction fails only with the class that triggers the fallback - for every
expression, an unsupported node in any position included -/
theorem creation_error_is_unsupported (c : Ctx V) (e : Expr V) (er : Err) (h : engOp c e = .error er) :
    er = .unsupported := engOp_err c e er h

/-- the model's dispatch tables are the ones in the source (regenerated on every run):
`function.Funcs`, the accumulators, the vectorized accumulators, the binary operations -/
def sameSet (a b : List String) : Bool := a.all (fun x => b.contains x) && b.all (fun x => a.contains x)

theorem funcs_table_matches : sameSet engineFuncs Gen.funcs = true := by decide +kernel
theorem accumulators_match : sameSet engineAccumulators Gen.accumulators = true := by decide +kernel
theorem vectorized_match : sameSet vectorizedAggs Gen.vectorAccumulators = true := by decide +kernel
theorem binops_match : sameSet engineBinOps Gen.binaryOps = true := by decide +kernel
theorem comparison_ops_match : sameSet comparisonOps Gen.vectorBinaryOps = true := by decide +kernel

/-- constructs outside the native fragment are rejected at construction -/
theorem string_literal_unsupported (c : Ctx V) : ∃ er, engOp c (.str : Expr V) = .error er := ⟨_, by rw [engOp]⟩
theorem subquery_unsupported (c : Ctx V) (e : Expr V) : ∃ er, engOp c (.subq e) = .error er := ⟨_, by rw [engOp]⟩
theorem bare_matrix_unsupported (c : Ctx V) (s : VSel) (r : Int) : ∃ er, engOp c (.msel s r : Expr V) = .error er :=
  ⟨_, by rw [engOp]⟩

/-- set operators are unsupported in every operand configuration -/
theorem set_operator_unsupported (c : Ctx V) (op : String) (hop : op ∈ setOps) (b : Bool) (m : Matching) (l r : Expr V) :
    ∃ er, engOp c (.bin op b m l r) = .error er := by
  have hno : engineBinOps.contains op = false := by
    simp only [setOps, List.mem_cons, List.mem_nil_iff, or_false] at hop
    rcases hop with rfl | rfl | rfl <;> decide
  rw [engOp]
  simp only [bind, Except.bind]
  cases engOp c l with
  | error e => exact ⟨e, rfl⟩
  | ok lo =>
    cases engOp c r with
    | error e => exact ⟨e, rfl⟩
    | ok ro =>
      have hmem : ¬ op ∈ engineBinOps := by simpa using hno
      simp only [List.contains_eq_mem, decide_eq_true_eq] at *
      exact ⟨.unsupported, by simp [hmem]⟩

/-- an unsupported argument makes the enclosing aggregation unsupported (position closure,
one instance; the general statement is `creation_error_is_unsupported`) -/
theorem unsupported_operand_propagates (c : Ctx V) (op : String) (w : Bool) (g : List String) (e : Expr V) (er : Err)
    (h : engOp c e = .error er) : engOp c (.agg op w g e) = .error er := by
  rw [engOp]; simp [h, bind, Except.bind]

/-! ### no operand's rejection is lost

An expression is planned natively only if each of its operands is: whichever operand plan
construction rejects - the first or a later one, the vector or a scalar argument - the rejection
is the result for the whole expression, so the query reaches the fallback. (The shape of a seeded
change that the enumeration missed at first: `histogram_quantile(q, b)` planning both arguments
and looking only at the second error.) -/

theorem binary_operands_propagate (c : Ctx V) (op : String) (b : Bool) (m : Matching) (l r : Expr V) (er : Err) :
    (engOp c l = .error er → engOp c (.bin op b m l r) = .error er) ∧
    (∀ lo, engOp c l = .ok lo → engOp c r = .error er → engOp c (.bin op b m l r) = .error er) := by
  constructor
  · intro h; rw [engOp]; simp [h, bind, Except.bind]
  · intro lo hl h; rw [engOp]; simp [hl, h, bind, Except.bind]

theorem parameter_and_operand_propagate (c : Ctx V) (op : String) (w : Bool) (g : List String) (p e : Expr V) (er : Err) :
    (engOp c e = .error er → engOp c (.aggP op w g p e) = .error er) ∧
    (∀ o, engOp c e = .ok o → engOp c p = .error er → engOp c (.aggP op w g p e) = .error er) := by
  constructor
  · intro h; rw [engOp]; simp [h, bind, Except.bind]
  · intro o ho h; rw [engOp]; simp [ho, h, bind, Except.bind]

theorem histogram_arguments_propagate (c : Ctx V) (q a : Expr V) (er : Err) :
    (engOp c q = .error er → engOp c (.call "histogram_quantile" [q, a]) = .error er) ∧
    (∀ qo, engOp c q = .ok qo → engOp c a = .error er → engOp c (.call "histogram_quantile" [q, a]) = .error er) := by
  constructor
  · intro h; rw [engOp]; simp [h, bind, Except.bind]
  · intro qo hq h; rw [engOp]; simp [hq, h, bind, Except.bind]

/-- in general: a natively planned expression has natively planned operands -/
theorem native_needs_native_operands (c : Ctx V) :
    (∀ (e : Expr V) o, engOp c (.neg e) = .ok o → ∃ o', engOp c e = .ok o') ∧
    (∀ (e : Expr V) o, engOp c (.paren e) = .ok o → ∃ o', engOp c e = .ok o') ∧
    (∀ op w g (e : Expr V) o, engOp c (.agg op w g e) = .ok o → ∃ o', engOp c e = .ok o') ∧
    (∀ op w g (p e : Expr V) o, engOp c (.aggP op w g p e) = .ok o →
      (∃ o', engOp c e = .ok o') ∧ ∃ po, engOp c p = .ok po) ∧
    (∀ op b m (l r : Expr V) o, engOp c (.bin op b m l r) = .ok o →
      (∃ lo, engOp c l = .ok lo) ∧ ∃ ro, engOp c r = .ok ro) ∧
    (∀ (q a : Expr V) o, engOp c (.call "histogram_quantile" [q, a]) = .ok o →
      (∃ qo, engOp c q = .ok qo) ∧ ∃ ao, engOp c a = .ok ao) := by
  refine ⟨?_, ?_, ?_, ?_, ?_, ?_⟩
  · intro e o h
    rw [engOp] at h
    cases he : engOp c e with
    | error er => simp [he, bind, Except.bind] at h
    | ok o' => exact ⟨o', rfl⟩
  · intro e o h
    rw [engOp] at h
    exact ⟨o, h⟩
  · intro op w g e o h
    rw [engOp] at h
    cases he : engOp c e with
    | error er => simp [he, bind, Except.bind] at h
    | ok o' => exact ⟨o', rfl⟩
  · intro op w g p e o h
    rw [engOp] at h
    cases he : engOp c e with
    | error er => simp [he, bind, Except.bind] at h
    | ok o' =>
      cases hp : engOp c p with
      | error er => simp [he, hp, bind, Except.bind] at h
      | ok po => exact ⟨⟨o', rfl⟩, po, rfl⟩
  · intro op b m l r o h
    rw [engOp] at h
    cases hl : engOp c l with
    | error er => simp [hl, bind, Except.bind] at h
    | ok lo =>
      cases hr : engOp c r with
      | error er => simp [hl, hr, bind, Except.bind] at h
      | ok ro => exact ⟨⟨lo, rfl⟩, ro, rfl⟩
  · intro q a o h
    rw [engOp] at h
    cases hq : engOp c q with
    | error er => simp [hq, bind, Except.bind] at h
    | ok qo =>
      cases ha : engOp c a with
      | error er => simp [hq, ha, bind, Except.bind] at h
      | ok ao => exact ⟨⟨qo, rfl⟩, ao, rfl⟩

end PromqlVerif.C08
