/-
C09 - logical-plan optimizers never change a query's result.

The optimizers only rewrite the matcher lists of selectors (`Plan.lean`, tied to
`logicalplan/*.go` by the `plan` correspondence stream). A selector's meaning is the set of
series its matchers accept (`matchingSeries`), so the theorems are stated on `matchAll`:
for every regex table, every matcher type and every label set - in particular label sets
lacking any of the labels.
-/
import PromqlVerif.Proofs.Matchers
import PromqlVerif.Eng
import PromqlVerif.Proofs.OptSound
import PromqlVerif.Proofs.PropSound
namespace PromqlVerif.C09
open PromqlVerif

/-- SortMatchers: reordering the conjunction of matchers selects the same series. -/
theorem sort_matchers_sound (re : ReTab) (ms : List Matcher) (ls : Labels) :
    matchAll re (sortMatchers ms) ls = matchAll re ms ls :=
  matchAll_perm re (List.mergeSort_perm ms Matcher.le) ls

/-- MergeSelects: for whatever the matcher heap holds, the merged selector - broader select plus
in-engine filter - accepts exactly the series of the original selector. No guard is needed
any more: the defect with repeated label names (name-keyed subset test) was repaired in /repo
(`fix: select merging compares whole matchers ...`). -/
theorem merge_selects_sound {V : Type} (re : ReTab) (e : Expr V) (s : VSel) (ls : Labels) :
    matchAll re (mergeSel (buildHeap e) s).allMatchers ls = matchAll re s.allMatchers ls :=
  mergeSel_sound re (buildHeap e) s ls

/-- the in-engine filter of the merged selector is exactly `Matcher.sat` on every filter: a
series lacking the filtered label reads it as empty (this is what `execution/storage/filter.go`
does since `fix: the in-engine series filter evaluates every matcher ...`) -/
theorem filter_absent_label_is_empty (re : ReTab) (m : Matcher) (ls : Labels)
    (h : ∀ l ∈ ls, l.name ≠ m.name) :
    m.sat re ls = (match m.ty with
      | .eq => "" == m.value | .neq => "" != m.value
      | .re => reLookup re m.value "" | .nre => !reLookup re m.value "") := by
  have : Labels.get ls m.name = "" := by
    unfold Labels.get
    have : ls.find? (fun l => l.name == m.name) = none := by
      apply List.find?_eq_none.mpr
      intro l hl
      simpa using h l hl
    simp [this]
  unfold Matcher.sat
  simp only [this]
  cases m.ty <;> rfl

theorem matchAll_filter_of_true (re : ReTab) (ms : List Matcher) (p : Matcher → Bool) (ls : Labels)
    (h : matchAll re ms ls = true) : matchAll re (ms.filter p) ls = true := by
  unfold matchAll at *
  simp only [List.all_eq_true] at *
  intro x hx
  exact h x (List.mem_filter.mp hx).1

/-- PropagateMatchers: for a pair of series matched one-to-one on all labels (equal label sets
apart from the metric name), adding the other side's non-name matchers to each side accepts
the pair iff the original selectors accept it. Every matcher of both sides is kept. -/
theorem propagate_sound (re : ReTab) (lms rms : List Matcher) (l1 l2 : Labels)
    (hpair : l1.dropName = l2.dropName) :
    (matchAll re (addMissing lms (rms.filter fun x => !isNameMatcher x)) l1
      && matchAll re (addMissing rms (lms.filter fun x => !isNameMatcher x)) l2)
    = (matchAll re lms l1 && matchAll re rms l2) := by
  rw [matchAll_addMissing, matchAll_addMissing]
  have hnn : ∀ (ms : List Matcher), ∀ m ∈ ms.filter (fun x => !isNameMatcher x), isNameMatcher m = false := by
    intro ms m hm
    have := (List.mem_filter.mp hm).2
    simpa using this
  have e1 : matchAll re (rms.filter fun x => !isNameMatcher x) l1
      = matchAll re (rms.filter fun x => !isNameMatcher x) l2 := by
    rw [← matchAll_dropName re _ l1 (hnn rms), ← matchAll_dropName re _ l2 (hnn rms), hpair]
  have e2 : matchAll re (lms.filter fun x => !isNameMatcher x) l2
      = matchAll re (lms.filter fun x => !isNameMatcher x) l1 := by
    rw [← matchAll_dropName re _ l1 (hnn lms), ← matchAll_dropName re _ l2 (hnn lms), hpair]
  rw [e1, e2]
  cases ha : matchAll re lms l1 <;> cases hb : matchAll re rms l2 <;> simp
  · rw [matchAll_filter_of_true re rms _ l2 hb, matchAll_filter_of_true re lms _ l1 ha]
    simp

/-- ... and the optimizer rewrites a binary expression only where that hypothesis is the matching
rule: no `on`, no label list (so the match key is the whole label set without the name), one-to-one,
not a comparison. (`on ()` with an empty list matches on no label at all; the pinned tree propagated
there too - repaired, see `known_findings.jsonl`.) -/
theorem propagate_only_when_matching_on_all_labels {V : Type} (op : String) (b : Bool) (m : Matching)
    (l r : Expr V) (h : propBin op b m l r ≠ .bin op b m l r) :
    m.on = false ∧ m.labels = [] ∧ m.card = .oneToOne ∧ comparisonOps.contains op = false := by
  unfold propBin at h
  split at h
  · split at h
    · exact absurd rfl h
    · rename_i hc
      simp only [Bool.or_eq_true, not_or, Bool.not_eq_true, bne_iff_ne, ne_eq, Decidable.not_not,
        Bool.not_eq_eq_eq_not, Bool.not_true, Bool.not_eq_true'] at hc
      obtain ⟨⟨⟨⟨⟨⟨h1, h2⟩, h3⟩, h4⟩, _⟩, _⟩, _⟩ := hc
      exact ⟨h2, by simpa using h3, h4, h1⟩
  · exact absurd rfl h

/-- for such a matching the join key of a series is its label set without the metric name -/
theorem match_key_on_all_labels (m : Matching) (keepName : Bool) (ls : Labels) (h1 : m.on = false)
    (h2 : m.labels = []) : (engSignature m keepName ls).1 = ls.dropName := by
  unfold engSignature
  have : ls.filter (fun _ => true) = ls := List.filter_eq_self.mpr (fun _ _ => rfl)
  simp [h1, h2, Labels.del, this]

/-- non-vacuity: a usable replacement with a repeated label name and a series that lacks the
filtered label -/
example :
    let top : List Matcher := [⟨.eq, "__name__", "m"⟩, ⟨.eq, "a", "b"⟩, ⟨.neq, "a", "c"⟩]
    let sel : List Matcher := [⟨.eq, "__name__", "m"⟩, ⟨.eq, "a", "b"⟩, ⟨.neq, "a", "c"⟩, ⟨.eq, "c", "d"⟩]
    usableReplacement top sel = true ∧
      matchAll [] (top ++ mergeFilters top sel) [⟨"__name__", "m"⟩, ⟨"a", "b"⟩] = false := by
  decide

/-- **PropagateMatchers leaves the value of the binary expression it rewrites unchanged**
(`Proofs/PropSound.lean`): two plain selectors joined one-to-one on all labels, whose selections
at the step have pairwise distinct label sets apart from the metric name (no duplicate series on
either side, so the reference matching raises no error): the narrower selectors drop exactly the
series that have no partner - a left series failing the right selector's non-name matchers cannot
have a partner, since a partner carries the same labels and satisfies them (`propagate_sound` is the
pair-level statement) - and what remains is matched as before, in the same order. Where `propBin`
does not rewrite, there is nothing to show. Without the uniqueness hypothesis the rewrite can turn
a duplicate-series error of the reference into a result (the dropped series may be the
duplicates): the optimizer is sound only up to that error, which the `opt` oracle does not see
because the engine lacks the check (KF-no-duplicate-check). -/
theorem propagate_matchers_preserves_binary_value {V : Type} [Val V] (c : Ctx V) (op : String) (b : Bool)
    (m : Matching) (ls rs : VSel) (t : Int)
    (hul : ((selectV c ls t).map fun x => x.1.dropName).Nodup)
    (hur : ((selectV c rs t).map fun x => x.1.dropName).Nodup) :
    eval c t (propBin op b m (.vsel ls) (.vsel rs)) = eval c t (.bin op b m (.vsel ls) (.vsel rs)) :=
  propagate_node_sound c op b m ls rs t hul hur

/-- the rewrite the theorem is about: `m{a="x"} + n` becomes `m{a="x"} + n{a="x"}` -/
example :
    (propBin "+" false ⟨.oneToOne, false, [], []⟩
      (.vsel ⟨[⟨.eq, "__name__", "m"⟩, ⟨.eq, "a", "x"⟩], 0, none, none⟩)
      (.vsel ⟨[⟨.eq, "__name__", "n"⟩], 0, none, none⟩) : Expr Int)
    = .bin "+" false ⟨.oneToOne, false, [], []⟩
      (.vsel ⟨[⟨.eq, "__name__", "m"⟩, ⟨.eq, "a", "x"⟩], 0, none, none⟩)
      (.vsel ⟨[⟨.eq, "__name__", "n"⟩, ⟨.eq, "a", "x"⟩], 0, none, none⟩) := by
  rfl

/-- ... over a storage on which the hypotheses hold and the rewrite narrows the right side: `n{a="y"}`
is no longer selected, and the value is `m{a="x"} + n{a="x"}` either way -/
example :
    let c : Ctx Int := { st := [⟨[⟨"__name__", "m"⟩, ⟨"a", "x"⟩], [⟨0, .num 1⟩]⟩, ⟨[⟨"__name__", "n"⟩, ⟨"a", "x"⟩], [⟨0, .num 10⟩]⟩,
                                ⟨[⟨"__name__", "n"⟩, ⟨"a", "y"⟩], [⟨0, .num 20⟩]⟩], lookback := 300000, start := 0 }
    let ls : VSel := ⟨[⟨.eq, "__name__", "m"⟩, ⟨.eq, "a", "x"⟩], 0, none, none⟩
    let rs : VSel := ⟨[⟨.eq, "__name__", "n"⟩], 0, none, none⟩
    ((selectV c ls 1000).map fun x => x.1.dropName).Nodup ∧ ((selectV c rs 1000).map fun x => x.1.dropName).Nodup ∧
      (selectV c rs 1000).length = 2 ∧ (selectV c { rs with matchers := rs.matchers ++ [⟨.eq, "a", "x"⟩] } 1000).length = 1 := by
  decide

/-! ### the optimizers on whole plans -/

theorem mergeSel_times (h : MatcherHeap) (s : VSel) :
    (mergeSel h s).origOffset = s.origOffset ∧ (mergeSel h s).atTs = s.atTs := by
  unfold mergeSel
  split
  · exact ⟨rfl, rfl⟩
  · split <;> exact ⟨rfl, rfl⟩

/-- **SortMatchers leaves the value of every plan unchanged**: for every expression (every
construct of the reference semantics, `timestamp()` with its dependence on the form of its
argument included), every storage, regex table and step -/
theorem sort_matchers_plan_sound {V : Type} [Val V] (c : Ctx V) (e : Expr V) (t : Int) :
    eval c t (optSortMatchers e) = eval c t e := by
  unfold optSortMatchers
  apply mapSelectors_sound
  intro s
  refine ⟨rfl, rfl, fun ls => ?_⟩
  show matchAll c.re (sortMatchers s.matchers ++ s.filters.getD []) ls = matchAll c.re (s.matchers ++ s.filters.getD []) ls
  exact matchAll_perm c.re ((List.mergeSort_perm s.matchers Matcher.le).append_right _) ls

/-- **MergeSelects leaves the value of every plan unchanged**: replacing selectors by a broader
select of the same metric plus an in-engine filter (whatever the other selectors of the query
put into the matcher heap) does not change what any selector selects, hence not the value of
the expression - at every step, for every storage and regex table -/
theorem merge_selects_plan_sound {V : Type} [Val V] (c : Ctx V) (e : Expr V) (t : Int) :
    eval c t (optMergeSelects e) = eval c t e := by
  unfold optMergeSelects
  apply mapSelectors_sound
  intro s
  exact ⟨(mergeSel_times _ s).1, (mergeSel_times _ s).2, fun ls => mergeSel_sound c.re _ s ls⟩

/-- ... and so does their composition, in either order -/
theorem sort_then_merge_plan_sound {V : Type} [Val V] (c : Ctx V) (e : Expr V) (t : Int) :
    eval c t (optMergeSelects (optSortMatchers e)) = eval c t e := by
  rw [merge_selects_plan_sound, sort_matchers_plan_sound]

end PromqlVerif.C09
