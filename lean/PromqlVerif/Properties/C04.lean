/-
C04 - aggregations group, label and reduce exactly as the reference engine.
-/
import PromqlVerif.Proofs.Agg
import PromqlVerif.Proofs.DistAgg
import PromqlVerif.Proofs.HeapPerm
import PromqlVerif.Proofs.AccProof
import PromqlVerif.Proofs.HeapOrder
namespace PromqlVerif.C04
open PromqlVerif Val

variable {V : Type} [Val V]

/-- `without` never keeps the metric name or a listed label in the output labels -/
theorem without_labels (g : List String) (ls : Labels) :
    ∀ l ∈ groupLabels true g ls, l.name ≠ metricName ∧ l.name ∉ g := by
  intro l hl
  simp only [groupLabels, if_true, Labels.dropName, Labels.del, List.mem_filter] at hl
  obtain ⟨⟨_, h1⟩, h2⟩ := hl
  exact ⟨by simpa using h2, by simpa using h1⟩

/-- `by` keeps exactly the listed labels (the metric name only if listed) -/
theorem by_labels (g : List String) (ls : Labels) :
    ∀ l, l ∈ groupLabels false g ls ↔ l ∈ ls ∧ l.name ∈ g := by
  intro l
  simp [groupLabels, Labels.keep, List.mem_filter]

/-- series of one group share the output labels: the output labels are a function of the key -/
theorem key_determines_labels (w : Bool) (g : List String) (a b : Labels)
    (h : groupKey w g a = groupKey w g b) : groupLabels w g a = groupLabels w g b := by
  unfold groupKey at h; unfold groupLabels; exact h

/-- non-positive `k` selects nothing -/
theorem topk_nonpositive (top : Bool) (w : Bool) (g : List String) (p : V) (v : Vec V)
    (hc : inInt64 p = true) (hk : toInt p < 1) :
    aggregate (if top then "topk" else "bottomk") w g p v = .ok [] := by
  unfold aggregate
  cases top <;> simp [hc, hk]

/-- NaN or out-of-range `k` is the reference engine's error -/
theorem topk_bad_param (top : Bool) (w : Bool) (g : List String) (p : V) (v : Vec V)
    (hc : inInt64 p = false) :
    aggregate (if top then "topk" else "bottomk") w g p v = .error .badParam := by
  unfold aggregate
  cases top <;> simp [hc]

/-- one output per non-empty group for the reducing aggregations -/
theorem one_output_per_group (op : String) (w : Bool) (g : List String) (p : V) (v : Vec V)
    (hop : (op == "topk" || op == "bottomk") = false) :
    ∃ out, aggregate op w g p v = .ok out ∧
      out.length = (groupBy (fun (x : Labels × V) => groupKey w g x.1) v).length := by
  unfold aggregate
  simp [hop]

/-- the engine's accumulators are the reference reductions, except that `sum` starts from 0
and `avg` starts its running mean from an empty group ... -/
theorem engReduce_eq_reference (op : String) (p : V) (vals : List V)
    (h1 : op ≠ "sum") (h2 : op ≠ "avg") : engReduce op p vals = aggReduce op p vals := by
  unfold engReduce
  split <;> simp_all

/-- ... which is the same value whenever `0 + v = v` (exact arithmetic; for IEEE floats the only
difference is the sign of a zero sum) -/
theorem engReduce_sum (p : V) (v0 : V) (rest : List V) (hzero : ∀ v : V, add (zero : V) v = v) :
    engReduce "sum" p (v0 :: rest) = aggReduce "sum" p (v0 :: rest) := by
  simp [engReduce, aggReduce, List.foldl_cons, hzero]

/-- ... and `avg` is the reference's running mean from the first member on (`addToMean`, since
the repair of the overflowing `sum / count`), counting in the value type being what it is in `Nat` -/
theorem engReduce_avg_eq_reference (hl : CountLaw V) (hm : MeanLaw V) (p : V) (v0 : V) (rest : List V) :
    engReduce "avg" p (v0 :: rest) = aggReduce "avg" p (v0 :: rest) := engReduce_avg hl hm p v0 rest

theorem reduce_hyp_plain (op : String) (p : V) (h1 : op ≠ "sum") (h2 : op ≠ "avg") :
    ∀ vals : List V, vals ≠ [] → engReduce op p vals = aggReduce op p vals :=
  fun vals _ => engReduce_eq_reference op p vals h1 h2

theorem reduce_hyp_sum (p : V) (hzero : ∀ v : V, add (zero : V) v = v) :
    ∀ vals : List V, vals ≠ [] → engReduce "sum" p vals = aggReduce "sum" p vals := by
  intro vals hne
  cases vals with
  | nil => exact absurd rfl hne
  | cons v0 rest => exact engReduce_sum p v0 rest hzero

theorem reduce_hyp_avg (p : V) (hl : CountLaw V) (hm : MeanLaw V) :
    ∀ vals : List V, vals ≠ [] → engReduce "avg" p vals = aggReduce "avg" p vals := by
  intro vals hne
  cases vals with
  | nil => exact absurd rfl hne
  | cons v0 rest => exact engReduce_avg hl hm p v0 rest

/-- **the engine's scalar-table aggregation over any expression of the C01 fragment is the reference
aggregation, up to the order of the groups**: the engine forms the groups once from `Series()`,
the reference per step from the samples present; accumulators are fed in sample order in both.
For every grouping (`by`/`without`, any label list incl. absent labels and `__name__`), every
occupancy pattern and every scalar-table aggregator whose accumulator is the reference reduction
on non-empty groups (`hR`): `reduce_hyp_plain` discharges it for all but `sum`/`avg`,
`reduce_hyp_sum` for `sum` under `0 + v = v`, `reduce_hyp_avg` for `avg` under the counting laws. -/
theorem aggregation_over_fragment (c : Ctx V) (hq : c.q.noDupCheck = true) (op : String) (w : Bool)
    (g : List String) (e : Expr V) (he : Frag false e)
    (hacc : engineAccumulators.contains op = true)
    (hvec : (!w && g.isEmpty && vectorizedAggs.contains op) = false)
    (hR : ∀ vals : List V, vals ≠ [] → engReduce op nan vals = aggReduce op nan vals) :
    ∃ o, engOp c (.agg op w g e) = .ok o ∧
      ∀ t, ∃ ys out, o.step t = .ok ys ∧ eval c t (.agg op w g e) = .ok (.vec out) ∧
        (denote o.series ys).Perm out := by
  obtain ⟨child, hchild, _, hstep⟩ := frag_inv c hq false e he
  have hk : (op == "topk" || op == "bottomk") = false := by
    cases hc : (op == "topk" || op == "bottomk") with
    | false => rfl
    | true =>
      simp only [Bool.or_eq_true, beq_iff_eq] at hc
      rcases hc with rfl | rfl <;> (revert hacc; decide)
  refine ⟨engAggregate op w g none child, ?_, fun t => ?_⟩
  · rw [engOp]
    simp only [hchild, bind, Except.bind, pure, Except.pure, hk, hacc, Bool.false_eq_true, if_false, Bool.not_true]
  · obtain ⟨xs, hxs, hids, hval⟩ := hstep t
    simp only [Bool.false_eq_true, if_false] at hval
    obtain ⟨ys, out, hys, hspec, hperm⟩ := agg_perm child op w g none t xs nan hxs hids hvec rfl hk hR
    refine ⟨ys, out, hys, ?_, hperm⟩
    rw [eval]
    simp only [hval, hspec, bind, Except.bind, pure, Except.pure, Value.asVec, dedupCheck, hq, Bool.not_true, Bool.false_and,
      Bool.false_eq_true, if_false]

/-- `by ()` puts every sample into one group -/
theorem dedup_const {α : Type} [BEq α] [LawfulBEq α] (a : α) (l : List α) (h : ∀ x ∈ l, x = a) (hne : l ≠ []) :
    dedup l = [a] := by
  induction l with
  | nil => exact absurd rfl hne
  | cons x xs ih =>
    have hx : x = a := h x List.mem_cons_self
    subst hx
    simp only [dedup]
    cases xs with
    | nil => simp [dedup]
    | cons y ys =>
      rw [ih (fun z hz => h z (List.mem_cons_of_mem _ hz)) (by simp)]
      simp

/-- **the vectorized aggregation (no grouping: `sum(x)`, `max(x)`, ... over all series) over any
expression of the C01 fragment is the reference aggregation** - exactly, not only up to order:
one label-less output whenever the step has samples, with the reduction of all of them in sample
order; nothing otherwise. (`hR` as in `aggregation_over_fragment`.) -/
theorem vectorized_aggregation_over_fragment (c : Ctx V) (hq : c.q.noDupCheck = true) (op : String)
    (e : Expr V) (he : Frag false e) (hvecop : vectorizedAggs.contains op = true)
    (hR : ∀ vals : List V, vals ≠ [] → engReduce op nan vals = aggReduce op nan vals) :
    ∃ o, engOp c (.agg op false [] e) = .ok o ∧
      ∀ t, ∃ ys, o.step t = .ok ys ∧ eval c t (.agg op false [] e) = .ok (.vec (denote o.series ys)) := by
  obtain ⟨child, hchild, _, hstep⟩ := frag_inv c hq false e he
  have hacc : engineAccumulators.contains op = true := by
    simp only [vectorizedAggs, List.contains_eq_mem, List.mem_cons, List.mem_nil_iff, or_false, decide_eq_true_eq] at hvecop
    rcases hvecop with rfl | rfl | rfl | rfl | rfl | rfl <;> decide
  have hk : (op == "topk" || op == "bottomk") = false := by
    simp only [vectorizedAggs, List.contains_eq_mem, List.mem_cons, List.mem_nil_iff, or_false, decide_eq_true_eq] at hvecop
    rcases hvecop with rfl | rfl | rfl | rfl | rfl | rfl <;> decide
  refine ⟨engAggregate op false [] none child, ?_, fun t => ?_⟩
  · rw [engOp]
    simp only [hchild, bind, Except.bind, pure, Except.pure, hk, hacc, Bool.false_eq_true, if_false, Bool.not_true]
  · obtain ⟨xs, hxs, hids, hval⟩ := hstep t
    simp only [Bool.false_eq_true, if_false] at hval
    have hden : denote child.series xs = xs.map fun x => (lab child.series x, x.2) :=
      denote_eq_map_of_valid child.series xs hids
    unfold engAggregate
    simp only [Bool.not_false, List.isEmpty_nil, Bool.true_and, hvecop, if_true]
    refine ⟨if xs.isEmpty then [] else [(0, engReduce op nan (xs.map (·.2)))], by
      simp only [hxs, bind, Except.bind, pure, Except.pure], ?_⟩
    rw [eval]
    simp only [hval, bind, Except.bind, pure, Except.pure, Value.asVec, dedupCheck, hq, Bool.not_true, Bool.false_and,
      Bool.false_eq_true, if_false]
    rw [aggregate_eq_aggR op false [] nan _ hk]
    cases hxe : xs with
    | nil => simp [aggR, denote, dedup]
    | cons x rest =>
      have hkey : ∀ ls : Labels, groupKey false [] ls = [] := by
        intro ls; simp [groupKey, Labels.keep]
      have hne : xs ≠ [] := by rw [hxe]; simp
      rw [← hxe, hden]
      unfold aggR
      rw [dedup_const ([] : Labels) _ (by
        intro k hk'
        simp only [List.map_map, List.mem_map, Function.comp_def] at hk'
        obtain ⟨y, _, rfl⟩ := hk'
        exact hkey _) (by simp [hne])]
      have hfilter : ((xs.map fun x => (lab child.series x, x.2)).filter fun x => groupKey false [] x.1 == ([] : Labels))
          = xs.map fun x => (lab child.series x, x.2) := by
        rw [List.filter_eq_self]
        intro a _
        simp [hkey]
      simp only [List.map_cons, List.map_nil, hfilter, List.map_map, Function.comp_def]
      have hxsne : xs.isEmpty = false := by rw [hxe]; rfl
      simp only [hxsne, Bool.false_eq_true, if_false, denote, List.filterMap_cons, List.filterMap_nil,
        List.getElem?_cons_zero, Option.map_some]
      rw [hR _ (by simp [hne])]

/-- the heap selection of topk/bottomk only ever returns members of the group -/
example : kSelect true 2 [("a", (1 : Int)), ("b", 5), ("c", 3), ("d", 4)] = [("d", 4), ("b", 5)] := by decide
example : kSelect false 1 [("a", (3 : Int)), ("b", 1), ("c", 2)] = [("b", 1)] := by decide

/-- the engine's bounded heap keeps exactly `min k n` samples of a group of `n` (`k ≥ 1`), for
every arrival order and whatever NaNs the group holds ... -/
theorem topk_keeps_min_k_n {α : Type} (top : Bool) (k : Nat) (hk : 1 ≤ k) (items : List (α × V)) :
    (kSelect top k items).length = min k items.length := kSelect_length top k hk items

/-- ... and they are samples of that group: the selection plus what was dropped is a rearrangement
of the group -/
theorem topk_keeps_group_samples {α : Type} (top : Bool) (k : Nat) (items : List (α × V)) :
    ∃ dropped, (kSelect top k items ++ dropped).Perm items := kSelect_perm top k items

/-- **the reused accumulators**: the hash aggregation creates one accumulator per group and per
position in the batch and reuses it for every batch (`Reset(arg)`, then `AddFunc` per member).
Modelled as written (`Acc.lean`): for every aggregation of the engine, whatever state earlier
batches left behind, every parameter and every member list, each step's output is the per-step
reduction `engReduce` - present iff the group has members - so nothing leaks from one batch
into the next. (`CountLaw`: counting in the value type agrees with counting in `Nat`.) -/
theorem reused_accumulators_are_per_step (hl : CountLaw V) (op : String)
    (hop : engineAccumulators.contains op = true) (a : Acc V) (steps : List (V × List V)) :
    Acc.runs op a steps = steps.map fun s => if s.2.isEmpty then none else some (engReduce op s.1 s.2) :=
  acc_runs_eq hl op hop a steps

/-- the laws hold for exact arithmetic -/
example : CountLaw Int := by
  intro n
  show ((n : Int) + 1 : Int) = ((n + 1 : Nat) : Int)
  omega
example : MeanLaw Int := by
  intro n
  show (((n + 1 : Nat) : Int) == 1) = decide (n = 0)
  by_cases h : n = 0
  · subst h; rfl
  · simp only [h, decide_false]
    exact beq_false_of_ne (by omega)

/-- **topk / bottomk keep the extreme samples**: for a NaN-free group and a value order that is a
strict weak order, no sample the engine's bounded heap keeps is strictly smaller (topk; larger for
bottomk) than one it dropped - for every `k ≥ 1` and every arrival order. With
`topk_keeps_min_k_n` and `topk_keeps_group_samples`: the selection is the `k` largest / smallest
samples of the group, ties broken arbitrarily (which is also all the reference engine promises). -/
theorem topk_keeps_the_extremes {α : Type} {P : V → Prop} (L : LtLaws P) (top : Bool) (k : Nat) (hk : 1 ≤ k)
    (items : List (α × V)) (hitems : ∀ x ∈ items, P x.2 ∧ isNaN x.2 = false) :
    ∃ dropped, (kSelect top k items ++ dropped).Perm items ∧
      ∀ d ∈ dropped, ∀ y ∈ kSelect top k items, less top y.2 d.2 = false :=
  kSelect_extreme L top k hk items hitems

/-- the order laws hold for exact arithmetic -/
example : LtLaws (V := Int) (fun _ => True) where
  asymm := by
    intro a b _ _ h
    have h' : a < b := by simpa [Val.lt] using h
    simp [Val.lt]; omega
  negtrans := by
    intro a b c _ _ _ h1 h2
    have e1 : ¬ a < b := by simpa [Val.lt] using h1
    have e2 : ¬ b < c := by simpa [Val.lt] using h2
    simp [Val.lt]; omega

end PromqlVerif.C04
