/-
C04 - aggregations group, label and reduce exactly as the reference engine.
-/
import PromqlVerif.Proofs.Den
namespace PromqlVerif.C04
open PromqlVerif Val

variable {V : Type} [Val V]

/-- `without` never keeps the metric name or a listed label in the output labels -/
theorem without_labels (g : List String) (ls : Labels) :
    ∀ l ∈ groupLabels true g ls, l.name ≠ metricName ∧ l.name ∉ g := by
  intro l hl
  simp only [groupLabels, if_true, Labels.dropName, Labels.del, List.mem_filter] at hl
  obtain ⟨⟨_, h1⟩, h2⟩ := hl
  exact ⟨by simpa using h2, by simpa using h1⟩

/-- `by` keeps exactly the listed labels (the metric name only if listed) -/
theorem by_labels (g : List String) (ls : Labels) :
    ∀ l, l ∈ groupLabels false g ls ↔ l ∈ ls ∧ l.name ∈ g := by
  intro l
  simp [groupLabels, Labels.keep, List.mem_filter]

/-- series of one group share the output labels: the output labels are a function of the key -/
theorem key_determines_labels (w : Bool) (g : List String) (a b : Labels)
    (h : groupKey w g a = groupKey w g b) : groupLabels w g a = groupLabels w g b := by
  unfold groupKey at h; unfold groupLabels; exact h

/-- non-positive `k` selects nothing -/
theorem topk_nonpositive (top : Bool) (w : Bool) (g : List String) (p : V) (v : Vec V)
    (hc : inInt64 p = true) (hk : toInt p < 1) :
    aggregate (if top then "topk" else "bottomk") w g p v = .ok [] := by
  unfold aggregate
  cases top <;> simp [hc, hk]

/-- NaN or out-of-range `k` is the reference engine's error -/
theorem topk_bad_param (top : Bool) (w : Bool) (g : List String) (p : V) (v : Vec V)
    (hc : inInt64 p = false) :
    aggregate (if top then "topk" else "bottomk") w g p v = .error .badParam := by
  unfold aggregate
  cases top <;> simp [hc]

/-- one output per non-empty group for the reducing aggregations -/
theorem one_output_per_group (op : String) (w : Bool) (g : List String) (p : V) (v : Vec V)
    (hop : (op == "topk" || op == "bottomk") = false) :
    ∃ out, aggregate op w g p v = .ok out ∧
      out.length = (groupBy (fun (x : Labels × V) => groupKey w g x.1) v).length := by
  unfold aggregate
  simp [hop]

/-- the engine's accumulators are the reference reductions, except that `sum` starts from 0
and `avg` divides the plain sum by the count ... -/
theorem engReduce_eq_reference (op : String) (p : V) (vals : List V)
    (h1 : op ≠ "sum") (h2 : op ≠ "avg") : engReduce op p vals = aggReduce op p vals := by
  unfold engReduce
  split <;> simp_all

/-- ... which is the same value whenever `0 + v = v` (exact arithmetic; for IEEE floats the only
difference is the sign of a zero sum) -/
theorem engReduce_sum (p : V) (v0 : V) (rest : List V) (hzero : ∀ v : V, add (zero : V) v = v) :
    engReduce "sum" p (v0 :: rest) = aggReduce "sum" p (v0 :: rest) := by
  simp [engReduce, aggReduce, List.foldl_cons, hzero]

/-- the heap selection of topk/bottomk only ever returns members of the group -/
example : kSelect true 2 [("a", (1 : Int)), ("b", 5), ("c", 3), ("d", 4)] = [("d", 4), ("b", 5)] := by decide
example : kSelect false 1 [("a", (3 : Int)), ("b", 1), ("c", 2)] = [("b", 1)] := by decide

end PromqlVerif.C04
