/-
C19 - every successful result is a well-formed PromQL value. Proven for every plan: label sets
(sorted by name, no repeated name, no empty value) when no vector-vector operator carries include
labels - with include labels the engine's join appends them (known finding KF-binary-include-labels,
model witness below); timestamps strictly increasing; no empty series; no staleness marker (the
value type of a step vector has none). Duplicate label sets after name dropping are known finding
KF-no-duplicate-check.
-/
import PromqlVerif.Proofs.PlanContract
import PromqlVerif.Proofs.Grid
namespace PromqlVerif.C19
open PromqlVerif Val

variable {V : Type} [Val V]

/-- dropping the metric name, `by`/`without` projection and `on`/`ignoring` signatures keep a
label set sorted by name, without repeated names and without empty values -/
theorem wf_filter (p : Label → Bool) (ls : Labels) (h : ls.wf = true) : Labels.wf (ls.filter p) = true :=
  PromqlVerif.wf_filter p ls h

theorem dropName_wf (ls : Labels) (h : ls.wf = true) : ls.dropName.wf = true := PromqlVerif.dropName_wf ls h
theorem keep_wf (ls : Labels) (g : List String) (h : ls.wf = true) : (ls.keep g).wf = true := PromqlVerif.keep_wf ls g h
theorem del_wf (ls : Labels) (g : List String) (h : ls.wf = true) : (ls.del g).wf = true := PromqlVerif.del_wf ls g h

theorem groupLabels_wf (w : Bool) (g : List String) (ls : Labels) (h : ls.wf = true) : (groupLabels w g ls).wf = true :=
  PromqlVerif.groupLabels_wf w g ls h

/-- **every operator of every plan has well-formed series labels**: for every well-typed expression
over the natively supported constructs whose vector-vector operators carry no include labels,
every storage with well-formed label sets, every window and lookback - the series list of the
operator built for it (and of every operator below it) consists of label sets sorted by name,
without repeated names, without empty values -/
theorem every_operator_has_wellformed_labels (c : Ctx V) (hst : ∀ sr ∈ c.st, Labels.wf sr.labels = true)
    (b : Bool) (e : Expr V) (h : WT (fun m => m.incl = []) b e) (o : OpSem V) (ho : engOp c e = .ok o) :
    ∀ ls ∈ o.series, Labels.wf ls = true :=
  (plan_contract c b e h o ho).2.2 ⟨fun _ hm => hm, hst⟩

theorem mapM_steps_fst (f : Int → Except Err (IdVec V)) : ∀ (grid : List Int) (steps : List (Int × IdVec V)),
    grid.mapM (fun t => (f t).map fun xs => (t, xs)) = .ok steps → steps.map (·.1) = grid := by
  intro grid
  induction grid with
  | nil => intro steps h; simp only [List.mapM_nil, pure, Except.pure, Except.ok.injEq] at h; subst h; rfl
  | cons t ts ih =>
    intro steps h
    simp only [List.mapM_cons, bind, Except.bind] at h
    generalize hr : ts.mapM (fun t => (f t).map fun xs => (t, xs)) = r at h
    cases hf : f t with
    | error e => simp [hf, Except.map] at h
    | ok xs =>
      simp only [hf, Except.map] at h
      cases r with
      | error e => simp at h
      | ok rest =>
        simp only [pure, Except.pure, Except.ok.injEq] at h
        subst h
        simp [ih rest hr]

theorem enum_snd_mem {α : Type} (l : List α) : ∀ q ∈ enum l, q.2 ∈ l := by
  have : ∀ (k : Nat) (l : List α), ∀ q ∈ enumFrom k l, q.2 ∈ l := by
    intro k l
    induction l generalizing k with
    | nil => intro q hq; cases hq
    | cons a l ih =>
      intro q hq
      simp only [enumFrom] at hq
      rcases List.mem_cons.mp hq with rfl | hq
      · exact List.mem_cons_self ..
      · exact List.mem_cons_of_mem _ (ih _ q hq)
  exact this 0 l

/-- **the assembled range result**: every series of a successful range result carries a label set
of the root operator, and its points are in strictly increasing time order -/
theorem range_result_series (c : Ctx V) (w : Window) (e : Expr V) (hs : 0 < w.step)
    (ss : List (Labels × List (Int × V))) (h : engRun c w e = .matrix ss) :
    ∃ o, engOp c e = .ok o ∧ ∀ s ∈ ss, s.1 ∈ o.series ∧ (s.2.map (·.1)).Pairwise (· < ·) := by
  unfold engRun at h
  split at h
  · cases h
  · rename_i o ho
    refine ⟨o, ho, ?_⟩
    split at h
    · cases h
    · rename_i series hcol
      have hb : (w.step != 0) = true := by simp; omega
      rw [if_pos hb] at h
      cases h
      intro s hs'
      have hp : s ∈ List.filter (fun s => !s.2.isEmpty) series :=
        (List.mergeSort_perm _ _).mem_iff.mp hs'
      have hmem := (List.mem_filter.mp hp).1
      unfold engCollect at hcol
      simp only [bind, Except.bind] at hcol
      split at hcol
      · cases hcol
      · rename_i steps hsteps
        simp only [pure, Except.pure, Except.ok.injEq] at hcol
        subst hcol
        obtain ⟨q, hq, rfl⟩ := List.mem_map.mp hmem
        refine ⟨enum_snd_mem o.series q hq, ?_⟩
        simp only
        have hfst := mapM_steps_fst o.step w.grid steps hsteps
        have hsub : ((steps.filterMap fun (p : Int × IdVec V) =>
            (p.2.find? (·.1 == q.1)).map fun x => (p.1, x.2)).map (·.1)).Sublist (steps.map (·.1)) := by
          generalize steps = l
          induction l with
          | nil => simp
          | cons a l ih =>
            simp only [List.filterMap_cons, List.map_cons]
            cases a.2.find? (·.1 == q.1) with
            | none => exact ih.cons _
            | some x => simp only [Option.map_some, List.map_cons]; exact ih.cons_cons _
        rw [hfst] at hsub
        exact (C07_grid_lt w hs).sublist hsub
where
  C07_grid_lt (w : Window) (hs : 0 < w.step) : w.grid.Pairwise (· < ·) := by
    unfold Window.grid
    have : ¬ w.step ≤ 0 := by omega
    simp only [this, if_false]
    exact walk_pairwise_lt _ _ hs _ _

/-- so, for the plans of `every_operator_has_wellformed_labels`, every label set of a successful
range result is well-formed -/
theorem range_result_labels_wellformed (c : Ctx V) (hst : ∀ sr ∈ c.st, Labels.wf sr.labels = true)
    (b : Bool) (e : Expr V) (hwt : WT (fun m => m.incl = []) b e) (w : Window) (hs : 0 < w.step)
    (ss : List (Labels × List (Int × V))) (h : engRun c w e = .matrix ss) :
    ∀ s ∈ ss, Labels.wf s.1 = true := by
  obtain ⟨o, ho, hall⟩ := range_result_series c w e hs ss h
  intro s hs'
  exact every_operator_has_wellformed_labels c hst b e hwt o ho s.1 (hall s hs').1

/-- a successful range result of the engine has no empty series -/
theorem range_result_no_empty_series (c : Ctx V) (w : Window) (e : Expr V) (hs : w.step ≠ 0)
    (ss : List (Labels × List (Int × V))) (h : engRun c w e = .matrix ss) : ∀ s ∈ ss, s.2 ≠ [] := by
  unfold engRun at h
  split at h
  · cases h
  · split at h
    · cases h
    · have hb : (w.step != 0) = true := by simpa using hs
      rw [if_pos hb] at h
      unfold sortSeries at h
      cases h
      intro s hs'
      have hp : s ∈ List.filter (fun s => !s.2.isEmpty) _ :=
        (List.mergeSort_perm _ _).mem_iff.mp hs'
      have := (List.mem_filter.mp hp).2
      intro he
      simp [he] at this

/-- the include labels of the engine's join are appended, not merged: a label of the "many" side
that is also an include label occurs twice (known finding KF-binary-matching, model witness) -/
theorem join_output_labels_can_repeat :
    let m : Matching := ⟨.manyToOne, true, ["a"], ["b"]⟩
    (engJoin m false [[⟨"a", "x"⟩, ⟨"b", "1"⟩]] [[⟨"a", "x"⟩, ⟨"b", "2"⟩]]).outputs
      = [[⟨"a", "x"⟩, ⟨"b", "1"⟩, ⟨"b", "2"⟩]] := by decide +kernel

end PromqlVerif.C19
