/-
C19 - every successful result is a well-formed PromQL value (partial: labels and assembly;
duplicate label sets after name dropping are known finding KF-no-duplicate-check).
-/
import PromqlVerif.Eng
namespace PromqlVerif.C19
open PromqlVerif Val

variable {V : Type} [Val V]

theorem sortedBy_filter (p : Label → Bool) : ∀ (ls : Labels), Labels.sortedBy ls = true → Labels.sortedBy (ls.filter p) = true := by
  intro ls
  -- strengthen: filtering keeps "all names above a bound"
  have aux : ∀ (ls : Labels) (x : Label), Labels.sortedBy (x :: ls) = true →
      Labels.sortedBy (ls.filter p) = true ∧ ∀ y ∈ ls.filter p, x.name < y.name := by
    intro ls
    induction ls with
    | nil => intro x _; simp [Labels.sortedBy]
    | cons y ys ih =>
      intro x h
      simp only [Labels.sortedBy, Bool.and_eq_true, decide_eq_true_eq] at h
      obtain ⟨hxy, hrest⟩ := h
      obtain ⟨hs, hall⟩ := ih y hrest
      have hall' : ∀ z ∈ ys.filter p, x.name < z.name := fun z hz => String.lt_trans hxy (hall z hz)
      simp only [List.filter_cons]
      split
      · constructor
        · cases hf : ys.filter p with
          | nil => simp [Labels.sortedBy]
          | cons z zs =>
            simp only [Labels.sortedBy, Bool.and_eq_true, decide_eq_true_eq]
            exact ⟨hall z (by rw [hf]; exact List.mem_cons_self ..), by rw [← hf]; exact hs⟩
        · intro z hz
          rcases List.mem_cons.mp hz with rfl | hz
          · exact hxy
          · exact hall' z hz
      · exact ⟨hs, hall'⟩
  intro h
  cases ls with
  | nil => rfl
  | cons x xs =>
    obtain ⟨hs, hall⟩ := aux xs x h
    simp only [List.filter_cons]
    split
    · cases hf : xs.filter p with
      | nil => simp [Labels.sortedBy]
      | cons z zs =>
        simp only [Labels.sortedBy, Bool.and_eq_true, decide_eq_true_eq]
        exact ⟨hall z (by rw [hf]; exact List.mem_cons_self ..), by rw [← hf]; exact hs⟩
    · exact hs

/-- dropping the metric name, `by`/`without` projection and `on`/`ignoring` signatures keep a
label set sorted by name, without repeated names and without empty values -/
theorem wf_filter (p : Label → Bool) (ls : Labels) (h : ls.wf = true) : Labels.wf (ls.filter p) = true := by
  simp only [Labels.wf, Bool.and_eq_true, List.all_eq_true] at h ⊢
  exact ⟨sortedBy_filter p ls h.1, fun l hl => h.2 l (List.mem_filter.mp hl).1⟩

theorem dropName_wf (ls : Labels) (h : ls.wf = true) : ls.dropName.wf = true := wf_filter _ ls h
theorem keep_wf (ls : Labels) (g : List String) (h : ls.wf = true) : (ls.keep g).wf = true := wf_filter _ ls h
theorem del_wf (ls : Labels) (g : List String) (h : ls.wf = true) : (ls.del g).wf = true := wf_filter _ ls h

theorem groupLabels_wf (w : Bool) (g : List String) (ls : Labels) (h : ls.wf = true) : (groupLabels w g ls).wf = true := by
  unfold groupLabels
  split
  · exact dropName_wf _ (del_wf ls g h)
  · exact keep_wf ls g h

/-- a successful range result of the engine has no empty series -/
theorem range_result_no_empty_series (c : Ctx V) (w : Window) (e : Expr V) (hs : w.step ≠ 0)
    (ss : List (Labels × List (Int × V))) (h : engRun c w e = .matrix ss) : ∀ s ∈ ss, s.2 ≠ [] := by
  unfold engRun at h
  split at h
  · cases h
  · split at h
    · cases h
    · have hb : (w.step != 0) = true := by simpa using hs
      rw [if_pos hb] at h
      unfold sortSeries at h
      cases h
      intro s hs'
      have hp : s ∈ List.filter (fun s => !s.2.isEmpty) _ :=
        (List.mergeSort_perm _ _).mem_iff.mp hs'
      have := (List.mem_filter.mp hp).2
      intro he
      simp [he] at this

/-- the include labels of the engine's join are appended, not merged: a label of the "many" side
that is also an include label occurs twice (known finding KF-binary-matching, model witness) -/
theorem join_output_labels_can_repeat :
    let m : Matching := ⟨.manyToOne, true, ["a"], ["b"]⟩
    (engJoin m false [[⟨"a", "x"⟩, ⟨"b", "1"⟩]] [[⟨"a", "x"⟩, ⟨"b", "2"⟩]]).outputs
      = [[⟨"a", "x"⟩, ⟨"b", "1"⟩, ⟨"b", "2"⟩]] := by decide +kernel

end PromqlVerif.C19
