/-
Go slices, as far as aliasing goes: a slice is a window (offset, length, capacity) into a backing
array; `append` writes in place when the capacity suffices and moves to a fresh array otherwise.
The engine handles label sets (`labels.Labels`, a slice) that the storage handed out; C17 says it
never writes to them. Whether an `append(x, ..)` can write into storage-owned memory depends on
exactly this: the spare capacity of `x`. `Properties/C17.lean` states what the model gives: an
append through a capacity-capped slice (`x[:len(x):len(x)]`) leaves every existing array as it
was, an append into spare capacity overwrites whatever shares the array.
-/
namespace PromqlVerif.Mem

variable {α : Type}

/-- a slice: backing array `arr`, window `[off, off+len)`, capacity `cap` counted from `off` -/
structure Slice where
  arr : Nat
  off : Nat
  len : Nat
  cap : Nat
deriving Repr, DecidableEq, Inhabited

/-- the heap: backing arrays by number -/
abbrev Heap (α : Type) := List (List α)

def Slice.read (h : Heap α) (s : Slice) : List α := ((h.getD s.arr []).drop s.off).take s.len

/-- the slice lies inside its array -/
def Slice.wf (h : Heap α) (s : Slice) : Prop :=
  s.arr < h.length ∧ s.len ≤ s.cap ∧ s.off + s.cap ≤ (h.getD s.arr []).length

/-- overwrite `a` from position `p` on with `xs` -/
def writeAt (a : List α) (p : Nat) (xs : List α) : List α := a.take p ++ xs ++ a.drop (p + xs.length)

/-- `append(s, xs...)`: in place if the capacity suffices, else into a new array -/
def Slice.append (h : Heap α) (s : Slice) (xs : List α) : Heap α × Slice :=
  if s.len + xs.length ≤ s.cap then
    (h.set s.arr (writeAt (h.getD s.arr []) (s.off + s.len) xs), { s with len := s.len + xs.length })
  else
    (h ++ [s.read h ++ xs], { arr := h.length, off := 0, len := s.len + xs.length, cap := s.len + xs.length })

/-- `s[:len(s):len(s)]`: the same window, no spare capacity -/
def Slice.capped (s : Slice) : Slice := { s with cap := s.len }

theorem writeAt_nil (a : List α) (p : Nat) : writeAt a p [] = a := by
  simp [writeAt]

theorem getD_append_left (h : Heap α) (x : List α) (i : Nat) (hi : i < h.length) :
    (h ++ [x]).getD i [] = h.getD i [] := by
  simp [List.getD_eq_getElem?_getD, List.getElem?_append_left hi]

/-- **an append through a capacity-capped slice leaves every existing array as it was**: whatever
slice `t` of the old heap one looks at - the storage's label sets among them - reads the same
afterwards -/
theorem capped_append_preserves_reads (h : Heap α) (s : Slice) (hs : s.arr < h.length) (xs : List α)
    (t : Slice) (ht : t.arr < h.length) :
    t.read (s.capped.append h xs).1 = t.read h := by
  unfold Slice.append Slice.capped
  simp only
  cases xs with
  | nil =>
    simp only [List.length_nil, Nat.add_zero, Nat.le_refl, if_true, writeAt_nil]
    unfold Slice.read
    congr 2
    simp only [List.getD_eq_getElem?_getD]
    by_cases hta : t.arr = s.arr
    · rw [hta, List.getElem?_set_self hs]
      simp [List.getElem?_eq_getElem hs]
    · rw [List.getElem?_set_ne (fun hh => hta hh.symm)]
  | cons x rest =>
    have : ¬ (s.len + (x :: rest).length ≤ s.len) := by simp
    simp only [this, if_false]
    unfold Slice.read
    rw [getD_append_left h _ t.arr ht]

theorem writeAt_window (pre rest xs : List α) (len : Nat) (hlen : len ≤ rest.length) :
    ((writeAt (pre ++ rest) (pre.length + len) xs).drop pre.length).take (len + xs.length) = rest.take len ++ xs := by
  unfold writeAt
  rw [List.take_length_add_append]
  simp only [List.append_assoc]
  rw [List.drop_left]
  rw [← List.append_assoc]
  apply List.take_left'
  simp only [List.length_append, List.length_take]
  omega

/-- the result reads as the old content followed by the new elements - in place or not, which is
why a test that looks at results cannot tell the two apart -/
theorem append_reads (h : Heap α) (s : Slice) (hw : s.wf h) (xs : List α) :
    (s.append h xs).2.read (s.append h xs).1 = s.read h ++ xs := by
  obtain ⟨harr, hlc, hcap⟩ := hw
  unfold Slice.append
  split
  · rename_i hfit
    unfold Slice.read
    simp only [List.getD_eq_getElem?_getD, List.getElem?_set_self harr, Option.getD_some]
    have hA : (h[s.arr]?.getD []) = h[s.arr] := by simp [List.getElem?_eq_getElem harr]
    simp only [List.getD_eq_getElem?_getD, hA] at hcap
    rw [hA]
    have hoff : (h[s.arr].take s.off).length = s.off := by
      simp only [List.length_take]; omega
    have hrest : s.len ≤ (h[s.arr].drop s.off).length := by
      simp only [List.length_drop]; omega
    have := writeAt_window (h[s.arr].take s.off) (h[s.arr].drop s.off) xs s.len hrest
    rw [List.take_append_drop, hoff] at this
    exact this
  · unfold Slice.read
    simp only [List.getD_eq_getElem?_getD, List.length_append, List.length_cons, List.length_nil,
      Nat.zero_add, List.drop_zero]
    rw [List.getElem?_append_right (Nat.le_refl _)]
    simp only [Nat.sub_self, List.getElem?_cons_zero, Option.getD_some]
    apply List.take_of_length_le
    simp only [List.length_append, List.length_take, List.length_drop]
    omega

/-- an append that fits the capacity puts its first element into the cell right behind the slice -
whoever else that cell belongs to -/
theorem append_in_place_writes (h : Heap α) (s : Slice) (hw : s.wf h) (x : α) (rest : List α)
    (hfit : s.len + (x :: rest).length ≤ s.cap) :
    ((s.append h (x :: rest)).1.getD s.arr [])[s.off + s.len]? = some x := by
  obtain ⟨harr, _, hcap⟩ := hw
  unfold Slice.append
  simp only [hfit, if_true, List.getD_eq_getElem?_getD, List.getElem?_set_self harr, Option.getD_some]
  have hA : (h[s.arr]?.getD []) = h[s.arr] := by simp [List.getElem?_eq_getElem harr]
  simp only [List.getD_eq_getElem?_getD, hA] at hcap
  rw [hA]
  unfold writeAt
  have hl : (List.take (s.off + s.len) h[s.arr]).length = s.off + s.len := by
    simp only [List.length_take, List.length_cons] at *; omega
  rw [List.append_assoc, List.getElem?_append_right (by omega), hl]
  simp

/-- `x.Copy()`: a fresh array with the content of the slice -/
def Slice.copy (h : Heap α) (s : Slice) : Heap α × Slice :=
  (h ++ [s.read h], { arr := h.length, off := 0, len := s.len, cap := s.len })

/-- **whatever is done to a copy - in-place deletions, appends into its spare capacity, any
rewrite of its array - leaves every array that existed before as it was** -/
theorem edit_of_copy_preserves_reads (h : Heap α) (s : Slice) (a' : List α) (t : Slice) (ht : t.arr < h.length) :
    t.read ((s.copy h).1.set (s.copy h).2.arr a') = t.read h := by
  unfold Slice.copy Slice.read
  simp only [List.getD_eq_getElem?_getD]
  rw [List.getElem?_set_ne (by omega), List.getElem?_append_left ht]

/-- **an append into spare capacity overwrites what shares the array**: one backing array holding
two label sets one after the other, as an arena-allocating storage lays them out; appending one
element to the first changes what the second reads -/
theorem append_in_place_overwrites_neighbour :
    let h : Heap Nat := [[1, 2, 3, 4]]
    let first : Slice := { arr := 0, off := 0, len := 2, cap := 4 }
    let second : Slice := { arr := 0, off := 2, len := 2, cap := 2 }
    second.read h = [3, 4] ∧ second.read (first.append h [9]).1 = [9, 4] ∧
      second.read (first.capped.append h [9]).1 = [3, 4] := by
  decide

end PromqlVerif.Mem
