/-
Line protocol between the Go harness and the Lean driver: parsing of cases, printing of
results. Values travel as IEEE bit patterns.
-/
import PromqlVerif.Run
namespace PromqlVerif

inductive Tok | lp | rp | atom (s : String)
deriving Repr, Inhabited, DecidableEq

def tokenize (s : String) : List Tok :=
  let flush (cur : String) (acc : List Tok) : List Tok := if cur.isEmpty then acc else .atom cur :: acc
  let (acc, cur) := s.foldl (fun (st : List Tok × String) ch =>
    let (acc, cur) := st
    if ch == '(' then (.lp :: flush cur acc, "")
    else if ch == ')' then (.rp :: flush cur acc, "")
    else if ch == ' ' || ch == '\t' || ch == '\n' || ch == '\r' then (flush cur acc, "")
    else (acc, cur.push ch)) ([], "")
  (flush cur acc).reverse

inductive SExp | atom (s : String) | list (xs : List SExp)
deriving Repr, Inhabited

partial def parseSExps : List Tok → List SExp → Option (List SExp × List Tok)
  | [], acc => some (acc.reverse, [])
  | .rp :: rest, acc => some (acc.reverse, .rp :: rest)
  | .atom s :: rest, acc => parseSExps rest (.atom s :: acc)
  | .lp :: rest, acc =>
    match parseSExps rest [] with
    | some (inner, .rp :: rest') => parseSExps rest' (.list inner :: acc)
    | _ => none

def parseSExp (s : String) : Option SExp :=
  match parseSExps (tokenize s) [] with
  | some ([x], []) => some x
  | _ => none

def hexDigit (c : Char) : Option Nat :=
  if '0' ≤ c && c ≤ '9' then some (c.toNat - '0'.toNat)
  else if 'a' ≤ c && c ≤ 'f' then some (c.toNat - 'a'.toNat + 10)
  else none

def parseHex (s : String) : Option Nat :=
  if s.isEmpty then none
  else s.foldl (fun acc c => match acc, hexDigit c with
    | some a, some d => some (a * 16 + d)
    | _, _ => none) (some 0)

def parseBits (s : String) : Option Float := (parseHex s).map fun n => Float.ofBits n.toUInt64

def decS (s : String) : Option String :=
  if s.startsWith "s:" then some ((s.drop 2).toString) else none

def hexOf (n : Nat) : String :=
  let ds := Nat.toDigits 16 n
  String.ofList (List.replicate (16 - ds.length) '0' ++ ds)

def showBits (f : Float) : String := hexOf f.toBits.toNat

def parseMatcher : SExp → Option Matcher
  | .list [.atom "m", .atom ty, .atom n, .atom v] => do
    let ty ← match ty with
      | "eq" => some MatchTy.eq | "neq" => some .neq | "re" => some .re | "nre" => some .nre
      | _ => none
    some ⟨ty, ← decS n, ← decS v⟩
  | _ => none

def parseNames : List SExp → Option (List String)
  | [] => some []
  | .atom a :: rest => do
    let a ← decS a
    let r ← parseNames rest
    some (a :: r)
  | _ => none

def parseVSel : SExp → Option VSel
  | .list (.atom "vsel" :: .atom off :: .atom at' :: ms) => do
    let off ← off.toInt?
    let atTs ← if at' == "none" then some none else (at'.toInt?).map some
    let ms ← ms.mapM parseMatcher
    some { matchers := ms, origOffset := off, atTs := atTs }
  | .list [.atom "fsel", vs, .list (.atom "f" :: fs)] => do
    let s ← parseVSel vs
    let fs ← fs.mapM parseMatcher
    some { s with filters := some fs }
  | _ => none

partial def parseExpr : SExp → Option (Expr Float)
  | .list [.atom "num", .atom b] => (parseBits b).map .num
  | .list [.atom "str"] => some .str
  | e@(.list (.atom "vsel" :: _)) => (parseVSel e).map .vsel
  | e@(.list (.atom "fsel" :: _)) => (parseVSel e).map .vsel
  | .list [.atom "msel", .atom r, vs] => do
    let r ← r.toInt?
    let s ← parseVSel vs
    some (.msel s r)
  | .list [.atom "subq", e] => (parseExpr e).map .subq
  | .list (.atom "call" :: .atom fn :: args) => do
    let fn ← decS fn
    let args ← args.mapM parseExpr
    some (.call fn args)
  | .list [.atom "agg", .atom op, .atom w, .list (.atom "g" :: g), p, e] => do
    let op ← decS op
    let g ← parseNames g
    let e ← parseExpr e
    match p with
    | .atom "none" => some (.agg op (w == "1") g e)
    | p => do
      let p ← parseExpr p
      some (.aggP op (w == "1") g p e)
  | .list [.atom "bin", .atom op, .atom b, .atom card, .atom on, .list (.atom "l" :: ls),
      .list (.atom "i" :: is), .atom _, l, r] => do
    let op ← decS op
    let card ← match card with
      | "11" => some Card.oneToOne | "n1" => some .manyToOne | "1n" => some .oneToMany
      | "nn" => some .manyToMany | _ => none
    let ls ← parseNames ls
    let is ← parseNames is
    let l ← parseExpr l
    let r ← parseExpr r
    some (.bin op (b == "1") ⟨card, on == "1", ls, is⟩ l r)
  | .list [.atom "neg", e] => (parseExpr e).map .neg
  | .list [.atom "pos", e] => (parseExpr e).map .pos
  | .list [.atom "paren", e] => (parseExpr e).map .paren
  | .list [.atom "si", e] => (parseExpr e).map .stepInv
  | .list (.atom "coalesce" :: es) => (es.mapM parseExpr).map .coalesce
  | _ => none

/-- `series a=s:x b=s:y | 1000:bits 2000:stale` -/
def parseSeries (toks : List String) : Option (Series Float) := do
  let (ls, ps) := toks.span (· != "|")
  let ps := ps.drop 1
  let labels ← ls.mapM fun kv =>
    match kv.splitOn "=" with
    | [n, v] => (decS v).map fun v => (⟨n, v⟩ : Label)
    | _ => none
  let samples ← ps.mapM fun p =>
    match p.splitOn ":" with
    | [t, "stale"] => (t.toInt?).map fun t => (⟨t, .stale⟩ : Sample Float)
    | [t, b] => do
      let t ← t.toInt?
      let f ← parseBits b
      some ⟨t, .num f⟩
    | _ => none
  some ⟨labels, samples⟩

def parseOpts (toks : List String) : List (String × String) :=
  toks.filterMap fun kv =>
    match kv.splitOn "=" with
    | [k, v] => some (k, v)
    | _ => none

def optGet (o : List (String × String)) (k : String) : Option String :=
  (o.find? (·.1 == k)).map (·.2)

def optInt (o : List (String × String)) (k : String) : Option Int :=
  (optGet o k).bind String.toInt?

/-! ### printing -/

def showLabels (ls : Labels) : String := ls.key

def showPts (ps : List (Int × Float)) : String :=
  String.intercalate "," (ps.map fun p => toString p.1 ++ ":" ++ showBits p.2)

def showResult : QResult Float → String
  | .err e => "err " ++ e.name
  | .scalar t v => "scalar ;@" ++ toString t ++ ":" ++ showBits v
  | .vector t v =>
    "vector" ++ String.join (v.map fun x => " ;" ++ showLabels x.1 ++ "@" ++ toString t ++ ":" ++ showBits x.2)
  | .matrix ss =>
    "matrix" ++ String.join (ss.map fun s => " ;" ++ showLabels s.1 ++ "@" ++ showPts s.2)

end PromqlVerif
