/-
The vector pool and the result assembly of `Exec` (engine/engine.go, execution/model/pool.go), as
far as ownership of memory goes: operators take buffers from the pool and fill them; `Exec` copies
the values of a step vector into point slices it allocated itself and then returns the buffer to
the pool, from where the next `GetStepVector` - of this query or, the pool being per operator tree,
of a later batch - hands it out again to be overwritten. C20 says a returned result is never
altered afterwards; in this model: the values the assembled result reads never change under any
sequence of pool operations, because the arrays it points into are never in the pool or in an
operator's hands. The same machine with the copy replaced by a reference shows what breaks.
-/
import PromqlVerif.Slices
namespace PromqlVerif.PoolM
open Mem

variable {α : Type}

structure St (α : Type) where
  heap : Heap α
  /-- buffers in the pool -/
  free : List Nat
  /-- buffers handed out: in an operator's hands or inside a step vector on its way to `Exec` -/
  held : List Nat
  /-- arrays `Exec` allocated for the result -/
  own : List Nat
  /-- the assembled result -/
  result : List Slice

inductive Op (α : Type) where
  /-- an operator takes a buffer: from the pool, or a new one if the pool is empty -/
  | get
  /-- an operator (over)writes a buffer it holds -/
  | write (a : Nat) (xs : List α)
  /-- `Exec` copies the content of buffer `a` into an array of its own and keeps that -/
  | copyOut (a : Nat)
  /-- `Exec` returns buffer `a` to the pool -/
  | put (a : Nat)
  /-- (not what the code does) `Exec` keeps a reference to buffer `a` itself -/
  | aliasOut (a : Nat)

def step (s : St α) : Op α → St α
  | .get =>
    match s.free with
    | a :: rest => { s with free := rest, held := a :: s.held }
    | [] => { s with heap := s.heap ++ [[]], held := s.heap.length :: s.held }
  | .write a xs => if s.held.contains a then { s with heap := s.heap.set a xs } else s
  | .copyOut a =>
    let v := s.heap.getD a []
    { s with heap := s.heap ++ [v], own := s.heap.length :: s.own,
             result := s.result ++ [{ arr := s.heap.length, off := 0, len := v.length, cap := v.length }] }
  | .put a => if s.held.contains a then { s with held := s.held.erase a, free := a :: s.free } else s
  | .aliasOut a =>
    let v := s.heap.getD a []
    { s with result := s.result ++ [{ arr := a, off := 0, len := v.length, cap := v.length }] }

def run (s : St α) (ops : List (Op α)) : St α := ops.foldl step s

/-- what the caller sees in the result -/
def values (s : St α) : List (List α) := s.result.map (·.read s.heap)

def Op.isAlias : Op α → Bool
  | .aliasOut _ => true
  | _ => false

/-- the result points into `Exec`'s own arrays only, and those are never pooled or handed out -/
structure Inv (s : St α) : Prop where
  res : ∀ r ∈ s.result, r.arr ∈ s.own
  ownLt : ∀ a ∈ s.own, a < s.heap.length
  heldLt : ∀ a ∈ s.held, a < s.heap.length
  freeLt : ∀ a ∈ s.free, a < s.heap.length
  notHeld : ∀ a ∈ s.own, a ∉ s.held
  notFree : ∀ a ∈ s.own, a ∉ s.free

def init : St α := { heap := [], free := [], held := [], own := [], result := [] }

theorem inv_init : Inv (init : St α) :=
  ⟨by simp [init], by simp [init], by simp [init], by simp [init], by simp [init], by simp [init]⟩

theorem read_append_heap (h : Heap α) (x : List α) (r : Slice) (hr : r.arr < h.length) :
    r.read (h ++ [x]) = r.read h := by
  unfold Slice.read
  rw [getD_append_left h x r.arr hr]

theorem read_set_other (h : Heap α) (a : Nat) (xs : List α) (r : Slice) (hne : r.arr ≠ a) :
    r.read (h.set a xs) = r.read h := by
  unfold Slice.read
  simp only [List.getD_eq_getElem?_getD]
  rw [List.getElem?_set_ne (fun hh => hne hh.symm)]

/-- one step of the machine as the code runs it (no `aliasOut`): the invariant is kept and what the
result read before it still reads -/
theorem step_keeps (s : St α) (hi : Inv s) (op : Op α) (hop : op.isAlias = false) :
    Inv (step s op) ∧ (values (step s op)).take (values s).length = values s := by
  cases op with
  | aliasOut a => cases hop
  | get =>
    unfold step
    cases hf : s.free with
    | nil =>
      simp only
      refine ⟨⟨hi.res, ?_, ?_, ?_, ?_, (fun a ha hh => hi.notFree a ha (by rw [hf]; exact hh))⟩, ?_⟩
      · intro a ha; simp only [List.length_append, List.length_cons, List.length_nil]; have := hi.ownLt a ha; omega
      · intro a ha
        simp only [List.length_append, List.length_cons, List.length_nil]
        rcases List.mem_cons.mp ha with rfl | ha'
        · omega
        · have := hi.heldLt a ha'; omega
      · intro a ha; exact hi.freeLt a (by rw [hf]; exact ha) |> fun h => by simp only [List.length_append, List.length_cons, List.length_nil]; omega
      · intro a ha hh
        rcases List.mem_cons.mp hh with rfl | hh'
        · exact absurd (hi.ownLt _ ha) (by omega)
        · exact hi.notHeld a ha hh'
      · unfold values
        simp only [List.length_map]
        rw [List.take_of_length_le (by simp)]
        apply List.map_congr_left
        intro r hr
        exact read_append_heap _ _ r (hi.ownLt _ (hi.res r hr))
    | cons b rest =>
      simp only
      refine ⟨⟨hi.res, hi.ownLt, ?_, ?_, ?_, ?_⟩, ?_⟩
      · intro a ha
        rcases List.mem_cons.mp ha with rfl | ha'
        · exact hi.freeLt _ (by rw [hf]; exact List.mem_cons_self)
        · exact hi.heldLt a ha'
      · intro a ha; exact hi.freeLt a (by rw [hf]; exact List.mem_cons_of_mem _ ha)
      · intro a ha hh
        rcases List.mem_cons.mp hh with rfl | hh'
        · exact hi.notFree _ ha (by rw [hf]; exact List.mem_cons_self)
        · exact hi.notHeld a ha hh'
      · intro a ha hh; exact hi.notFree a ha (by rw [hf]; exact List.mem_cons_of_mem _ hh)
      · unfold values; simp only [List.length_map]; exact List.take_of_length_le (by simp)
  | write a xs =>
    unfold step
    by_cases hh : s.held.contains a = true
    · simp only [hh, if_true]
      have hmem : a ∈ s.held := by simpa using hh
      refine ⟨⟨hi.res, ?_, ?_, ?_, hi.notHeld, hi.notFree⟩, ?_⟩
      · intro b hb; simp only [List.length_set]; exact hi.ownLt b hb
      · intro b hb; simp only [List.length_set]; exact hi.heldLt b hb
      · intro b hb; simp only [List.length_set]; exact hi.freeLt b hb
      · unfold values
        simp only [List.length_map]
        rw [List.take_of_length_le (by simp)]
        apply List.map_congr_left
        intro r hr
        apply read_set_other
        intro heq
        exact hi.notHeld _ (hi.res r hr) (heq ▸ hmem)
    · simp only [hh, Bool.false_eq_true, if_false]
      exact ⟨hi, by unfold values; simp only [List.length_map]; exact List.take_of_length_le (by simp)⟩
  | copyOut a =>
    unfold step
    simp only
    refine ⟨⟨?_, ?_, ?_, ?_, ?_, ?_⟩, ?_⟩
    · intro r hr
      rcases List.mem_append.mp hr with h1 | h1
      · exact List.mem_cons_of_mem _ (hi.res r h1)
      · simp only [List.mem_singleton] at h1; subst h1; exact List.mem_cons_self
    · intro b hb
      simp only [List.length_append, List.length_cons, List.length_nil]
      rcases List.mem_cons.mp hb with rfl | hb'
      · omega
      · have := hi.ownLt b hb'; omega
    · intro b hb; simp only [List.length_append, List.length_cons, List.length_nil]; have := hi.heldLt b hb; omega
    · intro b hb; simp only [List.length_append, List.length_cons, List.length_nil]; have := hi.freeLt b hb; omega
    · intro b hb hh
      rcases List.mem_cons.mp hb with rfl | hb'
      · exact absurd (hi.heldLt _ hh) (by omega)
      · exact hi.notHeld b hb' hh
    · intro b hb hh
      rcases List.mem_cons.mp hb with rfl | hb'
      · exact absurd (hi.freeLt _ hh) (by omega)
      · exact hi.notFree b hb' hh
    · unfold values
      simp only [List.map_append, List.length_map]
      rw [List.take_left' (by simp)]
      apply List.map_congr_left
      intro r hr
      exact read_append_heap _ _ r (hi.ownLt _ (hi.res r hr))
  | put a =>
    unfold step
    by_cases hh : s.held.contains a = true
    · simp only [hh, if_true]
      have hmem : a ∈ s.held := by simpa using hh
      refine ⟨⟨hi.res, hi.ownLt, ?_, ?_, ?_, ?_⟩, by unfold values; simp only [List.length_map]; exact List.take_of_length_le (by simp)⟩
      · intro b hb; exact hi.heldLt b (List.mem_of_mem_erase hb)
      · intro b hb
        rcases List.mem_cons.mp hb with rfl | hb'
        · exact hi.heldLt _ hmem
        · exact hi.freeLt b hb'
      · intro b hb hh'; exact hi.notHeld b hb (List.mem_of_mem_erase hh')
      · intro b hb hh'
        rcases List.mem_cons.mp hh' with rfl | h2
        · exact hi.notHeld _ hb hmem
        · exact hi.notFree b hb h2
    · simp only [hh, Bool.false_eq_true, if_false]
      exact ⟨hi, by unfold values; simp only [List.length_map]; exact List.take_of_length_le (by simp)⟩

/-- **whatever the operators and the pool do afterwards, what the result read stays what it
reads**: for every sequence of pool operations as the code performs them, the values of the
result before are a prefix of the values after (later `copyOut`s only add to it) -/
theorem result_is_stable (s : St α) (hi : Inv s) (ops : List (Op α)) (hops : ∀ op ∈ ops, op.isAlias = false) :
    Inv (run s ops) ∧ (values (run s ops)).take (values s).length = values s := by
  induction ops generalizing s with
  | nil => exact ⟨hi, by simp [run]⟩
  | cons op rest ih =>
    obtain ⟨hi1, h1⟩ := step_keeps s hi op (hops op List.mem_cons_self)
    obtain ⟨hi2, h2⟩ := ih (step s op) hi1 (fun o ho => hops o (List.mem_cons_of_mem _ ho))
    refine ⟨hi2, ?_⟩
    show (values (run (step s op) rest)).take (values s).length = values s
    have hle : (values s).length ≤ (values (step s op)).length := by
      have := congrArg List.length h1
      simp only [List.length_take] at this
      omega
    have hstep : (values (run (step s op) rest)).take (values s).length
        = ((values (run (step s op) rest)).take (values (step s op)).length).take (values s).length := by
      rw [List.take_take, Nat.min_eq_left hle]
    rw [hstep, h2, h1]

/-- with a reference instead of a copy the same operations change the result: the buffer goes back
to the pool, the next `get` hands it out, the next write shows through -/
theorem aliased_result_changes :
    let s1 := run (init : St Nat) [.get, .write 0 [1, 2], .aliasOut 0]
    let s2 := run s1 [.put 0, .get, .write 0 [7, 8]]
    values s1 = [[1, 2]] ∧ values s2 = [[7, 8]] := by
  decide

/-- ... and with the copy they do not -/
example :
    let s1 := run (init : St Nat) [.get, .write 0 [1, 2], .copyOut 0]
    let s2 := run s1 [.put 0, .get, .write 0 [7, 8]]
    values s1 = [[1, 2]] ∧ values s2 = [[1, 2]] := by
  decide

end PromqlVerif.PoolM
