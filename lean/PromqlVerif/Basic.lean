/-
Basic domains: labels, matchers, samples, series, the evaluation grid.
Core Lean only (the driver links as a `lean_exe`).
-/
namespace PromqlVerif

structure Label where
  name : String
  value : String
deriving DecidableEq, Repr, Inhabited

/-- A label set. Well-formed label sets are strictly sorted by name and have no empty value. -/
abbrev Labels := List Label

def metricName : String := "__name__"

namespace Labels

def get (ls : Labels) (n : String) : String :=
  match ls.find? (fun l => l.name == n) with
  | some l => l.value
  | none => ""

def del (ls : Labels) (names : List String) : Labels :=
  ls.filter (fun l => !names.contains l.name)

def keep (ls : Labels) (names : List String) : Labels :=
  ls.filter (fun l => names.contains l.name)

def dropName (ls : Labels) : Labels :=
  ls.filter (fun l => l.name != metricName)

/-- insertion keeping the list sorted by name, replacing an existing label of that name -/
def insertSorted (l : Label) : Labels → Labels
  | [] => [l]
  | x :: xs =>
    if l.name < x.name then l :: x :: xs
    else if l.name == x.name then l :: xs
    else x :: insertSorted l xs

/-- `labels.Builder.Set` followed by `Labels()`: an empty value deletes. -/
def set (ls : Labels) (n v : String) : Labels :=
  if v == "" then ls.filter (fun l => l.name != n) else insertSorted ⟨n, v⟩ ls

def key (ls : Labels) : String :=
  String.intercalate "," (ls.map fun l => l.name ++ "=" ++ l.value)

/-- strictly sorted by name -/
def sortedBy : Labels → Bool
  | [] => true
  | [_] => true
  | x :: y :: rest => x.name < y.name && sortedBy (y :: rest)

def wf (ls : Labels) : Bool := sortedBy ls && ls.all (fun l => l.value != "")

end Labels

inductive MatchTy | eq | neq | re | nre
deriving DecidableEq, Repr, Inhabited

structure Matcher where
  ty : MatchTy
  name : String
  value : String
deriving DecidableEq, Repr, Inhabited

/-- The anchored regex engine is a parameter: a finite table of (pattern, value, result). -/
abbrev ReTab := List (String × String × Bool)

def reLookup? (tab : ReTab) (pat val : String) : Option Bool :=
  (tab.find? (fun e => e.1 == pat && e.2.1 == val)).map (·.2.2)

def reLookup (tab : ReTab) (pat val : String) : Bool := (reLookup? tab pat val).getD false

/-- A matcher is evaluated on the value of its label, an absent label reading as `""`. -/
def Matcher.sat (tab : ReTab) (m : Matcher) (ls : Labels) : Bool :=
  let v := ls.get m.name
  match m.ty with
  | .eq => v == m.value
  | .neq => v != m.value
  | .re => reLookup tab m.value v
  | .nre => !reLookup tab m.value v

def matchAll (tab : ReTab) (ms : List Matcher) (ls : Labels) : Bool := ms.all (·.sat tab ls)

/-- first occurrences, in order -/
def dedup {α : Type} [BEq α] : List α → List α
  | [] => []
  | x :: xs => x :: (dedup xs).filter (fun y => !(y == x))

/-- What the storage holds: a float or Prometheus' staleness marker. -/
inductive SVal (V : Type) where
  | stale
  | num (v : V)
deriving Repr, Inhabited

structure Sample (V : Type) where
  t : Int
  v : SVal V
deriving Repr, Inhabited

structure Series (V : Type) where
  labels : Labels
  samples : List (Sample V)
deriving Repr, Inhabited

/-- The evaluation grid `for ts := start; ts <= stop; ts += step` with `fuel` iterations at most. -/
def walk (stop step : Int) : Nat → Int → List Int
  | 0, _ => []
  | fuel + 1, t => if t ≤ stop then t :: walk stop step fuel (t + step) else []

structure Window where
  start : Int
  stop : Int
  step : Int   -- 0: instant query at `start`
deriving Repr, Inhabited, DecidableEq

def Window.numSteps (w : Window) : Nat :=
  if w.step ≤ 0 then 1 else if w.stop < w.start then 0 else ((w.stop - w.start) / w.step).toNat + 1

def Window.grid (w : Window) : List Int :=
  if w.step ≤ 0 then [w.start] else walk w.stop w.step w.numSteps w.start

end PromqlVerif
