/-
The value algebra: the operations the engines use on sample values, as a class without laws.
Laws are separate structures and appear as hypotheses of exactly the theorems that need them.
Instances: IEEE `Float` (driver) and `Int` (exact, lawful; witnesses that the law hypotheses
are satisfiable and lets counterexample theorems be closed by `decide`).
-/
import PromqlVerif.Basic
namespace PromqlVerif

class Val (V : Type) where
  add : V → V → V
  sub : V → V → V
  mul : V → V → V
  div : V → V → V
  mod : V → V → V
  pow : V → V → V
  atan2 : V → V → V
  neg : V → V
  abs : V → V
  floor : V → V
  sqrt : V → V
  /-- IEEE `<` -/
  lt : V → V → Bool
  /-- IEEE `==` -/
  eq : V → V → Bool
  isNaN : V → Bool
  isInf : V → Bool
  ofInt : Int → V
  nan : V
  pinf : V
  ninf : V
  pi : V
  /-- named unary math functions (`exp`, `ln`, `sin`, ...), uninterpreted in the proofs -/
  fn : String → V → V
  /-- Go's `int64(f)` for an `f` that is convertible -/
  toInt : V → Int
  /-- Prometheus' `convertibleToInt64` -/
  inInt64 : V → Bool

namespace Val
variable {V : Type} [Val V]

def zero : V := ofInt 0
def one : V := ofInt 1
def le (a b : V) : Bool := lt a b || eq a b
def gt (a b : V) : Bool := lt b a
def ge (a b : V) : Bool := lt b a || eq a b
def ne (a b : V) : Bool := !eq a b
def ofBool (b : Bool) : V := if b then one else zero
/-- Go `math.Max` (NaN-propagating; signed zeros identified) -/
def maxGo (a b : V) : V :=
  if eq a (pinf : V) || eq b (pinf : V) then pinf
  else if isNaN a || isNaN b then nan else if lt a b then b else a
/-- Go `math.Min` -/
def minGo (a b : V) : V :=
  if eq a (ninf : V) || eq b (ninf : V) then ninf
  else if isNaN a || isNaN b then nan else if lt b a then b else a
/-- ordering used by `sort.Float64s` and Prometheus' value heaps: NaN first -/
def ltNaNFirst (a b : V) : Bool := (isNaN a && !isNaN b) || lt a b

end Val

/-! ### IEEE instance -/

namespace FloatImpl

/-- exact `fmod` (C / Go `math.Mod`) by long division on the exponents -/
def fmodPos (x y : Float) : Nat → Float
  | 0 => x
  | fuel + 1 =>
    if x < y then x
    else
      let ex := x.frExp.2
      let ey := y.frExp.2
      let t := y.scaleB (ex - ey)
      let t := if t > x then t.scaleB (-1) else t
      fmodPos (x - t) y fuel

def fmod (x y : Float) : Float :=
  if x.isNaN || y.isNaN || x.isInf || y == 0 then (0.0 / 0.0)
  else if y.isInf then x
  else
    let r := fmodPos x.abs y.abs 2200
    if x < 0 then -r else r

def fn (name : String) (v : Float) : Float :=
  match name with
  | "abs" => v.abs
  | "ceil" => v.ceil
  | "floor" => v.floor
  | "exp" => v.exp
  | "sqrt" => v.sqrt
  | "ln" => v.log
  | "log2" => v.log2
  | "log10" => v.log10
  | "sin" => v.sin
  | "cos" => v.cos
  | "tan" => v.tan
  | "asin" => v.asin
  | "acos" => v.acos
  | "atan" => v.atan
  | "sinh" => v.sinh
  | "cosh" => v.cosh
  | "tanh" => v.tanh
  | "asinh" => v.asinh
  | "acosh" => v.acosh
  | "atanh" => v.atanh
  | "rad" => v * 3.141592653589793 / 180
  | "deg" => v * 180 / 3.141592653589793
  | _ => (0.0 / 0.0)

end FloatImpl

instance : Val Float where
  add := (· + ·)
  sub := (· - ·)
  mul := (· * ·)
  div := (· / ·)
  mod := FloatImpl.fmod
  pow := Float.pow
  atan2 := Float.atan2
  neg := fun x => -x
  abs := Float.abs
  floor := Float.floor
  sqrt := Float.sqrt
  lt := fun a b => a < b
  eq := fun a b => a == b
  isNaN := Float.isNaN
  isInf := Float.isInf
  ofInt := Float.ofInt
  nan := 0.0 / 0.0
  pinf := 1.0 / 0.0
  ninf := -1.0 / 0.0
  pi := 3.141592653589793
  fn := FloatImpl.fn
  toInt := fun v => v.toInt64.toInt
  inInt64 := fun v => v ≤ 9223372036854775807.0 && v ≥ -9223372036854775808.0

/-! ### exact instance -/

instance : Val Int where
  add := (· + ·)
  sub := (· - ·)
  mul := (· * ·)
  div := fun a b => a / b
  mod := fun a b => Int.emod a b
  pow := fun a b => a ^ b.toNat
  atan2 := fun _ _ => 0
  neg := fun x => -x
  abs := fun x => (x.natAbs : Int)
  floor := id
  sqrt := fun x => (Nat.sqrt x.toNat : Int)
  lt := fun a b => decide (a < b)
  eq := fun a b => decide (a = b)
  isNaN := fun _ => false
  isInf := fun _ => false
  ofInt := id
  nan := 0
  pinf := 0
  ninf := 0
  pi := 3
  fn := fun _ v => v
  toInt := id
  inInt64 := fun _ => true

end PromqlVerif
