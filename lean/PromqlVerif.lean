import PromqlVerif.Basic
import PromqlVerif.Val
import PromqlVerif.Expr
import PromqlVerif.Kernels
import PromqlVerif.Sem
import PromqlVerif.Run
import PromqlVerif.Proto
import PromqlVerif.Eng
