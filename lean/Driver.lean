import PromqlVerif.Proto
import PromqlVerif.Eng
open PromqlVerif

structure DState where
  opts : List (String × String) := []
  re : ReTab := []
  pf : List (String × Option Float) := []
  series : List (Series Float) := []
  query : Option (Expr Float) := none
  bad : Bool := false

def engineQuirks : Quirks := { }

def mkCtx (s : DState) (q : Quirks) : Option (Ctx Float × Window) := do
  let start ← optInt s.opts "start"
  let stop ← optInt s.opts "end"
  let step ← optInt s.opts "step"
  let lookback ← optInt s.opts "lookback"
  some ({ st := s.series, lookback := lookback, start := start, re := s.re, pf := s.pf, q := q },
        ⟨start, stop, step⟩)

def evalView (s : DState) (view : String) : String :=
  if s.bad then "bad-op"
  else
    match s.query with
    | none => "bad-op"
    | some e =>
      match view with
      | "spec" =>
        match mkCtx s Quirks.none with
        | some (c, w) => showResult (runQuery c w e)
        | none => "bad-op"
      | "model" =>
        match mkCtx s engineQuirks with
        | some (c, w) => showResult (engRun c w e)
        | none => "bad-op"
      | "ties" =>
        match mkCtx s Quirks.none with
        | some (c, w) => if hasTie c w.grid e then "1" else "0"
        | none => "bad-op"
      | _ => "bad-op"

def stepLine (s : DState) (line : String) : DState × Option String :=
  let toks := (line.splitOn " ").filter (· != "")
  match toks with
  | [] => (s, none)
  | "case" :: _ => ({}, none)
  | "opt" :: rest => ({ s with opts := parseOpts rest }, none)
  | ["re", p, v, r] =>
    match decS p, decS v with
    | some p, some v => ({ s with re := (p, v, r == "1") :: s.re }, none)
    | _, _ => ({ s with bad := true }, none)
  | ["pf", k, v] =>
    match decS k with
    | some k =>
      if v == "bad" then ({ s with pf := (k, none) :: s.pf }, none)
      else match parseBits v with
        | some f => ({ s with pf := (k, some f) :: s.pf }, none)
        | none => ({ s with bad := true }, none)
    | none => ({ s with bad := true }, none)
  | "series" :: rest =>
    match parseSeries rest with
    | some sr => ({ s with series := s.series ++ [sr] }, none)
    | none => ({ s with bad := true }, none)
  | "query" :: _ =>
    match parseSExp ((line.drop 6).toString) with
    | some sx =>
      match parseExpr sx with
      | some e => ({ s with query := some e }, none)
      | none => ({ s with bad := true }, none)
    | none => ({ s with bad := true }, none)
  | ["eval", view] => (s, some (view ++ " " ++ evalView s view))
  | ["end"] => ({}, some "end")
  | _ => ({ s with bad := true }, none)

partial def loop (hin hout : IO.FS.Stream) (s : DState) : IO Unit := do
  let line ← hin.getLine
  if line.isEmpty then return ()
  let line := (line.trimAsciiEnd).toString
  let (s', out) := stepLine s line
  match out with
  | some o =>
    hout.putStrLn o
    if o == "end" then hout.flush
  | none => pure ()
  loop hin hout s'

def main : IO Unit := do
  loop (← IO.getStdin) (← IO.getStdout) {}
