import PromqlVerif.Proto
import PromqlVerif.Eng
import PromqlVerif.Iter
import PromqlVerif.Table
import PromqlVerif.Acc
import PromqlVerif.Coalesce
import PromqlVerif.Dist
import PromqlVerif.Hints
import PromqlVerif.Slices
import PromqlVerif.Remote
import PromqlVerif.Streams
import PromqlVerif.Ops
open PromqlVerif

structure DState where
  opts : List (String × String) := []
  re : ReTab := []
  pf : List (String × Option Float) := []
  series : List (Series Float) := []
  query : Option (Expr Float) := none
  bad : Bool := false

def engineQuirks : Quirks := { }

def mkCtx (s : DState) (q : Quirks) : Option (Ctx Float × Window) := do
  let start ← optInt s.opts "start"
  let stop ← optInt s.opts "end"
  let step ← optInt s.opts "step"
  let lookback ← optInt s.opts "lookback"
  some ({ st := s.series, lookback := lookback, start := start, re := s.re, pf := s.pf, q := q },
        ⟨start, stop, step⟩)

def evalView (s : DState) (view : String) : String :=
  if s.bad then "bad-op"
  else
    match s.query with
    | none => "bad-op"
    | some e =>
      match view with
      | "spec" =>
        match mkCtx s Quirks.none with
        | some (c, w) => showResult (runQuery c w e)
        | none => "bad-op"
      | "model" =>
        match mkCtx s engineQuirks with
        | some (c, w) => showResult (engRun c w e)
        | none => "bad-op"
      | "native" =>
        -- does plan construction succeed (no fallback)?
        match mkCtx s engineQuirks with
        | some (c, _) =>
          match engOp c e with
          | .ok _ => "1"
          | .error _ => "0"
        | none => "bad-op"
      | "ties" =>
        match mkCtx s Quirks.none with
        | some (c, w) => if hasTie c w.grid e || joinTie c false e || hasTieEng c w.grid e then "1" else "0"
        | none => "bad-op"
      | "tiesp" =>
        -- ties when the order of the series is not the storage's (permuted, sharded, remote)
        match mkCtx s Quirks.none with
        | some (c, w) => if hasTie c w.grid e || joinTie c true e || hasTieEng c w.grid e then "1" else "0"
        | none => "bad-op"
      | "siteok" => if siteOk e then "1" else "0"
      | "hints" =>
        match optInt s.opts "step" with
        | some step => String.intercalate ";" ((engHints (Hint.start step) e).map showHint)
        | none => "bad-op"
      | v =>
        if v.startsWith "distplan:" then
          match (v.drop 9).toString.toNat? with
          | some n => distShape n e
          | none => "bad-op"
        else "bad-op"

def showOptPt : Option (Int × Float) → String
  | none => "-"
  | some (t, v) => toString t ++ ":" ++ showBits v

/-- kernel-level views: the iterator model and the declarative selection on the first series -/
def kernelView (s : DState) (what : String) (args : List String) : String :=
  match s.series, what, args with
  | sr :: _, "selectpoint", [lb, refs] =>
    match lb.toInt?, (refs.splitOn ",").mapM String.toInt? with
    | some lb, some refs =>
      let it := selectPointsM lb (Memo.new sr.samples) refs
      let sp := refs.map fun r => selectSample lb r sr.samples
      "it=" ++ String.intercalate "," (it.map showOptPt) ++ " spec=" ++ String.intercalate "," (sp.map showOptPt)
    | _, _ => "bad-op"
  | sr :: _, "selectpoints", [rg, refs] =>
    match rg.toInt?, (refs.splitOn ",").mapM String.toInt? with
    | some rg, some refs =>
      let sh := fun (ps : List (Int × Float)) => String.intercalate "+" (ps.map fun p => showOptPt (some p))
      let it := selectRangesB rg (Buf.new sr.samples) [] refs
      let sp := refs.map fun r => windowPoints (r - rg) r sr.samples
      "it=" ++ String.intercalate "," (it.map sh) ++ " spec=" ++ String.intercalate "," (sp.map sh)
    | _, _ => "bad-op"
  | sr :: _, "matrixscan", [rg, st, r0, n] =>
    match rg.toInt?, st.toInt?, r0.toInt?, n.toNat? with
    | some rg, some st, some r0, some n =>
      let sh := fun (ps : List (Int × Float)) => String.intercalate "+" (ps.map fun p => showOptPt (some p))
      let refs := (List.range n).map fun (k : Nat) => r0 + (k : Int) * st
      let it := selectRangesM rg st rg (Buf.new sr.samples) [] refs
      let sp := refs.map fun r => windowPoints (r - rg) r sr.samples
      "it=" ++ String.intercalate "," (it.map sh) ++ " spec=" ++ String.intercalate "," (sp.map sh)
    | _, _, _, _ => "bad-op"
  | _, _, _ => "bad-op"

def parseInts (s : String) : Option (List Int) :=
  if s == "-" || s.isEmpty then some [] else (s.splitOn ",").mapM String.toInt?

def showInts (xs : List Int) : String :=
  if xs.isEmpty then "-" else String.intercalate "," (xs.map toString)

/-- `Slices.lean` against real Go slices: heap `a,b;c,d`, watched slices `arr:off:len:cap;..`,
operations `a:k:xs` (append), `c:k:xs` (append through the capacity-capped slice), `y:k` (copy);
answers what every watched slice reads afterwards -/
def slicesView (args : List String) : String :=
  match args with
  | [heapS, wS, opsS] =>
    let heap? := (heapS.splitOn ";").mapM parseInts
    let ws? := (wS.splitOn ";").mapM fun w =>
      match (w.splitOn ":").mapM String.toNat? with
      | some [a, o, l, c] => some ({ arr := a, off := o, len := l, cap := c } : Mem.Slice)
      | _ => none
    match heap?, ws? with
    | some heap, some ws =>
      let step := fun (st : Option (Mem.Heap Int × List Mem.Slice)) (op : String) =>
        match st with
        | none => none
        | some (h, ws) =>
          match op.splitOn ":" with
          | ["a", k, xs] =>
            match k.toNat?, parseInts xs with
            | some k, some xs =>
              let r := (ws.getD k default).append h xs
              some (r.1, ws.set k r.2)
            | _, _ => none
          | ["c", k, xs] =>
            match k.toNat?, parseInts xs with
            | some k, some xs =>
              let r := (ws.getD k default).capped.append h xs
              some (r.1, ws.set k r.2)
            | _, _ => none
          | ["y", k] =>
            match k.toNat? with
            | some k =>
              let r := (ws.getD k default).copy h
              some (r.1, ws.set k r.2)
            | none => none
          | _ => none
      match (opsS.splitOn ";").foldl step (some (heap, ws)) with
      | some (h, ws) => String.intercalate "|" (ws.map fun w => showInts (w.read h))
      | none => "bad-op"
    | _, _ => "bad-op"
  | _ => "bad-op"

/-- `id:bits,id:bits` -/
def parseIdVec (s : String) : Option (IdVec Float) :=
  if s.isEmpty then some []
  else (s.splitOn ",").mapM fun p =>
    match p.splitOn ":" with
    | [i, b] => do
      let i ← i.toNat?
      let f ← parseBits b
      some (i, f)
    | _ => none

def showStepRes : Except Err (IdVec Float) → String
  | .error _ => "err"
  | .ok out => String.intercalate "+" (out.map fun p => toString p.1 ++ ":" ++ showBits p.2)

/-- `kernel table <card> <op> <bool> <n> h<high csv> l<low ; .> <steps>`: the tagged table of
`binary/table.go` against a fresh table per step -/
def tableView (args : List String) : String :=
  match args with
  | [card, op, bl, n, high, low, steps] =>
    let r : Option String := do
      let card ← card.toNat?
      let card : Card := match card with | 0 => .oneToOne | 1 => .manyToOne | _ => .oneToMany
      let op ← decS op
      let n ← n.toNat?
      let high ← (((high.drop 1).toString.splitOn ",").filter (· != "")).mapM fun h =>
        if h == "-1" then some (none : Option Nat) else (h.toNat?).map some
      let lowS := (low.drop 1).toString
      let low ← (if lowS.isEmpty then some [] else
        (lowS.splitOn ";").mapM fun l =>
          ((l.splitOn ".").filter (· != "")).mapM String.toNat?)
      let steps ← (steps.splitOn "#").mapM fun st =>
        match st.splitOn "/" with
        | [t, l, r] => do
          let t ← t.toInt?
          let l ← parseIdVec l
          let r ← parseIdVec r
          some (t, l, r)
        | _ => none
      let j : Join := { outputs := List.replicate n [], highIdx := high, lowIdx := low }
      let tag := tagRun op (bl == "1") card j (Tbl.new n) steps
      let fresh := freshRunD op (bl == "1") card j steps
      some ("tag=" ++ String.intercalate "#" (tag.map showStepRes) ++ " fresh=" ++
        String.intercalate "#" (fresh.map showStepRes))
    r.getD "bad-op"
  | _ => "bad-op"

/-- `kernel acc <op> <arg/v,v,..>#...`: one accumulator reused over the steps, against the
per-step reduction -/
def accView (args : List String) : String :=
  match args with
  | [op, steps] =>
    let r : Option String := do
      let op ← decS op
      let steps ← (steps.splitOn "#").mapM fun st =>
        match st.splitOn "/" with
        | [a, vs] => do
          let a ← parseBits a
          let vs ← (if vs.isEmpty then some [] else (vs.splitOn ",").mapM parseBits)
          some (a, vs)
        | _ => none
      let sh := fun (o : Option Float) => match o with | none => "-" | some v => showBits v
      let init : Acc Float := ⟨false, 0, 0, 0, 0, 0, []⟩
      let reused := Acc.runs op init steps
      let fresh := steps.map fun s => if s.2.isEmpty then none else some (engReduce op s.1 s.2)
      some ("acc=" ++ String.intercalate "#" (reused.map sh) ++ " fresh=" ++ String.intercalate "#" (fresh.map sh))
    r.getD "bad-op"
  | _ => "bad-op"

/-- `t/id:bits,...` -/
def parseSV (s : String) : Option (SV Float) :=
  match s.splitOn "/" with
  | [t, ids] => do
    let t ← t.toInt?
    let xs ← parseIdVec ids
    some (t, xs)
  | _ => none

def showSV (sv : SV Float) : String :=
  toString sv.1 ++ "/" ++ String.intercalate ","
    ((sv.2.mergeSort fun a b => a.1 ≤ b.1).map fun p => toString p.1 ++ ":" ++ showBits p.2)

def showCo : Except Unit (Option (List (SV Float))) → String
  | .error _ => "err"
  | .ok none => "nil"
  | .ok (some out) => String.intercalate ";" (out.map showSV)

/-- `kernel coalesce <sizes csv> <call>#<call>..`, a call being `child|child|..`, a child `-` (nil),
`e` (an empty batch) or `step;step;..`: the model of `coalesceOperator.Next` with the children
arriving in child order, in reverse order, and the merged specification -/
def coalesceView (args : List String) : String :=
  match args with
  | [sizes, calls] =>
    let r : Option String := do
      let sizes ← (sizes.splitOn ",").mapM String.toNat?
      let offs := offsetsOf sizes
      let calls ← (calls.splitOn "#").mapM fun call =>
        (call.splitOn "|").mapM fun ch =>
          if ch == "-" then some (none : Option (List (SV Float)))
          else if ch == "e" then some (some [])
          else ((ch.splitOn ";").mapM parseSV).map some
      let run := fun (rev : Bool) => calls.map fun call =>
        let arr := (offs.zip call)
        showCo (coalesceNext (if rev then arr.reverse else arr))
      let spec := calls.map fun call =>
        let arr := (offs.zip call).filterMap fun a => a.2.map fun inp => (a.1, inp)
        match arr with
        | [] => "nil"
        | a :: _ => String.intercalate ";" ((mergedSpec (a.2.map (·.1)) arr).map showSV)
      some ("fwd=" ++ String.intercalate "#" (run false) ++ " rev=" ++ String.intercalate "#" (run true)
        ++ " spec=" ++ String.intercalate "#" spec)
    r.getD "bad-op"
  | _ => "bad-op"

/-- `kernel remote <lookback> <grid csv> <series>#<series>..`, a series being `e` (no points) or
`t:bits,t:bits,..`: the model of the remote operator's stream (`remoteRun` with the given lookback;
the code uses 0) and the specification (the points stamped `t`) -/
def remoteView (args : List String) : String :=
  match args with
  | [lb, grid, mat] =>
    let r : Option String := do
      let lb ← lb.toInt?
      let grid ← (grid.splitOn ",").mapM String.toInt?
      let m ← (mat.splitOn "#").mapM fun sr =>
        if sr == "e" then some (([] : Labels), ([] : List (Int × Float)))
        else ((sr.splitOn ",").mapM fun (p : String) =>
          match p.splitOn ":" with
          | [t, b] => do
            let t ← t.toInt?
            let f ← parseBits b
            some (t, f)
          | _ => none).map fun pts => (([] : Labels), pts)
      let sh := fun (x : Int × List (Nat × Float)) => showSV (x.1, x.2)
      some ("read=" ++ String.intercalate ";" ((remoteRun lb m grid).map sh) ++
        " spec=" ++ String.intercalate ";" (grid.map fun t => sh (t, remoteSpec m t)))
    r.getD "bad-op"
  | _ => "bad-op"

/-! `kernel pull`: the batch-level model (`Streams.lean`) over payloads `IdVec Float`, with the
per-step functions of the real operators the harness builds: `N` unary minus, `A` sum by (),
`Z` + on() between two one-series sides, `F` clamp_min(v, s), `B` v + s (scalar on the right), `C<n>` coalesce (the right child's
IDs rebased by n), `I<stop>:<cur>` the step-invariant cache, `L<stop>:<cur>:<bits>` a number
literal, `S<k>` the k-th scripted child. -/
namespace PullView
open PromqlVerif.Streams

abbrev P := IdVec Float

def gNeg (_ : Int) (a : P) : P := a.map fun x => (x.1, Val.neg x.2)
def gSum (_ : Int) (a : P) : P := if a.isEmpty then [] else [(0, a.foldl (fun acc x => Val.add acc x.2) (Val.ofInt 0))]
def gAdd (tl tr : Int) (a b : P) : P :=
  if tl != tr then [] else
  match a, b with
  | [(_, x)], [(_, y)] => [(0, Val.add x y)]
  | _, _ => []
def gClampMin (_ : Int) (a : P) (s : Option P) : P :=
  let sv : Float := match s with
    | some ((_, v) :: _) => v
    | _ => Val.nan
  a.map fun x => (x.1, Val.maxGo x.2 sv)
def gAddScalar (_ : Int) (a : P) (s : Option P) : P :=
  let sv : Float := match s with
    | some ((_, v) :: _) => v
    | _ => Val.nan
  a.map fun x => (x.1, Val.add x.2 sv)
def gCo (n : Nat) (_ : Int) (a b : Option P) : P :=
  (a.getD []) ++ ((b.getD []).map fun x => (x.1 + n, x.2))

/-- recursive descent over the tree text; returns the plan and the rest of the input -/
def parse (bsz : Nat) (scripts : List (List (Option (Batch P)))) : Nat → List Char → Option (Plan P × List Char)
  | 0, _ => none
  | fuel + 1, cs =>
    let num := fun (cs : List Char) =>
      let d := cs.takeWhile fun c => c.isDigit || c == '-' || c.isAlphanum
      (String.ofList d, cs.drop d.length)
    let two := fun (mk : Plan P → Plan P → Plan P) (rest : List Char) =>
      match rest with
      | '(' :: r1 =>
        match parse bsz scripts fuel r1 with
        | some (x, ',' :: r2) =>
          match parse bsz scripts fuel r2 with
          | some (y, ')' :: r3) => some (mk x y, r3)
          | _ => none
        | _ => none
      | _ => none
    let one := fun (mk : Plan P → Plan P) (rest : List Char) =>
      match rest with
      | '(' :: r1 =>
        match parse bsz scripts fuel r1 with
        | some (x, ')' :: r2) => some (mk x, r2)
        | _ => none
      | _ => none
    match cs with
    | 'S' :: r =>
      let (n, r') := num r
      n.toNat?.bind fun k => scripts[k]?.map fun sc => (Plan.script sc, r')
    | 'N' :: r => one (Plan.map gNeg) r
    | 'A' :: r => one (Plan.map gSum) r
    | 'Z' :: r => two (Plan.zip gAdd) r
    | 'F' :: r => two (Plan.fn true gClampMin) r
    | 'B' :: r => two (Plan.fn false gAddScalar) r
    | 'C' :: r =>
      let (n, r') := num r
      n.toNat?.bind fun k => two (Plan.co (gCo k)) r'
    | 'I' :: r =>
      let (a, r1) := num r
      match r1 with
      | ':' :: r2 =>
        let (b, r3) := num r2
        match a.toInt?, b.toInt? with
        | some stop, some cur => one (fun x => Plan.inv stop cur none [] 0 x) r3
        | _, _ => none
      | _ => none
    | 'L' :: r =>
      let (a, r1) := num r
      match r1 with
      | ':' :: r2 =>
        let (b, r3) := num r2
        match r3 with
        | ':' :: r4 =>
          let (c, r5) := num r4
          match a.toInt?, b.toInt?, parseBits c with
          | some stop, some cur, some v => some (Plan.leaf (fun _ => [(0, v)]) stop cur bsz, r5)
          | _, _, _ => none
        | _ => none
      | _ => none
    | _ => none

def scriptsLeft : Plan P → List Nat
  | .script bs => [bs.length]
  | .map _ c => scriptsLeft c
  | .zip _ l r => scriptsLeft l ++ scriptsLeft r
  | .fn _ _ v s => scriptsLeft v ++ scriptsLeft s
  | .co _ l r => scriptsLeft l ++ scriptsLeft r
  | .inv _ _ _ _ _ c => scriptsLeft c
  | .leaf _ _ _ _ => []

def finalPlan (k : Cfg) : Nat → Plan P → Plan P
  | 0, p => p
  | n + 1, p => finalPlan k n (next k p).2

def view (args : List String) : String :=
  match args with
  | [b, step, ncalls, tree, scripts] =>
    let r : Option String := do
      let b ← b.toNat?
      let step ← step.toInt?
      let n ← ncalls.toNat?
      let scs ← if scripts == "_" then some [] else
        (scripts.splitOn "@").mapM fun sc =>
          if sc == "x" then some ([] : List (Option (Batch P))) else
          (sc.splitOn "#").mapM fun (call : String) =>
            if call == "-" then some (none : Option (Batch P))
            else if call == "e" then some (some [])
            else ((call.splitOn ";").mapM parseSV).map some
      let (p, rest) ← parse b scs 64 tree.toList
      if !rest.isEmpty then none
      let k : Cfg := ⟨step, b⟩
      let outs := run k n p
      let sh := fun (o : Option (Batch P)) => match o with
        | none => "nil"
        | some bt => if bt.isEmpty then "e" else String.intercalate ";" (bt.map showSV)
      some ("out=" ++ String.intercalate "#" (outs.map sh) ++ " left=" ++
        String.intercalate "," ((scriptsLeft (finalPlan k n p)).map toString))
    r.getD "bad-op"
  | _ => "bad-op"

end PullView

def stepLine (s : DState) (line : String) : DState × Option String :=
  let toks := (line.splitOn " ").filter (· != "")
  match toks with
  | [] => (s, none)
  | "case" :: _ => ({}, none)
  | "opt" :: rest => ({ s with opts := parseOpts rest }, none)
  | ["re", p, v, r] =>
    match decS p, decS v with
    | some p, some v => ({ s with re := (p, v, r == "1") :: s.re }, none)
    | _, _ => ({ s with bad := true }, none)
  | ["pf", k, v] =>
    match decS k with
    | some k =>
      if v == "bad" then ({ s with pf := (k, none) :: s.pf }, none)
      else match parseBits v with
        | some f => ({ s with pf := (k, some f) :: s.pf }, none)
        | none => ({ s with bad := true }, none)
    | none => ({ s with bad := true }, none)
  | "series" :: rest =>
    match parseSeries rest with
    | some sr => ({ s with series := s.series ++ [sr] }, none)
    | none => ({ s with bad := true }, none)
  | "query" :: _ =>
    match parseSExp ((line.drop 6).toString) with
    | some sx =>
      match parseExpr sx with
      | some e => ({ s with query := some e }, none)
      | none => ({ s with bad := true }, none)
    | none => ({ s with bad := true }, none)
  | "kernel" :: "acc" :: args => (s, some ("kernel " ++ accView args))
  | "kernel" :: "coalesce" :: args => (s, some ("kernel " ++ coalesceView args))
  | ["kernel", "numsteps", a, b, c, d] =>
    (s, some ("kernel " ++ (match a.toInt?, b.toInt?, c.toInt?, d.toNat? with
      | some start, some stop, some step, some bsz => toString (numStepsBatch ⟨start, stop, step⟩ bsz)
      | _, _, _, _ => "bad-op")))
  | "kernel" :: "pull" :: args => (s, some ("kernel " ++ PullView.view args))
  | "kernel" :: "remote" :: args => (s, some ("kernel " ++ remoteView args))
  | "kernel" :: "table" :: args => (s, some ("kernel " ++ tableView args))
  | "kernel" :: "slices" :: args => (s, some ("kernel " ++ slicesView args))
  | "kernel" :: what :: args => (s, some ("kernel " ++ (if s.bad then "bad-op" else kernelView s what args)))
  | ["eval", view] => (s, some (view ++ " " ++ evalView s view))
  | ["end"] => ({}, some "end")
  | _ => ({ s with bad := true }, none)

partial def loop (hin hout : IO.FS.Stream) (s : DState) : IO Unit := do
  let line ← hin.getLine
  if line.isEmpty then return ()
  let line := (line.trimAsciiEnd).toString
  let (s', out) := stepLine s line
  match out with
  | some o =>
    hout.putStrLn o
    if o == "end" then hout.flush
  | none => pure ()
  loop hin hout s'

def main : IO Unit := do
  loop (← IO.getStdin) (← IO.getStdout) {}
