#!/usr/bin/env python3
"""Regenerates the seeded-change table of DESIGN.md (between the SEEDS markers) from seeded/*/meta.json."""
import json, os, re, glob
V = os.path.dirname(os.path.abspath(__file__))
rows = []
for d in sorted(glob.glob(os.path.join(V, "seeded", "*"))):
    mp = os.path.join(d, "meta.json")
    if not os.path.exists(mp):
        continue
    m = json.load(open(mp))
    cb = m.get("confirmed_by_builder", {})
    patch = open(os.path.join(d, "patch.diff")).read() if os.path.exists(os.path.join(d, "patch.diff")) else ""
    files = sorted(set(re.findall(r"^\+\+\+ b/(\S+)", patch, re.M)))
    summ = re.sub(r"\s+", " ", str(m.get("summary", "")))
    if len(summ) > 230:
        summ = summ[:227] + "..."
    how = "missed"
    if cb.get("detected"):
        how = "VIOLATION with replay" if cb.get("no_failing_input_found_lines", 0) < cb.get("violation_lines", 0) or cb.get("no_failing_input_found_lines", 0) == 0 else "VIOLATION, no-failing-input-found (facts/obligation)"
    if not cb.get("detected"):
        later = [k for k in sorted(m) if k.startswith("recheck") and isinstance(m[k], dict) and m[k].get("detected")]
        if later:
            how = "missed at first; VIOLATION with replay after strengthening (%s)" % later[-1]
    also = cb.get("also_detected_by")
    if also:
        how += "; also " + ", ".join(also)
    rows.append((os.path.basename(d), m.get("property", "?"), ", ".join(files), summ, how))
out = ["| seed | property | file(s) | change | check.py <property> --tier quick |", "|---|---|---|---|---|"]
for r in rows:
    out.append("| %s | %s | %s | %s | %s |" % tuple(x.replace("|", "\\|") for x in r))
text = "\n".join(out)
p = os.path.join(V, "DESIGN.md")
s = open(p).read()
a, b = "<!-- SEEDS-BEGIN -->", "<!-- SEEDS-END -->"
if a in s:
    s = s[: s.index(a) + len(a)] + "\n" + text + "\n" + s[s.index(b):]
    open(p, "w").write(s)
print(text)
