module verifextract

go 1.19
