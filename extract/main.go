// Fact extractor: walks /repo's working tree with go/ast and writes the facts the Lean models
// consume or are pinned to (lean/PromqlVerif/Gen/Facts.lean). Facts are located structurally
// (by declaration name, call shape, composite literal), never by line number.
package main

import (
	"bytes"
	"flag"
	"fmt"
	"go/ast"
	"go/parser"
	"go/printer"
	"go/token"
	"os"
	"path/filepath"
	"sort"
	"strconv"
	"strings"
)

type file struct {
	path string
	ast  *ast.File
}

var fset = token.NewFileSet()

func load(repo string) []file {
	var out []file
	filepath.Walk(repo, func(p string, info os.FileInfo, err error) error {
		if err != nil {
			return nil
		}
		if info.IsDir() && (info.Name() == ".git" || info.Name() == "vendor") {
			return filepath.SkipDir
		}
		if !strings.HasSuffix(p, ".go") || strings.HasSuffix(p, "_test.go") {
			return nil
		}
		f, err := parser.ParseFile(fset, p, nil, parser.ParseComments)
		if err != nil {
			fmt.Fprintln(os.Stderr, "parse error:", err)
			os.Exit(1)
		}
		// verification-only files are not part of the code under study
		for _, cg := range f.Comments {
			for _, cm := range cg.List {
				if cm.Pos() < f.Package && strings.HasPrefix(cm.Text, "//go:build") && strings.Contains(cm.Text, "verif") && !strings.Contains(cm.Text, "!verif") {
					return nil
				}
			}
		}
		rel, _ := filepath.Rel(repo, p)
		out = append(out, file{rel, f})
		return nil
	})
	sort.Slice(out, func(i, j int) bool { return out[i].path < out[j].path })
	return out
}

func find(files []file, suffix string) *ast.File {
	for _, f := range files {
		if strings.HasSuffix(f.path, suffix) {
			return f.ast
		}
	}
	return nil
}

func funcDecl(f *ast.File, name string) *ast.FuncDecl {
	if f == nil {
		return nil
	}
	for _, d := range f.Decls {
		if fd, ok := d.(*ast.FuncDecl); ok && fd.Name.Name == name {
			return fd
		}
	}
	return nil
}

// mapKeys returns the string keys of the composite literal assigned to the package variable.
func mapKeys(f *ast.File, varName string) []string {
	var keys []string
	if f == nil {
		return nil
	}
	ast.Inspect(f, func(n ast.Node) bool {
		vs, ok := n.(*ast.ValueSpec)
		if !ok {
			return true
		}
		for i, nm := range vs.Names {
			if nm.Name != varName || i >= len(vs.Values) {
				continue
			}
			if cl, ok := vs.Values[i].(*ast.CompositeLit); ok {
				for _, e := range cl.Elts {
					if kv, ok := e.(*ast.KeyValueExpr); ok {
						switch k := kv.Key.(type) {
						case *ast.BasicLit:
							s, _ := strconv.Unquote(k.Value)
							keys = append(keys, s)
						case *ast.SelectorExpr:
							keys = append(keys, k.Sel.Name)
						}
					}
				}
			}
		}
		return true
	})
	sort.Strings(keys)
	return keys
}

// switchCases returns the string-literal cases of the first switch in the function.
func switchCases(fd *ast.FuncDecl) []string {
	var keys []string
	if fd == nil {
		return nil
	}
	ast.Inspect(fd, func(n ast.Node) bool {
		cc, ok := n.(*ast.CaseClause)
		if !ok {
			return true
		}
		for _, e := range cc.List {
			if bl, ok := e.(*ast.BasicLit); ok && bl.Kind == token.STRING {
				s, _ := strconv.Unquote(bl.Value)
				keys = append(keys, s)
			}
		}
		return true
	})
	sort.Strings(keys)
	return keys
}

func hasRecover(n ast.Node) bool {
	found := false
	ast.Inspect(n, func(x ast.Node) bool {
		if c, ok := x.(*ast.CallExpr); ok {
			if id, ok := c.Fun.(*ast.Ident); ok && id.Name == "recover" {
				found = true
			}
		}
		return true
	})
	return found
}

// deferredRecover: the function body has a `defer func() { ... recover() ... }()` at top level.
func deferredRecover(body *ast.BlockStmt) bool {
	if body == nil {
		return false
	}
	for _, st := range body.List {
		if d, ok := st.(*ast.DeferStmt); ok && hasRecover(d) {
			return true
		}
	}
	return false
}

func exprString(e ast.Expr) string {
	switch v := e.(type) {
	case *ast.Ident:
		return v.Name
	case *ast.SelectorExpr:
		return exprString(v.X) + "." + v.Sel.Name
	case *ast.CallExpr:
		return exprString(v.Fun) + "()"
	case *ast.FuncLit:
		return "func"
	}
	return "?"
}

// render prints an expression as source text
func render(e ast.Expr) string {
	var b bytes.Buffer
	printer.Fprint(&b, fset, e)
	return strings.Join(strings.Fields(b.String()), " ")
}

// argString: like exprString, with the receiver's method calls spelled out
func argString(e ast.Expr) string {
	if c, ok := e.(*ast.CallExpr); ok {
		var as []string
		for _, a := range c.Args {
			as = append(as, argString(a))
		}
		return exprString(c.Fun) + "(" + strings.Join(as, ", ") + ")"
	}
	if b, ok := e.(*ast.BasicLit); ok {
		return b.Value
	}
	return exprString(e)
}

func lstr(xs []string) string {
	q := make([]string, len(xs))
	for i, x := range xs {
		q[i] = strconv.Quote(x)
	}
	return "[" + strings.Join(q, ", ") + "]"
}

func lbool(b bool) string {
	if b {
		return "true"
	}
	return "false"
}

func main() {
	repo := flag.String("repo", "/repo", "")
	out := flag.String("out", "", "output directory for Gen/*.lean")
	flag.Parse()
	files := load(*repo)
	var sb strings.Builder
	w := func(format string, a ...any) { fmt.Fprintf(&sb, format+"\n", a...) }
	w("/- GENERATED by /verif/extract from /repo's working tree. Do not edit. -/")
	w("namespace PromqlVerif.Gen\n")

	// constants
	steps := -1
	if f := find(files, "execution/execution.go"); f != nil {
		ast.Inspect(f, func(n ast.Node) bool {
			if vs, ok := n.(*ast.ValueSpec); ok && len(vs.Names) == 1 && vs.Names[0].Name == "stepsBatch" && len(vs.Values) == 1 {
				if bl, ok := vs.Values[0].(*ast.BasicLit); ok {
					steps, _ = strconv.Atoi(bl.Value)
				}
			}
			return true
		})
	}
	w("def stepsBatch : Nat := %d", max0(steps))

	// NewConcurrent(..., cap) call sites
	var caps []string
	for _, f := range files {
		ast.Inspect(f.ast, func(n ast.Node) bool {
			c, ok := n.(*ast.CallExpr)
			if !ok {
				return true
			}
			if se, ok := c.Fun.(*ast.SelectorExpr); ok && se.Sel.Name == "NewConcurrent" && len(c.Args) == 2 {
				if bl, ok := c.Args[1].(*ast.BasicLit); ok {
					caps = append(caps, bl.Value)
				} else {
					caps = append(caps, "0")
				}
			}
			return true
		})
	}
	w("def concurrentBufferCaps : List Nat := [%s]", strings.Join(caps, ", "))

	// concurrencyOperator skeleton
	cf := find(files, "execution/exchange/concurrent.go")
	pull := funcDecl(cf, "pull")
	next := (*ast.FuncDecl)(nil)
	if cf != nil {
		for _, d := range cf.Decls {
			if fd, ok := d.(*ast.FuncDecl); ok && fd.Name.Name == "Next" && fd.Recv != nil {
				next = fd
			}
		}
	}
	hasDrain, startsPull := false, false
	if next != nil {
		ast.Inspect(next, func(n ast.Node) bool {
			if g, ok := n.(*ast.GoStmt); ok {
				s := exprString(g.Call.Fun)
				if strings.HasSuffix(s, "drainBufferOnCancel") {
					hasDrain = true
				}
				if strings.HasSuffix(s, "pull") {
					startsPull = true
				}
			}
			return true
		})
	}
	closes := false
	if pull != nil && pull.Body != nil {
		for _, st := range pull.Body.List {
			if d, ok := st.(*ast.DeferStmt); ok && exprString(d.Call.Fun) == "close" {
				closes = true
			}
		}
	}
	w("def concurrentHasDrain : Bool := %s", lbool(hasDrain))
	w("def concurrentStartsPull : Bool := %s", lbool(startsPull))
	w("def pullRecovers : Bool := %s", lbool(pull != nil && deferredRecover(pull.Body)))
	w("def pullClosesOnReturn : Bool := %s", lbool(closes))
	// every send in pull (and in its deferred functions) is a plain statement, never the
	// communication of a select clause (which, with a default, would drop the item)
	sendsBlock := pull != nil
	if pull != nil {
		ast.Inspect(pull.Body, func(n ast.Node) bool {
			if sel, ok := n.(*ast.SelectStmt); ok {
				for _, cl := range sel.Body.List {
					if cc, ok := cl.(*ast.CommClause); ok {
						if _, isSend := cc.Comm.(*ast.SendStmt); isSend {
							sendsBlock = false
						}
					}
				}
			}
			return true
		})
	}
	w("def pullSendsBlock : Bool := %s", lbool(sendsBlock))
	// the drain goroutine only ranges over the buffer after <-ctx.Done()
	drain := funcDecl(cf, "drainBufferOnCancel")
	drainOK := false
	if drain != nil && drain.Body != nil && len(drain.Body.List) == 2 {
		_, isRecv := drain.Body.List[0].(*ast.ExprStmt)
		_, isRange := drain.Body.List[1].(*ast.RangeStmt)
		drainOK = isRecv && isRange
	}
	w("def drainWaitsThenRanges : Bool := %s", lbool(drainOK))

	// worker channel capacities
	wf := find(files, "worker/worker.go")
	var wcaps []string
	if fd := funcDecl(wf, "New"); fd != nil {
		ast.Inspect(fd, func(n ast.Node) bool {
			if c, ok := n.(*ast.CallExpr); ok {
				if id, ok := c.Fun.(*ast.Ident); ok && id.Name == "make" && len(c.Args) == 2 {
					if bl, ok := c.Args[1].(*ast.BasicLit); ok {
						wcaps = append(wcaps, bl.Value)
					}
				}
			}
			return true
		})
	}
	w("def workerChanCaps : List Nat := [%s]", strings.Join(wcaps, ", "))
	// Worker.start: every send on w.output is a plain statement of the task case (not one arm of a
	// select that may give up), and the ctx.Done() arm closes w.output
	plainSends, otherSends, cancelCloses := 0, 0, false
	if fd := funcDecl(wf, "start"); fd != nil {
		var inComm []bool
		var walk func(n ast.Node, inSelectArm bool)
		_ = inComm
		walk = func(n ast.Node, inSelectArm bool) {
			ast.Inspect(n, func(m ast.Node) bool {
				switch v := m.(type) {
				case *ast.CommClause:
					// the communication of the arm itself
					if ss, ok := v.Comm.(*ast.SendStmt); ok && render(ss.Chan) == "w.output" {
						otherSends++
					}
					if es, ok := v.Comm.(*ast.ExprStmt); ok && strings.Contains(render(es.X), "ctx.Done()") {
						for _, st := range v.Body {
							if x, ok := st.(*ast.ExprStmt); ok && render(x.X) == "close(w.output)" {
								cancelCloses = true
							}
						}
					}
					for _, st := range v.Body {
						if ss, ok := st.(*ast.SendStmt); ok && render(ss.Chan) == "w.output" {
							plainSends++
						}
					}
				}
				return true
			})
		}
		walk(fd.Body, false)
	}
	w("def workerOutputSends : List Nat := [%d, %d]", plainSends, otherSends)
	w("def workerCancelClosesOutput : Bool := %s", lbool(cancelCloses))

	// dispatch tables
	w("def funcs : List String := %s", lstr(mapKeys(find(files, "execution/function/functions.go"), "Funcs")))
	w("def binaryOps : List String := %s", lstr(mapKeys(find(files, "execution/binary/table.go"), "operations")))
	w("def vectorBinaryOps : List String := %s", lstr(mapKeys(find(files, "execution/binary/table.go"), "vectorBinaryOperations")))
	w("def distributiveAggs : List String := %s", lstr(mapKeys(find(files, "logicalplan/distribute.go"), "distributiveAggregations")))
	w("def accumulators : List String := %s", lstr(switchCases(funcDecl(find(files, "execution/aggregate/scalar_table.go"), "makeAccumulatorFunc"))))
	w("def vectorAccumulators : List String := %s", lstr(switchCases(funcDecl(find(files, "execution/aggregate/vector_table.go"), "newVectorAccumulator"))))

	// go statements and whether the started function recovers
	type site struct {
		where, what string
		rec         bool
	}
	var sites []site
	for _, f := range files {
		decls := map[string]*ast.FuncDecl{}
		for _, d := range f.ast.Decls {
			if fd, ok := d.(*ast.FuncDecl); ok {
				decls[fd.Name.Name] = fd
			}
		}
		for _, d := range f.ast.Decls {
			fd, ok := d.(*ast.FuncDecl)
			if !ok {
				continue
			}
			ast.Inspect(fd, func(n ast.Node) bool {
				g, ok := n.(*ast.GoStmt)
				if !ok {
					return true
				}
				rec := false
				what := exprString(g.Call.Fun)
				if fl, ok := g.Call.Fun.(*ast.FuncLit); ok {
					rec = deferredRecover(fl.Body)
				} else {
					name := what
					if i := strings.LastIndex(name, "."); i >= 0 {
						name = name[i+1:]
					}
					if t, ok := decls[name]; ok {
						rec = deferredRecover(t.Body)
					}
				}
				sites = append(sites, site{f.path + ":" + fd.Name.Name, what, rec})
				return true
			})
		}
	}
	var ss []string
	for _, s := range sites {
		ss = append(ss, fmt.Sprintf("(%s, %s, %s)", strconv.Quote(s.where), strconv.Quote(s.what), lbool(s.rec)))
	}
	w("def goSites : List (String × String × Bool) := [%s]", strings.Join(ss, ", "))

	// package-level variables and assignments to them inside function bodies
	var pvars, pwrites []string
	for _, f := range files {
		pkgVars := map[string]bool{}
		for _, d := range f.ast.Decls {
			if gd, ok := d.(*ast.GenDecl); ok && gd.Tok == token.VAR {
				for _, sp := range gd.Specs {
					for _, nm := range sp.(*ast.ValueSpec).Names {
						if nm.Name != "_" {
							pkgVars[nm.Name] = true
							pvars = append(pvars, f.ast.Name.Name+"."+nm.Name)
						}
					}
				}
			}
		}
		for _, d := range f.ast.Decls {
			fd, ok := d.(*ast.FuncDecl)
			if !ok || fd.Body == nil {
				continue
			}
			locals := map[string]bool{}
			ast.Inspect(fd, func(n ast.Node) bool {
				switch v := n.(type) {
				case *ast.AssignStmt:
					for _, l := range v.Lhs {
						if id, ok := l.(*ast.Ident); ok {
							if v.Tok == token.DEFINE {
								locals[id.Name] = true
							} else if pkgVars[id.Name] && !locals[id.Name] {
								pwrites = append(pwrites, f.path+":"+fd.Name.Name+":"+id.Name)
							}
						}
					}
				}
				return true
			})
		}
	}
	sort.Strings(pvars)
	sort.Strings(pwrites)
	w("def packageVars : List String := %s", lstr(pvars))
	w("def packageVarWrites : List String := %s", lstr(pwrites))

	// querier lifecycle in seriesSelector.loadSeries: open, check error, defer Close; no other Close
	sf := find(files, "execution/storage/series_selector.go")
	deferClose, otherClose, querierCalls := false, 0, 0
	if fd := funcDecl(sf, "loadSeries"); fd != nil && fd.Body != nil {
		for i, st := range fd.Body.List {
			if d, ok := st.(*ast.DeferStmt); ok && strings.HasSuffix(exprString(d.Call.Fun), "querier.Close") && i <= 2 {
				deferClose = true
			}
		}
	}
	for _, f := range files {
		ast.Inspect(f.ast, func(n ast.Node) bool {
			if c, ok := n.(*ast.CallExpr); ok {
				s := exprString(c.Fun)
				if strings.HasSuffix(s, ".Querier") {
					querierCalls++
				}
				if strings.HasSuffix(s, "querier.Close") {
					otherClose++
				}
			}
			return true
		})
	}
	w("def querierCloseDeferred : Bool := %s", lbool(deferClose))
	w("def querierOpenSites : Nat := %d", querierCalls)
	w("def querierCloseSites : Nat := %d", otherClose)

	// recover sites of the Exec goroutine and the series-loading fan-out
	ef := find(files, "engine/engine.go")
	execRecovers := false
	if ef != nil {
		for _, d := range ef.Decls {
			if fd, ok := d.(*ast.FuncDecl); ok && fd.Name.Name == "Exec" && fd.Body != nil {
				for _, st := range fd.Body.List {
					if df, ok := st.(*ast.DeferStmt); ok && strings.HasSuffix(exprString(df.Call.Fun), "recoverEngine") {
						execRecovers = true
					}
				}
			}
		}
	}
	w("def execRecovers : Bool := %s", lbool(execRecovers))
	// recoverEngine converts every panic value (has a default / error branch)
	recAll := false
	if fd := funcDecl(ef, "recoverEngine"); fd != nil {
		ast.Inspect(fd, func(n ast.Node) bool {
			if cc, ok := n.(*ast.CaseClause); ok && cc.List == nil {
				recAll = true
			}
			return true
		})
	}
	w("def recoverEngineHasDefault : Bool := %s", lbool(recAll))
	// Exec cancels its context on return
	execCancels := false
	if ef != nil {
		for _, d := range ef.Decls {
			if fd, ok := d.(*ast.FuncDecl); ok && fd.Name.Name == "Exec" && fd.Body != nil {
				for _, st := range fd.Body.List {
					if df, ok := st.(*ast.DeferStmt); ok && exprString(df.Call.Fun) == "cancel" {
						execCancels = true
					}
				}
			}
		}
	}
	w("def execCancelsOnReturn : Bool := %s", lbool(execCancels))

	// appends whose result does not go back into their own first argument and whose first argument
	// is not a fresh or capacity-capped slice: the only appends that can write into memory the
	// function does not own (a label set handed out by the storage, a slice of the plan)
	var foreign []string
	for _, f := range files {
		if !(strings.HasPrefix(f.path, "execution/") || strings.HasPrefix(f.path, "engine/") || strings.HasPrefix(f.path, "logicalplan/") ||
			strings.HasPrefix(f.path, "query/") || strings.HasPrefix(f.path, "worker/") || strings.HasPrefix(f.path, "api/")) {
			continue
		}
		for _, d := range f.ast.Decls {
			fd, ok := d.(*ast.FuncDecl)
			if !ok || fd.Body == nil {
				continue
			}
			// variables that (may) share their array with something the function did not create:
			// slice-typed parameters, and locals initialised from a plain reference to something else
			alias := map[string]bool{}
			if fd.Type.Params != nil {
				for _, p := range fd.Type.Params.List {
					isSlice := false
					switch t := p.Type.(type) {
					case *ast.ArrayType:
						isSlice = t.Len == nil
					case *ast.SelectorExpr:
						isSlice = t.Sel.Name == "Labels"
					case *ast.Ellipsis:
						isSlice = true
					}
					if isSlice {
						for _, n := range p.Names {
							alias[n.Name] = true
						}
					}
				}
			}
			ast.Inspect(fd.Body, func(n ast.Node) bool {
				as, ok := n.(*ast.AssignStmt)
				if !ok || len(as.Lhs) != len(as.Rhs) {
					return true
				}
				for i, r := range as.Rhs {
					id, ok := as.Lhs[i].(*ast.Ident)
					if !ok {
						continue
					}
					switch v := r.(type) {
					case *ast.SelectorExpr, *ast.IndexExpr:
						alias[id.Name] = true
					case *ast.Ident:
						if v.Name != "nil" {
							alias[id.Name] = true
						}
					case *ast.SliceExpr:
						if base, isId := v.X.(*ast.Ident); !v.Slice3 && !(isId && base.Name == id.Name) {
							alias[id.Name] = true
						}
					}
				}
				return true
			})
			selfAppends := map[*ast.CallExpr]bool{}
			ast.Inspect(fd.Body, func(n ast.Node) bool {
				as, ok := n.(*ast.AssignStmt)
				if !ok || len(as.Lhs) != len(as.Rhs) {
					return true
				}
				for i, r := range as.Rhs {
					if c, ok := r.(*ast.CallExpr); ok && exprString(c.Fun) == "append" && len(c.Args) > 0 {
						if exprString(as.Lhs[i]) == exprString(c.Args[0]) {
							if id, isId := c.Args[0].(*ast.Ident); !isId || !alias[id.Name] {
								selfAppends[c] = true
							}
						}
					}
				}
				return true
			})
			ast.Inspect(fd.Body, func(n ast.Node) bool {
				c, ok := n.(*ast.CallExpr)
				if !ok || exprString(c.Fun) != "append" || len(c.Args) < 2 || selfAppends[c] {
					return true
				}
				safe := false
				switch a := c.Args[0].(type) {
				case *ast.SliceExpr:
					safe = a.Slice3
					if bl, ok := a.High.(*ast.BasicLit); ok && bl.Value == "0" && a.Low == nil {
						safe = true // x[:0]: reuse of a buffer the function was given for that purpose
					}
				case *ast.Ident:
					safe = a.Name == "nil"
				case *ast.CallExpr:
					safe = exprString(a.Fun) == "make" || strings.HasSuffix(exprString(a.Fun), ".Copy")
					if _, isArr := a.Fun.(*ast.ArrayType); isArr && len(a.Args) == 1 && exprString(a.Args[0]) == "nil" {
						safe = true // []T(nil)
					}
				case *ast.CompositeLit:
					safe = true
				}
				if !safe {
					foreign = append(foreign, fmt.Sprintf("%s:%s:append(%s, ..)", f.path, fd.Name.Name, render(c.Args[0])))
				}
				return true
			})
		}
	}
	sort.Strings(foreign)
	w("def foreignAppends : List String := %s", lstr(foreign))
	// dropLabel / DropMetricName edit their argument in place: what every caller passes
	var dropArgs []string
	for _, f := range files {
		for _, d := range f.ast.Decls {
			fd, ok := d.(*ast.FuncDecl)
			if !ok || fd.Body == nil {
				continue
			}
			ast.Inspect(fd.Body, func(n ast.Node) bool {
				c, ok := n.(*ast.CallExpr)
				if !ok || len(c.Args) == 0 {
					return true
				}
				fn := exprString(c.Fun)
				if fn == "dropLabel" || fn == "DropMetricName" || fn == "function.DropMetricName" {
					dropArgs = append(dropArgs, fmt.Sprintf("%s:%s:%s(%s)", f.path, fd.Name.Name, fn, argString(c.Args[0])))
				}
				return true
			})
		}
	}
	sort.Strings(dropArgs)
	w("def dropLabelCalls : List String := %s", lstr(dropArgs))
	// result assembly in Exec: how the point slices of the result are written, what goes back to
	// the pool, and what Close / Cancel call
	var pointsWrites, poolPuts, closeCalls []string
	if ef != nil {
		for _, d := range ef.Decls {
			fd, ok := d.(*ast.FuncDecl)
			if !ok || fd.Body == nil || fd.Recv == nil || !strings.Contains(render(fd.Recv.List[0].Type), "compatibilityQuery") {
				continue
			}
			switch fd.Name.Name {
			case "Exec":
				ast.Inspect(fd.Body, func(n ast.Node) bool {
					switch v := n.(type) {
					case *ast.AssignStmt:
						for i, l := range v.Lhs {
							if !strings.HasSuffix(render(l), ".Points") || i >= len(v.Rhs) {
								continue
							}
							kind := "other:" + render(v.Rhs[i])
							if c, ok := v.Rhs[i].(*ast.CallExpr); ok {
								switch exprString(c.Fun) {
								case "make":
									kind = "make"
								case "append":
									if len(c.Args) == 2 && render(c.Args[0]) == render(l) {
										if _, lit := c.Args[1].(*ast.CompositeLit); lit && !c.Ellipsis.IsValid() {
											kind = "append-literal"
										}
									}
								}
							}
							pointsWrites = append(pointsWrites, kind)
						}
					case *ast.CallExpr:
						fn := render(v.Fun)
						if strings.HasSuffix(fn, ".PutStepVector") || strings.HasSuffix(fn, ".PutVectors") || strings.HasSuffix(fn, ".Put") {
							for _, a := range v.Args {
								poolPuts = append(poolPuts, fn[strings.LastIndex(fn, ".")+1:]+"("+render(a)+")")
							}
						}
					}
					return true
				})
			case "Close", "Cancel":
				ast.Inspect(fd.Body, func(n ast.Node) bool {
					if c, ok := n.(*ast.CallExpr); ok {
						closeCalls = append(closeCalls, fd.Name.Name+":"+render(c.Fun))
					}
					return true
				})
			}
		}
	}
	// methods with an engine receiver (engine/*.go): assignments to the receiver's fields and
	// addresses taken of them - what would make one query visible to another
	var engWrites, engAddrs []string
	for _, f := range files {
		if !strings.HasPrefix(f.path, "engine/") {
			continue
		}
		for _, d := range f.ast.Decls {
			fd, ok := d.(*ast.FuncDecl)
			if !ok || fd.Body == nil || fd.Recv == nil || len(fd.Recv.List) == 0 || len(fd.Recv.List[0].Names) == 0 {
				continue
			}
			rt := render(fd.Recv.List[0].Type)
			if !strings.Contains(rt, "Engine") {
				continue
			}
			recv := fd.Recv.List[0].Names[0].Name
			ast.Inspect(fd.Body, func(n ast.Node) bool {
				switch v := n.(type) {
				case *ast.AssignStmt:
					for _, l := range v.Lhs {
						if strings.HasPrefix(render(l), recv+".") {
							engWrites = append(engWrites, f.path+":"+fd.Name.Name+":"+render(l))
						}
					}
				case *ast.IncDecStmt:
					if strings.HasPrefix(render(v.X), recv+".") {
						engWrites = append(engWrites, f.path+":"+fd.Name.Name+":"+render(v.X))
					}
				case *ast.UnaryExpr:
					if v.Op == token.AND && strings.HasPrefix(render(v.X), recv+".") {
						engAddrs = append(engAddrs, f.path+":"+fd.Name.Name+":&"+render(v.X))
					}
				}
				return true
			})
		}
	}
	sort.Strings(engWrites)
	sort.Strings(engAddrs)
	w("def engineFieldWrites : List String := %s", lstr(engWrites))
	w("def engineFieldAddrs : List String := %s", lstr(engAddrs))
	// the capacity of coalesce's error channels
	var errCaps []string
	if cf := find(files, "execution/exchange/coalesce.go"); cf != nil {
		ast.Inspect(cf, func(n ast.Node) bool {
			if c, ok := n.(*ast.CallExpr); ok && exprString(c.Fun) == "make" && len(c.Args) >= 1 && render(c.Args[0]) == "errorChan" {
				if len(c.Args) >= 2 {
					errCaps = append(errCaps, render(c.Args[1]))
				} else {
					errCaps = append(errCaps, "0")
				}
			}
			return true
		})
	}
	w("def coalesceErrChanCaps : List String := %s", lstr(errCaps))
	// how the query's options reach the operators: every call argument in execution.go that
	// mentions `opts`, the fields `WithEndTime` overwrites, and what `NumSteps` reads - the
	// operators of one plan share one window (the alignment hypothesis of Streams.lean) because
	// nothing else is ever handed down
	optsArgs := map[string]bool{}
	if f := find(files, "execution/execution.go"); f != nil {
		ast.Inspect(f, func(n ast.Node) bool {
			c, ok := n.(*ast.CallExpr)
			if !ok {
				return true
			}
			for _, a := range c.Args {
				mentions := false
				ast.Inspect(a, func(m ast.Node) bool {
					if id, ok := m.(*ast.Ident); ok && id.Name == "opts" {
						mentions = true
					}
					return true
				})
				// the innermost arguments only: an argument that is itself a call of something else
				// is visited on its own
				if r := render(a); mentions && (strings.HasPrefix(r, "opts") || strings.HasPrefix(r, "&")) {
					optsArgs[r] = true
				}
			}
			return true
		})
	}
	var optsArgList []string
	for a := range optsArgs {
		optsArgList = append(optsArgList, a)
	}
	sort.Strings(optsArgList)
	w("def optsArgs : List String := %s", lstr(optsArgList))
	var wetWrites, numStepsReads []string
	if f := find(files, "query/options.go"); f != nil {
		if fd := funcDecl(f, "WithEndTime"); fd != nil && fd.Body != nil {
			ast.Inspect(fd.Body, func(n ast.Node) bool {
				if as, ok := n.(*ast.AssignStmt); ok {
					for _, l := range as.Lhs {
						wetWrites = append(wetWrites, render(l)+" "+as.Tok.String()+" "+render(as.Rhs[0]))
					}
				}
				return true
			})
		}
		if fd := funcDecl(f, "NumSteps"); fd != nil && fd.Body != nil {
			seen := map[string]bool{}
			ast.Inspect(fd.Body, func(n ast.Node) bool {
				if se, ok := n.(*ast.SelectorExpr); ok {
					if r := render(se); strings.HasPrefix(r, "o.") && !seen[r] {
						// the longest selector chains only
						seen[r] = true
					}
				}
				return true
			})
			for r := range seen {
				longer := false
				for q := range seen {
					if q != r && strings.HasPrefix(q, r+".") {
						longer = true
					}
				}
				if !longer {
					numStepsReads = append(numStepsReads, r)
				}
			}
			sort.Strings(numStepsReads)
		}
	}
	w("def withEndTimeWrites : List String := %s", lstr(wetWrites))
	w("def numStepsReads : List String := %s", lstr(numStepsReads))
	sort.Strings(closeCalls)
	w("def execPointsWrites : List String := %s", lstr(pointsWrites))
	w("def execPoolPuts : List String := %s", lstr(poolPuts))
	w("def closeCancelCalls : List String := %s", lstr(closeCalls))

	w("\nend PromqlVerif.Gen")
	if *out == "" {
		fmt.Print(sb.String())
		return
	}
	os.MkdirAll(*out, 0o755)
	os.Remove(filepath.Join(*out, "Facts.lean"))
	if err := os.WriteFile(filepath.Join(*out, "Facts.lean"), []byte(sb.String()), 0o644); err != nil {
		fmt.Fprintln(os.Stderr, err)
		os.Exit(1)
	}
}

func max0(x int) int {
	if x < 0 {
		return 0
	}
	return x
}
